(* C11 (timed part): the retry loop of Model/Client.v run_life - reconnection after exactly the
   retry period, a cancelled disconnect is followed at once by the return, and the return
   happens within a bounded time after the cancellation instant. *)
From RP Require Import Lib.Base Lib.Varint Lib.Strings Model.Net Model.Client.
From Coq Require Import ZifyBool.

(* ---------- every read returns no later than the local close ---------- *)
Lemma interrupt_some : forall c dl l, lcl c = Some l ->
  exists ti e, interrupt c dl = Some (ti, e) /\ ti <= Z.max (now c) l.
Proof.
  intros c dl l H. unfold interrupt. rewrite H. destruct dl as [d|].
  - destruct (l <=? d) eqn:E; eexists; eexists; (split; [reflexivity|lia]).
  - eexists; eexists; split; [reflexivity|lia].
Qed.

Definition timed_ok (l : Z) (c0 : conn) (rc : rres * conn) : Prop :=
  lcl (snd rc) = Some l /\ now (snd rc) <= Z.max (now c0) l /\ fst rc <> RBlocked.

Lemma finish_data_time : forall c dl bs tn rest l, lcl c = Some l -> timed_ok l c (finish_data c dl bs tn rest).
Proof.
  intros c dl bs tn rest l H. unfold finish_data, timed_ok.
  destruct (interrupt_some c dl l H) as (ti & e & Hi & Hle). rewrite Hi.
  destruct (ti <=? tn) eqn:E; cbn; (split; [exact H|]); (split; [lia|discriminate]).
Qed.

Lemma finish_nodata_time : forall c dl l, lcl c = Some l -> timed_ok l c (finish_nodata c dl).
Proof.
  intros c dl l H. unfold finish_nodata, timed_ok.
  destruct (interrupt_some c dl l H) as (ti & e & Hi & Hle). rewrite Hi.
  destruct (cl c) as [[ct rst]|]; [destruct (ti <=? Z.max (now c) ct) eqn:E|]; cbn; (split; [exact H|]); (split; [lia|discriminate]).
Qed.

Lemma read_full_time : forall n dl c l, lcl c = Some l -> timed_ok l c (read_full n dl c).
Proof.
  intros n dl c l H. unfold read_full. destruct (n <=? 0).
  - unfold timed_ok. cbn. split; [exact H|]. split; [lia|discriminate].
  - destruct (take_tr n (pend c) [] (now c)) as [[[bs tn] rest]|]; [apply finish_data_time|apply finish_nodata_time]; exact H.
Qed.

Lemma read_line_time : forall c l, lcl c = Some l -> timed_ok l c (read_line c).
Proof.
  intros c l H. unfold read_line.
  destruct (line_tr (pend c) [] (now c)) as [[[bs tn] rest]|]; [apply finish_data_time|apply finish_nodata_time]; exact H.
Qed.

Section Timed.
Variable M : Type.
Variable unmarshal : bytes -> M.
Variable decode : bytes -> M.
Notation life := (run_life M unmarshal decode).

Lemma bin_loop_time : forall fuel c l, lcl c = Some l ->
  snd (bin_loop M unmarshal fuel c) <> Waiting /\
  forall t r, snd (bin_loop M unmarshal fuel c) = Dropped t r -> t <= Z.max (now c) l.
Proof.
  induction fuel as [|f IH]; intros c l H; cbn [bin_loop]; [split; [discriminate|intros; discriminate]|].
  pose proof (read_full_time 1 None c l H) as T1. unfold timed_ok in T1.
  destruct (read_full 1 None c) as [r1 c1]. cbn [fst snd] in T1. destruct T1 as (L1 & N1 & B1).
  destruct r1 as [h1|e1|]; [|cbn; split; [discriminate|intros t r E; inversion E; subst; lia]|congruence].
  pose proof (read_full_time 3 (Some (now c1 + 2000)) c1 l L1) as T2. unfold timed_ok in T2.
  destruct (read_full 3 (Some (now c1 + 2000)) c1) as [r2 c2]. cbn [fst snd] in T2. destruct T2 as (L2 & N2 & B2).
  destruct r2 as [h2|e2|]; [|cbn; split; [discriminate|intros t r E; inversion E; subst; lia]|congruence].
  destruct (le32_dec (h1 ++ h2) <? payload_limit); [|cbn; split; [discriminate|intros t r E; inversion E; subst; lia]].
  pose proof (read_full_time (le32_dec (h1 ++ h2)) (Some (now c2 + 2000)) c2 l L2) as T3. unfold timed_ok in T3.
  destruct (read_full (le32_dec (h1 ++ h2)) (Some (now c2 + 2000)) c2) as [r3 c3]. cbn [fst snd] in T3. destruct T3 as (L3 & N3 & B3).
  destruct r3 as [p|e3|]; [|cbn; split; [discriminate|intros t r E; inversion E; subst; lia]|congruence].
  destruct (IH c3 l L3) as [I1 I2]. destruct (bin_loop M unmarshal f c3) as [o out]. cbn [snd] in *.
  split; [exact I1|]. intros t r E. specialize (I2 t r E). lia.
Qed.

Lemma asc_loop_time : forall fuel c l, lcl c = Some l ->
  snd (asc_loop M decode fuel c) <> Waiting /\
  forall t r, snd (asc_loop M decode fuel c) = Dropped t r -> t <= Z.max (now c) l.
Proof.
  induction fuel as [|f IH]; intros c l H; cbn [asc_loop]; [split; [discriminate|intros; discriminate]|].
  pose proof (read_line_time c l H) as T1. unfold timed_ok in T1.
  destruct (read_line c) as [r1 c1]. cbn [fst snd] in T1. destruct T1 as (L1 & N1 & B1).
  destruct r1 as [ln|e1|]; [|cbn; split; [discriminate|intros t r E; inversion E; subst; lia]|congruence].
  destruct (IH c1 l L1) as [I1 I2]. destruct (asc_loop M decode f c1) as [o out]. cbn [snd] in *.
  split; [exact I1|]. intros t r E. specialize (I2 t r E). lia.
Qed.

Lemma probe_read_time : forall s, now (snd (probe_read s)) <= 2000.
Proof.
  induction s as [|e s IH]; cbn; [lia|]. destruct e as [t bs|t|t].
  - destruct bs; [exact IH|]. destruct (t <? 2000) eqn:E; cbn; lia.
  - destruct (t <? 2000) eqn:E; cbn; lia.
  - destruct (t <? 2000) eqn:E; cbn; lia.
Qed.

(* one connection under cancellation at [lc]: negotiation ends within the probe window, the
   read loop ends, and no later than the later of the two *)
Lemma run_conn_time : forall fuel s lc,
  let cr := run_conn M unmarshal decode fuel s (Some lc) in
  cr_t0 M cr <= 2000 /\ cr_out M cr <> Waiting /\
  forall td why, cr_out M cr = Dropped td why -> td <= Z.max (cr_t0 M cr) lc.
Proof.
  intros fuel s lc. unfold run_conn. pose proof (probe_read_time s) as Hp.
  destruct (probe_read s) as [r c]. cbn [snd] in Hp.
  destruct (classify_client r) as [bn err].
  set (c' := arm_cancel c (Some lc)).
  assert (Hl : lcl c' = Some (Z.max (now c) lc)) by reflexivity.
  assert (Hn : now c' = now c) by reflexivity.
  destruct bn.
  - destruct (bin_loop_time fuel c' _ Hl) as [B1 B2]. destruct (bin_loop M unmarshal fuel c') as [o out]. cbn [cr_t0 cr_out snd] in *.
    split; [exact Hp|]. split; [exact B1|]. intros td why E. specialize (B2 td why E). lia.
  - destruct (asc_loop_time fuel c' _ Hl) as [B1 B2]. destruct (asc_loop M decode fuel c') as [o out]. cbn [cr_t0 cr_out snd] in *.
    split; [exact Hp|]. split; [exact B1|]. intros td why E. specialize (B2 td why E). lia.
Qed.

(* ---------- structure of the retry loop ---------- *)
Lemma life_head : forall fuel cfuel cf lf scripts lats cT t,
  life fuel cfuel cf lf scripts lats cT t = [LFuel] \/
  exists ok r, life fuel cfuel cf lf scripts lats cT t = LDial t ok :: r.
Proof.
  intros [|f] cfuel cf lf scripts lats cT t; [left; reflexivity|]. right. cbn [run_life].
  destruct (if t <? lf then None else match scripts with [] => None | s :: r => Some (s, r) end) as [[s r]|];
    eexists; eexists; reflexivity.
Qed.

(* after a non-cancelled disconnect at t the next thing is the dial at exactly t + the
   reconnection period; a cancelled disconnect at t is followed by the return at t and nothing else *)
Fixpoint retry_ok (rp : Z) (tr : list (lev M)) : Prop :=
  match tr with
  | [] => True
  | LDisconnect t false :: r =>
    (match r with LDial t' _ :: _ => t' = t + rp | [LFuel] => True | _ => False end) /\ retry_ok rp r
  | LDisconnect t true :: r => r = [LReturned t]
  | _ :: r => retry_ok rp r
  end.

Lemma retry_ok_obs : forall rp a (o : list (cobs M)) tl, retry_ok rp tl -> retry_ok rp (map (lev_of M a) o ++ tl).
Proof. induction o as [|x o IH]; intros tl H; cbn; [exact H|]. destruct x; cbn; apply IH; exact H. Qed.

Theorem reconnects_after_loss : forall fuel cfuel cf lf scripts lats cT t,
  retry_ok (reconn cf) (life fuel cfuel cf lf scripts lats cT t).
Proof.
  induction fuel as [|f IH]; intros cfuel cf lf scripts lats cT t; [exact I|].
  cbn [run_life].
  destruct (if t <? lf then None else match scripts with [] => None | s :: r => Some (s, r) end) as [[s r]|].
  - cbn [retry_ok]. apply retry_ok_obs.
    destruct (cr_out M _) as [|td why|]; [exact I| |exact I].
    set (tdisc := t + hd 0 lats + td + _). set (cn := is_cancel why || _).
    destruct cn; cbn [retry_ok]; [reflexivity|]. split; [|apply IH].
    destruct (life_head f cfuel cf lf r (tl lats) cT (tdisc + reconn cf)) as [E|(ok & r' & E)]; rewrite E; [exact I|reflexivity].
  - cbn [retry_ok]. destruct cT as [c|]; [|apply IH]. destruct (c <? t + noconn cf); [exact I|apply IH].
Qed.

(* ---------- bounded return after cancellation ---------- *)
Definition returned_by (b : Z) (e : lev M) : Prop := match e with LReturned x => x <= b | _ => True end.

Lemma Forall_obs : forall b a (o : list (cobs M)), Forall (returned_by b) (map (lev_of M a) o).
Proof. induction o as [|x o IH]; cbn; constructor; [destruct x; exact I|exact IH]. Qed.

(* the call started (or re-dialled) no later than cancellation + reconnection period; dials
   take at most L: every return happens by cancellation + reconnection period + L + 2 s
   (probe window) + 1 s (ASCII EOF sleep) *)
Theorem returns_after_cancel : forall fuel cfuel cf lf scripts lats c t L,
  0 <= reconn cf -> 0 <= L -> Forall (fun x => x <= L) lats -> t <= c + reconn cf ->
  Forall (returned_by (c + reconn cf + L + 3000)) (life fuel cfuel cf lf scripts lats (Some c) t).
Proof.
  induction fuel as [|f IH]; intros cfuel cf lf scripts lats c t L Hr HL Hl Ht; [repeat constructor|].
  cbn [run_life].
  destruct (if t <? lf then None else match scripts with [] => None | s :: r => Some (s, r) end) as [[s r]|].
  - assert (Hlat : hd 0 lats <= L). { destruct lats; cbn; [lia|]. inversion Hl; assumption. }
    assert (Htl : Forall (fun x => x <= L) (tl lats)). { destruct lats; cbn; [constructor|]. inversion Hl; assumption. }
    set (a := t + hd 0 lats).
    pose proof (run_conn_time cfuel s (c - a)) as Hc. cbv zeta in Hc.
    set (cr := run_conn M unmarshal decode cfuel s (Some (c - a))) in *.
    destruct Hc as (H0 & Hw & Hd).
    constructor; [exact I|]. constructor; [exact I|]. constructor; [exact I|].
    apply Forall_app. split; [apply Forall_obs|].
    destruct (cr_out M cr) as [|td why|] eqn:Eo; [constructor| |repeat constructor].
    specialize (Hd td why eq_refl).
    set (extra := if negb (cr_bin M cr) && is_eof why then 1000 else 0).
    assert (He : 0 <= extra <= 1000) by (unfold extra; destruct (negb (cr_bin M cr) && is_eof why); lia).
    constructor; [exact I|].
    destruct (is_cancel why || (c <? a + td + extra)) eqn:Ec.
    + constructor; [|constructor]. cbn. subst a. lia.
    + apply orb_false_iff in Ec. destruct Ec as [_ Ec]. apply IH; try assumption. lia.
  - constructor; [exact I|]. destruct (c <? t + noconn cf) eqn:E.
    + constructor; [|constructor]. cbn. lia.
    + apply IH; try assumption. lia.
Qed.

End Timed.
