(* C20: RenderText (no wrapping, every glyph cell on the canvas) writes exactly [text_val];
   from that: ink box, translation, whole-string scaling, glyph-wise law, for all strings. *)
From RP Require Import Lib.Base Lib.Utf8 Model.Mono Spec.Clip Spec.TextBox
  Proofs.ListZ Proofs.PixelProofs Proofs.DrawProofs Proofs.TextGlyph Proofs.TextVal.
From Coq Require Import ZifyBool.
Ltac Zify.zify_post_hook ::= Z.div_mod_to_equations.

(* ---- "large enough not to clip", for any geometry (bounding box included) ---- *)
(* the rectangle [x, x+w) x [y, y+h) (bounding-box-relative) passes DrawChar's four clip tests
   and lies inside DrawPixel's clip rectangle *)
Definition cell_fits (g : geom) (x y w h : Z) : bool :=
  (0 <=? x) && (0 <=? y) && (x + w <=? get_bwidth g) && (y <=? gH g)
  && (0 <=? x + gbx g) && (x + w + gbx g <=? Z.min (gW g) (gbx g + gbw g))
  && (0 <=? y + gby g) && (y + h + gby g <=? Z.min (gH g) (gby g + gbh g)).

(* every glyph cell the cursor rules produce (LF: column 0 of the next line, CR: skipped) fits *)
Fixpoint cells_fit (g : geom) (t : tstate) (cs : list Z) (x y : Z) : bool :=
  match cs with
  | [] => true
  | c :: r =>
    if c =? 10 then cells_fit g t r 0 (y + lh t)
    else if c =? 13 then cells_fit g t r x y
    else cell_fits g x y (char_width t c * tsh t) (lh t) && cells_fit g t r (x + adv t c) y
  end.

Lemma text_val_cursor t x' y' cs : forall x y a b,
  text_val (set_cursor t x' y') cs x y a b = text_val t cs x y a b.
Proof.
  induction cs as [|c cs IH]; intros x y a b; simpl; auto.
  change (lh (set_cursor t x' y')) with (lh t).
  change (adv (set_cursor t x' y') c) with (adv t c).
  change (cell_val (set_cursor t x' y') c) with (cell_val t c).
  rewrite !IH. reflexivity.
Qed.

Lemma cells_fit_cursor g t x' y' cs : forall x y,
  cells_fit g (set_cursor t x' y') cs x y = cells_fit g t cs x y.
Proof.
  induction cs as [|c cs IH]; intros x y; simpl; auto.
  change (lh (set_cursor t x' y')) with (lh t).
  change (adv (set_cursor t x' y') c) with (adv t c).
  change (char_width (set_cursor t x' y') c) with (char_width t c).
  rewrite !IH. reflexivity.
Qed.

Lemma cell_fits_not_clipped g t x y c :
  sizes_ok t -> cell_fits g x y (char_width t c * tsh t) (lh t) = true ->
  char_clipped g t x y c (tsh t) (tsv t) = false.
Proof.
  intros (Hh & Hv & _) H. unfold cell_fits in H. unfold char_clipped.
  pose proof (font_bbw_pos (tfont t)). pose proof (font_bbh_pos (tfont t)).
  pose proof (char_width_nonneg t c). nia.
Qed.

Lemma cell_fits_in_clip g x y w h a b :
  cell_fits g x y w h = true -> in_rect x y w h a b = true -> in_clip g (a + gbx g) (b + gby g) = true.
Proof. unfold cell_fits, in_rect, in_clip. lia. Qed.

Lemma text_val_in_clip g t cs : sizes_ok t -> forall x y a b v,
  cells_fit g t cs x y = true -> text_val t cs x y a b = Some v -> in_clip g (a + gbx g) (b + gby g) = true.
Proof.
  intros Hs. induction cs as [|c cs IH]; intros x y a b v Hf H; simpl in *; [discriminate|].
  destruct (c =? 10); [eapply IH; eauto|].
  destruct (c =? 13); [eapply IH; eauto|].
  apply andb_prop in Hf as [Hf1 Hf2].
  destruct (text_val t cs (x + adv t c) y a b) eqn:E.
  - eapply IH; eauto.
  - apply cell_val_in in H. eapply cell_fits_in_clip; eauto.
    unfold lh. replace (tsv t * font_bbh (tfont t)) with (font_bbh (tfont t) * tsv t) by lia. exact H.
Qed.

(* ---- the main lemma ---- *)
Lemma render_chars_exact g cs : forall t d,
  twrap t = false -> sizes_ok t -> wfg g d -> cells_fit g t cs (tcx t) (tcy t) = true ->
  wfg g (snd (render_chars g cs (t, d))) /\
  forall c r, 0 <= c < 8 * gwib g -> 0 <= r < gH g ->
    px (gwib g) (snd (render_chars g cs (t, d))) c r =
    lit_val (ginv g) (text_val t cs (tcx t) (tcy t) (c - gbx g) (r - gby g)) (px (gwib g) d c r).
Proof.
  unfold render_chars.
  induction cs as [|ch cs IH]; intros t d Hwr Hs Hwf Hfit; cbn [fold_left].
  - simpl. split; auto.
  - cbn [cells_fit] in Hfit. cbn [text_val]. unfold write_char.
    destruct (ch =? 10) eqn:E10.
    { destruct (IH (set_cursor t 0 (tcy t + tsv t * font_bbh (tfont t))) d) as [W E]; auto.
      - cbn [tcx tcy set_cursor]. rewrite cells_fit_cursor. exact Hfit.
      - split; [exact W|]. intros c r Hc Hr. rewrite E by auto.
        cbn [tcx tcy set_cursor]. rewrite text_val_cursor. reflexivity. }
    destruct (ch =? 13) eqn:E13.
    { apply IH; auto. }
    apply andb_prop in Hfit as [Hcell Hrest].
    rewrite Hwr. cbn [andb].
    set (d1 := draw_char g t (tcx t) (tcy t) ch (tcol t) (tbg t) (tsh t) (tsv t) d).
    set (t1 := set_cursor t (tcx t + tsh t * char_width t ch + tspacing t) (tcy t)).
    pose proof Hs as (Hh & Hv & Hsp).
    destruct (draw_char_exact g t (tcx t) (tcy t) ch (tcol t) (tbg t) (tsh t) (tsv t) Hh Hv
                (cell_fits_not_clipped g t _ _ ch Hs Hcell) d Hwf) as [W1 E1].
    fold d1 in W1, E1.
    destruct (IH t1 d1) as [W E]; auto.
    { unfold t1. cbn [tcx tcy set_cursor]. rewrite cells_fit_cursor.
      replace (tcx t + tsh t * char_width t ch + tspacing t) with (tcx t + adv t ch) by (unfold adv; lia). exact Hrest. }
    split; [exact W|]. intros c r Hc Hr. rewrite E by auto. rewrite E1 by auto.
    unfold t1. cbn [tcx tcy set_cursor]. rewrite text_val_cursor.
    replace (tcx t + tsh t * char_width t ch + tspacing t) with (tcx t + adv t ch) by (unfold adv; lia).
    destruct (text_val t cs (tcx t + adv t ch) (tcy t) (c - gbx g) (r - gby g)) eqn:ET; [reflexivity|].
    cbn [lit_val].
    destruct (in_clip g c r) eqn:Hclip; [reflexivity|].
    destruct (cell_val t ch (tcol t) (tbg t) (tsh t) (tsv t) (tcx t) (tcy t) (c - gbx g) (r - gby g)) eqn:EC; [|reflexivity].
    apply cell_val_in in EC.
    replace (font_bbh (tfont t) * tsv t) with (lh t) in EC by (unfold lh; lia).
    apply (cell_fits_in_clip g _ _ _ _ _ _ Hcell) in EC.
    replace (c - gbx g + gbx g) with c in EC by lia. replace (r - gby g + gby g) with r in EC by lia. congruence.
Qed.

(* ---- RenderText from a cursor ---- *)
Definition render_at (g : geom) (t : tstate) (cx cy : Z) (s : list Z) (d : list Z) : list Z :=
  snd (render_text g s (set_cursor t cx cy, d)).

(* bounding-box-relative visible pixel *)
Definition pxr (g : geom) (d : list Z) (a b : Z) : bool :=
  pxv (gW g) (gH g) (gwib g) d (a + gbx g) (b + gby g).

Definition blank (g : geom) (d : list Z) : Prop :=
  wfg g d /\ forall c r, px (gwib g) d c r = false.

Definition lit0 (inv : bool) (o : option bool) : bool := lit_val inv o false.

Lemma sizes_ok_cursor t x y : sizes_ok t -> sizes_ok (set_cursor t x y).
Proof. auto. Qed.

(* the visible pixels of a rendering on a blank canvas ARE text_val *)
Lemma pxr_render g t cx cy s d :
  twrap t = false -> sizes_ok t -> blank g d ->
  cells_fit g t (range_bytes s) cx cy = true ->
  forall a b, pxr g (render_at g t cx cy s d) a b = lit0 (ginv g) (text_val t (range_bytes s) cx cy a b).
Proof.
  intros Hwr Hs [Hwf Hbl] Hfit a b.
  unfold render_at, render_text.
  destruct (render_chars_exact g (range_bytes s) (set_cursor t cx cy) d) as [W E]; auto.
  { cbn [tcx tcy set_cursor]. rewrite cells_fit_cursor. exact Hfit. }
  cbn [tcx tcy set_cursor] in E.
  unfold pxr, pxv.
  destruct (text_val t (range_bytes s) cx cy a b) as [v|] eqn:ET.
  - pose proof (text_val_in_clip g t _ Hs _ _ _ _ _ Hfit ET) as Hclip.
    apply in_clip_bounds in Hclip as [Hc Hr].
    destruct Hwf as (HW & HH & Hwib & _).
    rewrite E by lia.
    replace (a + gbx g - gbx g) with a by lia. replace (b + gby g - gby g) with b by lia.
    rewrite text_val_cursor, ET.
    replace ((0 <=? a + gbx g) && (a + gbx g <? gW g) && (0 <=? b + gby g) && (b + gby g <? gH g)) with true by lia.
    reflexivity.
  - unfold lit0, lit_val.
    destruct ((0 <=? a + gbx g) && (a + gbx g <? gW g) && (0 <=? b + gby g) && (b + gby g <? gH g)) eqn:Hin; [|reflexivity].
    destruct Hwf as (HW & HH & Hwib & _).
    rewrite E by lia.
    replace (a + gbx g - gbx g) with a by lia. replace (b + gby g - gby g) with b by lia.
    rewrite text_val_cursor, ET. simpl. apply Hbl.
Qed.

Lemma adv_sum_cursor t x y cs : adv_sum (set_cursor t x y) cs = adv_sum t cs.
Proof.
  induction cs as [|c cs IH]; simpl; auto.
  change (char_width (set_cursor t x y) c) with (char_width t c). rewrite IH. reflexivity.
Qed.

(* ---- ink box: needs no "fits" at all (clipping only removes pixels) ---- *)
Lemma render_chars_box g cs : forall t d,
  twrap t = false -> sizes_ok t -> wfg g d -> no_lf cs ->
  wfg g (snd (render_chars g cs (t, d))) /\
  forall c r, 0 <= c < 8 * gwib g -> 0 <= r < gH g ->
    px (gwib g) (snd (render_chars g cs (t, d))) c r <> px (gwib g) d c r ->
    in_rect (tcx t) (tcy t) (adv_sum t cs) (lh t) (c - gbx g) (r - gby g) = true /\ in_clip g c r = true.
Proof.
  unfold render_chars.
  induction cs as [|ch cs IH]; intros t d Hwr Hs Hwf Hn; cbn [fold_left].
  - simpl. split; auto; intros; congruence.
  - apply no_lf_cons in Hn as [Hc Hn]. unfold write_char. rewrite Hc.
    pose proof (adv_sum_nonneg t cs Hs) as Hsum. pose proof (adv_nonneg t ch Hs) as Hadv. unfold adv in Hadv.
    cbn [adv_sum].
    destruct (ch =? 13).
    { destruct (IH t d) as [W E]; auto. split; auto. intros c r Hcc Hr Hne.
      destruct (E c r Hcc Hr Hne) as [A B]. split; auto. unfold in_rect in *. lia. }
    rewrite Hwr. cbn [andb].
    set (d1 := draw_char g t (tcx t) (tcy t) ch (tcol t) (tbg t) (tsh t) (tsv t) d).
    set (t1 := set_cursor t (tcx t + tsh t * char_width t ch + tspacing t) (tcy t)).
    destruct (Touch_draw_char g t (tcx t) (tcy t) ch (tcol t) (tbg t) (tsh t) (tsv t) d Hwf) as [W1 T1].
    fold d1 in W1, T1.
    destruct (IH t1 d1) as [W E]; auto.
    split; auto. intros c r Hcc Hr Hne.
    destruct (Bool.bool_dec (px (gwib g) d1 c r) (px (gwib g) d c r)) as [Heq|Hd].
    + destruct (E c r Hcc Hr) as [A B]; [rewrite Heq; exact Hne|]. split; auto.
      unfold t1 in A. cbn [tcx tcy set_cursor] in A.
      rewrite adv_sum_cursor in A.
      change (lh (set_cursor t (tcx t + tsh t * char_width t ch + tspacing t) (tcy t))) with (lh t) in A.
      unfold in_rect in *. lia.
    + destruct (T1 c r Hcc Hr Hd) as [A B]. split; auto.
      destruct Hs as (Hh & Hv & Hsp). unfold in_rect, lh in *. lia.
Qed.

Lemma line_height_lh t : 0 <= tsv t -> lh t < 4294967296 -> line_height t = lh t.
Proof.
  intros Hv Hl. unfold line_height, lh in *. pose proof (font_bbh_pos (tfont t)).
  assert (tsv t < 4294967296) by nia.
  unfold wrap32. rewrite (Z.mod_small (tsv t)) by lia. rewrite Z.mod_small by nia. reflexivity.
Qed.

Lemma str_width_box t s : str_width t s + tsh t = adv_sum t (range_bytes s).
Proof. unfold str_width. rewrite str_width_chars_sum. lia. Qed.

Theorem ink_in_box g t cx cy s d :
  twrap t = false -> sizes_ok t -> lh t < 4294967296 -> wfg g d -> no_lf (range_bytes s) ->
  wfg g (render_at g t cx cy s d) /\
  forall c r, 0 <= c < 8 * gwib g -> 0 <= r < gH g ->
    px (gwib g) (render_at g t cx cy s d) c r <> px (gwib g) d c r ->
    in_box cx cy (str_width t s) (tsh t) (line_height t) (c - gbx g) (r - gby g) = true /\ in_clip g c r = true.
Proof.
  intros Hwr Hs Hl Hwf Hn. unfold render_at, render_text.
  destruct (render_chars_box g (range_bytes s) (set_cursor t cx cy) d) as [W E]; auto.
  split; auto. intros c r Hc Hr Hne. destruct (E c r Hc Hr Hne) as [A B]. split; auto.
  cbn [tcx tcy set_cursor] in A.
  rewrite adv_sum_cursor in A.
  change (lh (set_cursor t cx cy)) with (lh t) in A.
  unfold in_box. rewrite str_width_box, line_height_lh; auto. destruct Hs as (_ & ? & _). lia.
Qed.

(* ---- box fits => every cell fits (one-line strings) ---- *)
Lemma cell_fits_sub g x y w h x' w' h' :
  cell_fits g x y w h = true -> x <= x' -> x' + w' <= x + w -> h' <= h -> cell_fits g x' y w' h' = true.
Proof. unfold cell_fits. lia. Qed.

Lemma box_cells_fit g t cs : sizes_ok t -> no_lf cs -> forall x y,
  cell_fits g x y (adv_sum t cs) (lh t) = true -> cells_fit g t cs x y = true.
Proof.
  intros Hs. induction cs as [|c cs IH]; intros Hn x y H; simpl; auto.
  apply no_lf_cons in Hn as [Hc Hn]. rewrite Hc.
  pose proof (adv_sum_nonneg t cs Hs) as Hsum. pose proof (adv_nonneg t c Hs) as Hadv. unfold adv in Hadv.
  pose proof (char_width_nonneg t c) as Hw. pose proof Hs as (Hh & Hv & Hsp).
  simpl adv_sum in H.
  destruct (c =? 13).
  - apply IH; auto. eapply cell_fits_sub; eauto; lia.
  - apply andb_true_intro; split.
    + eapply cell_fits_sub; eauto; nia.
    + apply IH; auto. eapply cell_fits_sub; eauto; unfold adv; nia.
Qed.

Lemma adv_sum_size1 t cs : sizes_ok t -> adv_sum (with_size t 1 1) cs <= adv_sum t cs.
Proof.
  intros (Hh & Hv & Hsp). induction cs as [|c cs IH]; simpl; [lia|].
  change (char_width (with_size t 1 1) c) with (char_width t c).
  pose proof (char_width_nonneg t c). nia.
Qed.

Lemma lh_size1 t : sizes_ok t -> lh (with_size t 1 1) <= lh t.
Proof.
  intros (Hh & Hv & Hsp). change (lh (with_size t 1 1)) with (1 * font_bbh (tfont t)).
  unfold lh. pose proof (font_bbh_pos (tfont t)). nia.
Qed.

Lemma sizes_ok_size1 t : sizes_ok t -> sizes_ok (with_size t 1 1).
Proof. intros (Hh & Hv & Hsp). unfold sizes_ok. simpl. lia. Qed.

(* ---- translation ---- *)
Theorem translation g t cx cy dx dy s dA dB :
  twrap t = false -> sizes_ok t -> blank g dA -> blank g dB -> no_lf (range_bytes s) ->
  cell_fits g cx cy (str_width t s + tsh t) (lh t) = true ->
  cell_fits g (cx + dx) (cy + dy) (str_width t s + tsh t) (lh t) = true ->
  forall a b, pxr g (render_at g t (cx + dx) (cy + dy) s dB) (a + dx) (b + dy) = pxr g (render_at g t cx cy s dA) a b.
Proof.
  intros Hwr Hs HA HB Hn F1 F2 a b. rewrite str_width_box in F1, F2.
  rewrite !pxr_render by (auto; apply box_cells_fit; auto).
  rewrite text_val_translate by auto. reflexivity.
Qed.

(* ---- whole-string scaling ---- *)
Theorem scale_string g t cx cy s dA dC :
  twrap t = false -> sizes_ok t -> blank g dA -> blank g dC -> no_lf (range_bytes s) ->
  scale_string_scope (range_bytes s) (tspacing t) = true ->
  cell_fits g cx cy (str_width t s + tsh t) (lh t) = true ->
  forall a b,
    pxr g (render_at g t cx cy s dA) a b =
    (cx <=? a) && (cy <=? b) &&
    let '(a1, b1) := scale_src cx cy (tsh t) (tsv t) a b in pxr g (render_at g (with_size t 1 1) cx cy s dC) a1 b1.
Proof.
  intros Hwr Hs HA HC Hn Hscope F a b. rewrite str_width_box in F.
  pose proof (sizes_ok_size1 t Hs) as Hs1.
  unfold scale_src.
  rewrite !pxr_render; auto.
  2:{ apply box_cells_fit; auto. eapply cell_fits_sub; eauto; try lia.
      - pose proof (adv_sum_size1 t (range_bytes s) Hs). lia.
      - apply lh_size1; auto. }
  2:{ apply box_cells_fit; auto. }
  destruct ((cx <=? a) && (cy <=? b)) eqn:Hq.
  - cbn [andb]. f_equal.
    unfold scale_string_scope in Hscope. apply orb_prop in Hscope as [H0 | H1].
    + pose proof (text_val_scale_s0 t (range_bytes s) cx cy Hs ltac:(lia) Hn cx a b) as E.
      replace (cx + (cx - cx) * tsh t) with cx in E by lia. exact E.
    + apply text_val_scale_one; auto. lia.
  - cbn [andb].
    destruct (text_val t (range_bytes s) cx cy a b) eqn:E; [|reflexivity].
    apply text_val_box in E; auto. unfold in_rect in E. lia.
Qed.

(* ---- glyph-wise law: all strings ---- *)
Theorem scale_glyph g t x y x1 y1 s dA dC :
  twrap t = false -> sizes_ok t -> blank g dA -> blank g dC ->
  cells_fit g t (range_bytes s) x y = true ->
  cells_fit g (with_size t 1 1) (range_bytes s) x1 y1 = true ->
  forall a b,
    pxr g (render_at g t x y s dA) a b =
    match src_pixel (range_bytes s) (map (char_width t) (range_bytes s)) (tspacing t) (tsh t) (tsv t) (font_bbh (tfont t)) x y x1 y1 a b with
    | Some (a1, b1) => pxr g (render_at g (with_size t 1 1) x1 y1 s dC) a1 b1
    | None => false
    end.
Proof.
  intros Hwr Hs HA HC F1 F2 a b.
  rewrite pxr_render by auto.
  rewrite (text_val_glyphwise t (range_bytes s) Hs x y x1 y1 a b).
  destruct (src_pixel _ _ _ _ _ _ _ _ _ _ a b) as [[a1 b1]|]; [|reflexivity].
  rewrite pxr_render; auto. apply sizes_ok_size1; auto.
Qed.
