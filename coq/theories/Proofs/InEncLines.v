(* C01, part 1: how the reference reader classifies a line that starts with a known key name,
   and the meaning of every non-text, non-graphics line the inbound encoder writes. *)
From RP Require Import Lib.Base Lib.Sexp Lib.Strings Lib.TrimSpace Model.MsgIn Model.EncIn
  Spec.DenoteIn Spec.GrammarIn Proofs.GfxNum Proofs.StringsProofs Proofs.InBits.
From Coq Require Import String ZifyBool.
Open Scope string_scope.
Open Scope list_scope.
Open Scope Z_scope.

(* ---------------------------------------------------------------- small facts *)
Lemma bytes_eqb_eq : forall a b, bytes_eqb a b = true -> a = b.
Proof.
  unfold bytes_eqb. induction a as [|x a IH]; intros [|y b] H; cbn [list_eqb] in H; try discriminate; auto.
  apply andb_true_iff in H. destruct H as [H1 H2]. apply Z.eqb_eq in H1. subst. f_equal. auto.
Qed.
Lemma bytes_eqb_refl : forall a, bytes_eqb a a = true.
Proof. unfold bytes_eqb. induction a as [|x a IH]; cbn [list_eqb]; auto. rewrite Z.eqb_refl, IH. reflexivity. Qed.

Definition nolf (s : list Z) : bool := forallb (fun c => negb (c =? 10)) s.
Lemma nolf_existsb s : nolf s = true -> existsb (Z.eqb 10) s = false.
Proof.
  unfold nolf. induction s as [|c r IH]; intros H; cbn [existsb forallb] in *; [reflexivity|].
  apply andb_true_iff in H. destruct H as [H1 H2]. rewrite (IH H2), Z.eqb_sym.
  destruct (c =? 10); [discriminate|reflexivity].
Qed.
Lemma existsb_nolf s : existsb (Z.eqb 10) s = false -> nolf s = true.
Proof.
  unfold nolf. induction s as [|c r IH]; intros H; cbn [existsb forallb] in *; [reflexivity|].
  apply orb_false_iff in H. destruct H as [H1 H2]. rewrite (IH H2), Z.eqb_sym, H1. reflexivity.
Qed.
Lemma nolf_app a b : nolf (a ++ b) = nolf a && nolf b.
Proof. unfold nolf. apply forallb_app. Qed.
Lemma nolf_dec s : forallb dec_char s = true -> nolf s = true.
Proof. apply forallb_impl. intros x. unfold dec_char, is_digit. lia. Qed.
Lemma nolf_itoa z : nolf (itoa z) = true.
Proof. apply nolf_dec, itoa_chars. Qed.
Lemma nolf_one_line s : single_line s = true -> nolf s = true.
Proof. apply forallb_impl. intros x. lia. Qed.
Lemma nolf_clean s : clean_text s = true -> nolf s = true.
Proof. apply forallb_impl. intros x. lia. Qed.

Lemma no_sep_dec sep s : sep <> 45 -> (sep < 48 \/ 57 < sep) -> forallb dec_char s = true ->
  forallb (fun c => negb (c =? sep)) s = true.
Proof. intros H1 H2. apply forallb_impl. intros x. unfold dec_char, is_digit. lia. Qed.

(* ---------------------------------------------------------------- key-name lookup *)
Fixpoint prefix_lookup {F} (t : list (string * F)) (pre : list Z) : option F :=
  match t with
  | [] => None
  | (q, f) :: r =>
    if bytes_eqb (str q) pre then Some f
    else if clash (str q) pre then prefix_lookup r pre else None
  end.

Lemma by_prefix_lookup : forall t pre f rest, prefix_lookup t pre = Some f ->
  by_prefix t (pre ++ rest) = match f rest with Some e => Wf e | None => Malformed end.
Proof.
  induction t as [|[q g] t IH]; intros pre f rest H; cbn [prefix_lookup] in H; [discriminate|].
  cbn [by_prefix]. destruct (bytes_eqb (str q) pre) eqn:E.
  - apply bytes_eqb_eq in E. inversion H; subst. rewrite drop_prefix_app. reflexivity.
  - destruct (clash (str q) pre) eqn:C; [|discriminate].
    rewrite (clash_drop_prefix _ _ rest C). apply IH. exact H.
Qed.

Definition bare_clash (pre : list Z) : bool := forallb (fun wc => clash (str (fst wc)) pre) bare_words.
Lemma find_bare_clash : forall pre rest, bare_clash pre = true -> find_bare bare_words (pre ++ rest) = None.
Proof.
  intros pre rest. unfold bare_clash. generalize bare_words. induction l as [|[w c] t IH]; intros H; [reflexivity|].
  cbn [forallb fst] in H. apply andb_true_iff in H. destruct H as [H1 H2].
  cbn [find_bare]. unfold same. rewrite (clash_neq _ _ rest H1). apply IH. exact H2.
Qed.

Definition pre_ok (pre : list Z) : bool :=
  match pre with
  | c :: _ => negb (c =? 123) && negb (c =? 91) && nolf pre && bare_clash pre
  | [] => false
  end.

Section Lines.
  Variable js : list Z -> HWCState.
  Variable jm : list Z -> list (option InboundMessage).
  Variable ncp : list Z -> option (list Z).

  Notation in_rd := (in_read js jm ncp).
  Notation sem := (sem_in_lines js jm ncp).

  Lemma in_read_prefixed : forall pre f rest,
    pre_ok pre = true -> prefix_lookup (prefix_table ncp) pre = Some f -> nolf rest = true ->
    in_rd (pre ++ rest) = match f rest with Some e => Wf e | None => Malformed end.
  Proof.
    intros pre f rest P L N. destruct pre as [|c pre']; [discriminate|].
    cbn [pre_ok] in P. repeat (apply andb_true_iff in P; destruct P as [P ?]).
    unfold in_read. rewrite nolf_existsb by (rewrite nolf_app, H0, N; reflexivity).
    cbn [app]. destruct (c =? 123); [discriminate|]. destruct (c =? 91); [discriminate|].
    change (c :: pre' ++ rest) with ((c :: pre') ++ rest).
    rewrite (find_bare_clash _ rest H). apply by_prefix_lookup. exact L.
  Qed.

  (* ---------------------------------------------------------------- segments *)
  (* lines [ls] have, on every panel and from every tracker state, the effects [es] *)
  (* well-formed line denoting panel effects (not a graphics chunk) *)
  Definition effs_line (l : list Z) : bool := match in_rd l with Wf (LEffs _) => true | _ => false end.

  Definition seg (ls : list (list Z)) (es : list effect) : Prop :=
    Forall (fun l => wf_in_line js jm ncp l = true) ls /\
    forall p x, exists x', sem (p, x) ls = (apply_effs p es, x').

  Lemma seg_nil : seg [] [].
  Proof. split; [constructor|]. intros p x. exists x. reflexivity. Qed.

  Lemma seg_app a b ea eb : seg a ea -> seg b eb -> seg (a ++ b) (ea ++ eb).
  Proof.
    intros [Na Ha] [Nb Hb]. split; [apply Forall_app; split; assumption|]. intros p x.
    unfold sem_in_lines in *. rewrite fold_left_app.
    destruct (Ha p x) as [x1 ->]. destruct (Hb (apply_effs p ea) x1) as [x2 ->].
    exists x2. unfold apply_effs. rewrite fold_left_app. reflexivity.
  Qed.

  Lemma in_read_wf_nolf l e : in_rd l = Wf e -> nolf l = true.
  Proof.
    unfold in_read. intros H. destruct (existsb (Z.eqb 10) l) eqn:E; [discriminate|]. apply existsb_nolf. exact E.
  Qed.

  Lemma wf_line_nolf l : wf_in_line js jm ncp l = true -> nolf l = true.
  Proof. unfold wf_in_line. destruct (in_rd l) eqn:E; try discriminate. intros _. eapply in_read_wf_nolf; eauto. Qed.

  Lemma seg_one l es : in_rd l = Wf (LEffs es) -> seg [l] es.
  Proof.
    intros H. split; [constructor; [unfold wf_in_line; rewrite H; reflexivity|constructor]|]. intros p x. exists x.
    unfold sem_in_lines. cbn [fold_left]. unfold sem_in_line. rewrite H. reflexivity.
  Qed.

  Lemma seg_if (b : bool) l es : in_rd l = Wf (LEffs es) -> seg (if b then [l] else []) (if b then es else []).
  Proof. intros H. destruct b; [apply seg_one; exact H|apply seg_nil]. Qed.

  Lemma seg_opt {A} (o : option A) (fl : A -> list (list Z)) (fe : A -> list effect) :
    (forall a, o = Some a -> seg (fl a) (fe a)) ->
    seg (match o with Some a => fl a | None => [] end) (match o with Some a => fe a | None => [] end).
  Proof. intros H. destruct o; [apply H; reflexivity|apply seg_nil]. Qed.

  (* ---------------------------------------------------------------- flow words and bare commands *)
  Lemma bare_line w c : In (w, c) bare_words -> in_rd (str w) = Wf (LEffs [ECmd c]).
  Proof.
    intros H. cbn in H.
    repeat (destruct H as [H|H]; [inversion H; subst; reflexivity|]). contradiction.
  Qed.

  Lemma flow_seg f : seg (flow_lines f) (den_flow f).
  Proof.
    unfold flow_lines, den_flow.
    destruct (f =? 2) eqn:E2.
    { apply Z.eqb_eq in E2; subst. apply seg_one. reflexivity. }
    destruct (f =? 3) eqn:E3.
    { apply Z.eqb_eq in E3; subst. apply seg_one. reflexivity. }
    destruct (f =? 1) eqn:E1.
    { apply Z.eqb_eq in E1; subst. apply seg_one. reflexivity. }
    apply seg_nil.
  Qed.

  Lemma kw_seg b w k : in_rd (str w) = Wf (LEffs [ECmd (CBare k)]) -> seg (kwline b w) (flag_eff b k).
  Proof. intros H. unfold kwline, flag_eff. apply seg_if. exact H. Qed.

  (* ---------------------------------------------------------------- numeric commands *)
  Lemma num_line pre k bound v :
    pre_ok (str pre) = true -> prefix_lookup (prefix_table ncp) (str pre) = Some (rd_num k bound) ->
    0 <= v < bound -> in_rd (str pre ++ itoa v) = Wf (LEffs [ECmd (CNum k v)]).
  Proof.
    intros P L H. rewrite (in_read_prefixed _ _ _ P L (nolf_itoa v)).
    unfold rd_num. rewrite rd_nat_lt_itoa by lia. reflexivity.
  Qed.

  Lemma num_seg pre k bound (o : option Z) :
    pre_ok (str pre) = true -> prefix_lookup (prefix_table ncp) (str pre) = Some (rd_num k bound) ->
    (forall v, o = Some v -> 0 <= v < bound) ->
    seg (numline o pre id) (num_eff o k id).
  Proof.
    intros P L H. unfold numline, num_eff. destruct o as [v|]; [|apply seg_nil].
    apply seg_one. apply (num_line pre k bound v P L). apply H. reflexivity.
  Qed.

  Lemma onoff_seg pre k (o : option bool) :
    pre_ok (str pre) = true -> prefix_lookup (prefix_table ncp) (str pre) = Some (rd_onoff k) ->
    seg (numline o pre b2z) (num_eff o k bz).
  Proof.
    intros P L. unfold numline, num_eff. destruct o as [b|]; [|apply seg_nil].
    apply seg_one. rewrite (in_read_prefixed _ _ _ P L (nolf_itoa _)).
    unfold rd_onoff. rewrite (rd_nat_lt_itoa two63) by (destruct b; cbn; unfold two63; lia).
    destruct b; reflexivity.
  Qed.
End Lines.

(* ---------------------------------------------------------------- commands *)
Section Cmd.
  Variable js : list Z -> HWCState.
  Variable jm : list Z -> list (option InboundMessage).
  Variable ncp : list Z -> option (list Z).
  Variable nc_print : list Z -> list Z.
  Variable olt : list Z -> bool.
  Variable nok : list Z -> bool.
  (* the calibration JSON is one line that stripLineBreaks leaves alone; the NetworkConfig
     oracle pair round-trips (json.Unmarshal of json.Marshal) and prints one line *)
  Hypothesis olt_ok : forall j, olt j = true -> strip_line_breaks j = j /\ single_line j = true.
  Hypothesis nok_ok : forall n, nok n = true -> ncp (nc_print n) = Some n /\ single_line (nc_print n) = true.

  Notation in_rd := (in_read js jm ncp).
  Notation seg := (seg js jm ncp).

  Ltac lookup := first [reflexivity | vm_compute; reflexivity].

  Lemma bright_line a b : is_u32 a = true -> is_u32 b = true ->
    in_rd (str "PanelBrightness=" ++ itoa a ++ [44] ++ itoa b) = Wf (LEffs [ECmd (CBright a b)]).
  Proof.
    intros Ha Hb. unfold is_u32 in *. apply in_range_iff in Ha. apply in_range_iff in Hb.
    rewrite (in_read_prefixed js jm ncp (str "PanelBrightness=") rd_bright); [|lookup|lookup|].
    - unfold rd_bright. cbn [app].
      rewrite fields_app_sep by (apply no_sep_dec; [lia|lia|apply itoa_chars]).
      rewrite fields_no_sep by (apply no_sep_dec; [lia|lia|apply itoa_chars]).
      cbn [map]. rewrite !rd_nat_lt_itoa by (unfold two32; lia). reflexivity.
    - rewrite !nolf_app, !nolf_itoa. reflexivity.
  Qed.

  Lemma setcal_line j : olt j = true ->
    in_rd (str "SetCalibrationProfile=" ++ strip_line_breaks j) = Wf (LEffs [ECmd (CSetCal j)]).
  Proof.
    intros H. destruct (olt_ok j H) as [-> O].
    rewrite (in_read_prefixed js jm ncp (str "SetCalibrationProfile=") (fun s => one_cmd (CSetCal s))); [|lookup|lookup|].
    - reflexivity.
    - apply nolf_one_line. exact O.
  Qed.

  Lemma setnet_line n : nok n = true ->
    in_rd (str "SetNetworkConfig=" ++ nc_print n) = Wf (LEffs [ECmd (CSetNet n)]).
  Proof.
    intros H. destruct (nok_ok n H) as [P O].
    rewrite (in_read_prefixed js jm ncp (str "SetNetworkConfig=") (rd_setnet ncp)); [|lookup|lookup|].
    - unfold rd_setnet. rewrite P. reflexivity.
    - apply nolf_one_line. exact O.
  Qed.

  Lemma simenv_seg (o : option Z) :
    seg (match o with
         | Some m => if m =? 0 then [str "SimulateEnvironmentalHealth=Normal"]
                     else if m =? 1 then [str "SimulateEnvironmentalHealth=Safemode"]
                     else if m =? 2 then [str "SimulateEnvironmentalHealth=Blocked"] else []
         | None => [] end)
        (match o with
         | Some m => if (m =? 0) || (m =? 1) || (m =? 2) then [ECmd (CSimEnv m)] else []
         | None => [] end).
  Proof.
    destruct o as [m|]; [|apply seg_nil].
    destruct (m =? 0) eqn:E0; [apply Z.eqb_eq in E0; subst; apply seg_one; reflexivity|].
    destruct (m =? 1) eqn:E1; [apply Z.eqb_eq in E1; subst; apply seg_one; reflexivity|].
    destruct (m =? 2) eqn:E2; [apply Z.eqb_eq in E2; subst; apply seg_one; reflexivity|].
    apply seg_nil.
  Qed.

  Lemma rep_opt_some {A} (f : A -> bool) o a : rep_opt f o = true -> o = Some a -> f a = true.
  Proof. intros H ->. exact H. Qed.

  Lemma cmd_seg c : rep_cmd olt nok c = true -> seg (cmd_lines nc_print c) (den_cmd c).
  Proof.
    intros R. unfold rep_cmd in R.
    repeat (apply andb_true_iff in R; destruct R as [R ?]).
    unfold cmd_lines, den_cmd.
    repeat (apply seg_app; [apply kw_seg; reflexivity|]).
    apply seg_app.
    { destruct (c_bright c) as [[a b]|]; [|apply seg_nil]. cbn in R.
      apply andb_true_iff in R. destruct R as [Ra Rb]. apply seg_one. apply bright_line; assumption. }
    apply seg_app.
    { apply seg_opt. intros j E. apply seg_one, setcal_line. eapply rep_opt_some; eauto. }
    apply seg_app.
    { apply seg_opt. intros n E. apply seg_one, setnet_line. eapply rep_opt_some; eauto. }
    apply seg_app; [apply simenv_seg|].
    apply seg_app.
    { apply (num_seg js jm ncp "SleepTimer=" NSleepTimer two32); [lookup|lookup|].
      intros v E. pose proof (rep_opt_some _ _ _ H5 E) as U. unfold is_u32 in U. apply in_range_iff in U. unfold two32; lia. }
    apply seg_app.
    { apply (num_seg js jm ncp "SleepMode=" NSleepMode two31); [lookup|lookup|].
      intros v E. pose proof (rep_opt_some _ _ _ H4 E) as U. unfold is_n31 in U. apply in_range_iff in U. unfold two31; lia. }
    apply seg_app.
    { apply (num_seg js jm ncp "SleepScreenSaver=" NSleepScreenSaver two31); [lookup|lookup|].
      intros v E. pose proof (rep_opt_some _ _ _ H3 E) as U. unfold is_n31 in U. apply in_range_iff in U. unfold two31; lia. }
    apply seg_app.
    { apply (num_seg js jm ncp "DimmedGain=" NDimmedGain two32); [lookup|lookup|].
      intros v E. pose proof (rep_opt_some _ _ _ H2 E) as U. unfold is_u32 in U. apply in_range_iff in U. unfold two32; lia. }
    apply seg_app.
    { apply (num_seg js jm ncp "HeartBeatTimer=" NHeartBeatTimer two32); [lookup|lookup|].
      intros v E. pose proof (rep_opt_some _ _ _ H1 E) as U. unfold is_u32 in U. apply in_range_iff in U. unfold two32; lia. }
    apply seg_app.
    { apply (num_seg js jm ncp "PublishSystemStat=" NPublishSystemStat two32); [lookup|lookup|].
      intros v E. pose proof (rep_opt_some _ _ _ H0 E) as U. unfold is_u32 in U. apply in_range_iff in U. unfold two32; lia. }
    apply seg_app.
    { apply (num_seg js jm ncp "LoadCPU=" NLoadCPU two31); [lookup|lookup|].
      intros v E. pose proof (rep_opt_some _ _ _ H E) as U. unfold is_n31 in U. apply in_range_iff in U. unfold two31; lia. }
    apply seg_app.
    { apply (onoff_seg js jm ncp "Webserver=" NWebserver); lookup. }
    apply (onoff_seg js jm ncp "JSONonOutbound=" NJSONonOutbound); lookup.
  Qed.
End Cmd.

(* ---------------------------------------------------------------- state lines (all but text, graphics) *)
Section States.
  Variable js : list Z -> HWCState.
  Variable jm : list Z -> list (option InboundMessage).
  Variable ncp : list Z -> option (list Z).
  Notation in_rd := (in_read js jm ncp).
  Notation seg := (seg js jm ncp).
  Ltac lookup := first [reflexivity | vm_compute; reflexivity].

  Lemma rd_ids_single i : is_u32 i = true -> rd_ids (itoa i) = Some [i].
  Proof.
    intros H. unfold is_u32 in H. apply in_range_iff in H. unfold rd_ids.
    rewrite fields_no_sep by (apply no_sep_dec; [lia|lia|apply itoa_chars]).
    cbn [map all_opt]. rewrite rd_nat_lt_itoa by (unfold two32; lia). reflexivity.
  Qed.

  Lemma state_line kw val i V u :
    pre_ok (str kw) = true -> prefix_lookup (prefix_table ncp) (str kw) = Some (rd_state_line val) ->
    is_u32 i = true -> nolf V = true -> val V = Some u ->
    in_rd (str kw ++ itoa i ++ [61] ++ V) = Wf (LEffs [EState [i] u]).
  Proof.
    intros P L Hi N Hv.
    rewrite (in_read_prefixed js jm ncp (str kw) (rd_state_line val)); [|exact P|exact L|].
    - unfold rd_state_line. cbn [app].
      rewrite cut_at_app by (apply no_sep_dec; [lia|lia|apply itoa_chars]).
      rewrite (rd_ids_single i Hi), Hv. reflexivity.
    - rewrite !nolf_app, nolf_itoa, N. reflexivity.
  Qed.

  Lemma mode_line i m : is_u32 i = true -> rep_mode m = true ->
    in_rd (idline "HWC#" i (pack_mode m)) = Wf (LEffs [EState [i] (UMode (m_state m) (m_output m) (m_blink m))]).
  Proof.
    intros Hi Hm. unfold idline. destruct (pack_mode_bits m Hm) as (R & B0 & B5 & B8).
    apply (state_line "HWC#" val_mode); [lookup|lookup|exact Hi|apply nolf_itoa|].
    unfold val_mode. rewrite rd_nat_lt_itoa by (unfold two63; lia). cbv zeta in *. rewrite B0, B5, B8. reflexivity.
  Qed.

  Lemma ext_line i x : is_u32 i = true -> rep_ext x = true ->
    in_rd (idline "HWCx#" i (pack_ext x)) = Wf (LEffs [EState [i] (UExt (x_interp x) (x_value x))]).
  Proof.
    intros Hi Hx. unfold idline. destruct (pack_ext_bits x Hx) as (R & B12 & B0).
    apply (state_line "HWCx#" val_ext); [lookup|lookup|exact Hi|apply nolf_itoa|].
    unfold val_ext. rewrite rd_nat_lt_itoa by (unfold two63; lia). cbv zeta in *. rewrite B12, B0. reflexivity.
  Qed.

  Lemma adc_line i b : is_u32 i = true ->
    in_rd (idline "HWCrawADCValues#" i (b2z b)) = Wf (LEffs [EState [i] (UAdc b)]).
  Proof.
    intros Hi. unfold idline.
    apply (state_line "HWCrawADCValues#" val_adc); [lookup|lookup|exact Hi|apply nolf_itoa|].
    unfold val_adc. rewrite rd_nat_lt_itoa by (destruct b; cbn; unfold two63; lia). destruct b; reflexivity.
  Qed.

  Lemma colour_seg i c : is_u32 i = true -> rep_color c = true ->
    seg (match pack_hwccolor c with Some v => [idline "HWCc#" i v] | None => [] end)
        (map (EState [i]) (match den_hwccolor c with Some x => [UColour x] | None => [] end)).
  Proof.
    intros Hi Hc. unfold rep_color in Hc. unfold pack_hwccolor, den_hwccolor.
    destruct (c_rgb c) as [rgb|], (c_index c) as [ix|]; try discriminate.
    - (* RGB *)
      apply seg_one. unfold idline. destruct (rgb_bits_spec rgb Hc) as (A6 & A4 & A2 & A0 & _ & _ & _ & _ & _ & Hi2 & Lo & _).
      cbv zeta in *.
      apply (state_line "HWCc#" val_colour); [lookup|lookup|exact Hi|apply nolf_itoa|].
      unfold val_colour. rewrite rd_nat_lt_itoa by (unfold two63; lia). rewrite A6, A4, A2, A0. reflexivity.
    - (* index *)
      apply seg_one. unfold idline. apply in_range_iff in Hc.
      destruct (index_bits_spec ix Hc) as (B6 & B0 & _ & _ & _ & R).
      apply (state_line "HWCc#" val_colour); [lookup|lookup|exact Hi|apply nolf_itoa|].
      unfold val_colour. rewrite rd_nat_lt_itoa by (unfold two63; lia). rewrite B6, B0. reflexivity.
    - apply seg_nil.
  Qed.

  (* ---------------------------------------------------------------- registers *)
  Lemma no_eq_regid id : forallb is_regid_ch id = true -> forallb (fun c => negb (c =? 61)) id = true.
  Proof. apply forallb_impl. intros x. unfold is_regid_ch. lia. Qed.
  Lemma nolf_regid id : forallb is_regid_ch id = true -> nolf id = true.
  Proof. apply forallb_impl. intros x. unfold is_regid_ch. lia. Qed.
  Lemma regid_regch id : forallb is_regid_ch id = true -> forallb is_regch id = true.
  Proof. apply forallb_impl. intros x. unfold is_regid_ch, is_regch, is_dig. lia. Qed.

  Lemma reg_word_line kw kind id v :
    pre_ok (str kw) = true -> prefix_lookup (prefix_table ncp) (str kw) = Some (rd_reg kind) ->
    forallb is_regid_ch id = true -> is_u32 v = true ->
    in_rd (str kw ++ id ++ [61] ++ itoa v) = Wf (LEffs [EReg kind id v]).
  Proof.
    intros P L Hid Hv. unfold is_u32 in Hv. apply in_range_iff in Hv.
    rewrite (in_read_prefixed js jm ncp (str kw) (rd_reg kind)); [|exact P|exact L|].
    - unfold rd_reg. cbn [app]. rewrite cut_at_app by (apply no_eq_regid; exact Hid).
      rewrite (regid_regch id Hid). rewrite rd_nat_lt_itoa by (unfold two32; lia). reflexivity.
    - rewrite !nolf_app, (nolf_regid id Hid), nolf_itoa. reflexivity.
  Qed.

  Lemma canonical_dec_spec id : canonical_dec id = true ->
    forallb is_digit id = true /\ id <> [] /\ strip_zeros id = id /\ digits_value id 0 < two63.
  Proof.
    intros H. unfold canonical_dec in H.
    destruct id as [|c r]; [discriminate|].
    destruct (Z.eq_dec c 48) as [->|N].
    - destruct r; [|discriminate]. repeat split; try reflexivity; try discriminate.
    - assert (H' : forallb (fun c => (48 <=? c) && (c <=? 57)) (c :: r) && (Z.of_nat (List.length (c :: r)) <=? 18) = true).
      { destruct c as [|p|p]; try exact H. do 6 (destruct p as [p|p|]; try exact H). congruence. }
      apply andb_true_iff in H'. destruct H' as [D Ln]. split; [exact D|]. split; [discriminate|]. split.
      + cbn [strip_zeros]. destruct c as [|p|p]; try reflexivity. do 6 (destruct p as [p|p|]; try reflexivity). congruence.
      + assert (B : forall s acc, forallb is_digit s = true -> 0 <= acc ->
                   digits_value s acc < (acc + 1) * 10 ^ Z.of_nat (List.length s)).
        { induction s as [|d s IH]; intros acc Hd Ha; cbn [digits_value List.length].
          - cbn. lia.
          - cbn [forallb] in Hd. apply andb_true_iff in Hd. destruct Hd as [Hd1 Hd2]. unfold is_digit in Hd1.
            specialize (IH (acc * 10 + (d - 48)) Hd2 ltac:(lia)).
            rewrite Nat2Z.inj_succ, Z.pow_succ_r by lia.
            assert (0 < 10 ^ Z.of_nat (List.length s)) by (apply Z.pow_pos_nonneg; lia). nia. }
        specialize (B (c :: r) 0 D ltac:(lia)). rewrite Z.add_0_l, Z.mul_1_l in B.
        assert (10 ^ Z.of_nat (List.length (c :: r)) <= 10 ^ 18) by (apply Z.pow_le_mono_r; lia).
        unfold two63. lia.
  Qed.

  Lemma flag_line id v : canonical_dec id = true -> is_u32 v = true ->
    in_rd (str "Flag#" ++ id ++ [61] ++ itoa v) = Wf (LEffs [EReg 1 id (if v >? 0 then 1 else 0)]).
  Proof.
    intros Hid Hv. unfold is_u32 in Hv. apply in_range_iff in Hv.
    destruct (canonical_dec_spec id Hid) as (D & NE & SZ & B).
    assert (NoEq : forallb (fun c => negb (c =? 61)) id = true).
    { revert D. apply forallb_impl. intros x. unfold is_digit. lia. }
    rewrite (in_read_prefixed js jm ncp (str "Flag#") rd_flag); [|lookup|lookup|].
    - unfold rd_flag. cbn [app]. rewrite cut_at_app by exact NoEq.
      assert (RN : rd_nat_lt two63 id = Some (digits_value id 0)).
      { unfold rd_nat_lt, rd_nat. destruct id as [|c r]; [congruence|].
        rewrite (rd_digits_complete _ 0 D). destruct (digits_value (c :: r) 0 <? two63) eqn:E; [reflexivity|lia]. }
      rewrite RN, SZ. rewrite rd_nat_lt_itoa by (unfold two63; lia). reflexivity.
    - rewrite !nolf_app, nolf_itoa. rewrite andb_true_r.
      revert D. apply forallb_impl. intros x. unfold is_digit. lia.
  Qed.

  Lemma reg_seg r : rep_reg r = true -> seg (reg_line r) (den_reg r).
  Proof.
    intros R. unfold rep_reg in R. apply andb_true_iff in R. destruct R as [R Hid].
    apply andb_true_iff in R. destruct R as [Hk Hv]. apply in_range_iff in Hk.
    unfold reg_line, den_reg.
    destruct (r_kind r =? 0) eqn:E0.
    { apply Z.eqb_eq in E0. rewrite E0 in *. cbn [Z.eqb orb] in *. apply seg_one.
      apply (reg_word_line "Mem" 0); [lookup|lookup|exact Hid|exact Hv]. }
    destruct (r_kind r =? 1) eqn:E1.
    { apply seg_one. apply flag_line; assumption. }
    destruct (r_kind r =? 2) eqn:E2.
    { apply Z.eqb_eq in E2. rewrite E2 in *. cbn [Z.eqb orb] in *. apply seg_one.
      apply (reg_word_line "Shift" 2); [lookup|lookup|exact Hid|exact Hv]. }
    destruct (r_kind r =? 3) eqn:E3.
    { apply Z.eqb_eq in E3. rewrite E3 in *. cbn [Z.eqb orb] in *. apply seg_one.
      apply (reg_word_line "State" 3); [lookup|lookup|exact Hid|exact Hv]. }
    lia.
  Qed.
End States.
