(* C02, part 3: the remaining regex families (numeric commands, brightness, string commands,
   registers), bare words and JSON lines. *)
From RP Require Import Lib.Base Lib.Sexp Lib.Strings Model.Gfx Model.MsgIn Model.DecIn
  Spec.DenoteIn Spec.GrammarIn Proofs.GfxNum Proofs.StringsProofs Proofs.InBits Proofs.InEncLines
  Proofs.InDecLines Proofs.InDec.
From Coq Require Import String ZifyBool.
Open Scope string_scope.
Open Scope list_scope.
Open Scope Z_scope.

(* ---------------------------------------------------------------- helpers *)
Lemma span_all p : forall s, forallb p s = true -> span p s = (s, []).
Proof.
  induction s as [|c r IH]; intros H; [reflexivity|]. cbn [forallb] in H. apply andb_true_iff in H.
  destruct H as [Hc Hr]. cbn [span]. rewrite Hc, (IH Hr). reflexivity.
Qed.

Lemma take_digits1_all s : s <> [] -> forallb is_digit s = true -> take_digits1 s = Some (s, []).
Proof. intros N H. unfold take_digits1. rewrite (span_all _ _ H). destruct s; [congruence|reflexivity]. Qed.

Lemma take_digits1_stop a c r : a <> [] -> forallb is_digit a = true -> is_digit c = false ->
  take_digits1 (a ++ c :: r) = Some (a, c :: r).
Proof. intros N H Hc. unfold take_digits1. rewrite (span_app_stop _ _ _ _ H Hc). destruct a; [congruence|reflexivity]. Qed.

Lemma fields_join sep : forall s, join [sep] (fields sep s) = s.
Proof.
  induction s as [|c r IH]; [reflexivity|]. cbn [fields].
  pose proof (fields_nonempty sep r) as NE.
  destruct (c =? sep) eqn:E.
  - apply Z.eqb_eq in E. subst c. destruct (fields sep r) as [|f fs] eqn:F; [congruence|].
    cbn [join app] in *. rewrite IH. reflexivity.
  - destruct (fields sep r) as [|f fs] eqn:F; [congruence|].
    destruct fs as [|g gs]; cbn [join app] in *; rewrite IH; reflexivity.
Qed.
Lemma fields_two sep s x y : fields sep s = [x; y] -> s = x ++ sep :: y.
Proof. intros H. rewrite <- (fields_join sep s), H. reflexivity. Qed.
Lemma fields_one sep s x : fields sep s = [x] -> s = x.
Proof. intros H. rewrite <- (fields_join sep s), H. reflexivity. Qed.

(* ---- itoa of the value of a canonical decimal is that decimal ---- *)
Lemma digits_value_snoc s d acc : digits_value (s ++ [d]) acc = digits_value s acc * 10 + (d - 48).
Proof. rewrite digits_value_app. reflexivity. Qed.

Lemma digits_value_lower : forall s c, forallb is_digit (c :: s) = true -> c <> 48 ->
  10 ^ Z.of_nat (List.length s) <= digits_value (c :: s) 0.
Proof.
  intros s. induction s as [|d s IH] using rev_ind; intros c H N.
  - cbn in *. unfold is_digit in H. lia.
  - change (c :: s ++ [d]) with ((c :: s) ++ [d]). rewrite digits_value_snoc.
    change ((c :: s) ++ [d]) with (c :: (s ++ [d])) in H.
    assert (H' : forallb is_digit (c :: s) = true /\ is_digit d = true).
    { change (c :: s ++ [d]) with ((c :: s) ++ [d]) in H.
      rewrite forallb_app in H. apply andb_true_iff in H. destruct H as [Ha Hb]. split; [exact Ha|].
      cbn [forallb] in Hb. rewrite andb_true_r in Hb. exact Hb. }
    destruct H' as [H1 H2]. specialize (IH c H1 N). rewrite app_length. cbn [List.length].
    replace (Z.of_nat (List.length s + 1)) with (Z.of_nat (List.length s) + 1) by lia.
    rewrite Z.pow_add_r by lia. unfold is_digit in H2. lia.
Qed.

Lemma digits_aux_canonical : forall s c fuel acc,
  forallb is_digit (c :: s) = true -> (c <> 48 \/ s = []) -> (List.length (c :: s) <= fuel)%nat ->
  digits_aux fuel (digits_value (c :: s) 0) acc = (c :: s) ++ acc.
Proof.
  intros s. induction s as [|d s IH] using rev_ind; intros c fuel acc H N L.
  - destruct fuel as [|f]; [cbn in L; lia|]. cbn [digits_aux digits_value]. cbn in H. unfold is_digit in H.
    destruct (0 * 10 + (c - 48) <? 10) eqn:E; [|lia]. cbn [app]. f_equal. lia.
  - destruct N as [N|N]; [|destruct s; discriminate].
    change (c :: s ++ [d]) with ((c :: s) ++ [d]) in *. rewrite digits_value_snoc.
    assert (H' : forallb is_digit (c :: s) = true /\ is_digit d = true).
    { rewrite forallb_app in H. apply andb_true_iff in H. destruct H as [Ha Hb]. split; [exact Ha|].
      cbn [forallb] in Hb. rewrite andb_true_r in Hb. exact Hb. }
    destruct H' as [H1 H2]. unfold is_digit in H2.
    destruct fuel as [|f]; [cbn in L; lia|]. rewrite app_length in L. cbn [List.length] in L.
    pose proof (digits_value_lower s c H1 N) as LB.
    assert (1 <= 10 ^ Z.of_nat (List.length s)) by (apply Z.pow_le_mono_r with (b := 0) (c := Z.of_nat (List.length s)); lia).
    cbn [digits_aux]. set (v := digits_value (c :: s) 0) in *.
    destruct (v * 10 + (d - 48) <? 10) eqn:E; [lia|].
    replace ((v * 10 + (d - 48)) / 10) with v by (apply Z.div_unique with (r := d - 48); lia).
    replace ((v * 10 + (d - 48)) mod 10) with (d - 48) by (apply Z.mod_unique with (q := v); lia).
    unfold v. rewrite (IH c f) by (try assumption; try (left; exact N); cbn [List.length] in *; lia).
    rewrite <- app_assoc. cbn [app]. do 3 f_equal. lia.
Qed.

Lemma itoa_value_canonical c s : forallb is_digit (c :: s) = true -> (c <> 48 \/ s = []) ->
  itoa (digits_value (c :: s) 0) = c :: s.
Proof.
  intros H N. pose proof (digits_value_ge (c :: s) 0 H ltac:(lia)) as G.
  unfold itoa. destruct (digits_value (c :: s) 0 <? 0) eqn:E; [lia|]. unfold digits_of_nonneg.
  rewrite (digits_aux_canonical s c _ [] H N); [apply app_nil_r|].
  (* fuel: S (log2 v + 1) >= length *)
  destruct N as [N| ->]; [|cbn; lia].
  pose proof (digits_value_lower s c H N) as LB. set (v := digits_value (c :: s) 0) in *.
  assert (P : 2 ^ Z.of_nat (List.length s) <= v).
  { eapply Z.le_trans; [|exact LB]. apply Z.pow_le_mono_l. lia. }
  assert (0 < v) by (assert (0 < 2 ^ Z.of_nat (List.length s)) by (apply Z.pow_pos_nonneg; lia); lia).
  pose proof (Z.log2_le_pow2 v (Z.of_nat (List.length s)) ltac:(lia)) as [_ LL].
  pose proof (Z.log2_nonneg v). cbn [List.length].
  assert (Z.of_nat (List.length s) <= Z.log2 v) by (apply Z.log2_le_pow2; lia). lia.
Qed.

(* leading zeros removed: canonical, same value *)
Lemma strip_zeros_spec : forall s, s <> [] -> forallb is_digit s = true ->
  exists c r, strip_zeros s = c :: r /\ forallb is_digit (c :: r) = true /\ (c <> 48 \/ r = []) /\
              digits_value (c :: r) 0 = digits_value s 0.
Proof.
  induction s as [|c r IH]; intros N H; [congruence|].
  cbn [forallb] in H. apply andb_true_iff in H. destruct H as [Hc Hr].
  destruct (Z.eq_dec c 48) as [->|Nc].
  - destruct r as [|d r'].
    + exists 48, []. cbn. repeat split; auto.
    + destruct (IH ltac:(discriminate) Hr) as (c' & r'' & E & D & Cn & V).
      exists c', r''. split; [cbn [strip_zeros]; exact E|]. split; [exact D|]. split; [exact Cn|].
      rewrite V. cbn [digits_value]. reflexivity.
  - exists c, r. split.
    + cbn [strip_zeros]. destruct c as [|p|p]; try reflexivity.
      do 6 (destruct p as [p|p|]; try reflexivity). congruence.
    + split; [cbn [forallb]; rewrite Hc, Hr; reflexivity|]. split; [left; exact Nc|reflexivity].
Qed.

Lemma itoa_atoi_strip s n : rd_nat_lt two63 s = Some n -> itoa (atoi s) = strip_zeros s.
Proof.
  intros H. pose proof (rd_nat_lt_atoi _ _ _ H ltac:(lia)) as (EA & R & NE & D).
  unfold rd_nat_lt in H. destruct (rd_nat s) as [m|] eqn:E; [|discriminate].
  apply rd_nat_spec in E. destruct E as (_ & _ & V & _).
  destruct (m <? two63); [|discriminate]. inversion H as [HM]. rewrite HM in V.
  destruct (strip_zeros_spec s NE D) as (c & r & ES & DS & CN & VS).
  rewrite EA, ES, <- V, <- VS. apply itoa_value_canonical; assumption.
Qed.

(* ---------------------------------------------------------------- families *)
Definition head_ok (pre : list Z) : bool :=
  match pre with c :: _ => negb (c =? 123) && negb (c =? 91) | [] => false end.

Section Families.
  Variable js : list Z -> HWCState.
  Variable jm : list Z -> list (option InboundMessage).
  Variable ncp : list Z -> option (list Z).
  Notation dline := (dec_line js jm ncp).
  Notation line_ok := (line_ok js jm ncp).

  Definition chain (st : gstate) (l : list Z) : res (gstate * list InboundMessage) :=
    match m_single l with
    | Some gs => do ms <- dec_single_line gs; Ok (st, ms)
    | None =>
      match m_dual l with
      | Some gs => do ms <- dec_dual_line gs; Ok (st, ms)
      | None =>
        match m_str l with
        | Some gs => do ms <- dec_str_line ncp gs; Ok (st, ms)
        | None =>
          match m_reg l with
          | Some gs => do ms <- dec_reg_line gs; Ok (st, ms)
          | None => Ok (st, [empty_msg])
          end
        end
      end
    end.

  (* a line starting with a key name that is neither a state nor a graphics key *)
  Lemma dec_line_chain st pre rest :
    head_ok pre = true -> words_clash pre = true -> kw_none cmd_kws pre = true -> kw_none gfx_kws pre = true ->
    dline st (pre ++ rest) = chain st (pre ++ rest).
  Proof.
    intros Hh W K1 K2. destruct pre as [|c pre']; [discriminate|]. cbn [head_ok] in Hh.
    apply andb_true_iff in Hh. destruct Hh as [C1 C2].
    rewrite (dec_line_prefixed js jm ncp st c pre' rest W); [|destruct (c =? 123); [discriminate|reflexivity]|destruct (c =? 91); [discriminate|reflexivity]].
    cbv zeta. rewrite (m_cmd_none _ rest K1), (gfx_match_none _ rest K2). reflexivity.
  Qed.

  (* ---- kw=digits ---- *)
  Lemma m_single_hit kw rest :
    kw_lookup single_kws (str kw ++ [61]) = Some (str kw, [61]) -> rest <> [] -> forallb is_digit rest = true ->
    m_single ((str kw ++ [61]) ++ rest) = Some [(str kw ++ [61]) ++ rest; str kw; rest].
  Proof.
    intros K N D. unfold m_single. change (match_kw _ ?x) with (match_kw single_kws x).
    rewrite (match_kw_lookup _ _ _ _ rest K). cbn [obind app expect]. rewrite Z.eqb_refl. cbn [obind].
    rewrite (take_digits1_all rest N D). reflexivity.
  Qed.

  Definition single_side (kw : string) : bool :=
    let pre := str kw ++ [61] in
    head_ok pre && words_clash pre && kw_none cmd_kws pre && kw_none gfx_kws pre &&
    match kw_lookup single_kws pre with Some (k, t) => bytes_eqb k (str kw) && bytes_eqb t [61] | None => false end.

  Lemma single_line_dec kw st rest : single_side kw = true -> rest <> [] -> forallb is_digit rest = true ->
    dline st ((str kw ++ [61]) ++ rest) = do ms <- dec_single_line [(str kw ++ [61]) ++ rest; str kw; rest]; Ok (st, ms).
  Proof.
    intros S N D. unfold single_side in S. cbv zeta in S. repeat (apply andb_true_iff in S; destruct S as [S ?]).
    destruct (kw_lookup single_kws (str kw ++ [61])) as [[k t]|] eqn:K; [|discriminate].
    apply andb_true_iff in H. destruct H as [Hk Ht]. apply bytes_eqb_eq in Hk, Ht. subst k t.
    rewrite dec_line_chain by assumption. unfold chain. rewrite (m_single_hit kw rest K N D). reflexivity.
  Qed.

  Lemma str_app_eq a b : str (a ++ b) = str a ++ str b.
  Proof. induction a as [|c a IH]; [reflexivity|]. cbn [String.append str app]. rewrite IH. reflexivity. Qed.

  (* numeric commands: value read by the grammar = value stored by the decoder *)
  Lemma num_dec (kw : string) k bound st rest e (mk : Z -> Command) (conv : Z -> Z) :
    single_side kw = true -> bound <= two63 ->
    (forall whole d, dec_single_line [whole; str kw; d] = Ok [cmd_msg (mk (conv (atoi d)))]) ->
    (forall n, 0 <= n < bound -> conv n = n) ->
    (forall v, den_cmd (mk v) = [ECmd (CNum k v)]) ->
    rd_num k bound rest = Some e ->
    exists es, e = LEffs es /\ line_ok st ((str kw ++ [61]) ++ rest) es.
  Proof.
    intros S B HD HC HE H. unfold rd_num in H. destruct (rd_nat_lt bound rest) as [n|] eqn:E; [|discriminate].
    inversion H; subst e. eexists. split; [reflexivity|].
    apply rd_nat_lt_atoi in E; [|exact B]. destruct E as (EA & R & NE & D).
    unfold InDec.line_ok. rewrite (single_line_dec kw st rest S NE D), HD. cbn [bind].
    eexists. split; [reflexivity|]. rewrite den_cmd_msg, HE, EA, (HC n R). apply equiv_refl.
  Qed.

  Lemma onoff_dec (kw : string) k st rest e (mk : bool -> Command) :
    single_side kw = true ->
    (forall whole d, dec_single_line [whole; str kw; d] = Ok [cmd_msg (mk (atoi d >? 0))]) ->
    (forall b, den_cmd (mk b) = [ECmd (CNum k (bz b))]) ->
    rd_onoff k rest = Some e ->
    exists es, e = LEffs es /\ line_ok st ((str kw ++ [61]) ++ rest) es.
  Proof.
    intros S HD HE H. unfold rd_onoff in H. destruct (rd_nat_lt two63 rest) as [n|] eqn:E; [|discriminate].
    inversion H; subst e. eexists. split; [reflexivity|].
    apply rd_nat_lt_atoi in E; [|lia]. destruct E as (EA & R & NE & D).
    unfold InDec.line_ok. rewrite (single_line_dec kw st rest S NE D), HD. cbn [bind].
    eexists. split; [reflexivity|]. rewrite den_cmd_msg, HE, EA. destruct (n >? 0); apply equiv_refl.
  Qed.

  Lemma sint32_wrap32 n : 0 <= n < two31 -> sint32 (wrap32 n) = n.
  Proof. intros H. rewrite wrap32_small by (unfold two31, two32 in *; lia). apply sint32_id. unfold two31 in *. lia. Qed.

  Ltac side := vm_compute; reflexivity.

  Lemma heartbeat_dec st rest e : rd_num NHeartBeatTimer two32 rest = Some e ->
    exists es, e = LEffs es /\ line_ok st (str "HeartBeatTimer=" ++ rest) es.
  Proof.
    change (str "HeartBeatTimer=") with (str "HeartBeatTimer" ++ [61]).
    apply (num_dec "HeartBeatTimer" NHeartBeatTimer two32 st rest e with_heartbeat wrap32);
      [side|unfold two32, two63; lia|reflexivity|apply wrap32_small|reflexivity].
  Qed.
  Lemma dimmed_dec st rest e : rd_num NDimmedGain two32 rest = Some e ->
    exists es, e = LEffs es /\ line_ok st (str "DimmedGain=" ++ rest) es.
  Proof.
    change (str "DimmedGain=") with (str "DimmedGain" ++ [61]).
    apply (num_dec "DimmedGain" NDimmedGain two32 st rest e with_dimmed wrap32);
      [side|unfold two32, two63; lia|reflexivity|apply wrap32_small|reflexivity].
  Qed.
  Lemma pubstat_dec st rest e : rd_num NPublishSystemStat two32 rest = Some e ->
    exists es, e = LEffs es /\ line_ok st (str "PublishSystemStat=" ++ rest) es.
  Proof.
    change (str "PublishSystemStat=") with (str "PublishSystemStat" ++ [61]).
    apply (num_dec "PublishSystemStat" NPublishSystemStat two32 st rest e with_pubstat wrap32);
      [side|unfold two32, two63; lia|reflexivity|apply wrap32_small|reflexivity].
  Qed.
  Lemma sleeptimer_dec st rest e : rd_num NSleepTimer two32 rest = Some e ->
    exists es, e = LEffs es /\ line_ok st (str "SleepTimer=" ++ rest) es.
  Proof.
    change (str "SleepTimer=") with (str "SleepTimer" ++ [61]).
    apply (num_dec "SleepTimer" NSleepTimer two32 st rest e with_sleeptimeout wrap32);
      [side|unfold two32, two63; lia|reflexivity|apply wrap32_small|reflexivity].
  Qed.
  Lemma loadcpu_dec st rest e : rd_num NLoadCPU two31 rest = Some e ->
    exists es, e = LEffs es /\ line_ok st (str "LoadCPU=" ++ rest) es.
  Proof.
    change (str "LoadCPU=") with (str "LoadCPU" ++ [61]).
    apply (num_dec "LoadCPU" NLoadCPU two31 st rest e with_loadcpu (fun p => sint32 (wrap32 p)));
      [side|unfold two31, two63; lia|reflexivity|apply sint32_wrap32|reflexivity].
  Qed.
  Lemma sleepmode_dec st rest e : rd_num NSleepMode two31 rest = Some e ->
    exists es, e = LEffs es /\ line_ok st (str "SleepMode=" ++ rest) es.
  Proof.
    change (str "SleepMode=") with (str "SleepMode" ++ [61]).
    apply (num_dec "SleepMode" NSleepMode two31 st rest e with_sleepmode sint32);
      [side|unfold two31, two63; lia|reflexivity|intros n R; apply sint32_id; unfold two31 in *; lia|reflexivity].
  Qed.
  Lemma screensaver_dec st rest e : rd_num NSleepScreenSaver two31 rest = Some e ->
    exists es, e = LEffs es /\ line_ok st (str "SleepScreenSaver=" ++ rest) es.
  Proof.
    change (str "SleepScreenSaver=") with (str "SleepScreenSaver" ++ [61]).
    apply (num_dec "SleepScreenSaver" NSleepScreenSaver two31 st rest e with_screensaver sint32);
      [side|unfold two31, two63; lia|reflexivity|intros n R; apply sint32_id; unfold two31 in *; lia|reflexivity].
  Qed.
  Lemma webserver_dec st rest e : rd_onoff NWebserver rest = Some e ->
    exists es, e = LEffs es /\ line_ok st (str "Webserver=" ++ rest) es.
  Proof.
    change (str "Webserver=") with (str "Webserver" ++ [61]).
    apply (onoff_dec "Webserver" NWebserver st rest e with_web); [side|reflexivity|intros []; reflexivity].
  Qed.
  Lemma jsonout_dec st rest e : rd_onoff NJSONonOutbound rest = Some e ->
    exists es, e = LEffs es /\ line_ok st (str "JSONonOutbound=" ++ rest) es.
  Proof.
    change (str "JSONonOutbound=") with (str "JSONonOutbound" ++ [61]).
    apply (onoff_dec "JSONonOutbound" NJSONonOutbound st rest e with_jsoncfg); [side|reflexivity|intros []; reflexivity].
  Qed.
End Families.

Section Families2.
  Variable js : list Z -> HWCState.
  Variable jm : list Z -> list (option InboundMessage).
  Variable ncp : list Z -> option (list Z).
  Notation dline := (dec_line js jm ncp).
  Notation line_ok := (line_ok js jm ncp).
  Ltac side := vm_compute; reflexivity.

  Lemma no_comma_digits s : forallb is_digit s = true -> forallb (fun c => negb (c =? 44)) s = true.
  Proof. apply forallb_impl. intros x. unfold is_digit. lia. Qed.

  (* ---- PanelBrightness=a  and  PanelBrightness=a,b ---- *)
  Lemma bright_dec st rest e : rd_bright rest = Some e ->
    exists es, e = LEffs es /\ line_ok st (str "PanelBrightness=" ++ rest) es.
  Proof.
    intros H. unfold rd_bright in H.
    destruct (fields 44 rest) as [|x [|y [|z t]]] eqn:F; cbn [map] in H; try discriminate.
    - (* one argument *)
      destruct (rd_nat_lt two32 x) as [a|] eqn:EA; [|discriminate]. inversion H; subst e.
      eexists. split; [reflexivity|]. apply fields_one in F. subst x.
      apply rd_nat_lt_atoi in EA; [|unfold two32, two63; lia]. destruct EA as (EA & R & NE & D).
      unfold InDec.line_ok. change (str "PanelBrightness=") with (str "PanelBrightness" ++ [61]).
      rewrite (single_line_dec js jm ncp "PanelBrightness" st rest ltac:(side) NE D).
      eexists. split; [reflexivity|]. rewrite den_cmd_msg, EA, wrap32_small by exact R. apply equiv_refl.
    - (* two arguments *)
      destruct (rd_nat_lt two32 x) as [a|] eqn:EA; [|discriminate].
      destruct (rd_nat_lt two32 y) as [b|] eqn:EB; [|discriminate]. inversion H; subst e.
      eexists. split; [reflexivity|]. apply fields_two in F. subst rest.
      apply rd_nat_lt_atoi in EA; [|unfold two32, two63; lia]. destruct EA as (EA & RA & NA & DA).
      apply rd_nat_lt_atoi in EB; [|unfold two32, two63; lia]. destruct EB as (EB & RB & NB & DB).
      unfold InDec.line_ok.
      rewrite (dec_line_chain js jm ncp st (str "PanelBrightness=") (x ++ 44 :: y)) by side.
      unfold chain.
      assert (MS : m_single (str "PanelBrightness=" ++ x ++ 44 :: y) = None).
      { unfold m_single. change (match_kw _ ?l) with (match_kw single_kws l).
        rewrite (match_kw_lookup single_kws (str "PanelBrightness=") (str "PanelBrightness") [61] _ ltac:(side)).
        cbn [obind app expect]. rewrite Z.eqb_refl. cbn [obind].
        rewrite (take_digits1_stop x 44 y NA DA eq_refl). reflexivity. }
      rewrite MS.
      assert (MD : m_dual (str "PanelBrightness=" ++ x ++ 44 :: y) =
                   Some [str "PanelBrightness=" ++ x ++ 44 :: y; str "PanelBrightness"; x; y]).
      { unfold m_dual.
        rewrite (match_kw_lookup ["PanelBrightness"] (str "PanelBrightness=") (str "PanelBrightness") [61] _ ltac:(side)).
        cbn [obind app expect]. rewrite Z.eqb_refl. cbn [obind].
        rewrite (take_digits1_stop x 44 y NA DA eq_refl). cbn [obind expect]. rewrite Z.eqb_refl. cbn [obind].
        rewrite (take_digits1_all y NB DB). reflexivity. }
      rewrite MD.
      eexists. split; [reflexivity|]. rewrite den_cmd_msg, EA, EB, !wrap32_small by assumption. apply equiv_refl.
    - destruct (rd_nat_lt two32 x); [|discriminate]. destruct (rd_nat_lt two32 y); discriminate.
  Qed.

  (* ---- string commands ---- *)
  Lemma m_str_hit kw rest :
    kw_lookup str_kws (str kw ++ [61]) = Some (str kw, [61]) -> nolf rest = true ->
    m_str ((str kw ++ [61]) ++ rest) = Some [(str kw ++ [61]) ++ rest; str kw; rest].
  Proof.
    intros K N. unfold m_str. change (match_kw _ ?x) with (match_kw str_kws x).
    rewrite (match_kw_lookup _ _ _ _ rest K). cbn [obind app expect]. rewrite Z.eqb_refl. cbn [obind].
    rewrite (nolf_no_lf rest N). reflexivity.
  Qed.

  Definition str_side (kw : string) : bool :=
    let pre := str kw ++ [61] in
    head_ok pre && words_clash pre && kw_none cmd_kws pre && kw_none gfx_kws pre &&
    kw_none single_kws pre && kw_none ["PanelBrightness"] pre &&
    match kw_lookup str_kws pre with Some (k, t) => bytes_eqb k (str kw) && bytes_eqb t [61] | None => false end.

  Lemma str_line_dec kw st rest : str_side kw = true -> nolf rest = true ->
    dline st ((str kw ++ [61]) ++ rest) = do ms <- dec_str_line ncp [(str kw ++ [61]) ++ rest; str kw; rest]; Ok (st, ms).
  Proof.
    intros S N. unfold str_side in S. cbv zeta in S. repeat (apply andb_true_iff in S; destruct S as [S ?]).
    destruct (kw_lookup str_kws (str kw ++ [61])) as [[k t]|] eqn:K; [|discriminate].
    apply andb_true_iff in H. destruct H as [Hk Ht]. apply bytes_eqb_eq in Hk, Ht. subst k t.
    rewrite dec_line_chain by assumption. unfold chain.
    rewrite (m_single_none _ rest H1), (m_dual_none _ rest H0), (m_str_hit kw rest K N). reflexivity.
  Qed.

  Lemma setcal_dec st rest : nolf rest = true ->
    line_ok st (str "SetCalibrationProfile=" ++ rest) [ECmd (CSetCal rest)].
  Proof.
    intros N. unfold InDec.line_ok. change (str "SetCalibrationProfile=") with (str "SetCalibrationProfile" ++ [61]).
    rewrite (str_line_dec "SetCalibrationProfile" st rest ltac:(side) N).
    eexists. split; [reflexivity|]. rewrite den_cmd_msg. apply equiv_refl.
  Qed.

  Lemma setnet_dec st rest e : nolf rest = true -> rd_setnet ncp rest = Some e ->
    exists es, e = LEffs es /\ line_ok st (str "SetNetworkConfig=" ++ rest) es.
  Proof.
    intros N H. unfold rd_setnet in H. destruct (ncp rest) as [cfg|] eqn:E; [|discriminate]. inversion H; subst e.
    eexists. split; [reflexivity|].
    unfold InDec.line_ok. change (str "SetNetworkConfig=") with (str "SetNetworkConfig" ++ [61]).
    rewrite (str_line_dec "SetNetworkConfig" st rest ltac:(side) N).
    unfold dec_str_line. cbn [grp nth_error bind]. change (seq_eqb (str "SetNetworkConfig") "SetCalibrationProfile") with false.
    change (seq_eqb (str "SetNetworkConfig") "SetNetworkConfig") with true. cbv iota. rewrite E. cbn [bind].
    eexists. split; [reflexivity|]. rewrite den_cmd_msg. apply equiv_refl.
  Qed.

  Lemma same_eq a s : same a s = true -> a = str s.
  Proof. unfold same. apply bytes_eqb_eq. Qed.

  Lemma simenv_dec st rest e : nolf rest = true -> rd_simenv rest = Some e ->
    exists es, e = LEffs es /\ line_ok st (str "SimulateEnvironmentalHealth=" ++ rest) es.
  Proof.
    intros N H. unfold rd_simenv in H.
    change (str "SimulateEnvironmentalHealth=") with (str "SimulateEnvironmentalHealth" ++ [61]).
    unfold InDec.line_ok. rewrite (str_line_dec "SimulateEnvironmentalHealth" st rest ltac:(side) N).
    destruct (same rest "Normal") eqn:E0.
    { apply same_eq in E0. subst rest. inversion H; subst e. eexists. split; [reflexivity|].
      eexists. split; [reflexivity|]. rewrite den_cmd_msg. apply equiv_refl. }
    destruct (same rest "Safemode") eqn:E1.
    { apply same_eq in E1. subst rest. inversion H; subst e. eexists. split; [reflexivity|].
      eexists. split; [reflexivity|]. rewrite den_cmd_msg. apply equiv_refl. }
    destruct (same rest "Blocked") eqn:E2; [|discriminate].
    apply same_eq in E2. subst rest. inversion H; subst e. eexists. split; [reflexivity|].
    eexists. split; [reflexivity|]. rewrite den_cmd_msg. apply equiv_refl.
  Qed.
End Families2.

Section Families3.
  Variable js : list Z -> HWCState.
  Variable jm : list Z -> list (option InboundMessage).
  Variable ncp : list Z -> option (list Z).
  Notation dline := (dec_line js jm ncp).
  Notation line_ok := (line_ok js jm ncp).
  Ltac side := vm_compute; reflexivity.

  Definition reg_side (kw : string) : bool :=
    let pre := str kw in
    head_ok pre && words_clash pre && kw_none cmd_kws pre && kw_none gfx_kws pre &&
    kw_none single_kws pre && kw_none ["PanelBrightness"] pre && kw_none str_kws pre &&
    match kw_lookup reg_kws pre with Some (k, t) => bytes_eqb k pre && bytes_eqb t [] | None => false end.

  Lemma regch_regid id : forallb is_regch id = true -> forallb is_regid id = true.
  Proof. apply forallb_impl. intros x. unfold is_regch, is_regid, is_upper, is_dig, is_digit. lia. Qed.

  Lemma reg_line_dec kw st id v : reg_side kw = true -> forallb is_regid id = true -> v <> [] -> forallb is_digit v = true ->
    dline st (str kw ++ id ++ 61 :: v) = do ms <- dec_reg_line [str kw ++ id ++ 61 :: v; str kw; id; v]; Ok (st, ms).
  Proof.
    intros S Hid NV DV. unfold reg_side in S. cbv zeta in S. repeat (apply andb_true_iff in S; destruct S as [S ?]).
    destruct (kw_lookup reg_kws (str kw)) as [[k t]|] eqn:K; [|discriminate].
    apply andb_true_iff in H. destruct H as [Hk Ht]. apply bytes_eqb_eq in Hk, Ht. subst k t.
    rewrite dec_line_chain by assumption. unfold chain.
    rewrite (m_single_none _ _ H2), (m_dual_none _ _ H1), (m_str_none _ _ H0).
    unfold m_reg. change (match_kw _ ?x) with (match_kw reg_kws x).
    rewrite (match_kw_lookup _ _ _ _ (id ++ 61 :: v) K). cbn [obind app].
    rewrite (span_app_stop _ _ _ _ Hid (eq_refl : is_regid 61 = false)). cbn [expect]. rewrite Z.eqb_refl. cbn [obind].
    rewrite (take_digits1_all v NV DV). reflexivity.
  Qed.

  Lemma reg_dec (kw : string) kind st rest e : reg_side kw = true ->
    (forall whole id v, dec_reg_line [whole; str kw; id; v] = Ok [reg_msg kind id (wrap32 (atoi v))]) ->
    kind = 0 \/ kind = 2 \/ kind = 3 ->
    rd_reg kind rest = Some e -> exists es, e = LEffs es /\ line_ok st (str kw ++ rest) es.
  Proof.
    intros S HD HK H. unfold rd_reg in H. destruct (cut_at 61 rest) as [[id v]|] eqn:C; [|discriminate].
    destruct (forallb is_regch id) eqn:RI; [|discriminate].
    destruct (rd_nat_lt two32 v) as [n|] eqn:E; [|discriminate]. inversion H; subst e.
    eexists. split; [reflexivity|]. apply cut_at_spec in C. destruct C as [-> _].
    apply rd_nat_lt_atoi in E; [|unfold two32, two63; lia]. destruct E as (EA & R & NE & D).
    unfold InDec.line_ok. rewrite (reg_line_dec kw st id v S (regch_regid id RI) NE D), HD. cbn [bind].
    eexists. split; [reflexivity|]. rewrite den_reg_msg, EA, wrap32_small by exact R.
    unfold den_reg. cbn [r_kind r_id r_value]. destruct HK as [->|[->| ->]]; apply equiv_refl.
  Qed.

  Lemma mem_dec st rest e : rd_reg 0 rest = Some e -> exists es, e = LEffs es /\ line_ok st (str "Mem" ++ rest) es.
  Proof. apply (reg_dec "Mem" 0); [side|reflexivity|lia]. Qed.
  Lemma shift_dec st rest e : rd_reg 2 rest = Some e -> exists es, e = LEffs es /\ line_ok st (str "Shift" ++ rest) es.
  Proof. apply (reg_dec "Shift" 2); [side|reflexivity|lia]. Qed.
  Lemma state_dec st rest e : rd_reg 3 rest = Some e -> exists es, e = LEffs es /\ line_ok st (str "State" ++ rest) es.
  Proof. apply (reg_dec "State" 3); [side|reflexivity|lia]. Qed.

  Lemma digit_regid s : forallb is_digit s = true -> forallb is_regid s = true.
  Proof. apply forallb_impl. intros x H. unfold is_regid. rewrite H. apply orb_true_r. Qed.

  Lemma flag_dec st rest e : rd_flag rest = Some e -> exists es, e = LEffs es /\ line_ok st (str "Flag#" ++ rest) es.
  Proof.
    intros H. unfold rd_flag in H. destruct (cut_at 61 rest) as [[id v]|] eqn:C; [|discriminate].
    destruct (rd_nat_lt two63 id) as [i|] eqn:EI; [|discriminate].
    destruct (rd_nat_lt two63 v) as [n|] eqn:E; [|discriminate]. inversion H; subst e.
    eexists. split; [reflexivity|]. apply cut_at_spec in C. destruct C as [-> _].
    pose proof (itoa_atoi_strip _ _ EI) as CAN.
    apply rd_nat_lt_atoi in EI; [|lia]. destruct EI as (_ & _ & NI & DI).
    apply rd_nat_lt_atoi in E; [|lia]. destruct E as (EA & R & NE & D).
    unfold InDec.line_ok. rewrite (reg_line_dec "Flag#" st id v ltac:(side) (digit_regid id DI) NE D).
    eexists. split; [reflexivity|]. rewrite den_reg_msg, EA, CAN.
    unfold den_reg. cbn [r_kind r_id r_value Z.eqb]. destruct (n >? 0); apply equiv_refl.
  Qed.

  (* ---------------------------------------------------------------- bare words, JSON, blank *)
  Lemma find_bare_some : forall t l c, find_bare t l = Some c -> exists w, In (w, c) t /\ l = str w.
  Proof.
    induction t as [|[w c'] t IH]; intros l c H; cbn [find_bare] in H; [discriminate|].
    destruct (same l w) eqn:E.
    - inversion H; subst. exists w. split; [left; reflexivity|apply same_eq; exact E].
    - destruct (IH l c H) as (w' & I & ->). exists w'. split; [right; exact I|reflexivity].
  Qed.

  Lemma bare_dec st l c : find_bare bare_words l = Some c -> line_ok st l [ECmd c].
  Proof.
    intros H. destruct (find_bare_some _ _ _ H) as (w & I & ->). unfold InDec.line_ok.
    cbn in I. repeat (destruct I as [I|I]; [inversion I; subst; eexists; split; [reflexivity|apply equiv_refl]|]).
    contradiction.
  Qed.

  Lemma json_state_dec st c r : (c =? 123) = true -> line_ok st (c :: r) (den_state (js (c :: r))).
  Proof.
    intros E. apply Z.eqb_eq in E. subst c. unfold InDec.line_ok.
    assert (W : words_clash [123] = true) by side. unfold words_clash in W. repeat (apply andb_true_iff in W; destruct W as [W ?]).
    unfold dec_line. change (123 :: r) with ([123] ++ r). unfold seq_eqb. rewrite !clash_neq by assumption.
    rewrite (lookup_flag_clash _ _ _ r H). cbn [app Z.eqb Pos.eqb].
    eexists. split; [reflexivity|]. rewrite den_state_msg. apply equiv_refl.
  Qed.

  Lemma json_msgs_dec st c r : (c =? 123) = false -> (c =? 91) = true ->
    line_ok st (c :: r) (den_msgs (filter_some (jm (c :: r)))).
  Proof.
    intros _ E. apply Z.eqb_eq in E. subst c. unfold InDec.line_ok.
    assert (W : words_clash [91] = true) by side. unfold words_clash in W. repeat (apply andb_true_iff in W; destruct W as [W ?]).
    unfold dec_line. change (91 :: r) with ([91] ++ r). unfold seq_eqb. rewrite !clash_neq by assumption.
    rewrite (lookup_flag_clash _ _ _ r H). cbn [app Z.eqb Pos.eqb].
    eexists. split; [reflexivity|]. apply equiv_refl.
  Qed.
End Families3.
