(* Facts about the reference reader alone (no decoder model): shared by the C03 and C04 proofs. *)
From RP Require Import Lib.Base Lib.Sexp Lib.Strings Model.MsgOut Model.DecOut
  Spec.DenoteOut Spec.GrammarOut Proofs.GfxNum Proofs.OutStrings.
From Coq Require Import String.
Open Scope Z_scope.

Lemma rv_nolf vk v st rs : read_value vk v = WF st rs -> has_lf v = false.
Proof. unfold read_value. destruct (has_lf v); [discriminate|reflexivity]. Qed.

Lemma is_regid_eq c : is_regid c = is_regid_ch c.
Proof. reflexivity. Qed.

Lemma regid_no_eq id : forallb is_regid id = true -> forallb (fun x => negb (x =? 61)) id = true.
Proof.
  intros H. rewrite forallb_forall in *. intros x Hx. specialize (H x Hx).
  destruct (x =? 61) eqn:E; [|reflexivity]. apply Z.eqb_eq in E. subst x. discriminate.
Qed.

(* a successful register reading, for each of the four keywords *)
Lemma try_register_shape l kw k c :
  try_register l kw k = Some c ->
  exists id v, l = str kw ++ id ++ 61 :: v /\ forallb is_regid id = true /\
    c = match read_u32 v with
        | None => Malformed
        | Some x =>
          if k =? 1 then
            match read_u32 id with
            | Some n => WF true [RReg 1 (itoa n) (if x >? 0 then 1 else 0)]
            | None => Malformed
            end
          else WF true [RReg k id x]
        end.
Proof.
  unfold try_register. destruct (drop_prefix (str kw) l) as [r|] eqn:Ed; [|discriminate].
  destruct (cut_on 61 r) as [[id v] f] eqn:Ec. destruct f; [|discriminate].
  destruct (forallb is_regid_ch id) eqn:Ei; [|discriminate]. intros H. injection H as <-.
  apply drop_prefix_some in Ed. destruct (cut_on_found _ _ _ _ Ec) as [Hr _]. subst r.
  exists id, v. repeat split; auto.
Qed.

Definition read_rest (l : bytes) : line_class :=
  match lookup l flow_words with
  | Some w => WF true [RFlow w]
  | None =>
    match drop_prefix (str "HWC#") l with
    | Some r => if has_lf l then Malformed else read_event r
    | None =>
      match drop_prefix (str "map=") l with
      | Some r =>
        match cut_on 58 r with
        | (a, b, true) =>
          match read_u32 a, read_u32 b with
          | Some k, Some v => WF true [RMap k v]
          | _, _ => Malformed
          end
        | _ => Malformed
        end
      | None =>
        match cut_on 61 l with
        | (key, v, true) =>
          match lookup key key_table with
          | Some vk => read_value vk v
          | None => read_register l
          end
        | _ => NonGrammar
        end
      end
    end
  end.

Lemma read_out_line_nonempty l : l <> [] -> read_out_line l = read_rest l.
Proof. destruct l; [congruence|reflexivity]. Qed.

