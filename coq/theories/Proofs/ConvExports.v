(* C17: byte exports of a mono image (RGB565, 4-bit grey), colour maps, image round trip. *)
From RP Require Import Lib.Base Model.Mono Model.MonoConv Spec.Clip Spec.TextBox Spec.Conv
  Proofs.ListZ Proofs.PixelProofs Proofs.TextLaws Proofs.ConvLoops Proofs.ConvSweeps.
From Coq Require Import ZifyBool.
Ltac Zify.zify_post_hook ::= Z.div_mod_to_equations.

(* ---------- zseq, flat_map of equal-length chunks ---------- *)
Lemma zseq_length n : length (zseq n) = Z.to_nat n.
Proof. unfold zseq. rewrite map_length, seq_length. reflexivity. Qed.

Lemma nth_zseq n i : (i < Z.to_nat n)%nat -> nth i (zseq n) 0 = Z.of_nat i.
Proof.
  intros H. unfold zseq. rewrite (nth_indep _ 0 (Z.of_nat 0)) by (rewrite map_length, seq_length; auto).
  rewrite map_nth, seq_nth; auto.
Qed.

Lemma flat_map_const_length {A} (f : A -> list Z) (l : list A) m :
  (forall a, In a l -> length (f a) = m) -> length (flat_map f l) = (length l * m)%nat.
Proof.
  induction l as [|a l IH]; intros H; simpl; auto.
  rewrite app_length. rewrite H by (left; reflexivity).
  rewrite IH by (intros; apply H; right; auto). reflexivity.
Qed.

Lemma flat_map_const_nth {A} (f : A -> list Z) (l : list A) m a0 : forall i j,
  (forall a, In a l -> length (f a) = m) -> (i < length l)%nat -> (j < m)%nat ->
  nth (i * m + j) (flat_map f l) 0 = nth j (f (nth i l a0)) 0.
Proof.
  induction l as [|a l IH]; intros i j H Hi Hj; simpl in *; [lia|].
  destruct i as [|i].
  - simpl. rewrite app_nth1; auto. rewrite H by (left; reflexivity). auto.
  - replace (Datatypes.S i * m + j)%nat with (m + (i * m + j))%nat by lia.
    rewrite app_nth2 by (rewrite H by (left; reflexivity); lia). rewrite H by (left; reflexivity).
    replace (m + (i * m + j) - m)%nat with (i * m + j)%nat by lia.
    apply IH; auto; try lia; intros; apply H; right; auto.
Qed.

Lemma znth_flat_map_zseq (f : Z -> list Z) n m i j :
  (forall a, 0 <= a < n -> zlen (f a) = m) -> 0 <= i < n -> 0 <= j < m ->
  znth 0 (flat_map f (zseq n)) (i * m + j) = znth 0 (f i) j.
Proof.
  intros H Hi Hj. unfold znth.
  assert (0 <= i * m + j) by nia.
  destruct (Z.ltb_spec (i * m + j) 0); try lia. destruct (Z.ltb_spec j 0); try lia.
  replace (Z.to_nat (i * m + j)) with (Z.to_nat i * Z.to_nat m + Z.to_nat j)%nat by nia.
  rewrite (flat_map_const_nth f (zseq n) (Z.to_nat m) 0).
  - rewrite nth_zseq by lia. replace (Z.of_nat (Z.to_nat i)) with i by lia. reflexivity.
  - intros a Ha. apply in_zseq in Ha. specialize (H a Ha). unfold zlen in H. lia.
  - rewrite zseq_length. lia.
  - lia.
Qed.

Lemma zlen_flat_map_zseq (f : Z -> list Z) n m :
  0 <= n -> 0 <= m -> (forall a, 0 <= a < n -> zlen (f a) = m) -> zlen (flat_map f (zseq n)) = n * m.
Proof.
  intros Hn Hm H. unfold zlen.
  rewrite (flat_map_const_length f (zseq n) (Z.to_nat m)).
  - rewrite zseq_length. nia.
  - intros a Ha. apply in_zseq in Ha. specialize (H a Ha). unfold zlen in H. lia.
Qed.

Lemma zlen_map_zseq (f : Z -> Z) n : 0 <= n -> zlen (map f (zseq n)) = n.
Proof. intros. unfold zlen. rewrite map_length, zseq_length. lia. Qed.

Lemma znth_map_zseq (f : Z -> Z) n j : 0 <= j < n -> znth 0 (map f (zseq n)) j = f j.
Proof.
  intros H. unfold znth. destruct (Z.ltb_spec j 0); try lia.
  rewrite (nth_indep _ 0 (f 0)) by (rewrite map_length, zseq_length; lia).
  rewrite map_nth, nth_zseq by lia. f_equal. lia.
Qed.

(* ---------- bit tests ---------- *)
Lemma land_pow2_testbit b k : 0 <= k -> (Z.land b (2 ^ k) >? 0) = Z.testbit b k.
Proof.
  intros Hk.
  assert (E : Z.land b (2 ^ k) = if Z.testbit b k then 2 ^ k else 0).
  { apply Z.bits_inj'. intros n Hn. rewrite Z.land_spec, Z.pow2_bits_eqb by lia.
    destruct (Z.eqb_spec k n) as [->|Hne].
    - destruct (Z.testbit b n) eqn:T; [rewrite Z.pow2_bits_true by lia; reflexivity | rewrite Z.bits_0; reflexivity].
    - rewrite andb_false_r. destruct (Z.testbit b k); [rewrite Z.pow2_bits_false by lia; reflexivity | rewrite Z.bits_0; reflexivity]. }
  rewrite E. destruct (Z.testbit b k); [|reflexivity].
  assert (0 < 2 ^ k) by (apply Z.pow_pos_nonneg; lia). lia.
Qed.

Lemma mono_bit_px wib d col row : 0 <= col -> mono_bit wib d col row = px wib d col row.
Proof.
  intros Hc. unfold mono_bit, px.
  change (wrap8 (Z.shiftl 1 (7 - gmod col 8))) with (pixel_mask col).
  rewrite pixel_mask_pow by lia. unfold gdiv. rewrite Z.quot_div_nonneg by lia.
  apply land_pow2_testbit. lia.
Qed.

(* ---------- RGB565 export ---------- *)

Lemma hi_byte c : colour16_ok c -> wrap8 (Z.shiftr c 8) = c / 256.
Proof. intros H. rewrite Z.shiftr_div_pow2 by lia. change (2 ^ 8) with 256. unfold wrap8, colour16_ok in *. rewrite Z.mod_small; lia. Qed.
Lemma lo_byte c : colour16_ok c -> wrap8 (Z.land c 255) = c mod 256.
Proof.
  intros H. change 255 with (Z.ones 8). rewrite Z.land_ones by lia. change (2 ^ 8) with 256.
  unfold wrap8. rewrite Z.mod_mod; lia.
Qed.

Definition rgb_row (i : img) (row : Z) : list Z :=
  let g := ig i in
  let pm := wrap8 (Z.shiftr (ipixc i) 8) in let pl := wrap8 (Z.land (ipixc i) 255) in
  let bm := wrap8 (Z.shiftr (ibckg i) 8) in let bl := wrap8 (Z.land (ibckg i) 255) in
  flat_map (fun col => if mono_bit (gwib g) (idata i) col row then [pm; pl] else [bm; bl]) (zseq (gW g)).

Lemma rgb_cell_len (i : img) row col :
  zlen (if mono_bit (gwib (ig i)) (idata i) col row
        then [wrap8 (Z.shiftr (ipixc i) 8); wrap8 (Z.land (ipixc i) 255)]
        else [wrap8 (Z.shiftr (ibckg i) 8); wrap8 (Z.land (ibckg i) 255)]) = 2.
Proof. destruct (mono_bit _ _ _ _); reflexivity. Qed.

Theorem rgb_export i :
  0 <= gW (ig i) -> 0 <= gH (ig i) -> colour16_ok (ipixc i) -> colour16_ok (ibckg i) ->
  zlen (rgb_slice i) = 2 * gW (ig i) * gH (ig i) /\
  forall x y, 0 <= x < gW (ig i) -> 0 <= y < gH (ig i) ->
    let c := pixel_colour (gwib (ig i)) (idata i) (ipixc i) (ibckg i) x y in
    let k := y * gW (ig i) + x in
    znth 0 (rgb_slice i) (2 * k) = c / 256 /\ znth 0 (rgb_slice i) (2 * k + 1) = c mod 256.
Proof.
  intros HW HH Hp Hb.
  assert (Hrow : forall row, 0 <= row < gH (ig i) -> zlen (rgb_row i row) = gW (ig i) * 2).
  { intros row _. unfold rgb_row. apply zlen_flat_map_zseq; try lia. intros; apply rgb_cell_len. }
  change (rgb_slice i) with (flat_map (rgb_row i) (zseq (gH (ig i)))).
  split.
  - rewrite (zlen_flat_map_zseq _ _ (gW (ig i) * 2)); auto; lia.
  - intros x y Hx Hy c k.
    assert (E : forall j, 0 <= j < 2 ->
              znth 0 (flat_map (rgb_row i) (zseq (gH (ig i)))) (2 * k + j) =
              znth 0 (if mono_bit (gwib (ig i)) (idata i) x y
                      then [wrap8 (Z.shiftr (ipixc i) 8); wrap8 (Z.land (ipixc i) 255)]
                      else [wrap8 (Z.shiftr (ibckg i) 8); wrap8 (Z.land (ibckg i) 255)]) j).
    { intros j Hj. unfold k.
      replace (2 * (y * gW (ig i) + x) + j) with (y * (gW (ig i) * 2) + (x * 2 + j)) by lia.
      rewrite (znth_flat_map_zseq (rgb_row i) (gH (ig i)) (gW (ig i) * 2)); auto; try lia.
      unfold rgb_row.
      rewrite (znth_flat_map_zseq _ (gW (ig i)) 2); auto; try lia. intros; apply rgb_cell_len. }
    pose proof (E 0 ltac:(lia)) as E0. rewrite Z.add_0_r in E0. pose proof (E 1 ltac:(lia)) as E1.
    rewrite E0, E1.
    unfold c, pixel_colour. rewrite mono_bit_px by lia.
    destruct (px (gwib (ig i)) (idata i) x y);
      (split; [change (znth 0 [?a; ?b] 0) with a; apply hi_byte | change (znth 0 [?a; ?b] 1) with b; apply lo_byte]); auto.
Qed.

Theorem rgb_export_ok_holds i :
  0 <= gW (ig i) -> 0 <= gH (ig i) -> colour16_ok (ipixc i) -> colour16_ok (ibckg i) ->
  rgb_export_ok (gW (ig i)) (gH (ig i)) (gwib (ig i)) (idata i) (ipixc i) (ibckg i) (rgb_slice i) = true.
Proof.
  intros HW HH Hp Hb. destruct (rgb_export i HW HH Hp Hb) as [L P].
  unfold rgb_export_ok, rgb_export_ok_p. apply andb_true_intro; split; [lia|].
  apply all_rect_intro. intros x y Hx Hy. destruct (P x y ltac:(lia) ltac:(lia)) as [A B].
  cbv zeta in A, B. cbv zeta. rewrite A, B. unfold pixel_colour. lia.
Qed.

(* ---------- 4-bit grey export, even widths ---------- *)
Theorem gray_export i :
  0 <= gW (ig i) -> 0 <= gH (ig i) -> gW (ig i) mod 2 = 0 -> colour16_ok (ipixc i) -> colour16_ok (ibckg i) ->
  zlen (gray_slice i) = gW (ig i) * gH (ig i) / 2 /\
  forall x y, 0 <= x < gW (ig i) -> 0 <= y < gH (ig i) ->
    nibble_at (gray_slice i) (y * gW (ig i) + x) =
    luma_nibble (pixel_colour (gwib (ig i)) (idata i) (ipixc i) (ibckg i) x y).
Proof.
  intros HW HH Heven Hp Hb.
  set (W := gW (ig i)) in *. set (H := gH (ig i)) in *.
  set (m := W / 2). assert (HWm : W = 2 * m) by (unfold m; lia). assert (Hm : 0 <= m) by lia.
  set (rowf := fun row => map (fun k => gray_pair i row (2 * k)) (zseq (gdiv (W + 1) 2))).
  assert (Hq : gdiv (W + 1) 2 = m) by (unfold gdiv; rewrite Z.quot_div_nonneg by lia; lia).
  assert (Hrow : forall row, 0 <= row < H -> zlen (rowf row) = m).
  { intros row _. unfold rowf. rewrite Hq. apply zlen_map_zseq; auto. }
  assert (Hall : zlen (flat_map rowf (zseq H)) = H * m) by (apply zlen_flat_map_zseq; auto).
  assert (Hn : gdiv (W * H) 2 = H * m) by (unfold gdiv; rewrite Z.quot_div_nonneg by nia; nia).
  assert (Hslice : gray_slice i = flat_map rowf (zseq H)).
  { unfold gray_slice. fold W H. fold rowf. rewrite Hn. apply firstn_all2. unfold zlen in Hall. lia. }
  rewrite Hslice. split; [rewrite Hall; nia|].
  intros x y Hx Hy.
  unfold nibble_at, nibble_get.
  replace ((y * W + x) / 2) with (y * m + x / 2) by nia.
  replace ((y * W + x) mod 2) with (x mod 2) by nia.
  rewrite (znth_flat_map_zseq rowf H m) by (auto; lia).
  unfold rowf. rewrite Hq. rewrite znth_map_zseq by lia.
  unfold gray_pair.
  set (G0 := if mono_bit (gwib (ig i)) (idata i) (2 * (x / 2)) y then rgb16_to_gray (ipixc i) else rgb16_to_gray (ibckg i)).
  set (G1 := if mono_bit (gwib (ig i)) (idata i) (2 * (x / 2) + 1) y then rgb16_to_gray (ipixc i) else rgb16_to_gray (ibckg i)).
  destruct (gray_luma _ Hp) as [Lp Rp]. destruct (gray_luma _ Hb) as [Lb Rb].
  assert (R0 : 0 <= G0 < 256) by (unfold G0; destruct (mono_bit (gwib (ig i)) (idata i) (2 * (x / 2)) y); assumption).
  assert (R1 : 0 <= G1 < 256) by (unfold G1; destruct (mono_bit (gwib (ig i)) (idata i) (2 * (x / 2) + 1) y); assumption).
  destruct (nibble_pack G0 G1 R0 R1) as [N0 N1]. cbv zeta in N0, N1.
  unfold pixel_colour.
  destruct (Z.eqb_spec (x mod 2) 0) as [Ev|Od].
  - rewrite N0. unfold G0. replace (2 * (x / 2)) with x by lia. rewrite mono_bit_px by lia.
    destruct (px _ _ x y); auto.
  - rewrite N1. unfold G1. replace (2 * (x / 2) + 1) with x by lia. rewrite mono_bit_px by lia.
    destruct (px _ _ x y); auto.
Qed.

Theorem gray_export_ok_holds i :
  0 <= gW (ig i) -> 0 <= gH (ig i) -> gW (ig i) mod 2 = 0 -> colour16_ok (ipixc i) -> colour16_ok (ibckg i) ->
  gray_export_ok (gW (ig i)) (gH (ig i)) (gwib (ig i)) (idata i) (ipixc i) (ibckg i) (gray_slice i) = true.
Proof.
  intros HW HH He Hp Hb. destruct (gray_export i HW HH He Hp Hb) as [L P].
  unfold gray_export_ok, gray_export_ok_p. apply andb_true_intro; split; [lia|].
  apply all_rect_intro. intros x y Hx Hy. pose proof (P x y ltac:(lia) ltac:(lia)) as Q.
  unfold nibble_at, pixel_colour in Q. rewrite Q. lia.
Qed.
