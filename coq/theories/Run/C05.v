(* Correspondence + oracle entry point for C05.
   Case kinds (lines are wrapped in 1-element lists so the generic shrinker can delete them):
     (hist  DISC ((#line) ...) (STEP ...))
     (clean DISC (type W H xy X Y #data) (id ...) ((#line) ...) (STEP ...))
        DISC = batch | stream | ser;  STEP = ((DELIVERY ...) (CHANGE ...)) = what the k-th line
        added to the list of delivered images and which EARLIER delivered objects read
        differently when re-read after the k-th line (CHANGE = (j DELIVERY) | (j gone));
        DELIVERY = ((id ...) type W H xy X Y #data).
        batch: step k = RawPanelASCIIstringsToInboundMessages(lines[0..k]) (all prefixes);
        stream: ASCIIreader.Parse line by line; ser: json.Marshal/Unmarshal of the reader
        between any two lines (rawpanel-lib-c/main.go).
     (b64d #in #out) (b64e #in #out) (trim #in #out)   library models vs encoding/base64, strings
     (rx #line (#sub1 ... #sub11) | (rx #line nomatch)  ASCIIreader_gfx.FindStringSubmatch
     (pat #pattern)                                     ASCIIreader_gfx.String()
     (json count #type ((#l) ...) max #list  count' #type' ((#l') ...) max' #list')
   The implementation's deliveries are judged by Spec.Transfer (valid / at-most-once /
   stable / clean) independently of the model, then compared with the model's. *)
From RP Require Import Lib.Base Lib.Sexp Lib.Strings Lib.B64 Lib.TrimSpace Model.Gfx Spec.Transfer.
From Coq Require Import String.
Open Scope string_scope.
Open Scope Z_scope.
Open Scope list_scope.

Definition dec_gfx (l : list sexp) : option gfx :=
  match l with
  | [I t; I w; I h; I xy; I x; I y; B d] => Some (mkGfx t w h (negb (xy =? 0)) x y d)
  | _ => None
  end.

Definition dec_delivery (s : sexp) : option (list Z * gfx) :=
  match s with
  | L (L ids :: rest) => let? ids := get_ints ids in let? g := dec_gfx rest in Some (ids, g)
  | _ => None
  end.

Fixpoint dec_deliveries (l : list sexp) : option (list (list Z * gfx)) :=
  match l with
  | [] => Some []
  | x :: r => let? d := dec_delivery x in let? ds := dec_deliveries r in Some (d :: ds)
  end.

(* a step: (new deliveries, number of CHANGE entries) *)
Definition dec_step (s : sexp) : option (list (list Z * gfx) * Z) :=
  match s with
  | L [L news; L changes] => let? ds := dec_deliveries news in Some (ds, zlen changes)
  | _ => None
  end.

Fixpoint dec_steps (l : list sexp) : option (list (list (list Z * gfx) * Z)) :=
  match l with
  | [] => Some []
  | x :: r => let? d := dec_step x in let? ds := dec_steps r in Some (d :: ds)
  end.

Fixpoint dec_lines (l : list sexp) : option (list (list Z)) :=
  match l with
  | [] => Some []
  | L [B x] :: r => let? xs := dec_lines r in Some (x :: xs)
  | _ => None
  end.

Inductive disc := DBatch | DStream | DSer.
Definition dec_disc (s : sexp) : option disc :=
  if sym_eqb s "batch" then Some DBatch else if sym_eqb s "stream" then Some DStream
  else if sym_eqb s "ser" then Some DSer else None.

(* the model's deliveries per step *)
Fixpoint batch_steps_from (st : gstate) (ls : list (list Z)) : list (list (list Z * gfx)) :=
  match ls with
  | [] => []
  | l :: r => let '(st', d) := gfx_line_step st l in
              (match d with Some m => [m] | None => [] end) :: batch_steps_from st' r
  end.

Definition model_steps (d : disc) (ls : list (list Z)) : list (list (list Z * gfx)) :=
  match d with
  | DBatch => batch_steps_from gstate0 ls
  | DStream => stream_from false reader0 ls
  | DSer => stream_from true reader0 ls
  end.

Definition history_of (d : disc) (ls : list (list Z)) : list line :=
  match d with
  | DBatch => map classify ls
  | _ => map (fun l => classify (trim_space l)) ls
  end.

Fixpoint deliveries_of (pos : Z) (steps : list (list (list Z * gfx))) : list delivery :=
  match steps with
  | [] => []
  | s :: r => map (fun '(ids, g) => mkD pos ids g) s ++ deliveries_of (pos + 1) r
  end.

Definition pair_eqb (a b : list Z * gfx) : bool := ids_eqb (fst a) (fst b) && gfx_eqb (snd a) (snd b).

Fixpoint first_bad {A} (p : A -> bool) (l : list A) (k : Z) : option Z :=
  match l with [] => None | x :: r => if p x then first_bad p r (k + 1) else Some k end.

Definition enc_delivery (m : list Z * gfx) : sexp :=
  let g := snd m in
  L [L (map I (fst m)); I (g_type g); I (g_w g); I (g_h g); of_bool (g_xy g); I (g_x g); I (g_y g); B (g_data g)].

(* oracle on the implementation's observations, then comparison with the model *)
Definition judge_hist (d : disc) (ls : list (list Z)) (steps : list (list (list Z * gfx) * Z))
           (extra : list line -> list delivery -> option sexp) : sexp :=
  if negb (zlen steps =? zlen ls) then v_badcase
  else
    let h := history_of d ls in
    let obs := map fst steps in
    let ds := deliveries_of 0 obs in
    match first_bad (fun s => snd s =? 0) steps 0 with
    | Some k => v_specfail "c05-stable" (I k)
    | None =>
      match first_bad (valid_b h) ds 0 with
      | Some k => v_specfail "c05-valid" (I k)
      | None =>
        if negb (at_most_once_b h ds) then v_specfail "c05-once" (I 0)
        else
          match extra h ds with
          | Some v => v
          | None =>
            let ms := model_steps d ls in
            if list_eqb (list_eqb pair_eqb) ms obs then v_ok (negb (is_nil ds))
            else v_mismatch (L (map (fun s => L (map enc_delivery s)) ms))
          end
      end
    end.

(* clean runs: the implementation's ENCODER output is read by the grammar and judged:
   numbered 0..T-1 per id, payload <= 170 bytes, header on line 0, payloads concatenating to the data; then the deliveries must be
   exactly one image per id at the last line of its run, equal to what was sent. *)
Fixpoint positions_of_gfx (h : list line) (pos : Z) : list Z :=
  match h with
  | [] => []
  | G _ :: r => pos :: positions_of_gfx r (pos + 1)
  | O :: r => positions_of_gfx r (pos + 1)
  end.

Fixpoint chunks_of (h : list line) : list chunk :=
  match h with [] => [] | G c :: r => c :: chunks_of r | O :: r => chunks_of r end.

(* the chunk lines of one id: indices 0..per-1, <= 170 bytes each, concatenating to the data,
   header = (per-1, W, H, offset) on chunk 0 only *)
Fixpoint run_ok (g : gfx) (id : Z) (per : Z) (k : Z) (cs : list chunk) (data : list Z) : bool :=
  match cs with
  | [] => is_nil data
  | c :: r =>
    (c_type c =? g_type g) && ids_eqb (c_ids c) [id] && (c_index c =? k) && (zlen (c_data c) <=? 170)
    && (if k =? 0
        then match c_hdr c with
             | Some (n, w, h, off) =>
               (n =? per - 1) && (w =? g_w g) && (h =? g_h g)
               && match off with
                  | Some (x, y) => g_xy g && (x =? g_x g) && (y =? g_y g)
                  | None => negb (g_xy g)
                  end
             | None => false
             end
        else match c_hdr c with None => true | Some _ => false end)
    && match drop_prefix (c_data c) data with
       | Some rest => run_ok g id per (k + 1) r rest
       | None => false
       end
  end.

Fixpoint runs_ok (g : gfx) (ids : list Z) (per : Z) (cs : list chunk) : bool :=
  match ids with
  | [] => is_nil cs
  | i :: r => run_ok g i per 0 (firstn (Z.to_nat per) cs) (g_data g)
              && runs_ok g r per (skipn (Z.to_nat per) cs)
  end.

(* [p0]: position of the clean run's first line in the whole history ([h] is the run's part of it) *)
Definition judge_clean_from (p0 : Z) (g : gfx) (ids : list Z) (ls : list (list Z)) (h : list line) (ds : list delivery) : option sexp :=
  let cs := chunks_of h in
  let n := zlen ids in
  let per := if n =? 0 then 0 else zlen cs / n in
  if negb (zlen cs =? per * n) || negb (runs_ok g ids per cs) then Some (v_specfail "c05-chunking" (I per))
  else if negb (list_eqb delivery_eqb ds
                  (if per =? 0 then [] else clean_expected g ids per (positions_of_gfx h p0)))
  then Some (v_specfail "c05-clean" (I per))
  else
    (* correspondence of the encoder: the graphics lines are the model's *)
    let glines := filter (fun l => match classify l with G _ => true | O => false end) ls in
    let mlines := flat_map (gfx_lines g) ids in
    if list_eqb bytes_eqb glines mlines then None
    else Some (v_mismatch (L (map B mlines))).

Definition judge_clean := judge_clean_from 0.

Fixpoint dec_blist (l : list sexp) : option (list (list Z)) :=
  match l with [] => Some [] | B x :: r => let? xs := dec_blist r in Some (x :: xs) | _ => None end.

Definition sm_subs (sm : gfx_sm) : list (list Z) :=
  match sm_adv sm with
  | None => [sm_cmd sm; sm_list sm; sm_idx sm; []; []; []; []; []; []; []; sm_payload sm]
  | Some (mx, w, h, None) =>
    [sm_cmd sm; sm_list sm; sm_idx sm; str "/" ++ mx ++ str "," ++ w ++ str "x" ++ h; mx; w; h; []; []; []; sm_payload sm]
  | Some (mx, w, h, Some (x, y)) =>
    [sm_cmd sm; sm_list sm; sm_idx sm;
     str "/" ++ mx ++ str "," ++ w ++ str "x" ++ h ++ str "," ++ x ++ str "," ++ y; mx; w; h;
     str "," ++ x ++ str "," ++ y; x; y; sm_payload sm]
  end.

Definition gfx_pattern : list Z :=
  str "^(HWCgRGB#|HWCgGray#|HWCg#)([0-9,]+)=([0-9]+)(/([0-9]+),([0-9]+)x([0-9]+)(,([0-9]+),([0-9]+)|)|):(.*)$".

Definition cmp_bytes (model obs : list Z) : sexp :=
  if bytes_eqb model obs then v_ok true else v_mismatch (B model).

Definition judge_hist3 (lines sb ss sj : list sexp) : sexp :=
  match dec_lines lines, dec_steps sb, dec_steps ss, dec_steps sj with
  | Some ls, Some b, Some st, Some j =>
    let vb := judge_hist DBatch ls b (fun _ _ => None) in
    let vs := judge_hist DStream ls st (fun _ _ => None) in
    let vj := judge_hist DSer ls j (fun _ _ => None) in
    let is_ok v := match v with L (S k :: _) => bytes_eqb k (str "ok") | _ => false end in
    let tagd (d : string) v := match v with L xs => L (xs ++ [sym d]) | _ => v end in
    if negb (is_ok vb) then tagd "batch" vb
    else if negb (is_ok vs) then tagd "stream" vs
    else if negb (is_ok vj) then tagd "ser" vj
    else v_ok (negb (is_nil (List.concat (map fst b))) || negb (is_nil (List.concat (map fst st))))
  | _, _, _, _ => v_badcase
  end.

Definition run_case (s : sexp) : sexp :=
  match s with
  | L [S n; L lines; L sb; L ss; L sj] =>
    (* one history under the three disciplines *)
    if bytes_eqb n (str "hist3") then judge_hist3 lines sb ss sj else v_badcase
  | L [S n; dsx; L lines; L steps] =>
    if bytes_eqb n (str "hist") then
      match dec_disc dsx, dec_lines lines, dec_steps steps with
      | Some d, Some ls, Some st => judge_hist d ls st (fun _ _ => None)
      | _, _, _ => v_badcase
      end
    else v_badcase
  | L [S n; dsx; L gx; L ids; L lines; L steps] =>
    (* (hist3c (lines) (companion lines) batch stream ser): the history was fed while ANOTHER reader
       object and other decoder calls were working on the companion lines in between; the judgement is
       that of hist3 - one reader / one call is not influenced by another *)
    if bytes_eqb n (str "hist3c") then
      match dsx with L ls => judge_hist3 ls ids lines steps | _ => v_badcase end
    else
    if bytes_eqb n (str "clean") then
      match dec_disc dsx, dec_gfx gx, get_ints ids, dec_lines lines, dec_steps steps with
      | Some d, Some g, Some ids, Some ls, Some st => judge_hist d ls st (judge_clean g ids ls)
      | _, _, _, _, _ => v_badcase
      end
    else v_badcase
  | L [S n; dsx; L gx; L ids; L pre; L lines; L steps] =>
    (* (cleanp disc gfx ids (prefix lines) (clean lines) steps): the clean run is fed AFTER an abandoned
       transfer (its first parts, never its last) for another target / format - "from any reader state".
       The prefix delivers nothing; the run delivers exactly its images at its last lines. *)
    if bytes_eqb n (str "cleanp") then
      match dec_disc dsx, dec_gfx gx, get_ints ids, dec_lines pre, dec_lines lines, dec_steps steps with
      | Some d, Some g, Some ids, Some pls, Some ls, Some st =>
        let np := List.length pls in
        judge_hist d (pls ++ ls) st (fun h ds => judge_clean_from (Z.of_nat np) g ids ls (skipn np h) ds)
      | _, _, _, _, _, _ => v_badcase
      end
    else v_badcase
  | L [S n; B a; B b] =>
    if bytes_eqb n (str "b64d") then cmp_bytes (b64_decode a) b
    else if bytes_eqb n (str "b64e") then cmp_bytes (b64_encode a) b
    else if bytes_eqb n (str "trim") then cmp_bytes (trim_space a) b
    else v_badcase
  | L [S n; B a] => if bytes_eqb n (str "pat") then cmp_bytes gfx_pattern a else v_badcase
  | L [S n; B a; S _] =>
    if bytes_eqb n (str "rx") then
      match gfx_match a with None => v_ok false | Some sm => v_mismatch (L (map B (sm_subs sm))) end
    else v_badcase
  | L [S n; B a; L subs] =>
    if bytes_eqb n (str "rx") then
      match gfx_match a, dec_blist subs with
      | Some sm, Some obs => if list_eqb bytes_eqb (sm_subs sm) obs then v_ok true else v_mismatch (L (map B (sm_subs sm)))
      | None, Some _ => v_mismatch (sym "nomatch")
      | _, None => v_badcase
      end
    else v_badcase
  | L [S n; I c; B ty; L buf; I mx; B lst; I c'; B ty'; L buf'; I mx'; B lst'] =>
    if bytes_eqb n (str "json") then
      match dec_lines buf, dec_lines buf' with
      | Some b, Some b' =>
        let m := json_reader (mkR c ty b mx lst) in
        if (r_count m =? c') && bytes_eqb (r_type m) ty' && list_eqb bytes_eqb (r_buf m) b'
           && (r_max m =? mx') && bytes_eqb (r_list m) lst'
        then v_ok true
        else v_mismatch (L [I (r_count m); B (r_type m); L (map B (r_buf m)); I (r_max m); B (r_list m)])
      | _, _ => v_badcase
      end
    else v_badcase
  | _ => v_badcase
  end.

Definition dispatch_line (line : list Z) : list Z :=
  match parse_sexp line with
  | Some s => print_sexp (run_case s)
  | None => print_sexp (L [sym "badcase"; sym "parse"])
  end.
