(* C06 oracle entry point: case = (c06 kind (inputs...) (status n nils conc digest)).
   The model side of C06 (totality of the converter models with explicit panic sites) is
   proved in Props/C06.v and tied to the code by the C01-C04 correspondence checks, which
   run the same malformed / presence-pattern streams through model and implementation. *)
From RP Require Import Lib.Base Lib.Sexp Spec.Total.
From Coq Require Import String.
Open Scope string_scope.
Open Scope Z_scope.

Definition dec_status (s : sexp) : option call_status :=
  if sym_eqb s "ok" then Some StOk else if sym_eqb s "panic" then Some StPanic
  else if sym_eqb s "hang" then Some StHang else if sym_eqb s "crash" then Some StCrash else None.

Definition run_case (s : sexp) : sexp :=
  match s with
  | L [S n; S kind; L inputs; L [st; I cnt; I nils; I conc; _]] =>
    if bytes_eqb n (str "c06") then
      match dec_status st with
      | Some st =>
        match judge_call (mkObs st cnt nils (negb (conc =? 0))) with
        | TotOk => v_ok (0 <? cnt)
        | TotPanic => L [sym "specfail"; S (str "c06-panic-" ++ kind)]
        | TotHang => L [sym "specfail"; S (str "c06-hang-" ++ kind)]
        | TotCrash => L [sym "specfail"; S (str "c06-crash-" ++ kind)]
        | TotNil => L [sym "specfail"; S (str "c06-nil-" ++ kind)]
        | TotConc => L [sym "specfail"; S (str "c06-concurrent-" ++ kind)]
        end
      | None => v_badcase
      end
    else v_badcase
  | _ => v_badcase
  end.

Definition dispatch_line (line : list Z) : list Z :=
  match parse_sexp line with
  | Some s => print_sexp (run_case s)
  | None => print_sexp (L [sym "badcase"; sym "parse"])
  end.
