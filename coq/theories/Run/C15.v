(* Correspondence + oracle entry point for C15.
   case = (svg <topology> <map: nil | ((id v) ...)> (labels hwcid type dispsize)
               (base <id> <valid 0/1> <strict 0/1>) <observed>)
   observed = fail | (ok <wellformed> <basekept> <wrapper-agrees> (<node> ...)),
   node = (#name ((#key #value) ...) #text): the nodes found AFTER the base document's own
   children when the generator's output is re-parsed with encoding/xml by the harness.
   The topology is the JSON-decoded one the generator works on (generic value of the
   regenerated schema).  float32 behaviour comes from Lib/FloatFmt. *)
From RP Require Import Lib.Base Lib.Sexp Lib.Strings Lib.JsonTree Lib.FloatFmt Gen.TopoSchema
     Model.Topo Model.TopoSvg Spec.Topo Spec.TopoSvg.
From Coq Require Import String.
Local Open Scope string_scope.
Open Scope Z_scope.

(* float32: x + 90, exact rational sum rounded to nearest-even *)
Definition f32_add90 (b : Z) : Z :=
  if negb (f32_finite b) then b
  else
    let m := f32_m b in
    let e := f32_e b in
    let sm := if f32_neg b then - m else m in
    let '(n, d) := if 0 <=? e then (sm * 2 ^ e + 90, 1) else (sm + 90 * 2 ^ (- e), 2 ^ (- e)) in
    if n =? 0 then 0 else if n <? 0 then sign_bit + q_to_f32_abs (- n) d else q_to_f32_abs n d.

Definition go_fenv : fenv := FEnv f32_nonzero (fmt_f32 6) f32_add90.

Definition dec_topo (s : sexp) : option topology :=
  let? v := val_of_sexp topo_schema s in topo_of_val topo_schema v.

Definition dec_map (s : sexp) : option (option (list (Z * Z))) :=
  match s with
  | S _ => Some None
  | L xs =>
    let? es := omapM (fun e => match e with L [I k; I v] => Some (k, v) | _ => None end) xs in
    Some (Some es)
  | _ => None
  end.

Definition dec_node (s : sexp) : option node :=
  match s with
  | L [B nm; L ats; B tx] =>
    let? al := omapM (fun e => match e with L [B k; B v] => Some (k, v) | _ => None end) ats in
    Some (Node nm al tx)
  | _ => None
  end.

Definition attrs_eqb (x y : list (list Z * list Z)) : bool :=
  list_eqb (fun p q => bytes_eqb (fst p) (fst q) && bytes_eqb (snd p) (snd q)) x y.
Definition node_eqb (x y : node) : bool :=
  bytes_eqb (nName x) (nName y) && attrs_eqb (nAttrs x) (nAttrs y) && bytes_eqb (nText x) (nText y).

Definition enc_node (n : node) : sexp :=
  L [B (nName n); L (map (fun kv => L [B (fst kv); B (snd kv)]) (nAttrs n)); B (nText n)].

(* first differing position, for the mismatch report *)
Fixpoint first_diff (ms os : list node) (k : Z) : sexp :=
  match ms, os with
  | [], [] => sym "none"
  | m :: ms', o :: os' => if node_eqb m o then first_diff ms' os' (k + 1) else L [I k; enc_node m]
  | m :: _, [] => L [I k; enc_node m]
  | [], _ :: _ => L [I k; sym "extra"]
  end.

Definition run_case (s : sexp) : sexp :=
  match s with
  | L [S n; tv; mv; L [I ol; I oh; I ot; I od]; L [S _; I _; I valid; I strict]; obs] =>
    if bytes_eqb n (str "svg") then
      match dec_topo tv, dec_map mv with
      | Some t, Some m =>
        let o := Opts (negb (ol =? 0)) (negb (oh =? 0)) (negb (ot =? 0)) (negb (od =? 0)) in
        match obs with
        | L [S _] => v_specfail "c15-panic" (L [])  (* the generator panicked *)
        | S _ =>                                    (* fail: nil document / "" *)
          if valid =? 0 then v_ok false else v_specfail "c15-valid-base-rejected" (L [])
        | L [S _; I wf; I kept; I wrap; L ns] =>
          if valid =? 0 then v_specfail "c15-bad-base" (L [])
          else if wf =? 0 then v_specfail "c15-wellformed" (L [])
          else if (kept =? 0) && negb (strict =? 0) then v_specfail "c15-base-kept" (L [])
          else if wrap =? 0 then v_specfail "c15-wrapper" (L [])
          else
            match omapM dec_node ns with
            | None => v_badcase
            | Some os =>
              if negb (svg_ok o t m os) then v_specfail "c15-nodes" (L [I (zlen os)])
              else
                let ms := svg_nodes go_fenv o t m in
                if list_eqb node_eqb ms os then v_ok (negb (zlen os =? 0))
                else v_mismatch (first_diff ms os 0)
            end
        | _ => v_badcase
        end
      | _, _ => v_badcase
      end
    else v_badcase
  | _ => v_badcase
  end.

Definition dispatch_line (line : list Z) : list Z :=
  match parse_sexp line with
  | Some s => print_sexp (run_case s)
  | None => print_sexp (L [sym "badcase"; sym "parse"])
  end.
