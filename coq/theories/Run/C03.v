(* Correspondence + oracle entry point for C03 (and the encoder half of C06):
   case = (c03 (msg|nil ...) ((#in #out)...) ((#in #out)...) (lines (l #..) ...)|panic)
     - the message list handed to OutboundMessagesToRawPanelASCIIstrings,
     - the implementation's stripLineBreaks / stripLineBreaksSvg on the payload strings present
       (informative; the model uses Model/Flatten.v),
     - the returned strings, or `panic`.
   (a) the model [enc_out] is run with the map iteration orders read back from the observed
       lines (each must be a permutation of the message's map) and compared line by line;
   (b) independently, the observed lines are read by the reference grammar reader and compared
       with [den_out] of the messages (spec oracle), for representable messages. *)
From RP Require Import Lib.Base Lib.Sexp Lib.Strings Model.MsgOut Model.Flatten Model.EncOut Model.DecOut Spec.DenoteOut Spec.GrammarOut.
From Coq Require Import String.
Open Scope Z_scope.

Fixpoint dx_table (l : list sexp) : option (list (bytes * bytes)) :=
  match l with
  | [] => Some []
  | L [B a; B b] :: r => let? t := dx_table r in Some ((a, b) :: t)
  | _ => None
  end.

Fixpoint tab_lookup (t : list (bytes * bytes)) (k : bytes) : bytes :=
  match t with
  | [] => k
  | (a, b) :: r => if bytes_eqb a k then b else tab_lookup r k
  end.

Fixpoint dx_lines (l : list sexp) : option (list bytes) :=
  match l with
  | [] => Some []
  | L [S _; B a] :: r => let? t := dx_lines r in Some (a :: t)
  | _ => None
  end.

Definition sx_lines (ls : list bytes) : sexp := L (sym "lines" :: map (fun l => L [sym "l"; B l]) ls).

(* read "map=k:v" back with the MODEL's matcher (only to recover the iteration order) *)
Definition parse_map_line (l : bytes) : option (Z * Z) :=
  match re_map l with
  | [_; a; b] => Some (atoi a, atoi b)
  | _ => None
  end.

Fixpoint parse_map_lines (ls : list bytes) : option (list (Z * Z)) :=
  match ls with
  | [] => Some []
  | l :: r => let? e := parse_map_line l in let? t := parse_map_lines r in Some (e :: t)
  end.

Fixpoint remove_pair (x : Z * Z) (l : list (Z * Z)) : option (list (Z * Z)) :=
  match l with
  | [] => None
  | y :: r => if pair_eqb x y then Some r else match remove_pair x r with Some r' => Some (y :: r') | None => None end
  end.
Fixpoint pairs_perm (a b : list (Z * Z)) : bool :=
  match a with
  | [] => match b with [] => true | _ => false end
  | x :: a' => match remove_pair x b with Some b' => pairs_perm a' b' | None => false end
  end.

Section WithFlat.
Variables flat flat_svg : bytes -> bytes.

(* iteration orders recovered from the observed lines; None = an observed map block is not a
   permutation of the message's map *)
Fixpoint recover_ords (ms : list (option out_msg)) (obs : list bytes) : option (list (list (Z * Z))) :=
  match ms with
  | [] => Some []
  | None :: _ => Some []
  | Some m :: r =>
    match enc_msg flat flat_svg (om_map m) m with
    | Panic _ => Some []
    | Ok ls =>
      let npre := List.length (enc_pre flat flat_svg m) in
      let k := List.length (om_map m) in
      let blk := firstn k (skipn npre obs) in
      match parse_map_lines blk with
      | Some ord =>
        if pairs_perm ord (om_map m) then
          let? rest := recover_ords r (skipn (List.length ls) obs) in Some (ord :: rest)
        else None
      | None => None
      end
    end
  end.

Definition all_some {A} (l : list (option A)) : bool := forallb (fun o => match o with Some _ => true | None => false end) l.

Fixpoint somes {A} (l : list (option A)) : list A :=
  match l with [] => [] | Some a :: r => a :: somes r | None :: r => somes r end.

(* no nil pointer anywhere: the shape proto.Unmarshal can produce *)
Definition wire_shape (ms : list (option out_msg)) : bool :=
  all_some ms && forallb (fun m => all_some (om_events m) && all_some (om_regs m)) (somes ms).

Definition judge (ms : list (option out_msg)) (out : option (list bytes)) : sexp :=
  match out with
  | None =>
    (* the implementation panicked *)
    if wire_shape ms then v_specfail "c03-panic-on-wire-reachable" (L [])
    else
      match enc_out flat flat_svg [] ms with
      | Panic _ => v_ok false
      | Ok ls => v_mismatch (sx_lines ls)
      end
  | Some obs =>
    (* spec oracle first: it judges the implementation's lines without the model *)
    let msgs := somes ms in
    let rep := all_some ms && forallb (fun m => representable_outb flat flat_svg m) msgs in
    let spec :=
      if rep then
        if negb (forallb (fun l => match read_out_line l with WF _ _ => true | _ => false end) obs)
        then Some (v_specfail "c03-line-not-in-grammar" (L []))
        else if negb (reports_equivb (flat_map sem_out_line obs) (map den_out msgs))
        then Some (v_specfail "c03-meaning" (L []))
        else None
      else None in
    match spec with
    | Some v => v
    | None =>
      match recover_ords ms obs with
      | None => v_mismatch (sym "map-block-not-a-permutation")
      | Some ords =>
        match enc_out flat flat_svg ords ms with
        | Panic s => v_mismatch (L [sym "panic"; I s])
        | Ok ls =>
          if list_eqb bytes_eqb ls obs
          then v_ok (rep && negb (null (flat_map den_out msgs)))
          else v_mismatch (sx_lines ls)
        end
      end
    end
  end.
End WithFlat.

Definition run_case (s : sexp) : sexp :=
  match s with
  | L [S n; L ms; L ft; L st; out] =>
    if bytes_eqb n (str "c03") then
      match dx_msgs ms, dx_table ft, dx_table st with
      | Some ms, Some ft, Some st =>
        (* the payload flattening is the model of Model/Flatten.v (C07); the tables printed by the
           harness are the implementation's values and are only cross-checked through the lines *)
        let flat := strip_lb in
        let flat_svg := strip_lb_svg in
        match out with
        | L (S _ :: ls) => match dx_lines ls with Some obs => judge flat flat_svg ms (Some obs) | None => v_badcase end
        | S _ => judge flat flat_svg ms None
        | _ => v_badcase
        end
      | _, _, _ => v_badcase
      end
    else v_badcase
  | _ => v_badcase
  end.

Definition dispatch_line (line : list Z) : list Z :=
  match parse_sexp line with
  | Some s => print_sexp (run_case s)
  | None => print_sexp (L [sym "badcase"; sym "parse"])
  end.
