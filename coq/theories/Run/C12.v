(* C12 entry point: negotiation scenarios against ConnectToPanel and the stand-alone detector.
   (a) spec: Spec.NetSpec.c12_judge on the implementation's observed flag / error text / bytes
   received by the panel, from the reply class of the scripted panel; (b) model comparison. *)
From RP Require Import Lib.Base Lib.Sexp Lib.Strings Model.Net Model.Client Spec.NetSpec Run.NetCommon.
From Coq Require Import String.
Open Scope string_scope.
Open Scope list_scope.
Open Scope Z_scope.

Definition clause_tag (pfx : string) (n : Z) : sexp := S (str pfx ++ itoa n).

(* every connection of the scenario is judged by the reply class of what the panel sent first
   on THAT connection: flag and error text given to that onconnect, bytes that peer received *)
(* other traffic expected on connection i besides the negotiation bytes: what the onconnect
   callback wrote and (connection 0) the lists queued by the single submitter; the negotiation
   clauses are judged on what the panel received BEFORE it *)
Definition other_traffic (s : scn) (i : nat) (bin : bool) : bytes :=
  s_cbwrite s ++ match i, s_subs s with
                 | O, sub0 :: _ => written_for s bin sub0
                 | _, _ => []
                 end.

Definition before_traffic (recv traffic : bytes) : bytes :=
  match split_tr (zlen recv - zlen traffic) recv [] with
  | Some (pre, post) => if bytes_eqb post traffic then pre else recv
  | None => recv
  end.

Fixpoint c12_conns (s : scn) (i : nat) (gs : list grp) (peers : list (Z * bytes * Z * Z)) : list Z :=
  match gs, peers with
  | g :: gs', (_, recv, _, _) :: ps' =>
    let bin := snd (g_con g) in
    match c12_judge true (classify_reply (nth_reply s i)) bin (snd (fst (g_con g)))
                    (before_traffic recv (other_traffic s i bin)) with
    | [] => c12_conns s (Datatypes.S i) gs' ps'
    | n :: _ => [n + 100 * Z.of_nat i]
    end
  | _, _ => []
  end.

Definition c12_fails (s : scn) : list Z :=
  let o := s_obs s in
  let rc := classify_reply (first_reply s) in
  if s_det s then
    match obs_det o, obs_peers o with
    | Some (_, res), (_, recv, _, _) :: _ => c12_judge false rc res [] recv
    | _, _ => [0]
    end
  else
    match obs_groups o, obs_peers o with
    | _ :: _, _ :: _ => c12_conns s 0 (obs_groups o) (obs_peers o)
    | _, _ => [0]
    end.

Definition judge (s : scn) : sexp :=
  if obs_inv (s_obs s) then mism "timing" "inv" []
  else
  match c12_fails s with
  | n :: _ => L [sym "specfail"; clause_tag (if s_sens s then "timing-c12-clause" else "c12-clause") n; L []]
  | [] =>
    match (if s_det s then compare_detector s
           else compare_client s (fun i => if i =? 0 then match s_subs s, obs_groups (s_obs s) with sub0 :: _, g :: _ => Some (written_for s (snd (g_con g)) sub0) | _, _ => None end else None)) with
    | Some v => v
    | None => v_ok true
    end
  end.

Definition dispatch_line (line : list Z) : list Z := run_with judge line.
