(* C08 entry point: receive framing.  (a) spec: the observed deliveries of every connection
   are exactly the frames / lines the scripted panel sent (Spec.NetSpec reference walk), each
   once, in order, nothing else, whatever the cutting and spacing; (b) model comparison. *)
From RP Require Import Lib.Base Lib.Sexp Lib.Strings Model.Net Model.Client Spec.NetSpec Run.NetCommon.
From Coq Require Import String.
Open Scope string_scope.
Open Scope list_scope.
Open Scope Z_scope.

Definition c08_conn (s : scn) (i : nat) (g : grp) : option sexp :=
  match conn_view s i with
  | Some v =>
    if negb (cv_ok v) then None
    else if delivery_clause s i g v then None
    else Some (spec_fail "c08-delivery" i [L (map (fun d => B (snd d)) (g_dlv g))])
  | None => None
  end.

Definition judge (s : scn) : sexp :=
  if obs_inv (s_obs s) then mism "timing" "inv" []
  else
  let og := obs_groups (s_obs s) in
  match for_conns (c08_conn s) 0 og with
  | Some v => v
  | None =>
    match compare_client s (fun _ => None) with
    | Some v => v
    | None => v_ok (existsb (fun g => match g_dlv g with [] => false | _ => true end) og)
    end
  end.

Definition dispatch_line (line : list Z) : list Z := run_with judge line.
