(* Correspondence + oracle entry point for C02 (and the inbound-decoder half of C06).
   case = (c02 (entry ...) obs)
     entry ::= (l #line) | (js #line state) | (jm #line (msg|nil ...)) | (nc #line nil|#cfg)
     obs   ::= panic | (msg|nil ...)
   The extra element of an entry is the encoding/json oracle's answer for that line.
   (a) model: Model/DecIn.dec_in with those oracles must give exactly the observed messages;
   (b) oracle, independent of the model: a panic or a nil message is a C06 violation; when no
       line is Malformed (every line is well-formed or not of the grammar at all), the meaning
       (Spec/DenoteIn) of the IMPLEMENTATION's messages must drive a panel into the state the
       reference reader (Spec/GrammarIn) reaches on the input lines - lines that are not of
       the grammar contributing nothing. *)
From RP Require Import Lib.Base Lib.Sexp Lib.Strings Model.MsgIn Model.DecIn Spec.DenoteIn Spec.GrammarIn.
From Coq Require Import String.
Open Scope string_scope.
Open Scope list_scope.
Open Scope Z_scope.

Record entries := mkEnt {
  e_lines : list (list Z);
  e_js : list (list Z * HWCState);
  e_jm : list (list Z * list (option InboundMessage));
  e_nc : list (list Z * option (list Z)) }.

Fixpoint dec_entries (l : list sexp) : option entries :=
  match l with
  | [] => Some (mkEnt [] [] [] [])
  | x :: r =>
    let? e := dec_entries r in
    match x with
    | L [k; B line] =>
      if sym_eqb k "l" then Some (mkEnt (line :: e_lines e) (e_js e) (e_jm e) (e_nc e)) else None
    | L [k; B line; a] =>
      if sym_eqb k "js" then
        let? st := rd_state a in Some (mkEnt (line :: e_lines e) ((line, st) :: e_js e) (e_jm e) (e_nc e))
      else if sym_eqb k "jm" then
        match a with
        | L ms => let? ms' := rd_msgs_opt ms in
                  Some (mkEnt (line :: e_lines e) (e_js e) ((line, ms') :: e_jm e) (e_nc e))
        | _ => None
        end
      else if sym_eqb k "nc" then
        let? v := rd_opt get_bytes a in
        Some (mkEnt (line :: e_lines e) (e_js e) (e_jm e) ((line, v) :: e_nc e))
      else None
    | _ => None
    end
  end.

Fixpoint lookup {A} (l : list (list Z * A)) (k : list Z) : option A :=
  match l with
  | [] => None
  | (k', a) :: r => if bytes_eqb k k' then Some a else lookup r k
  end.

Definition js_of (e : entries) (l : list Z) : HWCState :=
  match lookup (e_js e) l with Some s => s | None => empty_state end.
Definition jm_of (e : entries) (l : list Z) : list (option InboundMessage) :=
  match lookup (e_jm e) l with Some s => s | None => [] end.
(* keyed by the whole line "SetNetworkConfig=<arg>" *)
Definition nc_of (e : entries) (arg : list Z) : option (list Z) :=
  match lookup (e_nc e) (str "SetNetworkConfig=" ++ arg) with Some s => s | None => None end.

Definition msgs_eqb (a b : list InboundMessage) : bool :=
  bytes_eqb (print_sexp (L (map sx_msg a))) (print_sexp (L (map sx_msg b))).

Definition busy_panel : panel :=
  apply_effs panel0
    [EState [1; 2; 3; 5; 7; 9] (UMode 4 true 3); EState [1; 2; 4] (UColour (CIndex 9));
     EState [2; 5] (UExt 5 777); EState [1; 7] (UAdc true); ECmd (CBare KList); EReg 0 (str "A") 5].

Definition judge (e : entries) (obs : list InboundMessage) : option sexp :=
  let chk (p : panel) :=
    let want := fst (sem_in_lines (js_of e) (jm_of e) (nc_of e) (p, None) (e_lines e)) in
    let got := run_msgs p obs in
    if panel_eqb got want then None else Some (L [sx_panel got; sx_panel want]) in
  match chk panel0 with
  | Some d => Some d
  | None => chk busy_panel
  end.

Definition is_malformed (e : entries) (l : list Z) : bool :=
  match in_read (js_of e) (jm_of e) (nc_of e) l with Malformed => true | _ => false end.
Definition has_effect (e : entries) (l : list Z) : bool :=
  match in_read (js_of e) (jm_of e) (nc_of e) l with
  | Wf (LEffs []) => false | Wf _ => true | _ => false end.

Definition run_case (s : sexp) : sexp :=
  match s with
  | L [k; L ents; obs] =>
    if sym_eqb k "c02" then
      match dec_entries ents with
      | None => v_badcase
      | Some e =>
        if sym_eqb obs "panic" then v_specfail "c06-dec-panic" (L [])
        else
          match obs with
          | L ol =>
            match rd_msgs_opt ol with
            | None => v_badcase
            | Some oms =>
              if existsb is_none oms then v_specfail "c06-nil-message" (L [])
              else
                let obs_ms := filter_some oms in
                let judged := negb (existsb (is_malformed e) (e_lines e)) in
                match (if judged then judge e obs_ms else None) with
                | Some d => v_specfail "c02-meaning" d
                | None =>
                  match dec_in (js_of e) (jm_of e) (nc_of e) (e_lines e) with
                  | Ok ms => if msgs_eqb ms obs_ms
                             then v_ok (judged && existsb (has_effect e) (e_lines e))
                             else v_mismatch (L (map sx_msg ms))
                  | Panic site => v_mismatch (L [sym "panic"; I site])
                  end
                end
            end
          | _ => v_badcase
          end
      end
    else v_badcase
  | _ => v_badcase
  end.

Definition dispatch_line (line : list Z) : list Z :=
  match parse_sexp line with
  | Some s => print_sexp (run_case s)
  | None => print_sexp (L [sym "badcase"; sym "parse"])
  end.
