(* Correspondence + oracle entry point for C19.
   case = (c19 ITEMS MODE BINDS (init PRE LATEK LATE DELAY) SEGS GAP (MARKERUNIT DEC) TOPOTAB OBS)
   (layout described in harness/gorwp/c19.go).  For every case
   (a) the spec oracle Spec.Gorwp.judge looks at the IMPLEMENTATION's observation only;
   (b) the model (reader automaton + transition system of Model/Gorwp.v) is run on the same
       script under two different schedules and compared with the observation. *)
From RP Require Import Lib.Base Lib.Sexp Model.Gorwp Spec.Gorwp.
From Coq Require Import String.
Open Scope string_scope.
Open Scope Z_scope.
Open Scope list_scope.

(* ---------------------------------------------------------------- decoding *)
Definition dec_opt1 (s : sexp) : option (option Z) :=
  match s with L [] => Some None | L [I v] => Some (Some v) | _ => None end.

Definition dec_event (s : sexp) : option event :=
  match s with
  | L [I id; bin; pul; ab; spd] =>
    let? b := match bin with
              | L [] => Some None
              | L [I p; I e] => Some (Some (negb (p =? 0), e))
              | _ => None end in
    let? p := dec_opt1 pul in
    let? a := dec_opt1 ab in
    let? s := dec_opt1 spd in
    Some (mkEvent id b p a s)
  | _ => None
  end.

Fixpoint dec_list {A} (f : sexp -> option A) (l : list sexp) : option (list A) :=
  match l with
  | [] => Some []
  | x :: r => let? a := f x in let? b := dec_list f r in Some (a :: b)
  end.

Definition dec_pair (s : sexp) : option (Z * Z) :=
  match s with L [I k; I v] => Some (k, v) | _ => None end.

Definition dec_msg (s : sexp) : option omsg :=
  match s with
  | L [S _; I flow; info; L avail; topo; L evs] =>
    let? i := match info with
              | L [I _] => Some None
              | L [I _; B m; B sn; B n] => Some (Some (mkInfo m sn n))
              | _ => None end in
    let? av := dec_list dec_pair avail in
    let? t := match topo with
              | L [I _] => Some None
              | L [I _; B j; B v] => Some (Some (mkTopo j v))
              | _ => None end in
    let? es := dec_list dec_event evs in
    Some (mkMsg flow i av t es)
  | _ => None
  end.

Definition kind_of (z : Z) : option kind :=
  if z =? 0 then Some KTrigger else if z =? 1 then Some KBinary else if z =? 2 then Some KPulsed
  else if z =? 3 then Some KAbsolute else if z =? 4 then Some KIntensity else None.

(* the harness's handler with fb = n sends n states (id, 1 + j mod 5), then makes its own Bind* calls *)
Fixpoint fb_sends (id : Z) (n : nat) (j : Z) : list (Z * Z) :=
  match n with O => [] | Datatypes.S n' => (id, 1 + j mod 5) :: fb_sends id n' (j + 1) end.
Definition mk_handler (id fb tag : Z) (binds : list reg) : handler := mkHandler tag (fb_sends id (Z.to_nat fb) 0) binds.

(* (KIND ID FB TAG) or (KIND ID FB TAG (BIND...)): the handler's own registrations, nested at most twice *)
Definition dec_bind_with (inner : sexp -> option reg) (s : sexp) : option reg :=
  match s with
  | L [I k; I id; I fb; I tag] => let? kk := kind_of k in Some (kk, id, mk_handler id fb tag [])
  | L [I k; I id; I fb; I tag; L res] =>
    let? kk := kind_of k in let? rs := dec_list inner res in Some (kk, id, mk_handler id fb tag rs)
  | _ => None
  end.
Definition dec_bind : sexp -> option reg := dec_bind_with (dec_bind_with (dec_bind_with (fun _ => None))).

Definition pause_of (p : Z) : option Z := if p <? 0 then None else Some p.

(* a history element of the case: an item on the wire, or a Bind* call *)
Inductive celem :=
| EItem (c : citem) (decoded : list omsg)
| EPad (n : Z) (decoded : list omsg)     (* a frame of n bytes whose payload is not spelled out in the case *)
| EBind (r : reg).

Definition dec_item (s : sexp) : option celem :=
  match s with
  | L (S n :: args) =>
    let is k := bytes_eqb n (str k) in
    match args with
    | [B p; I pause; L ms] =>
      if is "f" then let? d := dec_list dec_msg ms in Some (EItem (IFrame p (pause_of pause)) d) else None
    | [B l; I eol; I pause; L ms] =>
      if is "l" then let? d := dec_list dec_msg ms in Some (EItem (ILine l (negb (eol =? 0)) (pause_of pause)) d) else None
    | [I v] => if is "close" then Some (EItem IClose []) else None
    | [I v; I pad] => if is "ol" then Some (EItem (IOver v) []) else None
    | [I n; L ms] => if is "fpad" then let? d := dec_list dec_msg ms in Some (EPad n d) else None
    | [B bs] => if is "trunc" then Some (EItem (ITrunc bs) []) else None
    | [I k; I id; I fb; I tag] =>
      if is "bind" then let? r := dec_bind (L [I k; I id; I fb; I tag]) in Some (EBind r) else None
    | [I k; I id; I fb; I tag; L res] =>
      if is "bind" then let? r := dec_bind (L [I k; I id; I fb; I tag; L res]) in Some (EBind r) else None
    | _ => None
    end
  | _ => None
  end.

Definition dec_call (s : sexp) : option callrec :=
  match s with
  | L [I k; I id; I tag; bin; pul; ab; spd] =>
    if k =? 0 then let? e := dec_event (L [I id; bin; pul; ab; spd]) in Some (CTrigger id tag e) else None
  | L [I k; I id; I tag; I a; I b] => if k =? 1 then Some (CBinary id tag a b) else None
  | L [I k; I id; I tag; I v] =>
    let? kk := kind_of k in
    match kk with KTrigger | KBinary => None | _ => Some (CValue kk id tag v) end
  | _ => None
  end.

Definition dec_recv (s : sexp) : option titem :=
  match s with
  | L [S n; I _] => if bytes_eqb n (str "a") then Some TAck else None
  | L [S n; I id; I st] => if bytes_eqb n (str "fb") then Some (TFb id st) else None
  | _ => None
  end.

Definition dec_end (s : sexp) : endcls :=
  if sym_eqb s "live" then ELive else if sym_eqb s "closed" then EClosed
  else if sym_eqb s "peerclosed" then EPeerClosed else if sym_eqb s "timeout" then ETimeout
  else if sym_eqb s "noconnect" then ENoConnect else EOther.

(* observation; the topology digest is returned separately *)
Definition dec_obs (s : sexp) : option (observed * bytes) :=
  match s with
  | L [I conn; I cls; L calls; L recv; e; L [S _; B mo; B se; B na; B js; B sv; L av; B dig; I isinit; I peek]] =>
    let? cs := dec_list dec_call calls in
    let? rs := dec_list dec_recv recv in
    let? a := dec_list dec_pair av in
    Some (mkObs (negb (conn =? 0)) cls cs rs (dec_end e) mo se na js sv a (negb (isinit =? 0)) (negb (peek =? 0)), dig)
  | _ => None
  end.

(* ---------------------------------------------------------------- oracles from the case *)
Definition empty_msg : omsg := mkMsg 0 None [] None [].

Definition table := list (bytes * list omsg).
Fixpoint tlookup (t : table) (k : bytes) : option (list omsg) :=
  match t with
  | [] => None
  | (k', v) :: r => if bytes_eqb k k' then Some v else tlookup r k
  end.

Definition key_of (c : citem) : option bytes :=
  match c with
  | IFrame p _ => Some p
  | ILine l _ _ => Some (trim_space l)
  | _ => None
  end.

Fixpoint table_of (l : list celem) : table :=
  match l with
  | [] => []
  | EItem c d :: r => match key_of c with Some k => (k, d) :: table_of r | None => table_of r end
  | EPad _ _ :: r => table_of r
  | EBind _ :: r => table_of r
  end.

Fixpoint blookup (t : list (bytes * bytes)) (k : bytes) : option bytes :=
  match t with
  | [] => None
  | (k', v) :: r => if bytes_eqb k k' then Some v else blookup r k
  end.

Definition unm_of (t : table) (p : bytes) : omsg :=
  match tlookup t p with Some (m :: _) => m | _ => empty_msg end.
Definition dec_of (t : table) (l : bytes) : list omsg :=
  match tlookup t l with Some ms => ms | None => [] end.

(* ---------------------------------------------------------------- the scenario, as the harness plays it *)
Definition is_plain (c : citem) : bool :=
  match c with
  | IFrame _ None | ILine _ _ None => true
  | _ => false
  end.
Definition ends_script (c : citem) : bool :=
  match c with ITrunc _ | IClose => true | _ => false end.

(* implicit marker before every element that is not a plain frame / line, and at the end;
   nothing is played after a trunc / close *)
Fixpoint expand (marker : celem) (l : list celem) : list celem :=
  match l with
  | [] => [marker]
  | EItem c d :: r =>
    if is_plain c then EItem c d :: expand marker r
    else if ends_script c then [marker; EItem c d]
    else marker :: EItem c d :: expand marker r
  | EPad n d :: r => EPad n d :: expand marker r
  | EBind b :: r => marker :: EBind b :: expand marker r
  end.

Section WithOracles.
  Variable unm : bytes -> omsg.
  Variable dec : bytes -> list omsg.

  (* spec side: history up to the first fault *)
  Fixpoint hist_of (l : list celem) : list hel * bool :=
    match l with
    | [] => ([], false)
    | EBind (k, id, h) :: r => let '(hs, f) := hist_of r in (HBind k id h :: hs, f)
    | EPad n d :: r =>
      if (0 <=? n) && (n <? frame_limit) then
        let '(hs, f) := hist_of r in
        (match d with [m] => if m_flow m =? 2 then hs else HDeliver [m] :: hs | _ => hs end, f)
      else ([], true)
    | EItem c _ :: r =>
      let '(ds, f) := to_dispatch unm dec [c] in
      if f then (map HDeliver ds, true)
      else let '(hs, f') := hist_of r in (map HDeliver ds ++ hs, f')
    end.

  Definition citems_of (l : list celem) : list citem :=
    flat_map (fun x => match x with EItem c _ => [c] | _ => [] end) l.
  Definition has_pad (l : list celem) : bool := existsb (fun x => match x with EPad _ _ => true | _ => false end) l.

  (* model side: play the script; after every input let the goroutines run until nothing is enabled *)
  Fixpoint reads (prio : list choice) (fuel : nat) (n : nat) (s : sys) : sys :=
    match n with
    | O => s
    | Datatypes.S n' =>
      match step unm dec s CRead with
      | Some s' => reads prio fuel n' (drain unm dec prio fuel s')
      | None => s
      end
    end.

  Fixpoint play (prio : list choice) (fuel : nat) (l : list celem) (s : sys) : sys :=
    match l with
    | [] => s
    | EItem c _ :: r => play prio fuel r (reads prio fuel (List.length (wire_of c)) s)
    | EPad _ _ :: r => play prio fuel r s
    | EBind (k, id, h) :: r =>
      play prio fuel r (match step unm dec s (CBind k id h) with Some s' => s' | None => s end)
    end.

  Definition script_of (l : list celem) : list rin := flat_map wire_of (citems_of l).

  Definition finish (s : sys) : sys := run unm dec s [CRExit; CDExit; CWExit].
End WithOracles.

Definition prio_a : list choice := [CWrite; CDisp; CTake; CPush].
Definition prio_b : list choice := [CPush; CTake; CDisp; CWrite].

Definition state_matches (st : pstate) (o : observed) : bool :=
  bytes_eqb (o_model o) (g_model st) && bytes_eqb (o_serial o) (g_serial st) && bytes_eqb (o_name o) (g_name st) &&
  Bool.eqb (o_isinit o) (initialised st) &&
  (negb (o_peek o) ||
   (bytes_eqb (o_json o) (g_json st) && bytes_eqb (o_svg o) (g_svg st) &&
    list_eqb (fun a b => (fst a =? fst b) && (snd a =? snd b)) (o_avail o) (g_avail st))).

Definition endcls_eqb (a b : endcls) : bool :=
  match a, b with
  | ELive, ELive | EClosed, EClosed | EPeerClosed, EPeerClosed | ETimeout, ETimeout | ENoConnect, ENoConnect | EOther, EOther => true
  | _, _ => false
  end.

Definition jv_tag (j : jv) : string :=
  match j with
  | JOk => "ok" | JInit => "c19-init" | JStall => "c19-stall" | JEnd => "c19-end" | JAfterFault => "c19-after-fault"
  | JCalls => "c19-calls" | JAcks => "c19-acks" | JFeedback => "c19-feedback" | JState => "c19-state"
  end.

Definition marker_reg : reg := (KTrigger, 9999, mk_handler 9999 1 0 []).

Definition run_case (s : sexp) : sexp :=
  match s with
  | L [S n; L items; I mode; L binds; L [S _; L pre; I latek; L late; I delay]; L _; I _; L [B munit; L mdec]; L topo; obs] =>
    if negb (bytes_eqb n (str "c19")) then v_badcase else
    match dec_list dec_item items, dec_list dec_bind binds, dec_list dec_item pre, dec_list dec_item late,
          dec_list dec_msg mdec, dec_obs obs, dec_list (fun x => match x with L [B j; B d] => Some (j, d) | _ => None end) topo with
    | Some items, Some binds, Some pre, Some late, Some mdec, Some (o, dig), Some topo =>
      let binary := negb (mode =? 0) in
      if negb (forallb (citem_wf binary) (citems_of (pre ++ late ++ items))) then v_badcase else
      let marker := EItem (if binary then IFrame munit None else ILine munit false None) mdec in
      let tab := table_of (marker :: pre ++ late ++ items) in
      let unm := unm_of tab in
      let dec := dec_of tab in
      let lost := latek =? 2 in
      let late_used := if latek =? 1 then late else [] in
      let '(pre_ds, _) := to_dispatch unm dec (citems_of pre) in
      let '(late_ds, _) := to_dispatch unm dec (citems_of late_used) in
      let init := map (fun d => (0, IDeliver d)) pre_ds ++
                  (if lost then [(delay, ILost)] else map (fun d => (delay, IDeliver d)) late_ds) in
      let played := expand marker items in
      let regs := marker_reg :: binds in
      let '(hist1, fault) := if lost then ([], true) else hist_of unm dec played in
      let hist := map HDeliver (pre_ds ++ late_ds) ++ map (fun r : reg => let '(k, id, h) := r in HBind k id h) regs ++ hist1 in
      (* (a) the oracle on the implementation's output *)
      let j := judge init lost hist fault o in
      let topo_ok :=
        negb (o_connect o) || negb (connect_expected init) ||
        match latest f_json [] (delivered hist) with
        | [] => bytes_eqb dig (str "nil")
        | js => match blookup topo js with Some d => bytes_eqb dig d | None => false end
        end in
      match j with
      | JOk =>
        if negb topo_ok then v_specfail "c19-state" (sym "topology")
        else
        (* (b) the model under two schedules *)
        let fuel := Z.to_nat 1000000 in
        let mconn := connect_ok [] st0 init in
        let go prio :=
          let s0 := sys0 binary [] (script_of (pre ++ (if lost then [EItem IClose []] else late_used)) ++ script_of played) in
          let s1 := play unm dec prio fuel (pre ++ (if lost then [EItem IClose []] else late_used)) s0 in
          let s2 := fold_left (fun s (r : reg) => let '(k, id, h) := r in
                                 match step unm dec s (CBind k id h) with Some s' => s' | None => s end) regs s1 in
          finish unm dec (play unm dec prio fuel played s2) in
        let check (s : sys) : option string :=
          if negb (Bool.eqb (o_connect o) mconn) then Some "connect"
          else if negb mconn then None
          else if negb (list_eqb callrec_eqb (s_trace s) (o_calls o)) then Some "calls"
          else if negb (list_eqb titem_eqb (filter is_disp_item (s_wire s)) (o_recv o)) then Some "wire"
          else if negb (state_matches (s_st s) o) then Some "state"
          else if negb (endcls_eqb (o_end o)
                          (if s_rexit s then (if existsb ends_script (citems_of played) then EPeerClosed else EClosed) else ELive))
               then Some "end"
          else if negb (match s_to s, s_ops s, s_from s, s_rpend s with [], [], [], [] => true | _, _, _, _ => s_rexit s end) then Some "not-quiescent"
          else None in
        match (if has_pad items then None else check (go prio_a)), (if has_pad items then None else check (go prio_b)) with
        | None, None =>
          let nontrivial := negb (o_connect o) || fault ||
                            existsb (fun c => match c with CTrigger id _ _ => negb (id =? 9999) | _ => true end) (o_calls o) ||
                            negb (Nat.eqb (count_acks (o_recv o)) 0) in
          v_ok nontrivial
        | Some w, _ => L [sym "mismatch"; sym "schedule-a"; sym w]
        | _, Some w => L [sym "mismatch"; sym "schedule-b"; sym w]
        end
      | _ => v_specfail (jv_tag j) (L [I (zlen (o_calls o)); I (zlen (o_recv o))])
      end
    | _, _, _, _, _, _, _ => v_badcase
    end
  | L [S n; I mode; I nbinds; I nevents; L [I racebuild; I races; I fatal; I callsok; e]] =>
    if negb (bytes_eqb n (str "c19race")) then v_badcase
    else if (races =? 0) && (fatal =? 0) && negb (callsok =? 0) && sym_eqb e "live" then v_ok (negb (racebuild =? 0))
    else v_specfail "c19-race" (L [I races; I fatal; I callsok; e])
  (* back-pressure child: a burst of events while the panel reads nothing for 1.5 s and every handler
     answers with a large state: every event dispatched exactly once, every answer arrives, client live *)
  | L [S n; I mode; I nevents; I fbkb; L [I callsok; I fbok; e]] =>
    if negb (bytes_eqb n (str "c19bp")) then v_badcase
    else if negb (callsok =? 0) && negb (fbok =? 0) && sym_eqb e "live" then v_ok true
    else v_specfail "c19-backpressure" (L [I callsok; I fbok; e])
  | _ => v_badcase
  end.

Definition dispatch_line (line : list Z) : list Z :=
  match parse_sexp line with
  | Some s => print_sexp (run_case s)
  | None => print_sexp (L [sym "badcase"; sym "parse"])
  end.
