(* Correspondence + oracle entry point for C17.  Case kinds (input ... | observed ...):
   (mono W H #data pc bc | ok pix16 bg16 #buf #rgb #gray imgF imgT backF backT)
       CreateFromBytes(W,H,data); SetOLEDPixelColor(pc); SetOLEDBckgColor(bc);
       ok = CreateFromBytes returned no error; buf = GetImgSlice(); rgb / gray = GetImgSliceRGB /
       GetImgSliceGray; imgF / imgT = (w h #rgba) of ConvertToImage(false / true);
       backF / backT = (W H #buf) of CreateFromImage(imgF / imgT)
   (monoh ((W H #data pc bc) ...) ((ok pix16 ... backT) ...))   the same steps, one after another on ONE
       MonoImg object; pc / bc = 1000: that setter is not called in that step
   (gfx ty W H #data tw th | png direct cimg)
       png    = (w h #rgba) decoded from ConvertGfxStateToPngBytes, or (pngerr n) / (err)
       direct = (w h #rgba) of RwpImgToImage(gfx, tw, th)
       cimg   = (w h #rgba) of CreateImgObjectFromRGBBytes / ...GrayBytes (ty 1 / 2), else (none)
   (col c | pix16 bg16)        the two colour setters on the same argument
   (g16 start | #bytes)        RGB16BitToGray(start + k), k = 0..255
   (fromimg W H #rgba | W' H' #buf)   CreateFromImage of an arbitrary image.RGBA
   A panic of the implementation is observed as the symbol `panic`. *)
From RP Require Import Lib.Base Lib.Sexp Model.Mono Model.MonoConv Spec.Clip Spec.TextBox Spec.Conv.
From Coq Require Import String.
Open Scope string_scope.
Open Scope Z_scope.
Open Scope list_scope.

(* indexed view of a long byte list: 64-element chunks in 64-chunk groups, so that one access
   costs about 64 + 64 + len/4096 list steps *)
Fixpoint chunk_fuel {A} (fuel : nat) (d : list A) : list (list A) :=
  match fuel with
  | O => []
  | Datatypes.S f => match d with [] => [] | _ => firstn 64 d :: chunk_fuel f (skipn 64 d) end
  end.
Definition chunk {A} (d : list A) : list (list A) := chunk_fuel (List.length d) d.
Definition chunks (d : list Z) : list (list (list Z)) := chunk (chunk d).
Definition cget (ch : list (list (list Z))) (i : Z) : Z :=
  if i <? 0 then 0
  else nth (Z.to_nat (Z.land i 63))
           (nth (Z.to_nat (Z.land (Z.shiftr i 6) 63)) (nth (Z.to_nat (Z.shiftr i 12)) ch []) []) 0.

(* pixel (c, r) of a mono buffer with wib bytes per row, through the indexed view (c, r >= 0) *)
Definition fpx (ch : list (list (list Z))) (wib : Z) : pix :=
  fun c r => Z.testbit (cget ch (r * wib + c / 8)) (7 - c mod 8).

(* an observed image: width, height, 4 bytes per pixel, row-major *)
Record oimg := mkO { ow : Z; oh : Z; opix : list Z }.
Definition dec_img (s : sexp) : option oimg :=
  match s with L [I w; I h; B p] => Some (mkO w h p) | _ => None end.
Definition oimg_shape_ok (o : oimg) : bool :=
  (0 <=? ow o) && (0 <=? oh o) && (zlen (opix o) =? 4 * ow o * oh o) && bytes_ok (opix o).
(* accessor: zero colour outside, like image.RGBA.At *)
Definition oacc (o : oimg) : accessor :=
  let ch := chunks (opix o) in
  fun x y => if r_in (ow o) (oh o) x y
             then let k := 4 * (y * ow o + x) in (cget ch k, cget ch (k + 1), cget ch (k + 2), cget ch (k + 3))
             else c_zero.

(* model images as pixel lists *)
Definition tabulate (w h : Z) (f : Z -> Z -> rgba) : list Z :=
  flat_map (fun y => flat_map (fun x => let '(r, g, b, a) := f x y in [r; g; b; a]) (zseq w)) (zseq h).

Definition spec (tag : string) (a b : Z) : sexp := L [sym "specfail"; sym tag; I a; I b].
Definition mism (what : string) : sexp := L [sym "mismatch"; sym what].

(* ---------- (mono ...) ---------- *)
Definition run_mono (W H : Z) (data : list Z) (pc bc : Z) (obs : list sexp) : sexp :=
  match obs with
  | [I ok; I pix16; I bg16; B buf; B rgb; B gray; oF; oT; L [I bw1; I bh1; B back1]; L [I bw2; I bh2; B back2]] =>
    match dec_img oF, dec_img oT with
    | Some iF, Some iT =>
      let wib := (W + 7) / 8 in
      let pbuf := fpx (chunks buf) wib in
      let m0 := create_from_bytes W H data in
      (* 1000 = the setter is not called: the colour stays as the (re-)initialisation left it *)
      let m1 := if pc =? 1000 then fst m0 else set_pixel_color (fst m0) pc in
      let m := if bc =? 1000 then m1 else set_bckg_color m1 bc in
      (* --- the property, judged on the implementation's outputs --- *)
      if negb (bytes_ok buf && bytes_ok rgb && bytes_ok gray && (wib * H <=? zlen buf)) then spec "c17-shape" 0 0
      else if ((0 <=? pc) && (pc <? 64) && negb (pix16 =? rgb565_of_6bit pc)) || ((0 <=? bc) && (bc <? 64) && negb (bg16 =? rgb565_of_6bit bc))
      then spec "c17-colour565" pc bc
      else if negb (rgb_export_ok_p W H pbuf pix16 bg16 (zlen rgb) (cget (chunks rgb))) then spec "c17-rgb-export" W H
      else if (W mod 2 =? 0) && negb (gray_export_ok_p W H pbuf pix16 bg16 (zlen gray) (cget (chunks gray))) then spec "c17-gray-export" W H
      else if negb (oimg_shape_ok iF && oimg_shape_ok iT && (ow iF =? W) && (oh iF =? H) && (ow iT =? W) && (oh iT =? H))
      then spec "c17-image-size" W H
      else if negb ((bw1 =? W) && (bh1 =? H) && (zlen back1 =? wib * H) && visible_equal_p W H pbuf (fpx (chunks back1) wib) false)
      then spec "c17-roundtrip" W H
      else if negb ((bw2 =? W) && (bh2 =? H) && (zlen back2 =? wib * H) && visible_equal_p W H pbuf (fpx (chunks back2) wib) true)
      then spec "c17-roundtrip-inverted" W H
      (* --- model vs implementation --- *)
      else if negb (Bool.eqb (snd m0) (negb (ok =? 0)) && bytes_eqb (idata m) buf) then mism "create_from_bytes"
      else if negb ((ipixc m =? pix16) && (ibckg m =? bg16)) then mism "colours"
      else if negb (bytes_eqb (rgb_slice m) rgb) then mism "rgb_slice"
      else if negb (bytes_eqb (gray_slice m) gray) then mism "gray_slice"
      else
        let get := cget (chunks buf) in
        let mF := mkRaster W H (to_image_at get false W H wib) in
        let mT := mkRaster W H (to_image_at get true W H wib) in
        if negb (bytes_eqb (tabulate W H (rat mF)) (opix iF)) then mism "to_image_false"
        else if negb (bytes_eqb (tabulate W H (rat mT)) (opix iT)) then mism "to_image_true"
        else if negb (bytes_eqb (idata (from_image mF)) back1 && bytes_eqb (idata (from_image mT)) back2) then mism "from_image"
        else v_ok (0 <? W * H)
    | _, _ => spec "c17-panic" W H
    end
  | _ => spec "c17-panic" W H
  end.

(* ---------- (monoh (steps) (observations)) : a history of steps on ONE object ----------
   every step is judged like a fresh (mono ...) case: re-initialisation makes the object forget
   everything, so the model of a step does not depend on the earlier ones; the first verdict that is not
   ok is the history's verdict *)
Definition verdict_ok (v : sexp) : bool :=
  match v with L (S n :: _) => bytes_eqb n (str "ok") | _ => false end.
Definition verdict_nontrivial (v : sexp) : bool :=
  match v with L [S _; I b] => negb (b =? 0) | _ => false end.
Fixpoint run_monoh (steps obss : list sexp) (k : Z) (nt : bool) : sexp :=
  match steps, obss with
  | [], [] => v_ok nt
  | L [I W; I H; B data; I pc; I bc] :: ss, L obs :: os =>
    if (W <? 0) || (H <? 0) || negb (bytes_ok data) then v_badcase else
    let v := run_mono W H data pc bc obs in
    if verdict_ok v then run_monoh ss os (k + 1) (nt || ((0 <? k) && verdict_nontrivial v)) else v
  | _, _ => v_badcase
  end.

(* ---------- (gfx ...) ---------- *)
Definition all_black (o : oimg) : bool :=
  let fix go (l : list Z) : bool :=
    match l with
    | r :: g :: b :: a :: t => (r =? 0) && (g =? 0) && (b =? 0) && (a =? 255) && go t
    | [] => true
    | _ => false
    end in go (opix o).

Definition run_gfx (ty W H : Z) (data : list Z) (tw th : Z) (obs : list sexp) : sexp :=
  match obs with
  | [opng; odirect; ocimg] =>
    let len := zlen data in
    let get := cget (chunks data) in
    let known := (0 <=? ty) && (ty <=? 2) in
    let ox := centre_offset tw W in let oy := centre_offset th H in
    match dec_img odirect with
    | None => spec "c17-panic" W H
    | Some d =>
      (* direct rendering: declared canvas size, expansion at covered pixels *)
      if negb (oimg_shape_ok d && (ow d =? tw) && (oh d =? th)) then spec "c17-declared-size-direct" tw th
      else if negb (expansion_ok_p ty W H len get (let ad := oacc d in fun x y => if r_in tw th (x + ox) (y + oy) then ad (x + ox) (y + oy) else expansion_p ty W get x y))
      then spec "c17-expansion-direct" W H
      else
        let mdirect := tabulate tw th (rwp_at len get ty W H tw th) in
        let via (o : sexp) (what : string) (k : oimg -> sexp) : sexp :=
          match dec_img o with
          | Some p =>
            if negb (oimg_shape_ok p && (ow p =? W) && (oh p =? H)) then spec ("c17-declared-size-" ++ what) W H
            else
              let short_mono := (ty =? 0) && (len <? (W + 7) / 8 * H) in
              let ap := oacc p in
              if negb (expansion_ok_p ty W H len get ap) then
                (if short_mono && all_black p then spec "c17-mono-short-data-discarded" W len else spec ("c17-expansion-" ++ what) W H)
              else if negb (agree_ok ty W H len tw th ox oy (oacc d) ap) then
                (if short_mono && all_black p then spec "c17-mono-short-data-discarded" W len else spec ("c17-agree-" ++ what) W H)
              else k p
          | None => spec "c17-panic" W H
          end in
        (* gfx_state_at (mkGfx ty W H data), read through indexed views of the data *)
        let model_png :=
          if ty =? 0 then
            let i := fst (create_from_bytes W H (pad_mono W H data)) in
            tabulate W H (to_image_at (cget (chunks (idata i))) true W H (gwib (ig i)))
          else tabulate W H (img_from_at len get ty W H) in
        let check_model (p : option oimg) (c : option oimg) : sexp :=
          if negb (bytes_eqb mdirect (opix d)) then mism "rwp_to_image"
          else match p with
               | Some p' => if negb (bytes_eqb model_png (opix p')) then mism "gfx_state_image" else
                            match c with
                            | Some c' => if negb (bytes_eqb (tabulate W H (img_from_at len get ty W H)) (opix c')) then mism "img_from" else v_ok (0 <? W * H)
                            | None => v_ok (0 <? W * H)
                            end
               | None => v_ok false
               end in
        if negb known then
          (* unknown image type: no image to render; the direct routine leaves the canvas black *)
          match opng with
          | L [S e] => if bytes_eqb e (str "err") then check_model None None else spec "c17-unknown-type" ty 0
          | _ => spec "c17-unknown-type" ty 0
          end
        else
          match opng with
          | L [S e; I n] =>
            (* the PNG codec cannot represent an image without pixels: only then is an
               undecodable result accepted *)
            if bytes_eqb e (str "pngerr") && ((W =? 0) || (H =? 0)) then check_model None None
            else spec "c17-png-undecodable" W H
          | _ =>
            via opng "png" (fun p =>
              match ocimg with
              | L [S e] => if bytes_eqb e (str "none") && (ty =? 0) then check_model (Some p) None else spec "c17-panic" W H
              | _ => via ocimg "cimg" (fun c => check_model (Some p) (Some c))
              end)
          end
    end
  | _ => spec "c17-panic" W H
  end.

(* ---------- small kinds ---------- *)
Definition run_col (c : Z) (obs : list sexp) : sexp :=
  match obs with
  | [I p; I b] =>
    if (0 <=? c) && (c <? 64) && negb ((p =? rgb565_of_6bit c) && (b =? rgb565_of_6bit c)) then spec "c17-colour565" c p
    else if negb ((oled_color c =? p) && (oled_color c =? b)) then mism "oled_color"
    else v_ok true
  | _ => spec "c17-panic" c 0
  end.

Definition run_g16 (start : Z) (obs : list sexp) : sexp :=
  match obs with
  | [B out] =>
    let cols := map (fun k => start + k) (zseq 256) in
    if negb ((zlen out =? 256) && (0 <=? start) && (start + 255 <? 65536)) then v_badcase
    else if negb (forallb (fun p => fst p / 16 =? luma_nibble (snd p)) (combine out cols)) then spec "c17-luma" start 0
    else if negb (bytes_eqb (map rgb16_to_gray cols) out) then mism "rgb16_to_gray"
    else v_ok true
  | _ => spec "c17-panic" start 0
  end.

Definition run_fromimg (W H : Z) (pix : list Z) (obs : list sexp) : sexp :=
  match obs with
  | [I w'; I h'; B buf] =>
    let src := mkO W H pix in
    if negb (oimg_shape_ok src) then v_badcase
    else if negb ((w' =? W) && (h' =? H) && (zlen buf =? (W + 7) / 8 * H)) then spec "c17-image-size" W H
    else if negb (bytes_eqb (idata (from_image (mkRaster W H (oacc src)))) buf) then mism "from_image"
    else v_ok (0 <? W * H)
  | _ => spec "c17-panic" W H
  end.

Definition run_case (s : sexp) : sexp :=
  match s with
  | L (S n :: rest) =>
    let is k := bytes_eqb n (str k) in
    if is "mono" then
      match rest with
      | I W :: I H :: B data :: I pc :: I bc :: obs =>
        if (W <? 0) || (H <? 0) || negb (bytes_ok data) then v_badcase else run_mono W H data pc bc obs
      | _ => v_badcase
      end
    else if is "monoh" then
      match rest with
      | [L steps; L obss] => run_monoh steps obss 0 false
      | _ => v_badcase
      end
    else if is "gfx" then
      match rest with
      | I ty :: I W :: I H :: B data :: I tw :: I th :: obs =>
        if (W <? 0) || (H <? 0) || (tw <? 0) || (th <? 0) || negb (bytes_ok data) then v_badcase else run_gfx ty W H data tw th obs
      | _ => v_badcase
      end
    else if is "fromimg" then
      match rest with
      | I W :: I H :: B pix :: obs => if (W <? 0) || (H <? 0) then v_badcase else run_fromimg W H pix obs
      | _ => v_badcase
      end
    else if is "col" then match rest with I c :: obs => run_col c obs | _ => v_badcase end
    else if is "g16" then match rest with I c :: obs => run_g16 c obs | _ => v_badcase end
    else v_badcase
  | _ => v_badcase
  end.

Definition dispatch_line (line : list Z) : list Z :=
  match parse_sexp line with
  | Some s => print_sexp (run_case s)
  | None => print_sexp (L [sym "badcase"; sym "parse"])
  end.
