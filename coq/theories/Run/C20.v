(* Correspondence + oracle entry point for C20.
   case = (txt font prop spacing h v wrap cx cy dx dy ((b0) (b1) ...) W H
               strw lineh strw1 lineh1 #widths bufA bufB bufC)
   input : font 0..2, proportional flag, charSpacingCompensation, text size (h,v), wrap flag,
           cursor (cx,cy), cursor offset (dx,dy), the string's bytes (one per sub-list so that
           the generic shrinker can delete bytes), canvas W x H (NewImage, text colour on).
   observed on the implementation:
           StrWidth / LineHeight at size (h,v) and at size (1,1), GetCharWidth of every
           byte(rune) of the string, GetImgSlice() after RenderText at (cx,cy) size (h,v) [A],
           at (cx+dx,cy+dy) size (h,v) [B], at (cx,cy) size (1,1) [C]; `panic` if it panicked.
   second kind - STATEFUL sequences on ONE image object (NewImage W H; SetTextColor(true)):
     (seq W H ((op ...) ...) (obs ...))   one observation per operation
       (font n p) (tsz h v) (spc s) (cur x y) (wrap b) -> 0
       (clr)      FillRect(0,0,W,H,false)              -> #buf
       (sw #str)  StrWidth(str)                         -> width
       (lh)       LineHeight()                          -> height
       (txt #str) StrWidth(str), LineHeight(), RenderText(str) -> (width height #buf)
     every (txt) is judged by the box law with the metrics reported AT THAT MOMENT, the cursor
     of the last (cur) (if no rendering moved it since), the size step of the last (tsz), on the
     pixels that changed between the previous and the new buffer; the model threads the same state.
   (a) model vs implementation: all of the above; (b) the laws of Spec/TextBox.v evaluated on
   the implementation's buffers and reported metrics only. *)
From RP Require Import Lib.Base Lib.Utf8 Lib.Sexp Model.Mono Spec.Clip Spec.TextBox.
From Coq Require Import String.
Open Scope string_scope.
Open Scope Z_scope.
Open Scope list_scope.

Definition mk_t (f : Z) (p : bool) (s h v : Z) (wr : bool) : tstate :=
  set_wrap (set_text_color (set_spacing (set_text_size (set_font init_t f p) h v) s) true) wr.

Definition model_render (W H : Z) (t : tstate) (cx cy : Z) (s : list Z) : list Z :=
  let m := new_image W H in
  snd (render_text (ig m) s (set_cursor t cx cy, idata m)).

Fixpoint dec_str (l : list sexp) : option (list Z) :=
  match l with
  | [] => Some []
  | L [I b] :: r => let? bs := dec_str r in Some (b :: bs)
  | _ => None
  end.

(* failures of the literal laws; [known] = attributable to a recorded corner (narrow tag) *)
Inductive failure := Alarm (tag : string) | Known (tag : string).

Definition first_alarm (fs : list failure) : option string :=
  match filter (fun f => match f with Alarm _ => true | Known _ => false end) fs with
  | Alarm t :: _ => Some t
  | _ => None
  end.
Definition first_known (fs : list failure) : option string :=
  match filter (fun f => match f with Known _ => true | Alarm _ => false end) fs with
  | Known t :: _ => Some t
  | _ => None
  end.

(* indexed view of a buffer: list of rows, so that a pixel access costs O(H + wib) instead of
   O(wib * H).  fpx (rows_of wib d) c r = px wib d c r for 0 <= c < 8*wib, 0 <= r
   (Proofs/TextOracle.v); outside the canvas the laws only use it under [vis]. *)
Fixpoint rows_of_fuel (fuel : nat) (n : nat) (d : list Z) : list (list Z) :=
  match fuel with
  | O => []
  | Datatypes.S f => match d with [] => [] | _ => firstn n d :: rows_of_fuel f n (skipn n d) end
  end.
Definition rows_of (wib : Z) (d : list Z) : list (list Z) :=
  if wib <=? 0 then [] else rows_of_fuel (List.length d) (Z.to_nat wib) d.
Definition fpx (rows : list (list Z)) : pix :=
  fun c r => Z.testbit (nth (Z.to_nat (Z.shiftr c 3)) (nth (Z.to_nat r) rows []) 0) (7 - Z.land c 7).

Section Judge.
  Variables (W H : Z) (s h v cx cy dx dy : Z) (cs ws : list Z).
  Variables (strw lineh strw1 lineh1 : Z) (bA bB bC : list Z).
  Let wib := (W + 7) / 8.
  Let pA := fpx (rows_of wib bA).
  Let pB := fpx (rows_of wib bB).
  Let pC := fpx (rows_of wib bC).
  Let p0 : pix := fun _ _ => false.   (* the blank canvas every rendering starts from *)

  (* documented behaviour: each rendering is, glyph by glyph, the enlarged size-1 rendering,
     laid out by the cursor rules with the REPORTED widths and line heights *)
  Definition fits_all : bool :=
    layout_fits W H cs ws s h lineh cx cy && layout_fits W H cs ws s h lineh (cx + dx) (cy + dy)
    && layout_fits W H cs ws s 1 lineh1 cx cy.
  Definition glyph_ok (_ : unit) : bool :=
    (lineh =? v * lineh1) &&
    glyph_law_p W H pA pC cs ws s h v lineh1 cx cy cx cy
    && glyph_law_p W H pB pC cs ws s h v lineh1 (cx + dx) (cy + dy) cx cy.

  (* ink inside the cells of the documented layout (line by line) *)
  Definition cells_box (p : pix) (hh vv x y : Z) (_ : unit) : bool :=
    all_rect 0 0 (8 * wib) H (fun c r => negb (p c r) ||
      match src_pixel cs ws s hh vv lineh1 x y x y c r with Some _ => true | None => false end).

  Definition lf := has_lf cs.
  Definition f17_scope : bool := (0 <? s) && (1 <? h) && (2 <=? zlen (drawn cs)).

  (* Verdicts.  F16 "manifests" when the one-line box fails although all ink sits in the cells
     of the documented multi-line layout; then (and only then) translation / scaling failures of
     the same case are attributed to it as well, provided the glyph-wise law holds. *)
  Definition judge : list failure :=
    let box_fail (p : pix) (x y sw sh lh' : Z) (multi : unit -> bool) : list failure :=
      if box_law_p (8 * wib) H p0 p x y sw sh lh' then []
      else if lf && multi tt then [Known "c20-lf"] else [Alarm "c20-box"] in
    let boxes :=
      box_fail pA cx cy strw h lineh (cells_box pA h v cx cy)
      ++ box_fail pB (cx + dx) (cy + dy) strw h lineh (cells_box pB h v (cx + dx) (cy + dy))
      ++ box_fail pC cx cy strw1 1 lineh1 (cells_box pC 1 1 cx cy) in
    let f16 := match boxes with [] => false | _ => true end in
    boxes ++
    (* (2), (3): only on canvases large enough not to clip *)
    (if fits_all then
       let tr := translation_law_p W H pA pB dx dy in
       let sc := scale_law_p W H pA pC cx cy h v in
       (* the glyph-wise law is claimed for every string; outside {LF, spacing > 0} it follows
          from the whole-string law and the boxes, so it is evaluated there only on a failure *)
       let gok := if lf || (0 <? s) || negb tr || negb sc then glyph_ok tt else true in
       (if tr then [] else if f16 && gok then [Known "c20-lf"] else [Alarm "c20-translate"])
       ++
       (if sc then []
        else if gok && f17_scope then [Known "c20-scale-spacing"]
        else if gok && f16 then [Known "c20-lf"] else [Alarm "c20-scale"])
       ++
       (if gok then [] else [Alarm "c20-glyph"])
     else []).
End Judge.

Definition nonblank (d : list Z) : bool := existsb (fun b => negb (b =? 0)) d.

Definition run_case (sx : sexp) : sexp :=
  match sx with
  | L [S n; I f; I p; I s; I h; I v; I wr; I cx; I cy; I dx; I dy; L strl; I W; I H;
       I strw; I lineh; I strw1; I lineh1; B ws; oA; oB; oC] =>
    if negb (bytes_eqb n (str "txt")) then v_badcase else
    match dec_str strl with
    | None => v_badcase
    | Some bs =>
      if (W <? 0) || (H <? 0) || (h <? 1) || (v <? 1) || (s <? 0) || (255 <? s) || negb (bytes_ok bs) then v_badcase else
      let t := mk_t f (negb (p =? 0)) s h v (negb (wr =? 0)) in
      let t1 := mk_t f (negb (p =? 0)) s 1 1 (negb (wr =? 0)) in
      let cs := range_bytes bs in
      let mA := model_render W H t cx cy bs in
      let mB := model_render W H t (cx + dx) (cy + dy) bs in
      let mC := model_render W H t1 cx cy bs in
      let mws := map (char_width t) cs in
      match oA, oB, oC with
      | B bA, B bB, B bC =>
        let wib := (W + 7) / 8 in
        if negb ((zlen bA =? wib * H) && (zlen bB =? wib * H) && (zlen bC =? wib * H)
                 && bytes_ok bA && bytes_ok bB && bytes_ok bC && (zlen ws =? zlen cs))
        then L [sym "specfail"; sym "c20-shape"; I (zlen bA)] else
        let fs := if wr =? 0 then judge W H s h v cx cy dx dy cs ws strw lineh strw1 lineh1 bA bB bC else [] in
        match first_alarm fs with
        | Some tag => L [sym "specfail"; S (str tag); I cx; I cy]
        | None =>
          if negb ((str_width t bs =? strw) && (line_height t =? lineh)
                   && (str_width t1 bs =? strw1) && (line_height t1 =? lineh1) && bytes_eqb mws ws)
          then L [sym "mismatch"; sym "metrics"; I (str_width t bs); I (line_height t); I (str_width t1 bs); I (line_height t1); B mws]
          else if negb (bytes_eqb mA bA) then L [sym "mismatch"; sym "A"; B mA]
          else if negb (bytes_eqb mB bB) then L [sym "mismatch"; sym "B"; B mB]
          else if negb (bytes_eqb mC bC) then L [sym "mismatch"; sym "C"; B mC]
          else match first_known fs with
               | Some tag => L [sym "specfail"; S (str tag); I cx; I cy]
               | None => v_ok ((wr =? 0) && nonblank bA && fits_all W H s h cx cy dx dy cs ws lineh lineh1)
               end
        end
      | _, _, _ => L [sym "specfail"; sym "c20-panic"; I 0]
      end
    end
  | _ => v_badcase
  end.

(* ---------- stateful sequences ---------- *)
Inductive sop :=
| SSet (o : op)            (* a setter: font / tsz / spc / cur / wrap *)
| SClr
| SWidth (str : list Z)
| SHeight
| SText (str : list Z).

Definition dec_sop (sx : sexp) : option sop :=
  match sx with
  | L (S n :: args) =>
    let is k := bytes_eqb n (str k) in
    match args with
    | [I a; I b] =>
      if is "font" then Some (SSet (OSetFont a (negb (b =? 0))))
      else if is "tsz" then Some (SSet (OSetTextSize a b))
      else if is "cur" then Some (SSet (OSetCursor a b)) else None
    | [I a] =>
      if is "spc" then (if (0 <=? a) && (a <? 256) then Some (SSet (OSetSpacing a)) else None)
      else if is "wrap" then Some (SSet (OSetWrap (negb (a =? 0)))) else None
    | [B b] =>
      if negb (bytes_ok b) then None
      else if is "sw" then Some (SWidth b) else if is "txt" then Some (SText b) else None
    | [] => if is "clr" then Some SClr else if is "lh" then Some SHeight else None
    | _ => None
    end
  | _ => None
  end.

Fixpoint dec_sops (l : list sexp) : option (list sop) :=
  match l with
  | [] => Some []
  | x :: r => let? o := dec_sop x in let? os := dec_sops r in Some (o :: os)
  end.

(* [m]: model image (state + buffer); [prev]: the implementation's previous buffer;
   [cur]: is the cursor still where the last (cur) put it? *)
(* [lastw]: the width the implementation last REPORTED for a string (an [sw] step) while no metric
   setting (font, mode, size, spacing, wrap) has changed since: a later rendering of that very string is
   judged against that report too - callers measure first and draw later (seed C20-6: a memo that
   survives SetFont makes only the FIRST measurement after the change wrong). *)
Fixpoint walk_seq (W H : Z) (m : img) (prev : list Z) (cur : bool) (ops : list sop) (obs : list sexp)
                  (k : Z) (nt : bool) (pending : option sexp) (lastw : option (list Z * Z)) : sexp :=
  let wib := (W + 7) / 8 in
  match ops, obs with
  | [], [] => match pending with Some v => v | None => v_ok nt end
  | o :: ops', ob :: obs' =>
    let fail (v : sexp) := match pending with Some p => p | None => v end in
    match o, ob with
    | SSet so, I _ =>
      let cur' := match so with OSetCursor _ _ => true | _ => cur end in
      let lastw' := match so with OSetCursor _ _ => lastw | _ => None end in
      walk_seq W H (run_op m so) prev cur' ops' obs' (k + 1) nt pending lastw'
    | SClr, B buf =>
      (* FillRect is C16's subject; here the cleared canvas is simply required to be blank *)
      if negb ((zlen buf =? wib * H) && forallb (Z.eqb 0) buf) then fail (L [sym "mismatch"; sym "clr"; I k])
      else walk_seq W H (with_data m buf) buf cur ops' obs' (k + 1) nt pending lastw
    | SWidth b, I w =>
      let pend := if str_width (it m) b =? w then pending
                  else match pending with Some p => Some p | None => Some (L [sym "mismatch"; sym "strwidth"; I k; I (str_width (it m) b)]) end in
      walk_seq W H m prev cur ops' obs' (k + 1) nt pend (Some (b, w))
    | SHeight, I h =>
      let pend := if line_height (it m) =? h then pending
                  else match pending with Some p => Some p | None => Some (L [sym "mismatch"; sym "lineheight"; I k; I (line_height (it m))]) end in
      walk_seq W H m prev cur ops' obs' (k + 1) nt pend lastw
    | SText b, L [I w; I h; B buf] =>
      let t := it m in
      let judged := cur && negb (twrap t) && negb (has_lf (range_bytes b)) in
      if negb ((zlen buf =? wib * H) && bytes_ok buf) then L [sym "specfail"; sym "c20-shape"; I k]
      else if judged && negb (box_law_p (8 * wib) H (fpx (rows_of wib prev)) (fpx (rows_of wib buf)) (tcx t) (tcy t) w (tsh t) h)
      then L [sym "specfail"; sym "c20-box"; I k; I w]       (* a spec failure outranks any pending mismatch *)
      else if judged && match lastw with
                        | Some (b', w') => bytes_eqb b' b && negb (w' =? w)
                                           && negb (box_law_p (8 * wib) H (fpx (rows_of wib prev)) (fpx (rows_of wib buf)) (tcx t) (tcy t) w' (tsh t) h)
                        | None => false
                        end
      then L [sym "specfail"; sym "c20-box"; I k; I (match lastw with Some (_, w') => w' | None => w end)]
      else
        let m' := run_op m (OText b) in
        let pend :=
          if (str_width t b =? w) && (line_height t =? h) && bytes_eqb (idata m') buf then pending
          else match pending with Some p => Some p | None => Some (L [sym "mismatch"; sym "txt"; I k; I (str_width t b); I (line_height t)]) end in
        (* keep going on the IMPLEMENTATION's buffer so that later renderings are still judged *)
        walk_seq W H (with_data m' buf) buf false ops' obs' (k + 1) (nt || (judged && negb (bytes_eqb prev buf))) pend lastw
    | _, _ => L [sym "specfail"; sym "c20-panic"; I k]
    end
  | _, _ => v_badcase
  end.

Definition run_seq (W H : Z) (ops obs : list sexp) : sexp :=
  if (W <? 0) || (H <? 0) then v_badcase else
  match dec_sops ops with
  | None => v_badcase
  | Some sops =>
    let m := run_op (new_image W H) (OSetTextColor true) in
    walk_seq W H m (idata m) false sops obs 0 false None None
  end.

Definition run_any (sx : sexp) : sexp :=
  match sx with
  | L [S n; I W; I H; L ops; L obs] => if bytes_eqb n (str "seq") then run_seq W H ops obs else run_case sx
  | _ => run_case sx
  end.

Definition dispatch_line (line : list Z) : list Z :=
  match parse_sexp line with
  | Some s => print_sexp (run_any s)
  | None => print_sexp (L [sym "badcase"; sym "parse"])
  end.
