(* Correspondence + oracle entry point for C13.
   case = (c13 <topology value> (<query> ...)); the topology is a generic value of the
   REGENERATED schema (Gen/TopoSchema.v) printed by the Go harness by reflection; every query
   carries the implementation's observed answer and a flag "the topology's serialised form /
   deep fingerprint changed during this look-up".
   Each answer is (a) judged by the spec predicates of Spec/Topo.v, independently of the
   model, and (b) compared with the model's answer. *)
From RP Require Import Lib.Base Lib.Sexp Lib.Strings Lib.JsonTree Gen.TopoSchema Model.Topo Spec.Topo.
From Coq Require Import String.
Local Open Scope string_scope.
Open Scope Z_scope.

Definition td_ty : ty := match typedef_ty_of topo_schema with Some t => t | None => TUnsupported [] end.
Definition hw_ty : ty := match hwc_ty_of topo_schema with Some t => t | None => TUnsupported [] end.
Definition dp_ty : ty := match sub_ty "Disp" td_ty with Some (TPtr t) => t | _ => TUnsupported [] end.

Definition dec_td (s : sexp) : option typedef :=
  let? v := val_of_sexp td_ty s in typedef_of_val td_ty v.
Definition dec_hw (s : sexp) : option hwc :=
  let? v := val_of_sexp hw_ty s in hwc_of_val hw_ty v.
Definition dec_topo (s : sexp) : option topology :=
  let? v := val_of_sexp topo_schema s in topo_of_val topo_schema v.

Definition dec_preds (s : sexp) : option preds :=
  match s with
  | L [B inp; I b1; I b2; I b3; I b4; I b5; I b6; di; I b7; I st; I lb; I b8] =>
    let? d := match di with
              | S _ => Some None
              | L [S _; x] => let? v := val_of_sexp dp_ty x in
                              match disp_of_val dp_ty v with Some d => Some (Some d) | None => None end
              | _ => None
              end in
    let nz z := negb (z =? 0) in
    Some (Preds inp (nz b1) (nz b2) (nz b3) (nz b4) (nz b5) (nz b6) d (nz b7) st lb (nz b8))
  | _ => None
  end.

Definition preds_eqb (a b : preds) : bool :=
  bytes_eqb (pInput a) (pInput b) && Bool.eqb (pButton a) (pButton b) && Bool.eqb (pBinary a) (pBinary b)
  && Bool.eqb (pPulsed a) (pPulsed b) && Bool.eqb (pAbsolute a) (pAbsolute b) && Bool.eqb (pIntensity a) (pIntensity b)
  && Bool.eqb (pDisplay a) (pDisplay b) && opt_eqb disp_eqb (pDispInfo a) (pDispInfo b) && Bool.eqb (pLED a) (pLED b)
  && (pSteps a =? pSteps b) && (pLedBar a =? pLedBar b) && Bool.eqb (pMotor a) (pMotor b).

(* the spec's reading of the token predicates, on an observed predicate tuple *)
Definition preds_spec_ok (d : typedef) (p : preds) : bool :=
  bytes_eqb (pInput p) (first_token (tIn d)) && Bool.eqb (pButton p) (button_spec d)
  && Bool.eqb (pBinary p) (binary_spec d) && Bool.eqb (pPulsed p) (pulsed_spec d)
  && Bool.eqb (pAbsolute p) (absolute_spec d) && Bool.eqb (pIntensity p) (intensity_spec d)
  && Bool.eqb (pDisplay p) (ne_disp (tDisp d)) && opt_eqb disp_eqb (pDispInfo p) (tDisp d).

Inductive verdict := VOk (nontrivial : bool) | VMis (what : sexp) | VSpec (tag : string) (what : sexp) | VBad.

Definition spec_then (ok : bool) (tag : string) (what : sexp) (rest : verdict) : verdict :=
  if ok then rest else VSpec tag what.
Definition model_then (ok : bool) (what : sexp) (nt : bool) : verdict :=
  if ok then VOk nt else VMis what.

Definition res_td_eqb (a : res typedef) (b : option typedef) : bool :=   (* b = None: observed panic *)
  match a, b with
  | Ok x, Some y => typedef_eqb x y
  | Panic _, None => true
  | _, _ => false
  end.

Definition dec_res2 (s : sexp) : option (option typedef) :=
  match s with
  | S _ => Some None
  | L [S _; x] => let? d := dec_td x in Some (Some d)
  | _ => None
  end.

Definition nth_hwc (t : topology) (k : Z) : option hwc :=
  if (0 <=? k) && (k <? zlen (tpHWc t)) then Some (znth zero_hwc (tpHWc t) k) else None.

Definition is_panic (s : sexp) : bool := sym_eqb s "panic".

Definition judge_query (t : topology) (q : sexp) : verdict :=
  match q with
  | L (S n :: args) =>
    let is k := bytes_eqb n (str k) in
    (* a look-up that panics: only GetHWCTypeDefinition with a negative slice position may
       (outside the property: it takes a position, not an id) *)
    if existsb is_panic args &&
       negb (is "t2idx" && match args with I k :: _ => k <? 0 | _ => false end)
    then VSpec "c13-panic" q
    else
    match args with
    | [L ids; I mut] =>
      match get_ints ids with
      | None => VBad
      | Some ids =>
        spec_then (mut =? 0) "c13-mutated" q
          (if is "hwcs" then model_then (list_eqb Z.eqb ids (get_hwcs t)) q false
           else if is "disps" then
             spec_then (list_eqb Z.eqb ids
                          (map hId (filter (fun h => ne_disp (tDisp (resolve_spec (base_of t h) (hOv h)))) (tpHWc t))))
                       "c13-with-display" q
               (model_then (list_eqb Z.eqb ids (get_with_display t)) q false)
           else VBad)
      end
    | [I id; I x; I y; I mut] =>
      if is "xy" then
        spec_then (mut =? 0) "c13-mutated" q
          (spec_then (match first_with_id t id with
                      | Some h => (x =? hX h) && (y =? hY h)
                      | None => (x =? fst notfound_xy) && (y =? snd notfound_xy)
                      end) "c13-lookup" q
             (model_then (let '(mx, my) := get_xy t id in (mx =? x) && (my =? y)) q false))
      else VBad
    | [I id; B txt; I mut] =>
      if is "text" then
        spec_then (mut =? 0) "c13-mutated" q
          (spec_then (match first_with_id t id with
                      | Some h => bytes_eqb txt (hTxt h)
                      | None => bytes_eqb txt notfound_text
                      end) "c13-lookup" q
             (model_then (bytes_eqb (get_text t id) txt) q false))
      else VBad
    | [I id; r; I mut] =>
      if is "type" then
        spec_then (mut =? 0) "c13-mutated" q
          match r, first_with_id t id with
          | L [S _; B msg], None =>                       (* (err #msg) *)
            spec_then (bytes_eqb msg (notfound_msg id)) "c13-notfound" q
              (model_then (match get_type t id with inr m => bytes_eqb m msg | _ => false end) q false)
          | L [S _; dx; p1; p2], Some h =>                (* (ok def preds preds-on-copy) *)
            match dec_td dx, dec_preds p1, dec_preds p2 with
            | Some d, Some p1, Some p2 =>
              spec_then (resolved_ok (base_of t h) (hOv h) d) "c13-overlay" q
                (spec_then (preds_eqb p1 p2 && preds_spec_ok d p1) "c13-predicates" q
                   (model_then (match get_type t id with inl m => typedef_eqb m d | _ => false end
                                && preds_eqb (preds_of d) p1) q
                               (match hOv h with Some _ => negb (typedef_eqb d (base_of t h)) | None => false end)))
            | _, _, _ => VBad
            end
          | L [S _; B _], Some _ => VSpec "c13-lookup" q    (* present id reported as not found *)
          | L [S _; _; _; _], None => VSpec "c13-notfound" q
          | _, _ => VBad
          end
      else if is "ov" then
        spec_then (mut =? 0) "c13-mutated" q
          match dec_td r, nth_hwc t id with
          | Some d, Some h =>
            spec_then (resolved_ok (base_of t h) (hOv h) d) "c13-overlay" q
              (model_then (typedef_eqb (resolve1 t h) d) q
                          (match hOv h with Some _ => negb (typedef_eqb d (base_of t h)) | None => false end))
          | _, _ => VBad
          end
      else if is "t2idx" then
        spec_then (mut =? 0) "c13-mutated" q
          match dec_res2 r with
          | None => VBad
          | Some obs =>
            let spec_ok :=
              match nth_hwc t id with
              | Some h =>
                if indexed t (hType h) then
                  match obs with
                  | Some d => shared9 d (resolve_spec (base_of t h) (hOv h))
                  | None => false
                  end
                else true                                    (* unindexed type: outside the agreement clause *)
              | None => if id >=? zlen (tpHWc t) then
                          match obs with Some d => typedef_eqb d zero_td | None => false end
                        else true                            (* negative index: outside the property *)
              end in
            spec_then spec_ok "c13-resolvers-agree" q (model_then (res_td_eqb (resolve2_idx t id) obs) q false)
          end
      else if is "t2id" then
        spec_then (mut =? 0) "c13-mutated" q
          match dec_res2 r with
          | None => VBad
          | Some obs =>
            let spec_ok :=
              match first_with_id t (wrap32 id) with
              | Some h =>
                if indexed t (hType h) then
                  match obs with
                  | Some d => shared9 d (resolve_spec (base_of t h) (hOv h))
                  | None => false
                  end
                else true
              | None => match obs with Some d => typedef_eqb d zero_td | None => false end
              end in
            spec_then spec_ok "c13-resolvers-agree" q (model_then (res_td_eqb (resolve2_id t id) obs) q false)
          end
      else if is "defid" then
        spec_then (mut =? 0) "c13-mutated" q
          match dec_hw r with
          | None => VBad
          | Some o =>
            spec_then (match first_with_id t (wrap32 id) with
                       | Some h => hwc_eqb o h
                       | None => hwc_eqb o zero_hwc
                       end) "c13-lookup" q
              (model_then (hwc_eqb (hwc_def_id t id) o) q false)
          end
      else VBad
    | [dx; p1; p2] =>
      if is "preds" then
        match dec_td dx, dec_preds p1, dec_preds p2 with
        | Some d, Some p1, Some p2 =>
          spec_then (preds_eqb p1 p2 && preds_spec_ok d p1) "c13-predicates" q
            (model_then (preds_eqb (preds_of d) p1) q false)
        | _, _, _ => VBad
        end
      else VBad
    | _ => VBad
    end
  | _ => VBad
  end.

Fixpoint judge_rest_spec (t : topology) (qs : list sexp) : option sexp :=
  match qs with
  | [] => None
  | q :: r =>
    match judge_query t q with
    | VSpec tag w => Some (L [sym "specfail"; sym tag; w])
    | _ => judge_rest_spec t r
    end
  end.

(* a spec failure anywhere in the case takes precedence over a model mismatch *)
Fixpoint judge_all (t : topology) (qs : list sexp) (nt : bool) : sexp :=
  match qs with
  | [] => v_ok nt
  | q :: r =>
    match judge_query t q with
    | VOk n => judge_all t r (nt || n)
    | VMis w => match judge_rest_spec t r with Some v => v | None => L [sym "mismatch"; w] end
    | VSpec tag w => L [sym "specfail"; sym tag; w]
    | VBad => L [sym "badcase"; q]
    end
  end.

Definition run_case (s : sexp) : sexp :=
  match s with
  | L [S n; tv; L qs] =>
    if bytes_eqb n (str "c13") then
      match dec_topo tv with
      | Some t => judge_all t qs false
      | None => L [sym "badcase"; sym "topology"]
      end
    else v_badcase
  | _ => v_badcase
  end.

Definition dispatch_line (line : list Z) : list Z :=
  match parse_sexp line with
  | Some s => print_sexp (run_case s)
  | None => print_sexp (L [sym "badcase"; sym "parse"])
  end.
