(* C10 entry point: malformed or stalled binary streams.  (a) spec clauses on the observed
   trace: nothing of a broken frame or after it is delivered and everything before it is;
   junk or empty payloads of correct length do not desynchronise; a fault (length at/above the
   limit, stall inside the header, stall inside the payload) is followed promptly by a
   non-cancelled disconnect, then by a reconnect after the retry period; memory allocated
   stays far below an announced over-limit size; no panic.  (b) model comparison. *)
From RP Require Import Lib.Base Lib.Sexp Lib.Strings Model.Net Model.Client Spec.NetSpec Run.NetCommon.
From Coq Require Import String.
Open Scope string_scope.
Open Scope list_scope.
Open Scope Z_scope.

Definition fault_tag (k : Z) (timing : bool) : string :=
  if timing then (if k =? 1 then "timing-c10-hdr-stall" else if k =? 2 then "timing-c10-over-limit" else "timing-c10-payload-stall")
  else (if k =? 1 then "c10-hdr-stall" else if k =? 2 then "c10-over-limit" else "c10-payload-stall").

Fixpoint obs_mem (o : list oev) : option Z :=
  match o with [] => None | OMem d :: _ => Some d | _ :: r => obs_mem r end.

Definition c10_conn (s : scn) (i : nat) (g : grp) : option sexp :=
  match conn_view s i, nth_error (obs_accs (s_obs s)) i with
  | Some v, Some acc =>
    if negb (cv_ok v) || negb (cv_bin v) then None
    else if negb (delivery_clause s i g v) then
      Some (spec_fail "c10-delivery" i [L (map (fun d => B (snd d)) (g_dlv g))])
    else
      match snd (expected s v) with
      | Some (tf, k) =>
        if tf + margin <=? cv_cut v then
          (* times in the group are absolute; the fault instant is relative to the accept *)
          if negb (dropped_promptly (acc + tf) (g_dis g)) then
            Some (spec_fail (fault_tag k (match g_dis g with [(_, false)] => true | _ => false end)) i
                            [I (acc + tf); L (map (fun d => L [I (fst d); of_bool (snd d)]) (g_dis g))])
          else
            match g_dis g with
            | [(td, _)] =>
              let rp := reconn (the_cfg s) in
              if (Nat.ltb (Datatypes.S i) (List.length (s_conns s))) && (td + rp + margin <=? s_cancel s) && (s_listen s <=? td) then
                match nth_error (obs_accs (s_obs s)) (Datatypes.S i) with
                | Some a2 => if close_to a2 (td + rp) then None else Some (spec_fail "timing-c10-reconnect" i [I a2; I (td + rp)])
                | None => Some (spec_fail "c10-reconnect" i [])
                end
              else None
            | _ => None
            end
        else None
      | None => None
      end
  | _, _ => None
  end.

Definition judge (s : scn) : sexp :=
  if obs_inv (s_obs s) then mism "timing" "inv" []
  else if obs_panic (s_obs s) then L [sym "specfail"; sym "c10-panic"; L []]
  else
  match obs_mem (s_obs s) with
  | Some d => if 16000000 <? d then L [sym "specfail"; sym "c10-alloc"; L [I d]] else
      let og := obs_groups (s_obs s) in
      match for_conns (c10_conn s) 0 og with
      | Some v => v
      | None => match compare_client s (fun _ => None) with Some v => v | None => v_ok true end
      end
  | None =>
    let og := obs_groups (s_obs s) in
    match for_conns (c10_conn s) 0 og with
    | Some v => v
    | None =>
      match compare_client s (fun _ => None) with
      | Some v => v
      | None => v_ok (existsb (fun g => existsb (fun d => negb (snd d)) (g_dis g)) og)
      end
    end
  end.

Definition dispatch_line (line : list Z) : list Z := run_with judge line.
