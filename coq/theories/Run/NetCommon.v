(* Shared by Run/C08 ... Run/C12: decoding of a scenario case (harness/net/engine.go),
   replay of the scenario in the model (Model/Client.run_life), comparison of the model's
   trace with the implementation's observed trace (content first, then timing within a
   tolerance).  The property-specific spec predicates are in Run/Cnn.v. *)
From RP Require Import Lib.Base Lib.Sexp Lib.Varint Lib.Strings Model.Net Model.Client Spec.NetSpec.
From Coq Require Import String.
Open Scope string_scope.
Open Scope list_scope.
Open Scope Z_scope.

(* ---------- helpers that stay cheap on 500 kB strings ---------- *)
Fixpoint zlen_tr {A} (l : list A) (acc : Z) : Z :=
  match l with [] => acc | _ :: r => zlen_tr r (acc + 1) end.
Definition nat_of_z (z : Z) : nat := match z with Zpos p => Pos.iter Datatypes.S O p | _ => O end.
Definition rep_bytes (n c : Z) : bytes := match n with Zpos p => Pos.iter (cons c) [] p | _ => [] end.
Definition app_tr {A} (a b : list A) : list A := rev_append (rev_append a []) b.

Definition is_sym (s : list Z) (k : string) : bool := bytes_eqb s (str k).

(* ---------- byte-string descriptors ---------- *)
Fixpoint dec_bs (s : sexp) : option bytes :=
  match s with
  | B x => Some x
  | L (S n :: args) =>
    if is_sym n "rep" then
      match args with [I k; I c] => Some (rep_bytes k c) | _ => None end
    else if is_sym n "cat" then
      (fix go (l : list sexp) : option bytes :=
         match l with
         | [] => Some []
         | p :: r => let? a := dec_bs p in let? b := go r in Some (app_tr a b)
         end) args
    else None
  | _ => None
  end.

(* ---------- scenario input ---------- *)
Inductive item : Type := IFrame (p : bytes) | IRaw (b : bytes) | ILine (l : bytes) (eol : Z).

Record cscript : Type := mkCS {
  cs_items : list item;
  cs_segs : list (Z * Z);
  cs_end : option (Z * bool)      (* time, reset? *)
}.

Definition dec_item (s : sexp) : option item :=
  match s with
  | L [S n; d] =>
    let? b := dec_bs d in
    if is_sym n "f" then Some (IFrame b) else if is_sym n "raw" then Some (IRaw b) else None
  | L [S n; d; I e] => let? b := dec_bs d in if is_sym n "ln" then Some (ILine b e) else None
  | _ => None
  end.

Fixpoint dec_list {A} (f : sexp -> option A) (l : list sexp) : option (list A) :=
  match l with
  | [] => Some []
  | x :: r => let? a := f x in let? b := dec_list f r in Some (a :: b)
  end.

Definition dec_seg (s : sexp) : option (Z * Z) :=
  match s with L [I t; I n] => Some (t, n) | _ => None end.

Definition dec_cscript (s : sexp) : option cscript :=
  match s with
  | L [S c; L items; L segs; L [S e; I et]] =>
    let? its := dec_list dec_item items in
    let? sg := dec_list dec_seg segs in
    let en := if is_sym e "close" || is_sym e "fullclose" then Some (et, false) else if is_sym e "reset" then Some (et, true) else None in
    Some (mkCS its sg en)
  | _ => None
  end.

(* the byte stream of a script (reversed while building) *)
Definition enc_item_rev (it : item) (acc : bytes) : bytes :=
  match it with
  | IFrame p => rev_append p (rev_append (le32 (zlen_tr p 0)) acc)
  | IRaw b => rev_append b acc
  | ILine l e => let a := rev_append l acc in if e =? 1 then 10 :: 13 :: a else 10 :: a
  end.
Definition stream_of (items : list item) : bytes :=
  rev_append (fold_left (fun acc it => enc_item_rev it acc) items []) [].

Definition seg_if (t : Z) (a : bytes) : script := match a with [] => [] | _ => [Seg t a] end.

(* the same cutting rule as ConnScript.Segments in the harness *)
Fixpoint cut_segs (segs : list (Z * Z)) (s : bytes) : script :=
  match segs with
  | [] => seg_if 0 s
  | [(t, _)] => seg_if t s
  | (t, n) :: r =>
    match split_tr n s [] with
    | Some (a, b) => seg_if t a ++ cut_segs r b
    | None => seg_if t s
    end
  end.

Definition script_of (c : cscript) : script :=
  cut_segs (cs_segs c) (stream_of (cs_items c)) ++
  match cs_end c with
  | Some (t, false) => [Close t]
  | Some (t, true) => [Reset t]
  | None => []
  end.

(* ---------- oracle tables ---------- *)
Definition table := list (bytes * bytes).
Definition unknown_canon : bytes := [0].
Fixpoint lookup (t : table) (k : bytes) : bytes :=
  match t with
  | [] => unknown_canon
  | (a, v) :: r => if bytes_eqb a k then v else lookup r k
  end.

Definition dec_orc (l : list sexp) : option (table * table) :=
  (fix go (l : list sexp) : option (table * table) :=
     match l with
     | [] => Some ([], [])
     | L [S k; d; B v] :: r =>
       let? key := dec_bs d in
       let? bt := go r in
       if is_sym k "b" then Some ((key, v) :: fst bt, snd bt)
       else if is_sym k "a" then Some (fst bt, (key, v) :: snd bt) else None
     | _ => None
     end) l.

Definition dec_pair (s : sexp) : option (bytes * bytes) :=
  match s with L [B a; B b] => Some (a, b) | _ => None end.

(* ---------- submissions (C09) ---------- *)
Record submission : Type := mkSub { sb_msgs : list (bytes * bytes) (* canon, marshal *); sb_lines : list bytes }.
Definition dec_b (s : sexp) : option bytes := match s with B x => Some x | _ => None end.
Definition dec_sub (s : sexp) : option submission :=
  match s with
  | L [S k; L ms; L ls; I _] => let? m := dec_list dec_pair ms in let? l := dec_list dec_b ls in Some (mkSub m l)
  | _ => None
  end.
Definition dec_submitter (s : sexp) : option (list submission) :=
  match s with L subs => dec_list dec_sub subs | _ => None end.

(* ---------- observed trace ---------- *)
Inductive oev : Type :=
| OAcc (i t : Z)
| OCon (t : Z) (err : bytes) (bin : bool)
| ODlv (t : Z) (m : bytes)
| ODis (t : Z) (c : bool)
| ORet (t : Z)
| OWg (t : Z)
| ODet (t : Z) (res : bool)
| OPeer (i : Z) (recv : bytes) (kind t : Z)
| OMem (delta : Z)
| OWExit (t : Z)
| OPanic (t : Z)
| OInv.

Definition dec_oev (s : sexp) : option oev :=
  match s with
  | L (S n :: args) =>
    match args with
    | [I a; I b] =>
      if is_sym n "acc" then Some (OAcc a b)
      else if is_sym n "dis" then Some (ODis a (negb (b =? 0)))
      else if is_sym n "det" then Some (ODet a (negb (b =? 0))) else None
    | [I t; B e; I b] => if is_sym n "con" then Some (OCon t e (negb (b =? 0))) else None
    | [I t; B m] => if is_sym n "dlv" then Some (ODlv t m) else None
    | [I t] =>
      if is_sym n "ret" then Some (ORet t) else if is_sym n "wg" then Some (OWg t)
      else if is_sym n "mem" then Some (OMem t) else if is_sym n "wexit" then Some (OWExit t) else if is_sym n "panic" then Some (OPanic t) else None
    | [I i; B r; I k; I t] => if is_sym n "peer" then Some (OPeer i r k t) else None
    | [S _] => if is_sym n "inv" then Some OInv else None
    | _ => None
    end
  | _ => None
  end.

Record scn : Type := mkScn {
  s_det : bool;
  s_usecfg : bool;
  s_noconn : Z;
  s_reconn : Z;
  s_listen : Z;
  s_cancel : Z;
  s_sens : bool;
  s_recvfrom : Z;
  s_subconn : Z;
  s_cbsleep : Z;
  s_cbwrite : bytes;
  s_hookdelay : Z;
  s_conns : list cscript;
  s_orcb : table;
  s_orca : table;
  s_substart : Z;
  s_subs : list (list submission);
  s_rorc : table;
  s_obs : list oev
}.

Definition dec_scn (s : sexp) : option scn :=
  match s with
  | L [S k; S _id; L [S _cfg; S entry; I usecfg; I noc; I rec; I lis; I can; I sens; I recvfrom; I subconn; I cbsleep; B cbwrite; I hookdelay];
       L conns; L (S _orc :: orc); L [S _subs; I substart; L subs]; L (S _rorc :: rorc); L (S _obs :: obs)] =>
    if is_sym k "scn" then
      let? cs := dec_list dec_cscript conns in
      let? o := dec_orc orc in
      let? sb := dec_list dec_submitter subs in
      let? ro := dec_list dec_pair rorc in
      let? ob := dec_list dec_oev obs in
      Some (mkScn (is_sym entry "detector") (negb (usecfg =? 0)) noc rec lis can (negb (sens =? 0)) recvfrom subconn cbsleep cbwrite hookdelay
                  cs (fst o) (snd o) substart sb ro ob)
    else None
  | _ => None
  end.

(* ---------- replay in the model ---------- *)
Definition M := bytes.
Definition the_cfg (s : scn) : cfg := if s_usecfg s then cfg_of (s_noconn s) (s_reconn s) else cfg_of 0 0.

Definition conn_fuel (c : cscript) : nat := nat_of_z (zlen_tr (stream_of (cs_items c)) 0 + 3).
Definition max_nat (l : list nat) : nat := fold_left Nat.max l O.

Definition model_trace (s : scn) (lats : list Z) : list (lev M) :=
  let cf := the_cfg s in
  let fuel := nat_of_z (2 * zlen (s_conns s) + (Z.max 0 (s_cancel s)) / (noconn cf) + 8) in
  let cfuel := max_nat (map conn_fuel (s_conns s)) in
  run_life M (lookup (s_orcb s)) (lookup (s_orca s)) fuel cfuel cf (s_listen s)
           (map script_of (s_conns s)) lats (Some (s_cancel s)) 0.

Fixpoint dial_times (tr : list (lev M)) : list Z :=
  match tr with
  | [] => []
  | LDial t true :: r => t :: dial_times r
  | _ :: r => dial_times r
  end.

Fixpoint obs_accs (o : list oev) : list Z :=
  match o with [] => [] | OAcc _ t :: r => t :: obs_accs r | _ :: r => obs_accs r end.

(* dial latencies that make the model's accept instants coincide with the observed ones *)
Fixpoint fit_lats (s : scn) (accs : list Z) (lats : list Z) : list Z :=
  match accs with
  | [] => lats
  | a :: r =>
    match nth_error (dial_times (model_trace s lats)) (List.length lats) with
    | Some d => fit_lats s r (lats ++ [a - d])
    | None => lats
    end
  end.

(* ---------- per-connection summaries ---------- *)
Record grp : Type := mkGrp {
  g_con : Z * bytes * bool;
  g_dlv : list (Z * bytes);
  g_dis : list (Z * bool)
}.

(* groups are built in reverse and events inside them too *)
Definition add_dlv (gs : list grp) (d : Z * bytes) : list grp :=
  match gs with
  | g :: r => mkGrp (g_con g) (d :: g_dlv g) (g_dis g) :: r
  | [] => [mkGrp (-1, [], false) [d] []]
  end.
Definition add_dis (gs : list grp) (d : Z * bool) : list grp :=
  match gs with
  | g :: r => mkGrp (g_con g) (g_dlv g) (d :: g_dis g) :: r
  | [] => [mkGrp (-1, [], false) [] [d]]
  end.
Definition fin_grp (g : grp) : grp := mkGrp (g_con g) (rev (g_dlv g)) (rev (g_dis g)).

Definition model_groups (tr : list (lev M)) : list grp :=
  map fin_grp (rev (fold_left (fun gs e =>
    match e with
    | LConnect t err bin => mkGrp (t, err, bin) [] [] :: gs
    | LDeliver t m => add_dlv gs (t, m)
    | LDisconnect t c => add_dis gs (t, c)
    | _ => gs
    end) tr [])).

Definition obs_groups (o : list oev) : list grp :=
  map fin_grp (rev (fold_left (fun gs e =>
    match e with
    | OCon t err bin => mkGrp (t, err, bin) [] [] :: gs
    | ODlv t m => add_dlv gs (t, m)
    | ODis t c => add_dis gs (t, c)
    | _ => gs
    end) o [])).

Fixpoint model_ret (tr : list (lev M)) : option Z :=
  match tr with [] => None | LReturned t :: _ => Some t | _ :: r => model_ret r end.
Fixpoint model_fuel_out (tr : list (lev M)) : bool :=
  match tr with [] => false | LFuel :: _ => true | _ :: r => model_fuel_out r end.
Fixpoint obs_ret (o : list oev) : option Z :=
  match o with [] => None | ORet t :: _ => Some t | _ :: r => obs_ret r end.
Fixpoint obs_wg (o : list oev) : option Z :=
  match o with [] => None | OWg t :: _ => Some t | _ :: r => obs_wg r end.
Fixpoint obs_wexits (o : list oev) : list Z :=
  match o with [] => [] | OWExit t :: r => t :: obs_wexits r | _ :: r => obs_wexits r end.
Fixpoint obs_inv (o : list oev) : bool :=
  match o with [] => false | OInv :: _ => true | _ :: r => obs_inv r end.
Fixpoint obs_panic (o : list oev) : bool :=
  match o with [] => false | OPanic _ :: _ => true | _ :: r => obs_panic r end.
Fixpoint obs_peers (o : list oev) : list (Z * bytes * Z * Z) :=
  match o with [] => [] | OPeer i r k t :: q => (i, r, k, t) :: obs_peers q | _ :: q => obs_peers q end.
Fixpoint obs_det (o : list oev) : option (Z * bool) :=
  match o with [] => None | ODet t r :: _ => Some (t, r) | _ :: q => obs_det q end.

(* bytes the main goroutine writes per accepted connection, from the model trace *)
Fixpoint model_wrote (tr : list (lev M)) : list bytes :=
  match tr with [] => [] | LWrote _ b :: r => b :: model_wrote r | _ :: r => model_wrote r end.

(* ---------- comparison ---------- *)
Definition tol : Z := 400.
Definition close_to (a b : Z) : bool := (Z.abs (a - b) <=? tol).

Definition content_of_grp (g : grp) : sexp :=
  L [L [B (snd (fst (g_con g))); of_bool (snd (g_con g))];
     L (map (fun d => B (snd d)) (g_dlv g));
     L (map (fun d => of_bool (snd d)) (g_dis g))].
Definition times_of_grp (g : grp) : sexp :=
  L [I (fst (fst (g_con g))); L (map (fun d => I (fst d)) (g_dlv g)); L (map (fun d => I (fst d)) (g_dis g))].

Definition grp_content_eqb (a b : grp) : bool :=
  bytes_eqb (snd (fst (g_con a))) (snd (fst (g_con b))) && Bool.eqb (snd (g_con a)) (snd (g_con b))
  && list_eqb bytes_eqb (map snd (g_dlv a)) (map snd (g_dlv b))
  && list_eqb Bool.eqb (map snd (g_dis a)) (map snd (g_dis b)).

Definition grp_times_ok (a b : grp) : bool :=
  close_to (fst (fst (g_con a))) (fst (fst (g_con b)))
  && list_eqb close_to (map fst (g_dlv a)) (map fst (g_dlv b))
  && list_eqb close_to (map fst (g_dis a)) (map fst (g_dis b)).

Definition mism (kind : string) (what : string) (detail : list sexp) : sexp :=
  L [sym "mismatch"; L (sym kind :: sym what :: detail)].

(* [extra i]: bytes the writer goroutine is expected to add on connection i (C09) *)
Definition compare_client (s : scn) (extra : Z -> option bytes) : option sexp :=
  let o := s_obs s in
  if obs_inv o then Some (mism "timing" "inv" [])
  else if obs_panic o then Some (L [sym "specfail"; sym "panic"; L []])
  else
  let accs := obs_accs o in
  let lats := fit_lats s accs [] in
  let tr := model_trace s lats in
  (* the consumer of msgsFromPanel starts receiving at s_recvfrom: earlier deliveries are handed over then *)
  (* ... and while a delivery is parked in the channel send the read loop does nothing else: a disconnect of
     that connection cannot be reported before the parked delivery has been taken *)
  let mg := map (fun g =>
                   let parked := existsb (fun d => fst d <? s_recvfrom s) (g_dlv g) in
                   mkGrp (g_con g) (map (fun d => (Z.max (fst d) (s_recvfrom s), snd d)) (g_dlv g))
                         (map (fun d => (if parked then Z.max (fst d) (s_recvfrom s) else fst d, snd d)) (g_dis g)))
                (model_groups tr) in
  let og := obs_groups o in
  if model_fuel_out tr then Some (L [sym "badcase"; sym "fuel"])
  else if negb (Nat.eqb (List.length (dial_times tr)) (List.length accs)) then
    Some (mism "content" "accepts" [I (Z.of_nat (List.length (dial_times tr))); I (Z.of_nat (List.length accs))])
  else if negb (list_eqb grp_content_eqb mg og) then
    Some (mism "content" "callbacks-deliveries" [L (map content_of_grp mg)])
  else if negb (match model_ret tr, obs_ret o with Some _, Some _ => true | None, None => true | _, _ => false end) then
    Some (mism "content" "returned" [])
  else if negb (match obs_ret o, obs_wg o with Some _, None => false | _, _ => true end) then
    Some (mism "content" "wg-not-drained" [])
  else
  (* sockets: what each peer received, and that it saw the end of the stream *)
  let wrote := model_wrote tr in
  let peers := obs_peers o in
  let bad_peer :=
    existsb (fun p =>
      match p with
      | (i, recv, kind, _) =>
        let c := nth (Z.to_nat i) (s_conns s) (mkCS [] [] None) in
        let is_reset := match cs_end c with Some (_, true) => true | _ => false end in
        let expect := app_tr (nth (Z.to_nat i) wrote []) (app_tr (s_cbwrite s) (match extra i with Some e => e | None => [] end)) in
        (* submissions whose bytes this comparison is not told about ([extra] silent, C11): the peer may
           have received more than the negotiation bytes; what the writer adds is C09's subject *)
        let untold := match s_subs s, extra i with _ :: _, None => true | _, _ => false end in
        negb is_reset && ((if untold then negb (has_prefix expect recv) else negb (bytes_eqb recv expect)) || (kind =? 0))
      end) peers in
  if negb (Nat.eqb (List.length peers) (List.length accs)) || bad_peer then
    Some (mism "content" "peer-received-or-not-closed" [L (map (fun b => B b) wrote)])
  (* a submission made while there is no connection wakes the no-connection wait (select on msgsToPanel) and
     makes the client dial at once; run_life only knows the timer, so with submissions queued before the
     connection (s_subconn < 0) a dial may come EARLIER than the model's, by up to one period - never later *)
  else if negb (forallb (fun l => ((if (s_subconn s <? 0) && negb (match s_subs s with [] => true | _ => false end)
                                      then - (noconn (the_cfg s) + 150) else -150) <=? l) && (l <=? tol)) lats) then
    Some (mism "timing" "dial" [L (map I lats)])
  else if negb (list_eqb grp_times_ok mg og) then
    Some (mism "timing" "events" [L (map times_of_grp mg)])
  else if negb (match model_ret tr, obs_ret o with
                | Some a, Some b =>
                  (* the return, like the last disconnect, waits for a delivery parked in the channel send *)
                  let parked := existsb (fun g => existsb (fun d => fst d <? s_recvfrom s) (g_dlv g)) (model_groups tr) in
                  close_to (if parked then Z.max a (s_recvfrom s) else a) b
                | _, _ => true end) then
    Some (mism "timing" "returned" [match model_ret tr with Some a => I a | None => I (-1) end])
  else if negb (match obs_ret o, obs_wg o with Some a, Some b => b - fold_left Z.max (obs_wexits o) a <=? tol | _, _ => true end) then
    Some (mism "timing" "wg" [])
  else None.

(* stand-alone detector: one dial by the harness, model = probe_read + classify_detector *)
Definition compare_detector (s : scn) : option sexp :=
  let o := s_obs s in
  if obs_inv o then Some (mism "timing" "inv" [])
  else if obs_panic o then Some (L [sym "specfail"; sym "panic"; L []])
  else
  match s_conns s, obs_det o, obs_peers o with
  | c :: _, Some (t, res), (_, recv, _, _) :: _ =>
    let (r, cn) := probe_read (script_of c) in
    let b := classify_detector r in
    if negb (Bool.eqb b res) then Some (mism "content" "detector-result" [of_bool b])
    else if negb (bytes_eqb recv (negotiation_bytes b)) then Some (mism "content" "detector-wrote" [B (negotiation_bytes b)])
    else if negb (close_to (now cn) t) then Some (mism "timing" "detector" [I (now cn)])
    else None
  | _, _, _ => Some (mism "content" "detector-no-result" [])
  end.

(* first thing the panel sends on connection i *)
Definition nth_reply (s : scn) (i : nat) : option (Z * bytes) :=
  match nth_error (s_conns s) i with
  | Some c =>
    (fix go (sc : script) : option (Z * bytes) :=
       match sc with
       | Seg t (b :: bs) :: _ => Some (t, b :: bs)
       | Seg _ [] :: r => go r
       | _ => None
       end) (script_of c)
  | None => None
  end.
Definition first_reply (s : scn) : option (Z * bytes) := nth_reply s 0.

(* ---------- the spec's view of connection i: protocol mode by the reply class of what the
   panel sends first, the timed bytes after that first segment (relative to accept), the
   instant at which the scenario cuts the connection (cancellation), and whether the reply
   fits the probe buffer ---------- *)
Record cview : Type := mkCV { cv_bin : bool; cv_tb : list (Z * Z); cv_cut : Z; cv_ok : bool }.

Definition conn_view (s : scn) (i : nat) : option cview :=
  match nth_error (s_conns s) i, nth_error (obs_accs (s_obs s)) i with
  | Some c, Some acc =>
    let sc := script_of c in
    let fix drop_first (l : script) : option (Z * bytes * script) :=
      match l with
      | Seg t (b :: bs) :: r => Some (t, b :: bs, r)
      | Seg _ [] :: r => drop_first r
      | _ => None
      end in
    match drop_first sc with
    | Some (t, first, rest) =>
      (* a first segment that arrives only after the probe window is not an answer to the probe: the
         panel was silent (ASCII), and those bytes are ordinary traffic read by the line reader.
         Within the margin around the window's end either reading is possible: not judged. *)
      if window + margin <=? t then Some (mkCV false (tbytes_tr sc) (s_cancel s - acc) true)
      else
      let rc := classify_reply (Some (t, first)) in
      let bin := match rc with RcAck | RcOtherFrame => true | _ => false end in
      Some (mkCV bin (tbytes_tr rest) (s_cancel s - acc) ((zlen first <=? 1000) && (t + margin <=? window)))
    | None => Some (mkCV false [] (s_cancel s - acc) true)
    end
  | _, _ => None
  end.

Definition walk_fuel (tb : list (Z * Z)) : nat := nat_of_z (zlen_tr tb 0 / 4 + 2).

(* expected deliveries of connection i as oracle values, with completion times, and the
   first fault of the stream if any *)
Definition expected (s : scn) (v : cview) : list (bytes * Z) * option (Z * Z) :=
  if cv_bin v then
    let (g, f) := walk_bin (walk_fuel (cv_tb v)) (cv_tb v) in
    (map (fun x => (lookup (s_orcb s) (fst x), snd x)) g, f)
  else
    (map (fun x => (lookup (s_orca s) (strip (fst x)), snd x)) (walk_lines 0 (cv_tb v)), None).

Definition spec_fail (tag : string) (i : nat) (detail : list sexp) : sexp :=
  L [sym "specfail"; sym tag; L (I (Z.of_nat i) :: detail)].

(* delivery clause shared by C08, C10 and C11: observed deliveries of connection i are exactly
   the complete frames / lines before the cut (up to the margin), in order, nothing else *)
Definition delivery_clause (s : scn) (i : nat) (g : grp) (v : cview) : bool :=
  let (e, f) := expected s v in
  let cut := match f with Some (tf, _) => Z.min (cv_cut v) (tf + 2 * margin) | None => cv_cut v end in
  let (must, may) := must_may e cut in
  (* Environment assumption of the property: the application keeps receiving from msgsFromPanel.
     While it does not (before s_recvfrom) the read loop is parked on its FIRST undelivered frame and
     reads nothing further; when the cut (cancellation, socket closed by the client itself) falls
     into that period, only that first frame is owed - the later ones were never read and may or may
     not come.  Order, multiplicity and "nothing else" are judged as always. *)
  let slow := (0 <? s_recvfrom s) && (Z.of_nat i =? 0)%Z && (cut + 0 <? s_recvfrom s + margin) in
  if slow then
    match must with
    | [] => deliveries_ok (map snd (g_dlv g)) [] may
    | m :: rest => deliveries_ok (map snd (g_dlv g)) [m] (rest ++ may)
    end
  else deliveries_ok (map snd (g_dlv g)) must may.

Fixpoint for_conns {A} (f : nat -> grp -> option A) (i : nat) (gs : list grp) : option A :=
  match gs with
  | [] => None
  | g :: r => match f i g with Some x => Some x | None => for_conns f (Datatypes.S i) r end
  end.


(* ---------- what the writer goroutine adds (C09, C12): oracle tables from the submissions ---------- *)
Definition units_bin (sb : submission) : list bytes := map fst (sb_msgs sb).
Definition units_asc (sb : submission) : list bytes := sb_lines sb.
Definition marshal_table (s : scn) : table := List.concat (map (fun l => List.concat (map sb_msgs l)) (s_subs s)).
Definition enc_lookup (s : scn) (msgs : list bytes) : list bytes :=
  match find (fun sb => list_eqb bytes_eqb (units_bin sb) msgs) (List.concat (s_subs s)) with
  | Some sb => sb_lines sb
  | None => [[0]]
  end.
Definition written_for (s : scn) (bin : bool) (order : list submission) : bytes :=
  written bytes (lookup (marshal_table s)) (enc_lookup s) bin (map units_bin order).

(* Environment assumption of the probe phase: the single conn.Read returns what the FIRST
   segment holds.  When the client process is scheduled so late that its read completes only
   after the peer has already sent the second segment, both are returned at once and the
   classification legitimately differs.  This is visible in the trace (the connect callback of
   that connection comes after the second segment's send time, and its binary flag differs from
   the reply class of the first segment): such a run is outside the model's environment and is
   reported as a timing-class disagreement, i.e. re-run alone before it counts. *)
Definition second_seg_time (sc : script) : option Z :=
  (fix go (l : script) (seen : bool) : option Z :=
     match l with
     | Seg t (_ :: _) :: r => if seen then Some t else go r true
     | Seg _ [] :: r => go r seen
     | _ => None
     end) sc false.

Definition late_negotiation (s : scn) : bool :=
  let accs := obs_accs (s_obs s) in
  let gs := obs_groups (s_obs s) in
  (fix go (i : nat) (gs : list grp) : bool :=
     match gs with
     | [] => false
     | g :: r =>
       (match conn_view s i, nth_error accs i, nth_error (s_conns s) i with
        | Some v, Some acc, Some c =>
          match second_seg_time (script_of c) with
          | Some t2 => negb (Bool.eqb (cv_bin v) (snd (g_con g))) && (acc + t2 - 10 <=? fst (fst (g_con g))) && (t2 <? 2000)
          | None => false
          end
        | _, _, _ => false
        end) || go (Datatypes.S i) r
     end) O gs.

Definition run_with (judge : scn -> sexp) (line : list Z) : list Z :=
  match parse_sexp line with
  | Some sx =>
    match dec_scn sx with
    | Some s => print_sexp (if obs_panic (s_obs s) then L [sym "specfail"; sym "client-panic"; L []]
                            else if negb (s_det s) && late_negotiation s then mism "timing" "negotiation-read-late" [] else judge s)
    | None => print_sexp (L [sym "badcase"; sym "decode"])
    end
  | None => print_sexp (L [sym "badcase"; sym "parse"])
  end.
