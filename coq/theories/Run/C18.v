(* Correspondence + oracle entry point for C18.
   Cases (one s-expression per line):
     (tile (entry ...) W H shrink border obsN obsI)
        obsN = (panic) | (iw ih #buf pixc bckg run2 run3 filled kept rgb swT sw1 sw2 lh sh)
        obsI = (panic) | (#buf)                       -- the same state with Inverted = true
        run2/run3 = same | diff  (second call on the same object / call on a deep copy)
        rgb = skip | #bytes (GetImgSliceRGB)
     (bar (entry ...) W H shrink border (v ...) (#buf | panic ...))
        the state rendered with IntegerValue := each v in turn (ascending)
   State entries (absent = zero value / nil pointer):
     (iv n) (iv2 n) (fmt n) (si n) (mi n) (ti #) (solid b) (l1 #) (l2 #) (pm n)
     (scale type rl rh ll lh) (style fixed pad spacing ufs) (tfont face h w) (xfont face h w)
     (pix kind r g b i) (bg kind r g b i)   kind: 0 = neither, 1 = rgb, 2 = index, 3 = both
   The implementation's output is (a) judged by the Spec.Tile predicates, independently of
   the model, and (b) compared with the model's output. *)
From RP Require Import Lib.Base Lib.Sexp Model.Mono Model.Tile Spec.Clip Spec.Tile.
From Coq Require Import String.
Open Scope string_scope.
Open Scope Z_scope.

Definition empty_text : mtext := mkText 0 0 0 0 [] false [] [] 0 0 None None false None None.

Record acc := mkAcc { a_t : mtext; a_tfont : option mfont; a_xfont : option mfont }.

Definition upd (t : mtext) (k : list Z) (args : list sexp) : option mtext :=
  let is s := bytes_eqb k (str s) in
  let '(mkText iv fmt si mi ti solid l1 l2 iv2 pm sc st inv pix bg) := t in
  match args with
  | [I n] =>
    if is "iv" then Some (mkText n fmt si mi ti solid l1 l2 iv2 pm sc st inv pix bg)
    else if is "iv2" then Some (mkText iv fmt si mi ti solid l1 l2 n pm sc st inv pix bg)
    else if is "fmt" then Some (mkText iv n si mi ti solid l1 l2 iv2 pm sc st inv pix bg)
    else if is "si" then Some (mkText iv fmt n mi ti solid l1 l2 iv2 pm sc st inv pix bg)
    else if is "mi" then Some (mkText iv fmt si n ti solid l1 l2 iv2 pm sc st inv pix bg)
    else if is "pm" then Some (mkText iv fmt si mi ti solid l1 l2 iv2 n sc st inv pix bg)
    else if is "solid" then Some (mkText iv fmt si mi ti (negb (n =? 0)) l1 l2 iv2 pm sc st inv pix bg)
    else None
  | [B s] =>
    if is "ti" then Some (mkText iv fmt si mi s solid l1 l2 iv2 pm sc st inv pix bg)
    else if is "l1" then Some (mkText iv fmt si mi ti solid s l2 iv2 pm sc st inv pix bg)
    else if is "l2" then Some (mkText iv fmt si mi ti solid l1 s iv2 pm sc st inv pix bg)
    else None
  | [I a; I b; I c; I d] =>
    if is "style" then Some (mkText iv fmt si mi ti solid l1 l2 iv2 pm sc (Some (mkStyle None None (negb (a =? 0)) b c d)) inv pix bg)
    else None
  | [I a; I b; I c; I d; I e] =>
    if is "scale" then Some (mkText iv fmt si mi ti solid l1 l2 iv2 pm (Some (mkScale a b c d e)) st inv pix bg)
    else
      let col := mkColor (if (a =? 1) || (a =? 3) then Some (b, c, d) else None) (if (a =? 2) || (a =? 3) then Some e else None) in
      if is "pix" then Some (mkText iv fmt si mi ti solid l1 l2 iv2 pm sc st inv (Some col) bg)
      else if is "bg" then Some (mkText iv fmt si mi ti solid l1 l2 iv2 pm sc st inv pix (Some col))
      else None
  | _ => None
  end.

Fixpoint dec_entries (l : list sexp) (a : acc) : option acc :=
  match l with
  | [] => Some a
  | L (S k :: args) :: r =>
    match args with
    | [I f; I h; I w] =>
      if bytes_eqb k (str "tfont") then dec_entries r (mkAcc (a_t a) (Some (mkFont f h w)) (a_xfont a))
      else if bytes_eqb k (str "xfont") then dec_entries r (mkAcc (a_t a) (a_tfont a) (Some (mkFont f h w)))
      else None
    | _ => let? t := upd (a_t a) k args in dec_entries r (mkAcc t (a_tfont a) (a_xfont a))
    end
  | _ => None
  end.

(* fonts hang under TextStyling: without a (style ...) entry they do not exist *)
Definition dec_state (l : list sexp) : option mtext :=
  let? a := dec_entries l (mkAcc empty_text None None) in
  let t := a_t a in
  Some (mkText (x_int t) (x_fmt t) (x_sicon t) (x_micon t) (x_title t) (x_solid t) (x_l1 t) (x_l2 t)
               (x_int2 t) (x_pair t) (x_scale t)
               (match x_style t with
                | Some s => Some (mkStyle (a_xfont a) (a_tfont a) (s_fixed s) (s_pad s) (s_spacing s) (s_ufs s))
                | None => None
                end)
               false (x_pix t) (x_bg t)).

Definition fail (tag : string) (detail : list sexp) : sexp := L (sym "specfail" :: sym tag :: detail).

Definition lit_any (d : list Z) : bool := existsb (fun b => negb (b =? 0)) d.

(* the model's final text metrics, for the comparison of the reported ones *)
Definition final_t (i : img) : tstate := it i.

Definition judge_tile (t : mtext) (W H shrink border : Z) (obsN obsI : list sexp) : sexp :=
  match obsN, obsI with
  | [I iw; I ih; B dn; I pixc; I bckg; S run2; S run3; I filled; I kept; rgb; I swT; I sw1; I sw2; I lh; I sh], [B di] =>
    (* ---- oracle on the implementation's output ---- *)
    if negb (size_ok W H iw ih dn) then fail "c18-size" [I 0]
    else if negb (size_ok W H iw ih di) then fail "c18-size" [I 1]
    else if negb (bytes_eqb run2 (str "same")) then fail "c18-determinism" [I 2]
    else if negb (bytes_eqb run3 (str "same")) then fail "c18-determinism" [I 3]
    else if negb (clip_ok W H shrink border dn) then fail "c18-clip" []
    else if negb (inversion_ok W H dn di) then fail "c18-inversion" []
    else if negb (colours_ok t pixc bckg) then fail "c18-colour" [I pixc; I bckg]
    else if negb (match rgb with B bs => rgb_ok W H dn pixc bckg bs | _ => true end) then fail "c18-colour" [sym "rgb"]
    else if negb (oneline_ok t W H shrink border dn) then fail "c18-centre" [I 1]
    else if negb (twoline_ok t W H shrink border dn) then fail "c18-centre" [I 2]
    else if negb (oneline_ink_ok (set_inverted t false) W H shrink border dn) then fail "c18-centre" [I 3]
    else if negb (twoline_ink_ok (set_inverted t false) W H shrink border dn) then fail "c18-centre" [I 4]
    else if negb ((filled =? 1) && (kept =? 1)) then fail "c18-mutation" [I filled; I kept]
    else
      (* ---- correspondence with the model ---- *)
      match tile (set_inverted t false) W H shrink border, tile (set_inverted t true) W H shrink border with
      | Ok mn, Ok mi =>
        if negb (bytes_eqb (idata mn) dn) then L [sym "mismatch"; sym "normal"; B (idata mn)]
        else if negb (bytes_eqb (idata mi) di) then L [sym "mismatch"; sym "inverted"; B (idata mi)]
        else if negb ((ipixc mn =? pixc) && (ibckg mn =? bckg)) then L [sym "mismatch"; sym "colours"; I (ipixc mn); I (ibckg mn)]
        else if negb (match rgb with B bs => bytes_eqb (rgb_slice mn) bs | _ => true end) then L [sym "mismatch"; sym "rgb"]
        else
          let ft := final_t mn in
          if negb ((str_width ft (x_title t) =? swT) && (str_width ft (x_l1 t) =? sw1) && (str_width ft (x_l2 t) =? sw2)
                   && (line_height ft =? lh) && (tsh ft =? sh))
          then L [sym "mismatch"; sym "metrics"; I (str_width ft (x_title t)); I (str_width ft (x_l1 t)); I (str_width ft (x_l2 t)); I (line_height ft); I (tsh ft)]
          else v_ok (lit_any dn)
      | Panic s, _ | _, Panic s => L [sym "mismatch"; sym "model-panic"; I s]
      end
  | [S p], _ => fail "c18-panic" [S p; I 0]
  | _, [S p] => fail "c18-panic" [S p; I 1]
  | _, _ => v_badcase
  end.

Fixpoint dec_bufs (l : list sexp) : option (list (list Z)) :=
  match l with
  | [] => Some []
  | B x :: r => let? xs := dec_bufs r in Some (x :: xs)
  | _ => None
  end.

Fixpoint model_bars (t : mtext) (W H shrink border : Z) (vs : list Z) (ds : list (list Z)) (k : Z) : sexp :=
  match vs, ds with
  | [], [] => v_ok true
  | v :: vs', d :: ds' =>
    match tile (set_value t v) W H shrink border with
    | Ok m => if bytes_eqb (idata m) d then model_bars t W H shrink border vs' ds' (k + 1)
              else L [sym "mismatch"; sym "bar"; I k; B (idata m)]
    | Panic s => L [sym "mismatch"; sym "model-panic"; I s]
    end
  | _, _ => v_badcase
  end.

Fixpoint ascending (vs : list Z) : bool :=
  match vs with
  | a :: ((b :: _) as r) => (a <=? b) && ascending r
  | _ => true
  end.

Definition judge_bar (t : mtext) (W H shrink border : Z) (vs : list sexp) (bufs : list sexp) : sexp :=
  match get_ints vs with
  | None => v_badcase
  | Some vs =>
    if existsb (fun b => match b with S _ => true | _ => false end) bufs then fail "c18-panic" [sym "bar"]
    else
      match dec_bufs bufs with
      | None => v_badcase
      | Some ds =>
        if negb (ascending vs) || negb (Nat.eqb (List.length vs) (List.length ds)) then v_badcase
        else if negb (forallb (fun d => size_ok W H W H d) ds) then fail "c18-size" [sym "bar"]
        else if negb (bar_ok t W H ds) then fail "c18-bar" []
        else model_bars t W H shrink border vs ds 0
      end
  end.

Definition run_case (s : sexp) : sexp :=
  match s with
  | L [S n; L st; I W; I H; I shrink; I border; L o1; L o2] =>
    if (W <? 0) || (H <? 0) then v_badcase
    else
      match dec_state st with
      | None => v_badcase
      | Some t =>
        if bytes_eqb n (str "tile") then judge_tile t W H shrink border o1 o2
        else if bytes_eqb n (str "bar") then judge_bar t W H shrink border o1 o2
        else v_badcase
      end
  | _ => v_badcase
  end.

Definition dispatch_line (line : list Z) : list Z :=
  match parse_sexp line with
  | Some s => print_sexp (run_case s)
  | None => print_sexp (L [sym "badcase"; sym "parse"])
  end.
