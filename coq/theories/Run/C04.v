(* Correspondence + oracle entry point for C04 (and the decoder half of C06):
   case = (c04 ((l #line) ...) ((#value #configjson|nil) ...) (msgs msg|nil ...)|panic)
     - the strings handed to RawPanelASCIIstringsToOutboundMessages,
     - the oracle table of json.Unmarshal on the _networkConfig values present,
     - the returned messages (a nil element is printed as nil), or `panic`.
   (a) the model [dec_out] is compared message by message;
   (b) independently: no panic, no nil element (all inputs); and when every input line is
       either strictly well-formed or not part of the grammar, the reports of the decoded
       messages ([den_out]) must equal the reference reader's reports of the lines;
       and (Spec/SysExactOut.v) the float32 values stored for CPUTemp/ExtTemp/CPUVoltage must be
       the nearest-even float32 of the decimal numerals, of any length (wider than the theorems). *)
From RP Require Import Lib.Base Lib.Sexp Lib.Strings Model.MsgOut Model.DecOut Spec.DenoteOut Spec.GrammarOut Spec.SysExactOut.
From Coq Require Import String.
Open Scope Z_scope.

Fixpoint dx_lines (l : list sexp) : option (list bytes) :=
  match l with
  | [] => Some []
  | L [S _; B a] :: r => let? t := dx_lines r in Some (a :: t)
  | _ => None
  end.

Fixpoint dx_nettab (l : list sexp) : option (list (bytes * option bytes)) :=
  match l with
  | [] => Some []
  | L [B a; B b] :: r => let? t := dx_nettab r in Some ((a, Some b) :: t)
  | L [B a; S _] :: r => let? t := dx_nettab r in Some ((a, None) :: t)
  | _ => None
  end.

Fixpoint net_lookup (t : list (bytes * option bytes)) (k : bytes) : option bytes :=
  match t with
  | [] => None
  | (a, b) :: r => if bytes_eqb a k then b else net_lookup r k
  end.

Definition sx_msgs (ms : list out_msg) : sexp := L (sym "msgs" :: map sx_msg ms).

Fixpoint somes {A} (l : list (option A)) : list A :=
  match l with [] => [] | Some a :: r => a :: somes r | None :: r => somes r end.

Definition judge (netparse : bytes -> option bytes) (ls : list bytes) (out : option (list (option out_msg))) : sexp :=
  match out with
  | None => v_specfail "c04-panic" (L [])
  | Some obs =>
    if negb (forallb (fun o => match o with Some _ => true | None => false end) obs)
    then v_specfail "c04-nil-message" (L [])
    else
      let msgs := somes obs in
      let judgeable := forallb line_judgeable ls in
      let want := flat_map sem_out_line ls in
      if judgeable && negb (list_eqb report_eqb (flat_map den_out msgs) want)
      then v_specfail "c04-meaning" (L [])
      else if negb (exact_floats_ok ls msgs) then v_specfail "c04-float-value" (L [])
      else
        match dec_out netparse ls with
        | Panic s => v_mismatch (L [sym "panic"; I s])
        | Ok ms =>
          if list_eqb msg_eqb ms msgs then v_ok (judgeable && negb (null want))
          else v_mismatch (sx_msgs ms)
        end
  end.

Definition run_case (s : sexp) : sexp :=
  match s with
  | L [S n; L ls; L nt; out] =>
    if bytes_eqb n (str "c04") then
      match dx_lines ls, dx_nettab nt with
      | Some ls, Some nt =>
        match out with
        | L (S _ :: ms) => match dx_msgs ms with Some obs => judge (net_lookup nt) ls (Some obs) | None => v_badcase end
        | S _ => judge (net_lookup nt) ls None
        | _ => v_badcase
        end
      | _, _ => v_badcase
      end
    else v_badcase
  | _ => v_badcase
  end.

Definition dispatch_line (line : list Z) : list Z :=
  match parse_sexp line with
  | Some s => print_sexp (run_case s)
  | None => print_sexp (L [sym "badcase"; sym "parse"])
  end.
