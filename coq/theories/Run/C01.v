(* Correspondence + oracle entry point for C01 (and the inbound-encoder half of C06).
   case = (c01 (msg ...) obs), obs = panic | (#line ...)
   (a) model: Model/EncIn.enc_in on the same messages must give the same lines / panic;
   (b) oracle, independent of the model: the IMPLEMENTATION's lines, read by the reference
       reader Spec/GrammarIn, must drive a panel into the state Spec/DenoteIn assigns to the
       messages (judged from the empty panel and from a busy one), for representable messages;
       a panic on wire-reachable messages is a C06 violation.
   Oracles of the case: s_proc = the JSON json.Marshal gives for that state, c_setnet = the
   JSON text of the NetworkConfig (identified with the configuration). *)
From RP Require Import Lib.Base Lib.Sexp Lib.Strings Lib.TrimSpace Model.MsgIn Model.EncIn Spec.DenoteIn Spec.GrammarIn.
From Coq Require Import String.
Open Scope string_scope.
Open Scope list_scope.
Open Scope Z_scope.

Definition json_enc_run (s : HWCState) : list Z := match s_proc s with Some b => b | None => [] end.
Definition nc_print_run (b : list Z) : list Z := b.
Definition json_state_none (_ : list Z) : HWCState := empty_state.
Definition json_msgs_none (_ : list Z) : list (option InboundMessage) := [].
Definition nc_parse_run (s : list Z) : option (list Z) := Some s.

Definition one_line_trimmed_run (j : list Z) : bool := single_line j && bytes_eqb (trim_space j) j.
Definition rep_msg_run := rep_msg one_line_trimmed_run single_line.

(* wire-reachable: no nil element in repeated message fields *)
Definition wire_reachable (m : InboundMessage) : bool :=
  forallb (fun o => negb (is_none o)) (im_states m) && forallb (fun o => negb (is_none o)) (im_regs m).

Fixpoint dec_lines (l : list sexp) : option (list (list Z)) :=
  match l with
  | [] => Some []
  | B x :: r => let? xs := dec_lines r in Some (x :: xs)
  | _ => None
  end.

(* a panel that already shows something on components 1-9 and has history *)
Definition busy_panel : panel :=
  apply_effs panel0
    [EState [1; 2; 3; 5; 7; 9] (UMode 4 true 3); EState [1; 2; 4] (UColour (CIndex 9));
     EState [2; 5] (UExt 5 777); EState [1; 7] (UAdc true); ECmd (CBare KList); EReg 0 (str "A") 5].

Definition judge (ms : list InboundMessage) (lines : list (list Z)) : option sexp :=
  let rd p := fst (sem_in_lines json_state_none json_msgs_none nc_parse_run (p, None) lines) in
  let chk (p : panel) :=
    let got := rd p in let want := run_msgs p ms in
    if panel_eqb got want then None else Some (L [sx_panel got; sx_panel want]) in
  match chk panel0 with
  | Some d => Some d
  | None => chk busy_panel
  end.

Definition run_case (s : sexp) : sexp :=
  match s with
  | L [k; L msgs; obs] =>
    if sym_eqb k "c01" then
      match rd_msgs msgs with
      | None => v_badcase
      | Some ms =>
        let model := enc_in json_enc_run nc_print_run ms in
        if sym_eqb obs "panic" then
          if forallb wire_reachable ms then v_specfail "c06-enc-panic" (L [])
          else match model with Panic _ => v_ok false | Ok ls => v_mismatch (L (map B ls)) end
        else
          match obs with
          | L ol =>
            match dec_lines ol with
            | None => v_badcase
            | Some lines =>
              let rep := forallb rep_msg_run ms in
              match (if rep then judge ms lines else None) with
              | Some d => v_specfail "c01-meaning" d
              | None =>
                match model with
                | Ok ls => if list_eqb bytes_eqb ls lines
                           then v_ok (rep && negb (nilb lines))
                           else v_mismatch (L (map B ls))
                | Panic site => v_mismatch (L [sym "panic"; I site])
                end
              end
            end
          | _ => v_badcase
          end
      end
    else v_badcase
  | _ => v_badcase
  end.

Definition dispatch_line (line : list Z) : list Z :=
  match parse_sexp line with
  | Some s => print_sexp (run_case s)
  | None => print_sexp (L [sym "badcase"; sym "parse"])
  end.
