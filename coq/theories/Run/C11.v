(* C11 entry point: connection lifecycle under cancellation and panel loss.
   (a) spec clauses evaluated directly on the observed trace (Spec.NetSpec): callbacks
   alternate starting with connect; a cancelled disconnect happens only after the cancellation
   instant and is the last callback; per connection exactly the frames / lines completely
   received before the drop or cancellation are delivered, once, in order; after a
   non-cancelled disconnect the next accept comes after the retry period; after cancellation
   the call returns within the bound (retry sleep + EOF sleep + probe window), the wait group
   drains, every accepted socket sees the end of the stream.
   (b) model: timed replay (Model.Client.run_life) and acceptance of the untimed callback
   trace by the main / writer / watcher transition system (Model.Lifecycle.accepts_trace). *)
From RP Require Import Lib.Base Lib.Sexp Lib.Strings Model.Net Model.Client Model.Lifecycle Model.Teardown Spec.NetSpec Run.NetCommon.
From Coq Require Import String.
Open Scope string_scope.
Open Scope list_scope.
Open Scope Z_scope.

Fixpoint obs_cbs (o : list oev) : list (option bool * Z) :=
  match o with
  | [] => []
  | OCon t _ _ :: r => (None, t) :: obs_cbs r
  | ODis t c :: r => (Some c, t) :: obs_cbs r
  | _ :: r => obs_cbs r
  end.

Definition return_bound (s : scn) : Z := reconn (the_cfg s) + 1000 + 2000 + 600.

Definition c11_conn (s : scn) (i : nat) (g : grp) : option sexp :=
  match conn_view s i with
  | Some v =>
    if negb (cv_ok v) then None
    else if negb (delivery_clause s i g v) then
      Some (spec_fail "c11-delivery" i [L (map (fun d => B (snd d)) (g_dlv g))])
    else
      match g_dis g with
      | [(td, false)] =>
        let rp := reconn (the_cfg s) in
        if (Nat.ltb (Datatypes.S i) (List.length (s_conns s))) && (td + rp + margin <=? s_cancel s) && (s_listen s <=? td) then
          match nth_error (obs_accs (s_obs s)) (Datatypes.S i) with
          | Some a2 => if close_to a2 (td + rp) then None else Some (spec_fail "timing-c11-reconnect" i [I a2; I (td + rp)])
          | None => Some (spec_fail "c11-reconnect" i [])
          end
        else None
      | _ => None
      end
  | None => None
  end.

Definition untimed (o : list oev) : list lab :=
  (fix go (l : list oev) : list lab :=
     match l with
     | [] => []
     | OCon _ _ _ :: r => LbConnect :: go r
     | ODis _ c :: r => LbDisconnect c :: go r
     | ORet _ :: r => LbReturned :: go r
     | _ :: r => go r
     end) o.

(* the panel of the LAST accepted connection stopped reading for good (peer kind 3) and the call was
   cancelled during that connection: Model/Teardown.v says how that ends - with the watcher goroutine of
   /repo 02bcd7d the call leaves the connection reporting disconnect(true)
   (Props/C11.v c11_teardown_terminates, c11_blocked_writer_outcomes) *)
Definition last_paused (o : list oev) : bool :=
  let n := Z.of_nat (List.length (obs_accs o)) in
  existsb (fun p => match p with (i, _, kind, _) => (kind =? 3) && (i =? n - 1) end) (obs_peers o).
Fixpoint last_dis (cbs : list (option bool * Z)) (acc : option bool) : option bool :=
  match cbs with
  | [] => acc
  | (Some b, _) :: r => last_dis r (Some b)
  | (None, _) :: r => last_dis r None
  end.
Definition teardown_agrees (o : list oev) : bool :=
  negb (last_paused o) ||
  match blocked_cancel_outcome true, last_dis (obs_cbs o) None with
  | Some b, Some b' => Bool.eqb b b'
  | _, _ => false
  end.

Definition judge (s : scn) : sexp :=
  let o := s_obs s in
  if obs_inv o then mism "timing" "inv" []
  else if obs_panic o then L [sym "specfail"; sym "c11-panic"; L []]
  else
  let cbs := obs_cbs o in
  if negb (alternate true (map fst cbs)) then L [sym "specfail"; sym "c11-alternate"; L []]
  else if negb (cancelled_last (map fst cbs)) then L [sym "specfail"; sym "c11-cancelled-not-last"; L []]
  else if existsb (fun c => match c with (Some true, t) => t <? s_cancel s - 50 | _ => false end) cbs then
    L [sym "specfail"; sym "c11-cancelled-before-cancel"; L []]
  else
  (* a panel that starts listening is found within one no-connection period (plus margin), whatever the
     application does meanwhile (seed C11-16: submissions re-armed the wait) *)
  if negb (match s_conns s with [] => true | _ => false end)
     && (s_listen s + noconn (the_cfg s) + 2 * margin <=? s_cancel s)
     && negb (match obs_accs o with a :: _ => a <=? s_listen s + noconn (the_cfg s) + margin | [] => false end) then
    L [sym "specfail"; sym "c11-appears"; L (map I (obs_accs o))]
  else
  match obs_ret o with
  | None => L [sym "specfail"; sym "c11-no-return"; L []]
  | Some tr =>
    (* returned: every connect has had its disconnect (Props/C11.v c11_callbacks_balanced_at_return) *)
    if match last_dis cbs None with None => negb (match cbs with [] => true | _ => false end) | Some _ => false end then
      L [sym "specfail"; sym "c11-unbalanced"; L []]
    else
    if return_bound s <? tr - Z.max 0 (s_cancel s) then L [sym "specfail"; sym "timing-c11-return-bound"; L [I tr]]
    else
    match obs_wg o with
    | None => L [sym "specfail"; sym "c11-wg"; L []]
    | Some twg =>
      (* wg.Wait() (started by the caller right after cancelling) must not return before every
         internal goroutine has reached its exit (observed through the verif hook) *)
      if existsb (fun te => twg <? te) (obs_wexits o) then
        L [sym "specfail"; sym "c11-wg"; L [I twg; L (map I (obs_wexits o))]]
      else
      if existsb (fun p => match p with (i, _, kind, _) => (kind =? 0) end) (obs_peers o) then
        L [sym "specfail"; sym "c11-socket-open"; L []]
      else
      match for_conns (c11_conn s) 0 (obs_groups o) with
      | Some v => v
      | None =>
        if negb (accepts_trace (untimed o)) then mism "content" "lifecycle-system-rejects-trace" []
        else if negb (teardown_agrees o) then mism "content" "teardown-model-disagrees" []
        else
        match compare_client s (fun _ => None) with
        | Some v => v
        | None => v_ok true
        end
      end
    end
  end.

Definition dispatch_line (line : list Z) : list Z := run_with judge line.
