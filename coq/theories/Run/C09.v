(* C09 entry point: what the scripted panel received while message lists were submitted from
   one or several goroutines and the panel flooded events.  (a) spec: after the negotiation
   bytes the received stream is, in binary mode, a sequence of complete length-prefixed frames
   whose payloads decode (harness oracle: proto.Unmarshal + canonical digest) to the submitted
   messages, in ASCII mode the converter's lines each ended by exactly one LF; as a whole an
   interleaving of the submitters' sequences with every submission contiguous and each
   submitter's order kept (Spec.NetSpec.merge_ok).  (b) model: Model.Client.written for the
   order in which the writer goroutine received the submissions (searched), byte-exact. *)
From RP Require Import Lib.Base Lib.Sexp Lib.Strings Lib.Varint Model.Net Model.Client Spec.NetSpec Run.NetCommon.
From Coq Require Import String.
Open Scope string_scope.
Open Scope list_scope.
Open Scope Z_scope.

(* the model's search for the receive order of the writer goroutine *)
Fixpoint find_order (fuel : nat) (units : submission -> list bytes) (obs : list bytes)
         (subs : list (list submission)) : option (list submission) :=
  match fuel with
  | O => None
  | Datatypes.S f =>
    let subs' := filter (fun s => match s with [] => false | _ => true end) subs in
    match subs' with
    | [] => match obs with [] => Some [] | _ => None end
    | _ =>
      (fix each (before after : list (list submission)) : option (list submission) :=
         match after with
         | [] => None
         | s :: r =>
           match (match s with
                  | sb :: s' =>
                    match strip_prefix (units sb) obs with
                    | Some obs' =>
                      match find_order f units obs' (rev_append before (s' :: r)) with
                      | Some o => Some (sb :: o)
                      | None => None
                      end
                    | None => None
                    end
                  | [] => None
                  end) with
           | Some o => Some o
           | None => each (s :: before) r
           end
         end) [] subs'
    end
  end.

Definition total_subs (s : scn) : nat := fold_left (fun n l => (n + List.length l)%nat) (s_subs s) O.

Definition c09_view (s : scn) : option (bool * bytes) :=
  let k := Z.to_nat (Z.max 0 (s_subconn s)) in
  match conn_view s k, nth_error (obs_peers (s_obs s)) k with
  | Some v, Some (_, recv, _, _) => Some (cv_bin v, recv)
  | _, _ => None
  end.

Definition judge (s : scn) : sexp :=
  if obs_inv (s_obs s) then mism "timing" "inv" []
  else
  match c09_view s with
  | None => mism "content" "no-connection" []
  | Some (bin, recv) =>
    let pre := (if bin then probe_expected else probe_expected ++ [10]) ++ s_cbwrite s in
    match split_tr (zlen pre) recv [] with
    | None => spec_fail "c09-prefix" 0 []
    | Some (p, tail) =>
      if negb (bytes_eqb p pre) then spec_fail "c09-prefix" 0 []
      else
      let fuel := Datatypes.S (Datatypes.S (total_subs s)) in
      let units := if bin then units_bin else units_asc in
      let obs_units_or_fail : sexp + list bytes :=
        if bin then
          let (ps, rest) := parse_frames (nat_of_z (zlen_tr tail 0 / 4 + 2)) tail in
          match rest with
          | _ :: _ => inl (spec_fail "c09-framing" 0 [B rest])
          | [] =>
            let cs := map (lookup (s_rorc s)) ps in
            if existsb (fun c => bytes_eqb c unknown_canon) cs then inl (spec_fail "c09-undecodable" 0 [])
            else inr cs
          end
        else
          let pieces := split_lf tail in
          match rev pieces with
          | [] :: r => inr (rev r)
          | _ => inl (spec_fail "c09-unterminated" 0 [])
          end in
      match obs_units_or_fail with
      | inl v => v
      | inr ou =>
        if negb (merge_ok fuel ou (map (map units) (s_subs s))) then
          spec_fail "c09-merge" 0 [L (map (fun u => B u) ou)]
        else
          (* model *)
          let order := match find_order fuel units ou (s_subs s) with Some o => o | None => List.concat (s_subs s) end in
          let w := written_for s bin order in
          match compare_client s (fun i => if i =? Z.max 0 (s_subconn s) then Some w else None) with
          | Some v => v
          | None => v_ok (match ou with [] => false | _ => true end)
          end
      end
    end
  end.

Definition dispatch_line (line : list Z) : list Z := run_with judge line.
