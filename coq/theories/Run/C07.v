(* Correspondence + oracle entry point for C07.
   Case kinds:
     (field SIDE #path #value (#out ...))         SIDE = in | out; one string field of the message
                                                  set to #value; ALL strings the encoder returned
     (flat KIND SIDE #prefix #value (#out ...))   KIND = json | svg | msg: a field the encoder
                                                  flattens; its line is the one starting with #prefix
     (lines SIDE (#out ...) #wire)                any other message (#wire = its protobuf encoding, for replay)
     (trim #in #out)                              strings.TrimSpace vs Lib/TrimSpace.v
   Oracle (needs no model of the encoders): no returned string contains LF; for flattened
   fields the non-white-space characters of payload and value are equal.  Model comparison:
   the flattened payload equals one_line (strip_lb / strip_lb_svg value). *)
From RP Require Import Lib.Base Lib.Sexp Lib.Strings Lib.TrimSpace Model.Flatten Spec.OneLine.
From Coq Require Import String.
Open Scope string_scope.
Open Scope Z_scope.
Open Scope list_scope.

Fixpoint dec_blist (l : list sexp) : option (list (list Z)) :=
  match l with [] => Some [] | B x :: r => let? xs := dec_blist r in Some (x :: xs) | _ => None end.

Fixpoint first_lf (ls : list (list Z)) (k : Z) : option Z :=
  match ls with [] => None | l :: r => if no_lf_b l then first_lf r (k + 1) else Some k end.

Fixpoint find_prefixed (p : list Z) (ls : list (list Z)) : option (list Z) :=
  match ls with
  | [] => None
  | l :: r => match drop_prefix p l with Some rest => Some rest | None => find_prefixed p r end
  end.

(* the stream a panel receives, split again at LF, must be the strings (plus the empty rest) *)
Definition frame_ok (outs : list (list Z)) : bool :=
  list_eqb bytes_eqb (split_on_fast 10 (frame outs)) (outs ++ [[]]).   (* = unframe (frame outs), split_on_fast_eq *)

Definition nonempty (l : list (list Z)) : bool := match l with [] => false | _ => true end.

(* no LF anywhere, and the framing on the wire is sound *)
Definition judge_lines (outs : list (list Z)) (ok : sexp) : sexp :=
  match first_lf outs 0 with
  | Some i => v_specfail "c07-lf" (I i)
  | None => if frame_ok outs then ok else v_specfail "c07-frame" (I 0)
  end.

Definition judge_flat (svg : bool) (prefix value : list Z) (outs : list (list Z)) : sexp :=
  match first_lf outs 0 with
  | Some i => v_specfail "c07-lf" (I i)
  | None =>
    if negb (frame_ok outs) then v_specfail "c07-frame" (I 0)
    else
      match find_prefixed prefix outs with
      | None => v_specfail "c07-content" (sym "no-line")
      | Some payload =>
        (* characters exist only in well-formed UTF-8; on ill-formed input gluing two lines can form a
           new rune (Props/C07.v c07_flatten_keeps_joins), so only no-LF and the model are checked there *)
        if utf8_valid value && negb (bytes_eqb (nonws payload) (nonws value)) then v_specfail "c07-content" (B (nonws payload))
        (* every input, ill-formed included: the bytes outside white-space encodings (Props/C07.v c07_flatten_keeps_bytes) *)
        else if negb (bytes_eqb (hard_bytes payload) (hard_bytes value)) then v_specfail "c07-bytes" (B (hard_bytes payload))
        else
          (* strip_lb_fast = strip_lb, strip_lb_svg_fast = strip_lb_svg (Props/C07.v c07_execution_twins) *)
          let m := one_line (if svg then strip_lb_svg_fast value else strip_lb_fast value) in
          if bytes_eqb m payload then v_ok true else v_mismatch (B m)
      end
  end.

Definition run_case (s : sexp) : sexp :=
  match s with
  | L [S n; S side; B path; B value; L outs] =>
    if bytes_eqb n (str "field") then
      match dec_blist outs with
      | Some os => judge_lines os (v_ok (contains_byte 10 value))
      | None => v_badcase
      end
    else v_badcase
  | L [S n; S kind; S side; B prefix; B value; L outs] =>
    if bytes_eqb n (str "flat") then
      match dec_blist outs with
      | Some os => judge_flat (bytes_eqb kind (str "svg")) prefix value os
      | None => v_badcase
      end
    else v_badcase
  | L [S n; S side; L outs; B _] =>
    if bytes_eqb n (str "lines") then
      match dec_blist outs with
      | Some os => judge_lines os (v_ok (nonempty os))
      | None => v_badcase
      end
    else v_badcase
  | L [S n; B a; B b] =>
    if bytes_eqb n (str "trim") then (if bytes_eqb (trim_space_fast a) b && bytes_eqb (trim_space a) b then v_ok true else v_mismatch (B (trim_space a)))
    else v_badcase
  | _ => v_badcase
  end.

Definition dispatch_line (line : list Z) : list Z :=
  match parse_sexp line with
  | Some s => print_sexp (run_case s)
  | None => print_sexp (L [sym "badcase"; sym "parse"])
  end.
