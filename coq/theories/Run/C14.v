(* Correspondence + oracle entry point for C14.
   (clean <topo> <topo-after>)                      CleanSections
   (rand <seq 0/1> <topo> <topo-after>)             RandomizeTypes (time-seeded: the RELATION is
                                                    judged; the model is fed the observed mapping)
   (json <topo> #json1 <tree1> <topo2> #json2 #json3)  ToJSON / json.Unmarshal / ToJSON / ... 
   (parse <topo> <legacy view>)                     rawpanelhelpers.ParseTopology(ToJSON())
   (c14big n seq seed types_before types_after components changed duplicates zero_key)
                                                    RandomizeTypes with tens of thousands of types:
                                                    relation evaluated by the harness, numbers judged here
   Topologies are generic values of the REGENERATED schema printed by reflection (map entries
   in key-string order). *)
From RP Require Import Lib.Base Lib.Sexp Lib.Strings Lib.JsonTree Gen.TopoSchema Model.Topo
     Spec.Topo Spec.TopoTransform Spec.TopoJson.
From Coq Require Import String.
Local Open Scope string_scope.
Open Scope Z_scope.

Definition dec_topo (s : sexp) : option topology :=
  let? v := val_of_sexp topo_schema s in topo_of_val topo_schema v.

Definition topo_eqb (a b : topology) : bool :=
  bytes_eqb (tpTitle a) (tpTitle b) && list_eqb hwc_eqb (tpHWc a) (tpHWc b) && index_eqb (tpIndex a) (tpIndex b).

(* same finite map (keys distinct on both sides) *)
Definition index_same (a b : list (Z * typedef)) : bool :=
  (zlen a =? zlen b) &&
  forallb (fun e => match idx_find (fst e) b with Some d => typedef_eqb d (snd e) | None => false end) a.

(* ---- the mapping RandomizeTypes used, reconstructed from before/after ---- *)
Fixpoint hwc_constraints (t : topology) (hs hs' : list hwc) : list (Z * Z) :=
  match hs, hs' with
  | h :: r, h' :: r' =>
    if negb (hType h =? 0) && indexed t (hType h) then (hType h, hType h') :: hwc_constraints t r r'
    else hwc_constraints t r r'
  | _, _ => []
  end.

Fixpoint assign (ks : list Z) (cons : list (Z * Z)) (idx idx' : list (Z * typedef)) (used : list Z) : list (Z * Z) :=
  match ks with
  | [] => []
  | k :: r =>
    let m :=
      match map_find k cons with
      | Some m => m
      | None =>
        match find (fun e => negb (existsb (Z.eqb (fst e)) used) && typedef_eqb (snd e) (idx_get k idx)) idx' with
        | Some e => fst e
        | None => -1
        end
      end in
    (k, m) :: assign r cons idx idx' (m :: used)
  end.

Fixpoint insert_by_snd (e : Z * Z) (l : list (Z * Z)) : list (Z * Z) :=
  match l with
  | [] => [e]
  | h :: r => if snd e <=? snd h then e :: l else h :: insert_by_snd e r
  end.
Definition sort_by_snd (l : list (Z * Z)) : list (Z * Z) := fold_right insert_by_snd [] l.

Definition run_rand (seqm : bool) (t t' : topology) : sexp :=
  (* sequential mode: no side condition; random mode: the theorem excludes a draw of id 0 *)
  let spec_applies := types_closed t && (seqm || negb (indexed t' 0)) in
  if spec_applies && negb (renumber_ok seqm t t') then
    v_specfail "c14-renumber" (L [of_bool seqm; I (zlen (tpIndex t)); I (zlen (tpIndex t'))])
  else
    let cons := hwc_constraints t (tpHWc t) (tpHWc t') in
    let mapping := assign (keys (tpIndex t)) cons (tpIndex t) (tpIndex t') (map snd cons) in
    let mapping := if seqm then sort_by_snd mapping else mapping in
    let order := map fst mapping in
    let news := map snd mapping in
    let rnd := fun i : nat => if seqm then 7 else nth i news 0 in
    match randomize seqm rnd order (Datatypes.S (Datatypes.S (List.length order))) t with
    | Some m =>
      if bytes_eqb (tpTitle m) (tpTitle t') && list_eqb hwc_eqb (tpHWc m) (tpHWc t') && index_same (tpIndex m) (tpIndex t')
      then v_ok (spec_applies && negb (zlen (tpIndex t) =? 0))
      else v_mismatch (L [sym "rand"; L (map (fun p => L [I (fst p); I (snd p)]) mapping)])
    | None => v_mismatch (sym "out-of-fuel")
    end.

(* ---- ParseTopology: the legacy reduced structs of rawpanelhelpers.go see a projection ---- *)
(* legacy view: ((id x y #txt type) ...) ((key w h #out #in #desc subidx dispW dispH dispSubidx nsub) ...) *)
Definition legacy_hwc (h : hwc) : sexp := L [I (hId h); I (hX h); I (hY h); B (hTxt h); I (hType h)].
Definition legacy_entry (e : Z * typedef) : sexp :=
  let d := snd e in
  let '(dw, dh, ds) := match tDisp d with Some x => (dW x, dH x, dSubidx x) | None => (0, 0, 0) end in
  L [I (fst e); I (tW d); I (tH d); B (tOut d); B (tIn d); B (tDesc d); I (tSubidx d); I dw; I dh; I ds; I (zlen (tSub d))].

Fixpoint sexp_eqb (a b : sexp) {struct a} : bool :=
  match a, b with
  | I x, I y => x =? y
  | B x, B y => bytes_eqb x y
  | S x, S y => bytes_eqb x y
  | L xs, L ys =>
    (fix go (xs ys : list sexp) {struct xs} : bool :=
       match xs, ys with
       | [], [] => true
       | x :: xs', y :: ys' => sexp_eqb x y && go xs' ys'
       | _, _ => false
       end) xs ys
  | _, _ => false
  end.

Definition run_case (s : sexp) : sexp :=
  match s with
  | L [S n; tv; tv'] =>
    if bytes_eqb n (str "clean") then
      match dec_topo tv, dec_topo tv' with
      | Some t, Some t' =>
        if negb (clean_ok t t') then v_specfail "c14-clean" (L [I (zlen (tpHWc t)); I (zlen (tpHWc t'))])
        else if topo_eqb (clean_sections t) t' then v_ok (existsb is_marker (tpHWc t) && negb (forallb is_marker (tpHWc t)))
        else v_mismatch (sym "clean")
      | _, _ => v_badcase
      end
    else if bytes_eqb n (str "parse") then
      match dec_topo tv, tv' with
      | Some t, L [L hs; L es] =>
        if sexp_eqb (L hs) (L (map legacy_hwc (tpHWc t))) && sexp_eqb (L es) (L (map legacy_entry (tpIndex t)))
        then v_ok (negb (zlen (tpHWc t) =? 0))
        else v_specfail "c14-parse-legacy" (L [L (map legacy_hwc (tpHWc t)); L (map legacy_entry (tpIndex t))])
      | _, _ => v_badcase
      end
    else v_badcase
  | L [S n; I nn; I sq; I _; I tb; I ta; I comps; I changed; I dup; I zero] =>
    (* many types: the relation was computed by the harness (too large for the association-list
       model); judged here: type count kept, no resolved definition / component changed, no two
       old ids on one new id (sequential: no id outside 1..n).  Random mode with key 0 handed
       out: outside the theorem's hypothesis (observation), not judged. *)
    if bytes_eqb n (str "c14big") then
      if (sq =? 0) && negb (zero =? 0) then v_ok false
      else if (ta =? tb) && (changed =? 0) && (dup =? 0) then v_ok (0 <? tb)
      else v_specfail "c14-renumber-big" (L [I nn; I sq; I tb; I ta; I comps; I changed; I dup])
    else v_badcase
  | L [S n; I sq; tv; tv'] =>
    if bytes_eqb n (str "rand") then
      match dec_topo tv, dec_topo tv' with
      | Some t, Some t' => run_rand (negb (sq =? 0)) t t'
      | _, _ => v_badcase
      end
    else v_badcase
  | L [S n; tv; tv'; L qs] =>
    (* (cleanq before after ((id x y #txt) ...)): every id-based getter was called BEFORE CleanSections
       (anything an implementation remembers from those calls is stale now), then the markers were
       removed, then GetHWCxy / GetHWCtext were asked for every id of the old list and an absent one:
       they must answer from the component list as it is NOW (first component with that id; a removed
       marker is not found: (-1,-1) and "") - "keeping all others", as seen through the look-ups *)
    if bytes_eqb n (str "cleanq") then
      match dec_topo tv, dec_topo tv' with
      | Some t, Some t' =>
        if negb (clean_ok t t') then v_specfail "c14-clean" (L [I (zlen (tpHWc t)); I (zlen (tpHWc t'))])
        else
          let want (id : Z) : Z * Z * list Z :=
            match find (fun h => hId h =? id) (tpHWc t') with
            | Some h => (hX h, hY h, hTxt h)
            | None => (-1, -1, [])
            end in
          let bad := existsb (fun q => match q with
                                       | L [I id; I x; I y; B txt] =>
                                         let '(wx, wy, wt) := want id in negb ((x =? wx) && (y =? wy) && bytes_eqb txt wt)
                                       | _ => true
                                       end) qs in
          if bad then v_specfail "c14-clean-lookups" (L qs)
          else if topo_eqb (clean_sections t) t' then v_ok (existsb is_marker (tpHWc t) && negb (forallb is_marker (tpHWc t)))
          else v_mismatch (sym "clean")
      | _, _ => v_badcase
      end
    else v_badcase
  | L [S n; tv; B j1; tree; tv2; B j2; B j3] =>
    if bytes_eqb n (str "json") then
      match val_of_sexp topo_schema tv, val_of_sexp topo_schema tv2 with
      | Some v, Some v2 =>
        if negb (has_type topo_schema v) then L [sym "badcase"; sym "has_type"]
        else if negb (veq topo_schema v v2) then v_specfail "c14-json-roundtrip" (B j1)
        else if negb (bytes_eqb j1 j2 && bytes_eqb j2 j3) then v_specfail "c14-json-fixpoint" (L [B j1; B j2; B j3])
        else if negb (json_matches (enc topo_schema v) tree) then v_mismatch (sym "json-tree")
        else if negb (val_eqb (canon topo_schema v) v2) then v_mismatch (sym "json-canon")
        else v_ok (match topo_of_val topo_schema v with Some t => negb (zlen (tpHWc t) =? 0) | None => false end)
      | _, _ => v_badcase
      end
    else v_badcase
  | _ => v_badcase
  end.

Definition dispatch_line (line : list Z) : list Z :=
  match parse_sexp line with
  | Some s => print_sexp (run_case s)
  | None => print_sexp (L [sym "badcase"; sym "parse"])
  end.
