(* Correspondence + oracle entry point for C16 (and the drawing part of C20):
   case = (seq W H (op ...) (#buf-after-op1 ...)).  The implementation's buffers are
   (a) compared with the model's, step by step, and (b) judged by Spec.Clip.judge_step. *)
From RP Require Import Lib.Base Lib.Sexp Model.Mono Spec.Clip.
From Coq Require Import String.
Open Scope string_scope.
Open Scope Z_scope.

Definition dec_op (s : sexp) : option op :=
  match s with
  | L (S n :: args) =>
    let is k := bytes_eqb n (str k) in
    match args with
    | [I x; I y; I c] =>
      if is "px" then Some (OPixel x y (negb (c =? 0))) else None
    | [I x; I y; I w; I c] =>
      if is "hl" then Some (OHLine x y w (negb (c =? 0)))
      else if is "vl" then Some (OVLine x y w (negb (c =? 0)))
      else if is "bbox" then Some (OSetBBox x y w c) else None
    | [I x; I y; I w; I h; I c] =>
      if is "fr" then Some (OFillRect x y w h (negb (c =? 0)))
      else if is "ch" then Some (OCircleHelper x y w h (negb (c =? 0))) else None
    | [I x; I y; I w; I h; I r; I c] =>
      if is "rr" then Some (ORoundRect x y w h r (negb (c =? 0)))
      else if is "frr" then Some (OFillRoundRect x y w h r (negb (c =? 0)))
      else if is "fch" then Some (OFillCircleHelper x y w h r (negb (c =? 0))) else None
    | [I x; I y; B bm; I w; I h; I c; I iv; I al] =>
      if is "bm" then Some (OBitmap x y bm w h (negb (c =? 0)) (negb (iv =? 0)) (negb (al =? 0))) else None
    | [I x; I y; I ch; I c; I bg; I sh; I sv] =>
      if is "chr" then Some (OChar x y ch (negb (c =? 0)) (negb (bg =? 0)) sh sv) else None
    | [B s] => if is "txt" then Some (OText s) else None
    | [I v] =>
      if is "inv" then Some (OInvert (negb (v =? 0)))
      else if is "tcol" then Some (OSetTextColor (negb (v =? 0)))
      else if is "spc" then Some (OSetSpacing v)
      else if is "wrap" then Some (OSetWrap (negb (v =? 0))) else None
    | [I a; I c] =>
      if is "font" then Some (OSetFont a (negb (c =? 0)))
      else if is "cur" then Some (OSetCursor a c)
      else if is "tsz" then Some (OSetTextSize a c) else None
    | _ => None
    end
  | _ => None
  end.

Fixpoint dec_ops (l : list sexp) : option (list op) :=
  match l with
  | [] => Some []
  | x :: r => let? o := dec_op x in let? os := dec_ops r in Some (o :: os)
  end.

(* an observation is the buffer after the operation, or the symbol `panic` (kept as [None]) *)
Fixpoint dec_bufs (l : list sexp) : option (list (option (list Z))) :=
  match l with
  | [] => Some []
  | B x :: r => let? xs := dec_bufs r in Some (Some x :: xs)
  | S _ :: r => let? xs := dec_bufs r in Some (None :: xs)
  | _ => None
  end.

(* walk the op list with the implementation's buffers; model state [m] runs alongside.
   The oracle uses the implementation's previous buffer and the (deterministic) geometry
   and text state, which no drawing operation changes except RenderText's cursor. *)
Fixpoint walk (m : img) (prev : list Z) (ops : list op) (bufs : list (option (list Z))) (k : Z) (nt : bool) : sexp :=
  match ops, bufs with
  | [], [] => v_ok nt
  | _ :: _, None :: _ => L [sym "specfail"; sym "c16-panic"; I k]     (* "no operation panics" *)
  | o :: ops', Some obs :: bufs' =>
    let m' := run_op m o in
    (* a caller buffer longer than the canvas needs (CreateFromBytes keeps the whole slice): the bytes
       behind the last canvas row are not pixels of the canvas and must never change *)
    let cut := gwib (ig m) * gH (ig m) in
    if negb (bytes_eqb (skipn (Z.to_nat cut) obs) (skipn (Z.to_nat cut) prev)) then L [sym "specfail"; sym "c16-step"; I k; I 6] else
    match judge_step (ig m) (it m) o prev obs with
    | StepBad w => L [sym "specfail"; sym "c16-step"; I k; I w]
    | StepOk ch =>
      if bytes_eqb (idata m') obs then walk m' obs ops' bufs' (k + 1) (nt || ch)
      else L [sym "mismatch"; I k; B (idata m')]
    end
  | _, _ => v_badcase
  end.

Definition run_case (s : sexp) : sexp :=
  match s with
  | L [S n; I w; I h; L ops; L bufs] =>
    if bytes_eqb n (str "seq") then
      match dec_ops ops, dec_bufs bufs with
      | Some ops, Some bufs =>
        if (w <? 0) || (h <? 0) then v_badcase
        else let m := new_image w h in walk m (idata m) ops bufs 0 false
      | _, _ => v_badcase
      end
    else v_badcase
  | L [S n; I w; I h; B init; L ops; L bufs] =>
    (* canvas created with CreateFromBytes(w, h, init): the caller's buffer (at least ceil(w/8)*h
       bytes) becomes the image, padding bits included *)
    if bytes_eqb n (str "seqb") then
      match dec_ops ops, dec_bufs bufs with
      | Some ops, Some bufs =>
        if (w <? 0) || (h <? 0) || negb (ceil_div8 w * h <=? zlen init) || negb (bytes_ok init) then v_badcase
        else let m := with_data (new_image w h) init in walk m init ops bufs 0 false
      | _, _ => v_badcase
      end
    else v_badcase
  | _ => v_badcase
  end.

Definition dispatch_line (line : list Z) : list Z :=
  match parse_sexp line with
  | Some s => print_sexp (run_case s)
  | None => print_sexp (L [sym "badcase"; sym "parse"])
  end.
