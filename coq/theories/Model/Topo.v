(* Executable model of /repo/topology/topology.go (look-ups, predicates, CleanSections,
   RandomizeTypes).  Written from the source, line references in comments.  No proofs.
   Strings are byte lists, float32 Rotate is its 32-bit pattern, the TypeIndex map is an
   association list with distinct keys (map look-up = first match), every function that
   ranges over the map takes the iteration order as an explicit argument. *)
From RP Require Import Lib.Base Lib.Sexp Lib.Strings Lib.JsonTree.
From Coq Require Import String.
Local Open Scope string_scope.
Open Scope Z_scope.

(* ---------- data (topology.go:15-70) ---------- *)
Record subel : Type := SubEl {
  sObj : list Z; sX : Z; sY : Z; sW : Z; sH : Z; sR : Z; sRx : Z; sRy : Z; sStyle : list Z; sIdx : Z }.

Record disp : Type := Disp {
  dW : Z; dH : Z; dSubidx : Z; dType : list Z; dShrink : Z; dBorder : Z }.

Record typedef : Type := TypeDef {
  tW : Z; tH : Z; tOut : list Z; tIn : list Z; tDesc : list Z; tExt : list Z;
  tSubidx : Z;
  tRotate : Z;                  (* float32 bit pattern *)
  tDisp : option disp;          (* *TopologyHWcTypeDef_Display *)
  tSub : list subel;            (* nil and empty are the same for every look-up *)
  tRender : list Z }.

Record hwc : Type := HWc {
  hId : Z; hX : Z; hY : Z; hTxt : list Z; hType : Z;
  hOv : option typedef;         (* *TopologyHWcTypeDef *)
  hUIparent : Z; hUIyang : Z }.

Record topology : Type := Topo {
  tpTitle : list Z;
  tpHWc : list hwc;
  tpIndex : list (Z * typedef) }.

Definition zero_td : typedef := TypeDef 0 0 [] [] [] [] 0 0 None [] [].
Definition zero_hwc : hwc := HWc 0 0 0 [] 0 None 0 0.

(* float32 compare with 0: +0 and -0 are zero, NaN is not *)
Definition f32_nonzero (bits : Z) : bool := negb ((bits =? 0) || (bits =? 2147483648)).

(* map look-up *)
Fixpoint idx_find (k : Z) (idx : list (Z * typedef)) : option typedef :=
  match idx with
  | [] => None
  | (k', d) :: r => if k' =? k then Some d else idx_find k r
  end.
Definition idx_get (k : Z) (idx : list (Z * typedef)) : typedef :=
  match idx_find k idx with Some d => d | None => zero_td end.   (* missing key: zero value *)
Definition keys (idx : list (Z * typedef)) : list Z := map fst idx.

(* ---------- GetTypeDefWithOverride (320-364): eleven conditionals ---------- *)
Definition overlay1 (base o : typedef) : typedef :=
  TypeDef
    (if tW o >? 0 then tW o else tW base)
    (if tH o >? 0 then tH o else tH base)
    (match tOut o with [] => tOut base | _ => tOut o end)
    (match tIn o with [] => tIn base | _ => tIn o end)
    (match tDesc o with [] => tDesc base | _ => tDesc o end)
    (match tExt o with [] => tExt base | _ => tExt o end)
    (if tSubidx o >? 0 then tSubidx o else tSubidx base)
    (if f32_nonzero (tRotate o) then tRotate o else tRotate base)
    (match tDisp o with Some _ => tDisp o | None => tDisp base end)
    (match tSub o with [] => tSub base | _ => tSub o end)
    (match tRender o with [] => tRender base | _ => tRender o end).

Definition resolve1 (t : topology) (h : hwc) : typedef :=
  let base := idx_get (hType h) (tpIndex t) in
  match hOv h with
  | None => base
  | Some o => overlay1 base o
  end.

(* ---------- GetHWCTypeDefinition (387-430): nine conditionals ---------- *)
(* the guard fmt.Sprint(ptr) != fmt.Sprint(struct) compares "&{..." with "{...": always true *)
Definition overlay2 (base o : typedef) : typedef :=
  TypeDef
    (if tW o >? 0 then tW o else tW base)
    (if tH o >? 0 then tH o else tH base)
    (match tOut o with [] => tOut base | _ => tOut o end)
    (match tIn o with [] => tIn base | _ => tIn o end)
    (tDesc base)
    (match tExt o with [] => tExt base | _ => tExt o end)
    (if tSubidx o >? 0 then tSubidx o else tSubidx base)
    (if f32_nonzero (tRotate o) then tRotate o else tRotate base)
    (match tDisp o with Some _ => tDisp o | None => tDisp base end)
    (match tSub o with [] => tSub base | _ => tSub o end)
    (tRender base).

(* HWCMapKey is an index into HWc; a negative one passes the `>= len` test and panics *)
Definition resolve2_idx (t : topology) (k : Z) : res typedef :=
  if k >=? zlen (tpHWc t) then Ok zero_td
  else if k <? 0 then Panic 388
  else
    let h := znth zero_hwc (tpHWc t) k in
    match idx_find (hType h) (tpIndex t) with
    | None => Ok zero_td
    | Some base =>
      match hOv h with
      | None => Ok base
      | Some o => Ok (overlay2 base o)
      end
    end.

(* first component with the id, as position *)
Fixpoint find_pos (id : Z) (l : list hwc) (k : Z) : option (Z * hwc) :=
  match l with
  | [] => None
  | h :: r => if hId h =? id then Some (k, h) else find_pos id r (k + 1)
  end.
Definition find_hwc (id : Z) (t : topology) : option hwc :=
  match find_pos id (tpHWc t) 0 with Some (_, h) => Some h | None => None end.

(* GetHWCTypeDefinitionFromHWCid(HWCid int) (368-376): compares with uint32(HWCid) *)
Definition resolve2_id (t : topology) (id : Z) : res typedef :=
  match find_pos (wrap32 id) (tpHWc t) 0 with
  | Some (k, _) => resolve2_idx t k
  | None => Ok zero_td
  end.
(* GetHWCDefinitionFromHWCid (377-385) *)
Definition hwc_def_id (t : topology) (id : Z) : hwc :=
  match find_hwc (wrap32 id) t with Some h => h | None => zero_hwc end.

(* ---------- id look-ups (73-137) ---------- *)
Definition get_hwcs (t : topology) : list Z := map hId (tpHWc t).
Definition get_xy (t : topology) (id : Z) : Z * Z :=
  match find_hwc id t with Some h => (hX h, hY h) | None => (-1, -1) end.
Definition get_text (t : topology) (id : Z) : list Z :=
  match find_hwc id t with Some h => hTxt h | None => [] end.
(* GetHWCtype: (definition, nil) or (nil, "No HWC found for <id>") *)
Definition get_type (t : topology) (id : Z) : typedef + list Z :=
  match find_hwc id t with
  | Some h => inl (resolve1 t h)
  | None => inr (str "No HWC found for " ++ itoa id)%list
  end.
Definition has_disp (d : typedef) : bool := match tDisp d with Some _ => true | None => false end.
Definition get_with_display (t : topology) : list Z :=
  map hId (filter (fun h => has_disp (resolve1 t h)) (tpHWc t)).

(* ---------- predicates on a definition (139-232) ---------- *)
Definition input_type (d : typedef) : list Z := fst (fst (cut_on 44 (tIn d))).
Definition is_str (s : list Z) (lit : string) : bool := bytes_eqb s (str lit).
Definition is_button (d : typedef) : bool :=
  let i := input_type d in is_str i "b" || is_str i "b4" || is_str i "b2h" || is_str i "b2v" || is_str i "pb".
Definition is_binary (d : typedef) : bool := is_button d || is_str (input_type d) "gpi".
Definition is_pulsed (d : typedef) : bool := let i := input_type d in is_str i "pb" || is_str i "p".
Definition is_absolute (d : typedef) : bool :=
  let i := input_type d in is_str i "av" || is_str i "ah" || is_str i "ar" || is_str i "a".
Definition is_intensity (d : typedef) : bool :=
  let i := input_type d in is_str i "iv" || is_str i "ih" || is_str i "ir" || is_str i "i".
Definition has_led (d : typedef) : bool :=      (* tests In against rg/rb/mono, as the source does *)
  is_str (tOut d) "rgb" || is_str (tIn d) "rg" || is_str (tIn d) "rb" || is_str (tIn d) "mono".
Definition is_motorized (d : typedef) : bool := is_str (tExt d) "pos".
Definition led_bar_steps (d : typedef) : Z :=
  if contains_sub (str "steps") (tExt d) then zlen (tSub d) else 0.
Definition has_steps (d : typedef) : Z :=
  if is_str (tExt d) "steps" then
    let mn := fold_left (fun m s => if sIdx s <? m then sIdx s else m) (tSub d) 10000 in
    let mx := fold_left (fun m s => if sIdx s >? m then sIdx s else m) (tSub d) (-10000) in
    mx - mn + 1
  else 0.

(* all predicate results of a definition, as one tuple (the harness prints them in this order) *)
Record preds : Type := Preds {
  pInput : list Z; pButton : bool; pBinary : bool; pPulsed : bool; pAbsolute : bool; pIntensity : bool;
  pDisplay : bool; pDispInfo : option disp; pLED : bool; pSteps : Z; pLedBar : Z; pMotor : bool }.
Definition preds_of (d : typedef) : preds :=
  Preds (input_type d) (is_button d) (is_binary d) (is_pulsed d) (is_absolute d) (is_intensity d)
        (has_disp d) (tDisp d) (has_led d) (has_steps d) (led_bar_steps d) (is_motorized d).

(* ---------- CleanSections (432-444) ---------- *)
Fixpoint marker_positions (l : list hwc) (k : Z) : list Z :=
  match l with
  | [] => []
  | h :: r => if hType h =? 250 then k :: marker_positions r (k + 1) else marker_positions r (k + 1)
  end.
(* slices.Delete(s, i, i+1) for 0 <= i < len s *)
Fixpoint delete_nat {A} (l : list A) (n : nat) : list A :=
  match l, n with
  | [], _ => []
  | _ :: r, O => r
  | x :: r, Datatypes.S n' => x :: delete_nat r n'
  end.
Definition delete_at {A} (l : list A) (i : Z) : list A := if i <? 0 then l else delete_nat l (Z.to_nat i).

Definition clean_sections (t : topology) : topology :=
  let ids := marker_positions (tpHWc t) 0 in
  Topo (tpTitle t) (fold_left (fun l i => delete_at l i) (rev ids) (tpHWc t)) (tpIndex t).

(* ---------- RandomizeTypes (270-313) ---------- *)
(* order : the iteration order of `range topology.TypeIndex` (any permutation of the keys);
   rnd   : the results of the successive r1.Intn(1000000) calls;
   fuel  : bound on the iterations of the inner collision loop (per key). *)
Definition mem_key (k : Z) (m : list (Z * typedef)) : bool := existsb (fun p => fst p =? k) m.

Fixpoint find_free (seqm : bool) (fuel : nat) (rnd : nat -> Z) (pos : nat) (m sq : Z)
         (new : list (Z * typedef)) : option (Z * Z * nat) :=
  match fuel with
  | O => None
  | Datatypes.S f =>
    if mem_key m new then
      if seqm then find_free seqm f rnd pos (wrap32 (m + 1)) (wrap32 (sq + 1)) new
      else find_free seqm f rnd (Datatypes.S pos) (wrap32 (rnd pos)) sq new
    else Some (m, sq, pos)
  end.

Fixpoint rand_keys (seqm : bool) (fuel : nat) (rnd : nat -> Z) (pos : nat) (sq : Z) (order : list Z)
         (idx new : list (Z * typedef)) (mapping : list (Z * Z)) : option (list (Z * typedef) * list (Z * Z)) :=
  match order with
  | [] => Some (new, mapping)
  | k :: r =>
    let m0 := if seqm then sq else wrap32 (rnd pos) in     (* Intn is called in both modes *)
    match find_free seqm fuel rnd (Datatypes.S pos) m0 sq new with
    | None => None
    | Some (m, sq', pos') =>
      rand_keys seqm fuel rnd pos' sq' r idx (new ++ [(m, idx_get k idx)])%list (mapping ++ [(k, m)])%list
    end
  end.

Fixpoint map_find (k : Z) (m : list (Z * Z)) : option Z :=
  match m with
  | [] => None
  | (a, b) :: r => if a =? k then Some b else map_find k r
  end.

Definition set_type (h : hwc) (ty : Z) : hwc :=
  HWc (hId h) (hX h) (hY h) (hTxt h) ty (hOv h) (hUIparent h) (hUIyang h).

Definition retype (mapping : list (Z * Z)) (h : hwc) : hwc :=
  if hType h =? 0 then h
  else match map_find (hType h) mapping with
       | Some n => set_type h n
       | None => h                       (* "ERROR: Type %d not found in type index" *)
       end.

(* None = the collision loop ran out of fuel *)
Definition randomize (seqm : bool) (rnd : nat -> Z) (order : list Z) (fuel : nat) (t : topology) : option topology :=
  match rand_keys seqm fuel rnd 0 1 order (tpIndex t) [] [] with
  | None => None
  | Some (new, mapping) => Some (Topo (tpTitle t) (map (retype mapping) (tpHWc t)) new)
  end.

(* ---------- boolean equalities (used by Run/ and the spec oracles) ---------- *)
Definition subel_eqb (a b : subel) : bool :=
  bytes_eqb (sObj a) (sObj b) && (sX a =? sX b) && (sY a =? sY b) && (sW a =? sW b) && (sH a =? sH b)
  && (sR a =? sR b) && (sRx a =? sRx b) && (sRy a =? sRy b) && bytes_eqb (sStyle a) (sStyle b) && (sIdx a =? sIdx b).
Definition disp_eqb (a b : disp) : bool :=
  (dW a =? dW b) && (dH a =? dH b) && (dSubidx a =? dSubidx b) && bytes_eqb (dType a) (dType b)
  && (dShrink a =? dShrink b) && (dBorder a =? dBorder b).
Definition opt_eqb {A} (e : A -> A -> bool) (a b : option A) : bool :=
  match a, b with Some x, Some y => e x y | None, None => true | _, _ => false end.
Definition typedef_eqb (a b : typedef) : bool :=
  (tW a =? tW b) && (tH a =? tH b) && bytes_eqb (tOut a) (tOut b) && bytes_eqb (tIn a) (tIn b)
  && bytes_eqb (tDesc a) (tDesc b) && bytes_eqb (tExt a) (tExt b) && (tSubidx a =? tSubidx b)
  && (tRotate a =? tRotate b) && opt_eqb disp_eqb (tDisp a) (tDisp b)
  && list_eqb subel_eqb (tSub a) (tSub b) && bytes_eqb (tRender a) (tRender b).
Definition hwc_eqb (a b : hwc) : bool :=
  (hId a =? hId b) && (hX a =? hX b) && (hY a =? hY b) && bytes_eqb (hTxt a) (hTxt b) && (hType a =? hType b)
  && opt_eqb typedef_eqb (hOv a) (hOv b) && (hUIparent a =? hUIparent b) && (hUIyang a =? hUIyang b).
Definition entry_eqb (a b : Z * typedef) : bool := (fst a =? fst b) && typedef_eqb (snd a) (snd b).

(* ---------- a generic value of the regenerated schema viewed as a model record ---------- *)
(* Fields are found BY GO NAME in the schema, so reordering or adding fields in topology.go
   does not disturb the view; a field the model needs and cannot find gives None. *)
Definition fint (n : string) (fs : list (finfo * ty)) (l : list val) : option Z :=
  match field_by_name (str n) fs l with Some (_, VInt z) => Some z | _ => None end.
Definition fstr (n : string) (fs : list (finfo * ty)) (l : list val) : option (list Z) :=
  match field_by_name (str n) fs l with Some (_, VStr s) => Some s | _ => None end.
Definition ffloat (n : string) (fs : list (finfo * ty)) (l : list val) : option Z :=
  match field_by_name (str n) fs l with Some (_, VFloat b) => Some b | _ => None end.

Definition subel_of_val (t : ty) (v : val) : option subel :=
  match t, v with
  | TStruct _ fs, VStruct l =>
    let? o := fstr "ObjType" fs l in let? x := fint "X" fs l in let? y := fint "Y" fs l in
    let? w := fint "W" fs l in let? h := fint "H" fs l in let? r := fint "R" fs l in
    let? rx := fint "Rx" fs l in let? ry := fint "Ry" fs l in let? st := fstr "Style" fs l in
    let? ix := fint "Idx" fs l in Some (SubEl o x y w h r rx ry st ix)
  | _, _ => None
  end.

Definition disp_of_val (t : ty) (v : val) : option disp :=
  match t, v with
  | TStruct _ fs, VStruct l =>
    let? w := fint "W" fs l in let? h := fint "H" fs l in let? si := fint "Subidx" fs l in
    let? ty := fstr "Type" fs l in let? sh := fint "Shrink" fs l in let? bo := fint "Border" fs l in
    Some (Disp w h si ty sh bo)
  | _, _ => None
  end.

Definition typedef_of_val (t : ty) (v : val) : option typedef :=
  match t, v with
  | TStruct _ fs, VStruct l =>
    let? w := fint "W" fs l in let? h := fint "H" fs l in
    let? o := fstr "Out" fs l in let? i := fstr "In" fs l in let? de := fstr "Desc" fs l in
    let? e := fstr "Ext" fs l in let? si := fint "Subidx" fs l in let? ro := ffloat "Rotate" fs l in
    let? re := fstr "Render" fs l in
    let? di := match field_by_name (str "Disp") fs l with
               | Some (TPtr dt, VNil) => Some None
               | Some (TPtr dt, VPtr x) => match disp_of_val dt x with Some d => Some (Some d) | None => None end
               | _ => None
               end in
    let? su := match field_by_name (str "Sub") fs l with
               | Some (TSlice st, VNil) => Some []
               | Some (TSlice st, VSlice xs) => omapM (subel_of_val st) xs
               | _ => None
               end in
    Some (TypeDef w h o i de e si ro di su re)
  | _, _ => None
  end.

Definition hwc_of_val (t : ty) (v : val) : option hwc :=
  match t, v with
  | TStruct _ fs, VStruct l =>
    let? id := fint "Id" fs l in let? x := fint "X" fs l in let? y := fint "Y" fs l in
    let? tx := fstr "Txt" fs l in let? ty := fint "Type" fs l in
    let? up := fint "UIparent" fs l in let? uy := fint "UIyang" fs l in
    let? ov := match field_by_name (str "TypeOverride") fs l with
               | Some (TPtr dt, VNil) => Some None
               | Some (TPtr dt, VPtr x) => match typedef_of_val dt x with Some d => Some (Some d) | None => None end
               | _ => None
               end in
    Some (HWc id x y tx ty ov up uy)
  | _, _ => None
  end.

Definition topo_of_val (t : ty) (v : val) : option topology :=
  match t, v with
  | TStruct _ fs, VStruct l =>
    let? ti := fstr "Title" fs l in
    let? hs := match field_by_name (str "HWc") fs l with
               | Some (TSlice ht, VNil) => Some []
               | Some (TSlice ht, VSlice xs) => omapM (hwc_of_val ht) xs
               | _ => None
               end in
    let? ix := match field_by_name (str "TypeIndex") fs l with
               | Some (TMap _ _ dt, VNil) => Some []
               | Some (TMap _ _ dt, VMap es) =>
                 omapM (fun kv : Z * val => match typedef_of_val dt (snd kv) with
                                            | Some d => Some (fst kv, d) | None => None end) es
               | _ => None
               end in
    Some (Topo ti hs ix)
  | _, _ => None
  end.

(* the schema's type of a type definition / component (for decoding returned values) *)
Definition sub_ty (n : string) (t : ty) : option ty :=
  match t with
  | TStruct _ fs =>
    (fix go (fs : list (finfo * ty)) : option ty :=
       match fs with
       | [] => None
       | (i, ft) :: r => if bytes_eqb (goname i) (str n) then Some ft else go r
       end) fs
  | _ => None
  end.
Definition hwc_ty_of (topo_t : ty) : option ty :=
  match sub_ty "HWc" topo_t with Some (TSlice t) => Some t | _ => None end.
Definition typedef_ty_of (topo_t : ty) : option ty :=
  match sub_ty "TypeIndex" topo_t with Some (TMap _ _ t) => Some t | _ => None end.
