(* The inbound (system -> panel) protobuf message tree as Gallina records, and its
   s-expression image shared by the Go harness (harness/cin/msgsx.go) and Run/C01, Run/C02.

   Conventions: a Go pointer to a sub-message is [option]; repeated message fields are
   [list (option _)] because encoding/json can put nil elements there (proto.Unmarshal
   cannot); enums are int32 ([Z], possibly negative), uint32 fields are [Z] in [0,2^32),
   strings / bytes are [list Z].  [t_unk] / [hg_unk] say "this HWCText / HWCGfx carries
   unknown protobuf fields": invisible to the converters except through
   proto.Equal(x, &T{}) (an otherwise empty sub-message with unknown fields is not empty).
   [s_proc] and [c_setnet] are opaque payloads: their meaning goes through encoding/json
   (oracle); the harness puts there whatever identifies the sub-message for the case at hand
   (see Run/C01.v, Run/C02.v).  No proofs here. *)
From RP Require Import Lib.Base Lib.Sexp.
From Coq Require Import String.
Open Scope Z_scope.

Record ColorRGB := mkRGB { cr_red : Z; cr_green : Z; cr_blue : Z }.
(* rwp.Color and rwp.HWCColor have the same shape *)
Record Color := mkColor { c_rgb : option ColorRGB; c_index : option Z }.
Record HWCMode := mkMode { m_state : Z; m_output : bool; m_blink : Z }.
Record HWCExtended := mkExt { x_interp : Z; x_value : Z }.
Record Font := mkFont { f_face : Z; f_height : Z; f_width : Z }.
Record TextStyle := mkStyle {
  ts_titlefont : option Font; ts_textfont : option Font; ts_fixed : bool;
  ts_padding : Z; ts_spacing : Z; ts_ufs : Z }.
Record ScaleM := mkScale { sc_type : Z; sc_rlo : Z; sc_rhi : Z; sc_llo : Z; sc_lhi : Z }.
Record HWCText := mkText {
  t_int : Z; t_fmt : Z; t_sicon : Z; t_micon : Z; t_title : bytes; t_solid : bool;
  t_l1 : bytes; t_l2 : bytes; t_int2 : Z; t_pair : Z;
  t_scale : option ScaleM; t_style : option TextStyle; t_inv : bool;
  t_pix : option Color; t_bg : option Color; t_unk : bool }.
Record HWCGfx := mkHGfx {
  hg_type : Z; hg_w : Z; hg_h : Z; hg_xy : bool; hg_x : Z; hg_y : Z; hg_data : bytes; hg_unk : bool }.
Record HWCState := mkState {
  s_ids : list Z; s_mode : option HWCMode; s_color : option Color; s_ext : option HWCExtended;
  s_text : option HWCText; s_gfx : option HWCGfx; s_adc : option bool; s_proc : option bytes }.
Record Register := mkReg { r_kind : Z; r_id : bytes; r_value : Z }.
Record Command := mkCmd {
  c_activate : bool; c_info : bool; c_map : bool; c_topology : bool; c_burnin : bool;
  c_calib : bool; c_netcfg : bool; c_registers : bool; c_connections : bool; c_stats : bool;
  c_clear : bool; c_clearleds : bool; c_cleardisp : bool; c_getsleep : bool; c_wakeup : bool;
  c_reboot : bool;
  c_bright : option (Z * Z);        (* (LEDs, OLEDs) *)
  c_setcal : option bytes;          (* CalibrationProfile.Json *)
  c_setnet : option bytes;          (* NetworkConfig, opaque *)
  c_simenv : option Z;              (* Environment.RunMode *)
  c_sleeptimeout : option Z; c_sleepmode : option Z; c_screensaver : option Z;
  c_dimmed : option Z; c_heartbeat : option Z; c_pubstat : option Z; c_loadcpu : option Z;
  c_web : option bool; c_jsoncfg : option bool }.
Record InboundMessage := mkMsg {
  im_flow : Z; im_cmd : option Command;
  im_states : list (option HWCState); im_regs : list (option Register) }.

Definition empty_cmd : Command :=
  mkCmd false false false false false false false false false false false false false false false false
        None None None None None None None None None None None None None.
Definition empty_msg : InboundMessage := mkMsg 0 None [] [].
Definition empty_state : HWCState := mkState [] None None None None None None None.
Definition empty_text : HWCText :=
  mkText 0 0 0 0 [] false [] [] 0 0 None None false None None false.
Definition empty_gfx : HWCGfx := mkHGfx 0 0 0 false 0 0 [] false.
(* view as the image record of Model/Gfx.v (which owns chunking and reassembly) *)

(* proto.Equal(x, &rwp.HWCText{}): no populated field (a non-nil sub-message pointer is
   populated even when the sub-message is itself empty) and no unknown fields. *)
Definition is_none {A} (o : option A) : bool := match o with None => true | Some _ => false end.
Fixpoint filter_some {A} (l : list (option A)) : list A :=
  match l with [] => [] | Some a :: r => a :: filter_some r | None :: r => filter_some r end.

Definition nilb {A} (l : list A) : bool := match l with [] => true | _ => false end.
Definition text_is_empty (t : HWCText) : bool :=
  (t_int t =? 0) && (t_fmt t =? 0) && (t_sicon t =? 0) && (t_micon t =? 0) && nilb (t_title t)
  && negb (t_solid t) && nilb (t_l1 t) && nilb (t_l2 t) && (t_int2 t =? 0) && (t_pair t =? 0)
  && is_none (t_scale t) && is_none (t_style t) && negb (t_inv t) && is_none (t_pix t)
  && is_none (t_bg t) && negb (t_unk t).
Definition gfx_is_empty (g : HWCGfx) : bool :=
  (hg_type g =? 0) && (hg_w g =? 0) && (hg_h g =? 0) && negb (hg_xy g) && (hg_x g =? 0) && (hg_y g =? 0)
  && nilb (hg_data g) && negb (hg_unk g).

(* ------------------------------------------------------------------------------------
   S-expression image.  Absent sub-message = symbol [nil]; present = its value.
     msg   ::= (m flow cmd (state ...) (reg ...))
     cmd   ::= nil | (c b1 ... b16 bright setcal setnet simenv st sm ss dg hb ps lc web js)
               bright ::= nil | (leds oleds); setcal, setnet ::= nil | #hex; others nil | int
     state ::= nil | (s (id ...) mode color ext text gfx adc proc)
               mode ::= nil | (state output blink); color ::= nil | (rgb index)
               rgb ::= nil | (r g b); index ::= nil | int; ext ::= nil | (interp value)
               text ::= nil | (int fmt sicon micon #title solid #l1 #l2 int2 pair scale style inv pix bg unk)
               scale ::= nil | (type rlo rhi llo lhi); style ::= nil | (titlefont textfont fixed pad spc ufs)
               font ::= nil | (face height width)
               gfx ::= nil | (type w h xy x y #data unk); adc ::= nil | 0/1; proc ::= nil | #hex
     reg   ::= nil | (r kind #id value)
   ------------------------------------------------------------------------------------ *)
Open Scope string_scope.
Open Scope Z_scope.
Definition s_nil : sexp := sym "nil".
Definition is_snil (s : sexp) : bool := sym_eqb s "nil".

Definition sx_opt {A} (f : A -> sexp) (o : option A) : sexp :=
  match o with None => s_nil | Some a => f a end.
Definition sx_rgb (c : ColorRGB) : sexp := L [I (cr_red c); I (cr_green c); I (cr_blue c)].
Definition sx_color (c : Color) : sexp := L [sx_opt sx_rgb (c_rgb c); sx_opt I (c_index c)].
Definition sx_mode (m : HWCMode) : sexp := L [I (m_state m); of_bool (m_output m); I (m_blink m)].
Definition sx_ext (x : HWCExtended) : sexp := L [I (x_interp x); I (x_value x)].
Definition sx_font (f : Font) : sexp := L [I (f_face f); I (f_height f); I (f_width f)].
Definition sx_style (s : TextStyle) : sexp :=
  L [sx_opt sx_font (ts_titlefont s); sx_opt sx_font (ts_textfont s); of_bool (ts_fixed s);
     I (ts_padding s); I (ts_spacing s); I (ts_ufs s)].
Definition sx_scale (s : ScaleM) : sexp :=
  L [I (sc_type s); I (sc_rlo s); I (sc_rhi s); I (sc_llo s); I (sc_lhi s)].
Definition sx_text (t : HWCText) : sexp :=
  L [I (t_int t); I (t_fmt t); I (t_sicon t); I (t_micon t); B (t_title t); of_bool (t_solid t);
     B (t_l1 t); B (t_l2 t); I (t_int2 t); I (t_pair t); sx_opt sx_scale (t_scale t);
     sx_opt sx_style (t_style t); of_bool (t_inv t); sx_opt sx_color (t_pix t);
     sx_opt sx_color (t_bg t); of_bool (t_unk t)].
Definition sx_gfx (g : HWCGfx) : sexp :=
  L [I (hg_type g); I (hg_w g); I (hg_h g); of_bool (hg_xy g); I (hg_x g); I (hg_y g); B (hg_data g);
     of_bool (hg_unk g)].
Definition sx_state (s : HWCState) : sexp :=
  L [sym "s"; L (map I (s_ids s)); sx_opt sx_mode (s_mode s); sx_opt sx_color (s_color s);
     sx_opt sx_ext (s_ext s); sx_opt sx_text (s_text s); sx_opt sx_gfx (s_gfx s);
     sx_opt of_bool (s_adc s); sx_opt B (s_proc s)].
Definition sx_reg (r : Register) : sexp := L [sym "r"; I (r_kind r); B (r_id r); I (r_value r)].
Definition sx_cmd (c : Command) : sexp :=
  L ([sym "c"] ++
     map of_bool [c_activate c; c_info c; c_map c; c_topology c; c_burnin c; c_calib c; c_netcfg c;
                  c_registers c; c_connections c; c_stats c; c_clear c; c_clearleds c;
                  c_cleardisp c; c_getsleep c; c_wakeup c; c_reboot c] ++
     [sx_opt (fun p => L [I (fst p); I (snd p)]) (c_bright c); sx_opt B (c_setcal c);
      sx_opt B (c_setnet c); sx_opt I (c_simenv c); sx_opt I (c_sleeptimeout c);
      sx_opt I (c_sleepmode c); sx_opt I (c_screensaver c); sx_opt I (c_dimmed c);
      sx_opt I (c_heartbeat c); sx_opt I (c_pubstat c); sx_opt I (c_loadcpu c);
      sx_opt of_bool (c_web c); sx_opt of_bool (c_jsoncfg c)]).
Definition sx_msg (m : InboundMessage) : sexp :=
  L [sym "m"; I (im_flow m); sx_opt sx_cmd (im_cmd m); L (map (sx_opt sx_state) (im_states m));
     L (map (sx_opt sx_reg) (im_regs m))].

(* ---- reader (None = undecodable case) ---- *)
Definition rd_opt {A} (f : sexp -> option A) (s : sexp) : option (option A) :=
  if is_snil s then Some None else match f s with Some a => Some (Some a) | None => None end.
Definition rd_rgb (s : sexp) : option ColorRGB :=
  match s with L [I r; I g; I b] => Some (mkRGB r g b) | _ => None end.
Definition rd_color (s : sexp) : option Color :=
  match s with
  | L [a; b] => let? rgb := rd_opt rd_rgb a in let? ix := rd_opt get_int b in Some (mkColor rgb ix)
  | _ => None
  end.
Definition rd_mode (s : sexp) : option HWCMode :=
  match s with L [I a; I b; I c] => Some (mkMode a (negb (b =? 0)) c) | _ => None end.
Definition rd_ext (s : sexp) : option HWCExtended :=
  match s with L [I a; I b] => Some (mkExt a b) | _ => None end.
Definition rd_font (s : sexp) : option Font :=
  match s with L [I a; I b; I c] => Some (mkFont a b c) | _ => None end.
Definition rd_style (s : sexp) : option TextStyle :=
  match s with
  | L [a; b; I fx; I pad; I spc; I ufs] =>
    let? tf := rd_opt rd_font a in let? xf := rd_opt rd_font b in
    Some (mkStyle tf xf (negb (fx =? 0)) pad spc ufs)
  | _ => None
  end.
Definition rd_scale (s : sexp) : option ScaleM :=
  match s with L [I a; I b; I c; I d; I e] => Some (mkScale a b c d e) | _ => None end.
Definition rd_text (s : sexp) : option HWCText :=
  match s with
  | L [I v; I fmt; I si; I mi; B title; I solid; B l1; B l2; I v2; I pr; sc; st; I inv; pix; bg; I unk] =>
    let? sc' := rd_opt rd_scale sc in let? st' := rd_opt rd_style st in
    let? pix' := rd_opt rd_color pix in let? bg' := rd_opt rd_color bg in
    Some (mkText v fmt si mi title (negb (solid =? 0)) l1 l2 v2 pr sc' st' (negb (inv =? 0)) pix' bg'
                 (negb (unk =? 0)))
  | _ => None
  end.
Definition rd_gfx (s : sexp) : option HWCGfx :=
  match s with
  | L [I t; I w; I h; I xy; I x; I y; B d; I unk] =>
    Some (mkHGfx t w h (negb (xy =? 0)) x y d (negb (unk =? 0)))
  | _ => None
  end.
Definition rd_state (s : sexp) : option HWCState :=
  match s with
  | L [k; L ids; mo; co; ex; tx; gf; adc; pr] =>
    if sym_eqb k "s" then
      let? ids' := get_ints ids in
      let? mo' := rd_opt rd_mode mo in let? co' := rd_opt rd_color co in
      let? ex' := rd_opt rd_ext ex in let? tx' := rd_opt rd_text tx in
      let? gf' := rd_opt rd_gfx gf in let? adc' := rd_opt get_bool adc in
      let? pr' := rd_opt get_bytes pr in
      Some (mkState ids' mo' co' ex' tx' gf' adc' pr')
    else None
  | _ => None
  end.
Definition rd_reg (s : sexp) : option Register :=
  match s with
  | L [k; I a; B b; I c] => if sym_eqb k "r" then Some (mkReg a b c) else None
  | _ => None
  end.
Definition rd_pair (s : sexp) : option (Z * Z) :=
  match s with L [I a; I b] => Some (a, b) | _ => None end.
Definition rd_cmd (s : sexp) : option Command :=
  match s with
  | L [k; I b1; I b2; I b3; I b4; I b5; I b6; I b7; I b8; I b9; I b10; I b11; I b12; I b13; I b14;
       I b15; I b16; br; cal; net; env; st; sm; ss; dg; hb; ps; lc; web; js] =>
    if sym_eqb k "c" then
      let nz x := negb (x =? 0) in
      let? br' := rd_opt rd_pair br in let? cal' := rd_opt get_bytes cal in
      let? net' := rd_opt get_bytes net in let? env' := rd_opt get_int env in
      let? st' := rd_opt get_int st in let? sm' := rd_opt get_int sm in
      let? ss' := rd_opt get_int ss in let? dg' := rd_opt get_int dg in
      let? hb' := rd_opt get_int hb in let? ps' := rd_opt get_int ps in
      let? lc' := rd_opt get_int lc in let? web' := rd_opt get_bool web in
      let? js' := rd_opt get_bool js in
      Some (mkCmd (nz b1) (nz b2) (nz b3) (nz b4) (nz b5) (nz b6) (nz b7) (nz b8) (nz b9) (nz b10)
                  (nz b11) (nz b12) (nz b13) (nz b14) (nz b15) (nz b16)
                  br' cal' net' env' st' sm' ss' dg' hb' ps' lc' web' js')
    else None
  | _ => None
  end.
Fixpoint rd_list {A} (f : sexp -> option A) (l : list sexp) : option (list A) :=
  match l with
  | [] => Some []
  | x :: r => let? a := f x in let? as' := rd_list f r in Some (a :: as')
  end.
Definition rd_msg (s : sexp) : option InboundMessage :=
  match s with
  | L [k; I flow; cmd; L sts; L regs] =>
    if sym_eqb k "m" then
      let? cmd' := rd_opt rd_cmd cmd in
      let? sts' := rd_list (rd_opt rd_state) sts in
      let? regs' := rd_list (rd_opt rd_reg) regs in
      Some (mkMsg flow cmd' sts' regs')
    else None
  | _ => None
  end.
(* a list of messages where a nil element (Go nil pointer) is the symbol nil *)
Definition rd_msgs_opt (l : list sexp) : option (list (option InboundMessage)) := rd_list (rd_opt rd_msg) l.
Definition rd_msgs (l : list sexp) : option (list InboundMessage) := rd_list rd_msg l.
