(* Outbound (panel -> system) message records: the ASCII-relevant image of
   ibeam_rawpanel.OutboundMessage and its sub-messages, plus their s-expression wire form
   (shared by the Go harness `harness/cout` and Run/C03.v, Run/C04.v).  No proofs.

   Conventions: pointer to sub-message = option; repeated message field = list of option
   (a nil element is a Go nil pointer: reachable from Go callers, not from proto.Unmarshal);
   uint32/int32/enum fields are Z (wire-reachable values lie in their 32-bit range);
   float32 fields are carried as their 32 bit pattern (Z in [0,2^32)); strings are bytes.
   The 13 capability flags, the 8 int32 and the 8 bool fields of SystemStat are lists in
   the fixed order of [cap_names] / [ss_names] below (length invariant: [msg_shape_ok]). *)
From RP Require Import Lib.Base Lib.Sexp.
From Coq Require Import String.
Open Scope Z_scope.

Record bin_ev := mkBin { be_pressed : bool; be_edge : Z }.

Record hwc_event := mkEv {
  ev_id : Z;                     (* HWCID uint32 *)
  ev_ts : Z;                     (* Timestamp uint32 - not expressible in ASCII *)
  ev_bin : option bin_ev;
  ev_pulsed : option Z;          (* PulsedEvent.Value int32 *)
  ev_abs : option (Z * Z);       (* AbsoluteEvent (Value, PrevValue) uint32 *)
  ev_speed : option (Z * Z);     (* SpeedEvent (Value, PrevValue) int32 *)
  ev_raw : option Z              (* RawAnalogEvent.Value uint32 *)
}.

Record panel_info := mkPI {
  pi_model : bytes; pi_serial : bytes; pi_name : bytes; pi_version : bytes; pi_platform : bytes;
  pi_bpr : bool; pi_maxclients : Z; pi_locked : list bytes; pi_type : Z;
  pi_support : option (list bool)   (* 13 flags, order of cap_names *)
}.

Record sys_stat := mkSS {
  ss_cpu : Z;                        (* CPUUsage uint32 *)
  ss_temp : Z; ss_ext : Z; ss_volt : Z;   (* float32 bit patterns *)
  ss_ints : list Z;                  (* 8 x int32: CPUFreqCurrent .. MemCached *)
  ss_flags : list bool               (* 8 x bool: UnderVoltageNow .. SoftTempLimit *)
}.

Record register := mkReg { rg_kind : Z; rg_id : bytes; rg_val : Z }.

Record out_msg := mkMsg {
  om_flow : Z;
  om_map : list (Z * Z);             (* HWCavailability; keys distinct *)
  om_pinfo : option panel_info;
  om_topo : option (bytes * bytes);  (* Svgbase, Json *)
  om_burnin : option bytes;
  om_netcfg : option bytes;          (* NetworkConfig, carried as its json.Marshal text (oracle) *)
  om_calib : option bytes;
  om_defcalib : option bytes;
  om_sleept : option Z;
  om_sleeps : option bool;
  om_hb : option Z;
  om_dim : option Z;
  om_conn : option (list bytes);
  om_rts : option (Z * Z * Z * Z);   (* BootsCount, TotalUptime, SessionUptime, ScreenSaveOnTime *)
  om_err : option bytes;
  om_msg : option bytes;
  om_health : option Z;
  om_sys : option sys_stat;
  om_events : list (option hwc_event);
  om_regs : list (option register)
}.

Definition empty_msg : out_msg :=
  mkMsg 0 [] None None None None None None None None None None None None None None None None [] [].

Definition empty_pinfo : panel_info := mkPI [] [] [] [] [] false 0 [] 0 None.
Definition empty_sys : sys_stat := mkSS 0 0 0 0 (repeat 0 8) (repeat false 8).
Definition empty_event (id : Z) : hwc_event := mkEv id 0 None None None None None.

Definition no_caps : list bool := repeat false 13.

(* names as they appear on the wire, in the encoder's order *)
Definition cap_names : list bytes :=
  map str ["ASCII"; "Binary"; "JSONFeedback"; "JSONonInbound"; "JSONonOutbound"; "System"; "RawADCValues";
           "BurninProfile"; "EnvHealth"; "Registers"; "Calibration"; "Processors"; "NetworkSettings"]%string.

Definition ss_names : list bytes :=
  map str ["CPUUsage"; "CPUTemp"; "ExtTemp"; "CPUVoltage"; "CPUFreqCurrent"; "CPUFreqMin"; "CPUFreqMax";
           "MemTotal"; "MemFree"; "MemAvailable"; "MemBuffers"; "MemCached"; "UnderVoltageNow"; "UnderVoltage";
           "FreqCapNow"; "FreqCap"; "ThrottledNow"; "Throttled"; "SoftTempLimitNow"; "SoftTempLimit"]%string.

(* shape invariant of the list-encoded fixed-size fields *)
Definition pinfo_shape_ok (p : panel_info) : bool :=
  match pi_support p with Some c => (List.length c =? 13)%nat | None => true end.
Definition sys_shape_ok (s : sys_stat) : bool :=
  (List.length (ss_ints s) =? 8)%nat && (List.length (ss_flags s) =? 8)%nat.
Definition msg_shape_ok (m : out_msg) : bool :=
  match om_pinfo m with Some p => pinfo_shape_ok p | None => true end &&
  match om_sys m with Some s => sys_shape_ok s | None => true end.

(* ------------------------------------------------------------------ s-expression form
   (msg flow ((k v)...) pinfo topo burnin netcfg calib defcalib sleept sleeps hb dim conn rts err msg
        health sys (event...) (reg...))
   absent sub-message = symbol nil. *)
Definition sx_nil : sexp := sym "nil".
Definition is_nil (s : sexp) : bool := sym_eqb s "nil".

Definition sx_opt {A} (f : A -> sexp) (o : option A) : sexp :=
  match o with Some a => f a | None => sx_nil end.
Definition sx_str (b : bytes) : sexp := L [sym "s"; B b].
Definition sx_num (z : Z) : sexp := L [sym "n"; I z].
Definition sx_bool (b : bool) : sexp := L [sym "n"; of_bool b].
Definition sx_strs (l : list bytes) : sexp := L (sym "l" :: map B l).

Definition sx_event (e : hwc_event) : sexp :=
  L [sym "ev"; I (ev_id e); I (ev_ts e);
     sx_opt (fun b => L [sym "b"; of_bool (be_pressed b); I (be_edge b)]) (ev_bin e);
     sx_opt sx_num (ev_pulsed e);
     sx_opt (fun p => L [sym "n"; I (fst p); I (snd p)]) (ev_abs e);
     sx_opt (fun p => L [sym "n"; I (fst p); I (snd p)]) (ev_speed e);
     sx_opt sx_num (ev_raw e)].

Definition sx_pinfo (p : panel_info) : sexp :=
  L [sym "pi"; B (pi_model p); B (pi_serial p); B (pi_name p); B (pi_version p); B (pi_platform p);
     of_bool (pi_bpr p); I (pi_maxclients p); L (map B (pi_locked p)); I (pi_type p);
     sx_opt (fun c => L (sym "sup" :: map of_bool c)) (pi_support p)].

Definition sx_sys (s : sys_stat) : sexp :=
  L (sym "ss" :: I (ss_cpu s) :: I (ss_temp s) :: I (ss_ext s) :: I (ss_volt s)
       :: map I (ss_ints s) ++ map of_bool (ss_flags s)).

Definition sx_reg (r : register) : sexp := L [sym "r"; I (rg_kind r); B (rg_id r); I (rg_val r)].

Definition sx_msg (m : out_msg) : sexp :=
  L [sym "msg"; I (om_flow m); L (map (fun kv => L [I (fst kv); I (snd kv)]) (om_map m));
     sx_opt sx_pinfo (om_pinfo m);
     sx_opt (fun t => L [sym "topo"; B (fst t); B (snd t)]) (om_topo m);
     sx_opt sx_str (om_burnin m); sx_opt sx_str (om_netcfg m);
     sx_opt sx_str (om_calib m); sx_opt sx_str (om_defcalib m);
     sx_opt sx_num (om_sleept m); sx_opt sx_bool (om_sleeps m);
     sx_opt sx_num (om_hb m); sx_opt sx_num (om_dim m);
     sx_opt sx_strs (om_conn m);
     sx_opt (fun r => match r with (a, b, c, d) => L [sym "rt"; I a; I b; I c; I d] end) (om_rts m);
     sx_opt sx_str (om_err m); sx_opt sx_str (om_msg m);
     sx_opt sx_num (om_health m); sx_opt sx_sys (om_sys m);
     L (map (sx_opt sx_event) (om_events m)); L (map (sx_opt sx_reg) (om_regs m))].

(* ---- decoding ---- *)
Fixpoint get_byteses (l : list sexp) : option (list bytes) :=
  match l with
  | [] => Some []
  | B x :: r => let? xs := get_byteses r in Some (x :: xs)
  | _ => None
  end.
Fixpoint get_bools (l : list sexp) : option (list bool) :=
  match l with
  | [] => Some []
  | I z :: r => let? xs := get_bools r in Some (negb (z =? 0) :: xs)
  | _ => None
  end.

Definition dx_opt {A} (f : sexp -> option A) (s : sexp) : option (option A) :=
  if is_nil s then Some None else let? a := f s in Some (Some a).
Definition dx_str (s : sexp) : option bytes :=
  match s with L [S _; B b] => Some b | _ => None end.
Definition dx_num (s : sexp) : option Z :=
  match s with L [S _; I z] => Some z | _ => None end.
Definition dx_bool (s : sexp) : option bool :=
  match s with L [S _; I z] => Some (negb (z =? 0)) | _ => None end.
Definition dx_pair (s : sexp) : option (Z * Z) :=
  match s with L [S _; I a; I b] => Some (a, b) | _ => None end.
Definition dx_strs (s : sexp) : option (list bytes) :=
  match s with L (S _ :: r) => get_byteses r | _ => None end.

Definition dx_event (s : sexp) : option hwc_event :=
  match s with
  | L [S _; I id; I ts; b; p; a; sp; r] =>
    let? b' := dx_opt (fun x => match x with L [S _; I pr; I ed] => Some (mkBin (negb (pr =? 0)) ed) | _ => None end) b in
    let? p' := dx_opt dx_num p in
    let? a' := dx_opt dx_pair a in
    let? sp' := dx_opt dx_pair sp in
    let? r' := dx_opt dx_num r in
    Some (mkEv id ts b' p' a' sp' r')
  | _ => None
  end.

Definition dx_pinfo (s : sexp) : option panel_info :=
  match s with
  | L [S _; B mo; B se; B na; B ve; B pl; I bpr; I mc; L lk; I ty; sup] =>
    let? lk' := get_byteses lk in
    let? sup' := dx_opt (fun x => match x with L (S _ :: r) => get_bools r | _ => None end) sup in
    Some (mkPI mo se na ve pl (negb (bpr =? 0)) mc lk' ty sup')
  | _ => None
  end.

Definition dx_sys (s : sexp) : option sys_stat :=
  match s with
  | L (S _ :: I cpu :: I t :: I e :: I v :: r) =>
    let? ints := get_ints (firstn 8 r) in
    let? fl := get_bools (skipn 8 r) in
    if (List.length r =? 16)%nat then Some (mkSS cpu t e v ints fl) else None
  | _ => None
  end.

Definition dx_reg (s : sexp) : option register :=
  match s with L [S _; I k; B id; I v] => Some (mkReg k id v) | _ => None end.

Fixpoint dx_list {A} (f : sexp -> option A) (l : list sexp) : option (list A) :=
  match l with
  | [] => Some []
  | x :: r => let? a := f x in let? rs := dx_list f r in Some (a :: rs)
  end.

Definition dx_kv (s : sexp) : option (Z * Z) :=
  match s with L [I a; I b] => Some (a, b) | _ => None end.

Definition dx_msg (s : sexp) : option out_msg :=
  match s with
  | L [S _; I flow; L mp; pinfo; topo; burnin; netcfg; calib; defcalib; sleept; sleeps; hb; dim; conn; rts;
       err; msg; health; sys; L evs; L regs] =>
    let? mp' := dx_list dx_kv mp in
    let? pinfo' := dx_opt dx_pinfo pinfo in
    let? topo' := dx_opt (fun x => match x with L [S _; B a; B b] => Some (a, b) | _ => None end) topo in
    let? burnin' := dx_opt dx_str burnin in
    let? netcfg' := dx_opt dx_str netcfg in
    let? calib' := dx_opt dx_str calib in
    let? defcalib' := dx_opt dx_str defcalib in
    let? sleept' := dx_opt dx_num sleept in
    let? sleeps' := dx_opt dx_bool sleeps in
    let? hb' := dx_opt dx_num hb in
    let? dim' := dx_opt dx_num dim in
    let? conn' := dx_opt dx_strs conn in
    let? rts' := dx_opt (fun x => match x with L [S _; I a; I b; I c; I d] => Some (a, b, c, d) | _ => None end) rts in
    let? err' := dx_opt dx_str err in
    let? msg' := dx_opt dx_str msg in
    let? health' := dx_opt dx_num health in
    let? sys' := dx_opt dx_sys sys in
    let? evs' := dx_list (dx_opt dx_event) evs in
    let? regs' := dx_list (dx_opt dx_reg) regs in
    Some (mkMsg flow mp' pinfo' topo' burnin' netcfg' calib' defcalib' sleept' sleeps' hb' dim' conn' rts'
                err' msg' health' sys' evs' regs')
  | _ => None
  end.

(* a message list as passed to the encoder: elements may be nil *)
Definition dx_msgs (l : list sexp) : option (list (option out_msg)) := dx_list (dx_opt dx_msg) l.

(* ---- structural equality (used to compare decoder output with the model) ---- *)
Definition opt_eqb {A} (eqb : A -> A -> bool) (a b : option A) : bool :=
  match a, b with Some x, Some y => eqb x y | None, None => true | _, _ => false end.
Definition pair_eqb (a b : Z * Z) : bool := (fst a =? fst b) && (snd a =? snd b).
Definition bin_eqb (a b : bin_ev) : bool := Bool.eqb (be_pressed a) (be_pressed b) && (be_edge a =? be_edge b).
Definition event_eqb (a b : hwc_event) : bool :=
  (ev_id a =? ev_id b) && (ev_ts a =? ev_ts b) && opt_eqb bin_eqb (ev_bin a) (ev_bin b) &&
  opt_eqb Z.eqb (ev_pulsed a) (ev_pulsed b) && opt_eqb pair_eqb (ev_abs a) (ev_abs b) &&
  opt_eqb pair_eqb (ev_speed a) (ev_speed b) && opt_eqb Z.eqb (ev_raw a) (ev_raw b).
Definition pinfo_eqb (a b : panel_info) : bool :=
  bytes_eqb (pi_model a) (pi_model b) && bytes_eqb (pi_serial a) (pi_serial b) && bytes_eqb (pi_name a) (pi_name b) &&
  bytes_eqb (pi_version a) (pi_version b) && bytes_eqb (pi_platform a) (pi_platform b) &&
  Bool.eqb (pi_bpr a) (pi_bpr b) && (pi_maxclients a =? pi_maxclients b) &&
  list_eqb bytes_eqb (pi_locked a) (pi_locked b) && (pi_type a =? pi_type b) &&
  opt_eqb (list_eqb Bool.eqb) (pi_support a) (pi_support b).
Definition sys_eqb (a b : sys_stat) : bool :=
  (ss_cpu a =? ss_cpu b) && (ss_temp a =? ss_temp b) && (ss_ext a =? ss_ext b) && (ss_volt a =? ss_volt b) &&
  list_eqb Z.eqb (ss_ints a) (ss_ints b) && list_eqb Bool.eqb (ss_flags a) (ss_flags b).
Definition reg_eqb (a b : register) : bool :=
  (rg_kind a =? rg_kind b) && bytes_eqb (rg_id a) (rg_id b) && (rg_val a =? rg_val b).
Definition rts_eqb (x y : Z * Z * Z * Z) : bool :=
  match x, y with (a, b, c, d), (a', b', c', d') => (a =? a') && (b =? b') && (c =? c') && (d =? d') end.
Definition bpair_eqb (a b : bytes * bytes) : bool := bytes_eqb (fst a) (fst b) && bytes_eqb (snd a) (snd b).

Definition msg_eqb (a b : out_msg) : bool :=
  (om_flow a =? om_flow b) && list_eqb pair_eqb (om_map a) (om_map b) &&
  opt_eqb pinfo_eqb (om_pinfo a) (om_pinfo b) && opt_eqb bpair_eqb (om_topo a) (om_topo b) &&
  opt_eqb bytes_eqb (om_burnin a) (om_burnin b) && opt_eqb bytes_eqb (om_netcfg a) (om_netcfg b) &&
  opt_eqb bytes_eqb (om_calib a) (om_calib b) && opt_eqb bytes_eqb (om_defcalib a) (om_defcalib b) &&
  opt_eqb Z.eqb (om_sleept a) (om_sleept b) && opt_eqb Bool.eqb (om_sleeps a) (om_sleeps b) &&
  opt_eqb Z.eqb (om_hb a) (om_hb b) && opt_eqb Z.eqb (om_dim a) (om_dim b) &&
  opt_eqb (list_eqb bytes_eqb) (om_conn a) (om_conn b) && opt_eqb rts_eqb (om_rts a) (om_rts b) &&
  opt_eqb bytes_eqb (om_err a) (om_err b) && opt_eqb bytes_eqb (om_msg a) (om_msg b) &&
  opt_eqb Z.eqb (om_health a) (om_health b) && opt_eqb sys_eqb (om_sys a) (om_sys b) &&
  list_eqb (opt_eqb event_eqb) (om_events a) (om_events b) && list_eqb (opt_eqb reg_eqb) (om_regs a) (om_regs b).
