(* Model of RawPanelASCIIstringsToOutboundMessages (converterFunctions.go:965-1497) and
   TrimExplode (rawpanelhelpers.go:292).  No proofs.

   * The four regular expressions are hand-written matchers returning what
     FindStringSubmatch returns ([] = no match, else whole match :: groups, an unset group = "").
     RE2 facts used: `.` is one UTF-8 rune (an invalid byte counts as one rune) other than LF;
     `$` is end of text only; alternation is leftmost-first.
   * Sub-match indexing is kept as an explicit possibly-panicking operation [sub].
   * json.Unmarshal of a _networkConfig value is an oracle argument [netparse]
     (None = error = Go nil *NetworkConfig, Some t = the config, carried as its json.Marshal text). *)
From RP Require Import Lib.Base Lib.Sexp Lib.Strings Lib.Utf8 Lib.TrimSpace Lib.FloatFmt Model.MsgOut.
From Coq Require Import String.
Open Scope Z_scope.

Definition null {A} (l : list A) : bool := match l with [] => true | _ => false end.

(* regexResult[i] *)
Definition sub (l : list bytes) (i : nat) (site : Z) : res bytes :=
  match nth_error l i with Some x => Ok x | None => Panic site end.

(* su.Intval *)
Definition intval (s : bytes) : Z := atoi s.

(* ------------------------------------------------------------------ regexes *)
(* first keyword of [kws] that is a prefix of s (leftmost-first; no keyword below is a prefix of another) *)
Fixpoint match_kw (kws : list bytes) (s : bytes) : option (bytes * bytes) :=
  match kws with
  | [] => None
  | k :: r => match drop_prefix k s with Some rest => Some (k, rest) | None => match_kw r s end
  end.

Definition ev_kinds : list bytes := map str ["Down"; "Up"; "Press"; "Abs"; "Speed"; "Enc"; "Raw"]%string.

Definition is_valch (c : Z) : bool := (c =? 45) || is_digit c.

(* (|:([-0-9]+))$  ->  Some group6 *)
Definition ev_tail (s : bytes) : option bytes :=
  match s with
  | [] => Some []
  | 58 :: v => if negb (null v) && forallb is_valch v then Some v else None
  | _ => None
  end.

(* =(Down|...)(|:([-0-9]+))$ after the '=' : (group4, group5, group6) *)
Definition ev_after_eq (s : bytes) : option (bytes * bytes * bytes) :=
  match match_kw ev_kinds s with
  | Some (k, rest) =>
    match ev_tail rest with
    | Some v => Some (k, if null v then [] else 58 :: v, v)
    | None => None
    end
  | None => None
  end.

(* ^HWC#([0-9]+)(|.([0-9]+))=(Down|Up|Press|Abs|Speed|Enc|Raw)(|:([-0-9]+))$ *)
Definition re_event (s : bytes) : list bytes :=
  match drop_prefix (str "HWC#") s with
  | None => []
  | Some r =>
    match span is_digit r with
    | (p, r1) =>
      if null p then []
      else
        match (match r1 with 61 :: r2 => ev_after_eq r2 | _ => None end) with
        | Some (k, g5, g6) => [s; p; []; []; k; g5; g6]
        | None =>
          match r1 with
          | [] => []
          | c :: _ =>
            if c =? 10 then []
            else
              let n := snd (decode_rune r1) in
              match span is_digit (skipn n r1) with
              | (e, r3) =>
                if null e then []
                else
                  match r3 with
                  | 61 :: r4 =>
                    match ev_after_eq r4 with
                    | Some (k, g5, g6) => [s; p; firstn n r1 ++ e; e; k; g5; g6]
                    | None => []
                    end
                  | _ => []
                  end
              end
          end
        end
    end
  end.

(* ^map=([0-9]+):([0-9]+)$ *)
Definition re_map (s : bytes) : list bytes :=
  match drop_prefix (str "map=") s with
  | None => []
  | Some r =>
    match span is_digit r with
    | (a, r1) =>
      match r1 with
      | 58 :: r2 => if negb (null a) && negb (null r2) && forallb is_digit r2 then [s; a; r2] else []
      | _ => []
      end
    end
  end.

Definition gen_keys : list bytes :=
  map str ["_model"; "_serial"; "_version"; "_platform"; "_bluePillReady"; "_name"; "_panelType"; "_support";
           "_isSleeping"; "_sleepTimer"; "_panelTopology_svgbase"; "_panelTopology_HWC"; "_burninProfile";
           "_networkConfig"; "_calibrationProfile"; "_defaultCalibrationProfile"; "_serverModeLockToIP";
           "_serverModeMaxClients"; "_heartBeatTimer"; "DimmedGain"; "_connections"; "_bootsCount";
           "_totalUptimeMin"; "_sessionUptimeMin"; "_screenSaverOnMin"; "ErrorMsg"; "Msg"; "EnvironmentalHealth";
           "SysStat"]%string.

(* ^(key1|...|key29)=(.+)$ : no key contains '=', so the key is the text before the first '=' *)
Definition re_generic (s : bytes) : list bytes :=
  match cut_on 61 s with
  | (k, v, true) =>
    if existsb (bytes_eqb k) gen_keys && negb (null v) && negb (contains_byte 10 v) then [s; k; v] else []
  | _ => []
  end.

Definition reg_kws : list bytes := map str ["Flag#"; "Mem"; "Shift"; "State"]%string.
Definition is_regid (c : Z) : bool := is_upper c || is_digit c.

(* the register regex: (Flag#|Mem|Shift|State) then [A-Z0-9] zero or more times, "=", [0-9]+ to the end *)
Definition re_regs (s : bytes) : list bytes :=
  match match_kw reg_kws s with
  | None => []
  | Some (k, r) =>
    match span is_regid r with
    | (id, r1) =>
      match r1 with
      | 61 :: v => if negb (null v) && forallb is_digit v then [s; k; id; v] else []
      | _ => []
      end
    end
  end.

(* ------------------------------------------------------------------ TrimExplode (strings.TrimSpace = Lib/TrimSpace.v) *)
(* TrimExplode(str, ";") *)
Definition trim_explode (sep : Z) (s : bytes) : list bytes :=
  filter (fun v => negb (null v)) (map trim_space (split_on sep s)).

(* ------------------------------------------------------------------ message builders *)
Definition m_flow (w : Z) : out_msg :=
  mkMsg w [] None None None None None None None None None None None None None None None None [] [].
Definition m_events (evs : list hwc_event) : out_msg :=
  mkMsg 0 [] None None None None None None None None None None None None None None None None (map Some evs) [].
Definition m_map (k v : Z) : out_msg :=
  mkMsg 0 [(k, v)] None None None None None None None None None None None None None None None None [] [].
Definition m_pinfo (p : panel_info) : out_msg :=
  mkMsg 0 [] (Some p) None None None None None None None None None None None None None None None [] [].
Definition m_topo (svg json : bytes) : out_msg :=
  mkMsg 0 [] None (Some (svg, json)) None None None None None None None None None None None None None None [] [].
Definition m_burnin (j : bytes) : out_msg :=
  mkMsg 0 [] None None (Some j) None None None None None None None None None None None None None [] [].
Definition m_netcfg (c : option bytes) : out_msg :=
  mkMsg 0 [] None None None c None None None None None None None None None None None None [] [].
Definition m_calib (j : bytes) : out_msg :=
  mkMsg 0 [] None None None None (Some j) None None None None None None None None None None None [] [].
Definition m_defcalib (j : bytes) : out_msg :=
  mkMsg 0 [] None None None None None (Some j) None None None None None None None None None None [] [].
Definition m_sleept (v : Z) : out_msg :=
  mkMsg 0 [] None None None None None None (Some v) None None None None None None None None None [] [].
Definition m_sleeps (v : bool) : out_msg :=
  mkMsg 0 [] None None None None None None None (Some v) None None None None None None None None [] [].
Definition m_hb (v : Z) : out_msg :=
  mkMsg 0 [] None None None None None None None None (Some v) None None None None None None None [] [].
Definition m_dim (v : Z) : out_msg :=
  mkMsg 0 [] None None None None None None None None None (Some v) None None None None None None [] [].
Definition m_conn (l : list bytes) : out_msg :=
  mkMsg 0 [] None None None None None None None None None None (Some l) None None None None None [] [].
Definition m_rts (a b c d : Z) : out_msg :=
  mkMsg 0 [] None None None None None None None None None None None (Some (a, b, c, d)) None None None None [] [].
Definition m_err (s : bytes) : out_msg :=
  mkMsg 0 [] None None None None None None None None None None None None (Some s) None None None [] [].
Definition m_msg (s : bytes) : out_msg :=
  mkMsg 0 [] None None None None None None None None None None None None None (Some s) None None [] [].
Definition m_health (v : Z) : out_msg :=
  mkMsg 0 [] None None None None None None None None None None None None None None (Some v) None [] [].
Definition m_sys (s : sys_stat) : out_msg :=
  mkMsg 0 [] None None None None None None None None None None None None None None None (Some s) [] [].
Definition m_reg (k : Z) (id : bytes) (v : Z) : out_msg :=
  mkMsg 0 [] None None None None None None None None None None None None None None None None [] [Some (mkReg k id v)].

Definition pi_with_model s := mkPI s [] [] [] [] false 0 [] 0 None.
Definition pi_with_serial s := mkPI [] s [] [] [] false 0 [] 0 None.
Definition pi_with_name s := mkPI [] [] s [] [] false 0 [] 0 None.
Definition pi_with_version s := mkPI [] [] [] s [] false 0 [] 0 None.
Definition pi_with_platform s := mkPI [] [] [] [] s false 0 [] 0 None.
Definition pi_with_bpr b := mkPI [] [] [] [] [] b 0 [] 0 None.
Definition pi_with_maxclients v := mkPI [] [] [] [] [] false v [] 0 None.
Definition pi_with_locked l := mkPI [] [] [] [] [] false 0 l 0 None.
Definition pi_with_type t := mkPI [] [] [] [] [] false 0 [] t None.
Definition pi_with_support c := mkPI [] [] [] [] [] false 0 [] 0 (Some c).

(* ------------------------------------------------------------------ pieces *)
Fixpoint index_of (x : bytes) (l : list bytes) (i : nat) : option nat :=
  match l with
  | [] => None
  | y :: r => if bytes_eqb x y then Some i else index_of x r (Datatypes.S i)
  end.

Definition panel_type_names : list bytes := map str ["BPI"; "Physical"; "Emulation"; "Touch"; "Composite"]%string.
Definition health_names : list bytes := map str ["Normal"; "Safemode"; "Blocked"]%string.

(* _support: switch over the parts, unknown names ignored *)
Definition dec_support (v : bytes) : list bool :=
  fold_left (fun acc part => match index_of part cap_names 0 with Some i => upd_nat acc i true | None => acc end)
            (split_on 44 v) no_caps.

(* one step of the SysStat scan: parts[a] names a field, parts[a+1] is its value *)
Definition ss_assign (name v : bytes) (s : sys_stat) : sys_stat :=
  match index_of name ss_names 0 with
  | None => s
  | Some i =>
    let iv := intval v in
    match i with
    | 0%nat => mkSS (wrap32 iv) (ss_temp s) (ss_ext s) (ss_volt s) (ss_ints s) (ss_flags s)
    | 1%nat => mkSS (ss_cpu s) (parse_float32 v) (ss_ext s) (ss_volt s) (ss_ints s) (ss_flags s)
    | 2%nat => mkSS (ss_cpu s) (ss_temp s) (parse_float32 v) (ss_volt s) (ss_ints s) (ss_flags s)
    | 3%nat => mkSS (ss_cpu s) (ss_temp s) (ss_ext s) (parse_float32 v) (ss_ints s) (ss_flags s)
    | _ =>
      if (i <? 12)%nat
      then mkSS (ss_cpu s) (ss_temp s) (ss_ext s) (ss_volt s) (upd_nat (ss_ints s) (i - 4) (sint32 iv)) (ss_flags s)
      else mkSS (ss_cpu s) (ss_temp s) (ss_ext s) (ss_volt s) (ss_ints s) (upd_nat (ss_flags s) (i - 12) (iv =? 1))
    end
  end.

(* for a := 0; a+1 < len(parts); a++ *)
Fixpoint ss_scan (parts : list bytes) (s : sys_stat) : sys_stat :=
  match parts with
  | name :: rest => match rest with v :: _ => ss_scan rest (ss_assign name v s) | [] => s end
  | [] => s
  end.

Definition is_str (k : bytes) (n : string) : bool := bytes_eqb k (str n).

Section Dec.
Variable netparse : bytes -> option bytes.

(* the key=value switch; None = msg stays nil *)
Definition dec_generic (k v : bytes) : option out_msg :=
  if is_str k "_model" then Some (m_pinfo (pi_with_model v))
  else if is_str k "_serial" then Some (m_pinfo (pi_with_serial v))
  else if is_str k "_version" then Some (m_pinfo (pi_with_version v))
  else if is_str k "_platform" then Some (m_pinfo (pi_with_platform v))
  else if is_str k "_bluePillReady" then Some (m_pinfo (pi_with_bpr (negb (intval v =? 0))))
  else if is_str k "_panelType" then
    match index_of v panel_type_names 0 with
    | Some i => Some (m_pinfo (pi_with_type (Z.of_nat i + 1)))
    | None => None
    end
  else if is_str k "_support" then Some (m_pinfo (pi_with_support (dec_support v)))
  else if is_str k "_name" then Some (m_pinfo (pi_with_name v))
  else if is_str k "_isSleeping" then Some (m_sleeps (negb (intval v =? 0)))
  else if is_str k "_sleepTimer" then Some (m_sleept (wrap32 (intval v)))
  else if is_str k "_panelTopology_svgbase" then Some (m_topo v [])
  else if is_str k "_panelTopology_HWC" then Some (m_topo [] v)
  else if is_str k "_burninProfile" then Some (m_burnin v)
  else if is_str k "_networkConfig" then Some (m_netcfg (netparse v))
  else if is_str k "_calibrationProfile" then Some (m_calib v)
  else if is_str k "_defaultCalibrationProfile" then Some (m_defcalib v)
  else if is_str k "_serverModeLockToIP" then Some (m_pinfo (pi_with_locked (trim_explode 59 v)))
  else if is_str k "_serverModeMaxClients" then Some (m_pinfo (pi_with_maxclients (wrap32 (intval v))))
  else if is_str k "_heartBeatTimer" then Some (m_hb (wrap32 (intval v)))
  else if is_str k "DimmedGain" then Some (m_dim (wrap32 (intval v)))
  else if is_str k "_connections" then Some (m_conn (trim_explode 59 v))
  else if is_str k "_bootsCount" then Some (m_rts (wrap32 (intval v)) 0 0 0)
  else if is_str k "_totalUptimeMin" then Some (m_rts 0 (wrap32 (intval v)) 0 0)
  else if is_str k "_sessionUptimeMin" then Some (m_rts 0 0 (wrap32 (intval v)) 0)
  else if is_str k "_screenSaverOnMin" then Some (m_rts 0 0 0 (wrap32 (intval v)))
  else if is_str k "ErrorMsg" then Some (m_err v)
  else if is_str k "Msg" then Some (m_msg v)
  else if is_str k "EnvironmentalHealth" then
    match index_of v health_names 0 with
    | Some i => Some (m_health (Z.of_nat i))
    | None => None
    end
  else if is_str k "SysStat" then Some (m_sys (ss_scan (split_on 58 v) empty_sys))
  else None.

(* the event switch (regex_cmd_inbound matched: m = its sub-matches) *)
Definition dec_event (m : list bytes) : res (option out_msg) :=
  do g1 <- sub m 1 1017;
  do kind <- sub m 4 1018;
  let id := wrap32 (intval g1) in
  if is_str kind "Down" || is_str kind "Up" then
    do g3 <- sub m 3 1021;
    Ok (Some (m_events [mkEv id 0 (Some (mkBin (is_str kind "Down") (sint32 (intval g3)))) None None None None]))
  else if is_str kind "Press" then
    do g3 <- sub m 3 1034;
    let e := sint32 (intval g3) in
    Ok (Some (m_events [mkEv id 0 (Some (mkBin true e)) None None None None;
                        mkEv id 0 (Some (mkBin false e)) None None None None]))
  else if is_str kind "Enc" then
    do g6 <- sub m 6 1054;
    Ok (Some (m_events [mkEv id 0 None (Some (sint32 (intval g6))) None None None]))
  else if is_str kind "Abs" then
    do g6 <- sub m 6 1066;
    Ok (Some (m_events [mkEv id 0 None None (Some (wrap32 (intval g6), 0)) None None]))
  else if is_str kind "Speed" then
    do g6 <- sub m 6 1078;
    Ok (Some (m_events [mkEv id 0 None None None (Some (sint32 (intval g6), 0)) None]))
  else if is_str kind "Raw" then
    do g6 <- sub m 6 1090;
    Ok (Some (m_events [mkEv id 0 None None None None (Some (wrap32 (intval g6)))]))
  else Ok None.

Definition dec_regs (m : list bytes) : res (option out_msg) :=
  do kw <- sub m 1 1416;
  if is_str kw "Mem" then
    do id <- sub m 2 1422; do v <- sub m 3 1423; Ok (Some (m_reg 0 id (wrap32 (intval v))))
  else if is_str kw "Flag#" then
    do id <- sub m 2 1432; do v <- sub m 3 1433;
    Ok (Some (m_reg 1 (itoa (intval id)) (if intval v >? 0 then 1 else 0)))
  else if is_str kw "Shift" then
    do id <- sub m 2 1442; do v <- sub m 3 1443; Ok (Some (m_reg 2 id (wrap32 (intval v))))
  else if is_str kw "State" then
    do id <- sub m 2 1452; do v <- sub m 3 1453; Ok (Some (m_reg 3 id (wrap32 (intval v))))
  else Ok None.

(* one input string: Ok None = msg stayed nil (nothing appended) *)
Definition dec_out_line (s : bytes) : res (option out_msg) :=
  if null s then Ok None
  else if is_str s "ping" then Ok (Some (m_flow 1))
  else if is_str s "ack" then Ok (Some (m_flow 2))
  else if is_str s "nack" then Ok (Some (m_flow 3))
  else if is_str s "BSY" then Ok (Some (m_flow 4))
  else if is_str s "RDY" then Ok (Some (m_flow 5))
  else if is_str s "list" then Ok (Some (m_flow 100))
  else
    let me := re_event s in
    if negb (null me) then dec_event me
    else
      let mm := re_map s in
      if negb (null mm) then
        do a <- sub mm 1 1104;
        do b <- sub mm 2 1105;
        Ok (Some (m_map (wrap32 (intval a)) (wrap32 (intval b))))
      else
        let mg := re_generic s in
        if negb (null mg) then
          do k <- sub mg 1 1115;
          do v <- sub mg 2 1116;
          Ok (dec_generic k v)
        else
          let mr := re_regs s in
          if negb (null mr) then dec_regs mr
          else Ok (Some empty_msg).

Fixpoint dec_out (ls : list bytes) : res (list out_msg) :=
  match ls with
  | [] => Ok []
  | l :: r =>
    do m <- dec_out_line l;
    do ms <- dec_out r;
    Ok (match m with Some x => x :: ms | None => ms end)
  end.
End Dec.
