(* Executable model of the pixel-format conversions (C17):
     monogfx.go  : GetImgSliceRGB, GetImgSliceGray, RGB16BitToGray, SetOLEDBckgColor /
                   SetOLEDPixelColor, ConvertToImage, CreateFromImage, CreateFromBytes
     rawpanelhelpers.go : CreateImgObjectFromRGBBytes, CreateImgObjectFromGrayBytes,
                   ConvertGfxStateToPngBytes (up to the PNG codec), RwpImgToImage.
   image.RGBA is an abstract raster: reads outside the rectangle give the zero colour, writes
   outside are dropped (its documented contract; the library itself is an oracle).
   Every Go slice index into *graphics-state data* is a checked read ([rd]: out of range =
   Panic), so that "short data never panics" is a theorem about the guards, not an artefact.
   No proofs in this file. *)
From RP Require Import Lib.Base Model.Mono.

(* ---------- colours ---------- *)
Definition rgba := (Z * Z * Z * Z)%type.      (* R, G, B, A as stored by image.RGBA *)
Definition c_black : rgba := (0, 0, 0, 255).
Definition c_white : rgba := (255, 255, 255, 255).
Definition c_zero : rgba := (0, 0, 0, 0).

(* RGB16BitToGray(color uint16) byte: uint16 products, uint32 sum, `+ 1<<15` = `+ (1<<15)` *)
Definition rgb16_to_gray (color : Z) : Z :=
  let colR := wrap32 (wrap16 (Z.land color 31 * 2114)) in
  let colG := wrap32 (wrap16 (Z.land (Z.shiftr color 5) 63 * 1040)) in
  let colB := wrap32 (wrap16 (Z.land (Z.shiftr color 11) 31 * 2114)) in
  let pixel := Z.land (Z.shiftr (wrap32 (19595 * colR + 38470 * colG + 7471 * colB + Z.shiftl 1 15)) 16) 65535 in
  wrap8 (Z.shiftr pixel 8).

(* SetOLEDBckgColor / SetOLEDPixelColor (identical bodies): xxrrggbb -> bbbbbggg gggrrrrr *)
Definition oled_color (color : Z) : Z :=
  let r := map_value (Z.land (Z.shiftr color 4) 3) 0 3 0 31 in
  let g := map_value (Z.land (Z.shiftr color 2) 3) 0 3 0 63 in
  let b := map_value (Z.land (Z.shiftr color 0) 3) 0 3 0 31 in
  wrap16 (Z.lor (Z.lor (Z.shiftl (Z.land b 31) 11) (Z.shiftl (Z.land g 63) 5)) (Z.land r 31)).

Definition set_bckg_color (i : img) (c : Z) : img := mkImg (ig i) (it i) (idata i) (oled_color c) (ipixc i).
Definition set_pixel_color (i : img) (c : Z) : img := mkImg (ig i) (it i) (idata i) (ibckg i) (oled_color c).

(* ---------- byte exports of a mono image ---------- *)
Definition zseq (n : Z) : list Z := map Z.of_nat (seq 0 (Z.to_nat n)).

(* the bit test `imgBytes[row*wib + col/8] & (1 << (7 - col%8)) > 0` (col, row >= 0) *)
Definition mono_bit (wib : Z) (d : list Z) (col row : Z) : bool :=
  Z.land (znth 0 d (row * wib + gdiv col 8)) (wrap8 (Z.shiftl 1 (7 - gmod col 8))) >? 0.

(* GetImgSliceRGB: W*H*2 bytes, row-major, MSB first *)
Definition rgb_slice (i : img) : list Z :=
  let g := ig i in
  let pm := wrap8 (Z.shiftr (ipixc i) 8) in let pl := wrap8 (Z.land (ipixc i) 255) in
  let bm := wrap8 (Z.shiftr (ibckg i) 8) in let bl := wrap8 (Z.land (ibckg i) 255) in
  flat_map (fun row =>
    flat_map (fun col => if mono_bit (gwib g) (idata i) col row then [pm; pl] else [bm; bl]) (zseq (gW g)))
    (zseq (gH g)).

(* GetImgSliceGray: make(W*H/2); per row the columns are consumed in pairs (the second of a pair
   may be column W when W is odd: a padding bit); the running pointer stops at the slice's end *)
Definition gray_pair (i : img) (row col : Z) : Z :=
  let g := ig i in
  let gp := rgb16_to_gray (ipixc i) in let gb := rgb16_to_gray (ibckg i) in
  let hi := Z.land (if mono_bit (gwib g) (idata i) col row then gp else gb) 240 in
  let lo := Z.land (Z.shiftr (if mono_bit (gwib g) (idata i) (col + 1) row then gp else gb) 4) 15 in
  Z.lor hi lo.
Definition gray_slice (i : img) : list Z :=
  let g := ig i in
  firstn (Z.to_nat (gdiv (gW g * gH g) 2))
    (flat_map (fun row => map (fun k => gray_pair i row (2 * k)) (zseq (gdiv (gW g + 1) 2))) (zseq (gH g))).

(* ---------- abstract raster = image.RGBA with Rect (0,0)-(w,h) ---------- *)
Record raster := mkRaster { rw : Z; rh : Z; rat : Z -> Z -> rgba }.
Definition r_in (w h x y : Z) : bool := (0 <=? x) && (x <? w) && (0 <=? y) && (y <? h).
Definition r_new (w h : Z) (fill : rgba) : raster :=
  mkRaster w h (fun x y => if r_in w h x y then fill else c_zero).
Definition r_set (r : raster) (x y : Z) (c : rgba) : raster :=
  if r_in (rw r) (rh r) x y
  then mkRaster (rw r) (rh r) (fun x' y' => if (x' =? x) && (y' =? y) then c else rat r x' y')
  else r.

(* checked slice read *)
Definition rd (d : list Z) (i : Z) (site : Z) : res Z :=
  if (0 <=? i) && (i <? zlen d) then Ok (znth 0 d i) else Panic site.

Fixpoint iter_up_res {S} (n : nat) (start : Z) (f : Z -> S -> res S) (st : S) : res S :=
  match n with
  | O => Ok st
  | Datatypes.S n' => match f start st with Ok st' => iter_up_res n' (start + 1) f st' | Panic s => Panic s end
  end.
Definition for_range_res {S} (start count : Z) (f : Z -> S -> res S) (st : S) : res S :=
  iter_up_res (Z.to_nat count) start f st.

(* `for y := 0; y < h; y++ { for x := 0; x < w; x++ { if c, ok := f(x,y); ok { dest.Set(x+ox, y+oy, c) } } }` *)
Definition paint_loop (w h ox oy : Z) (f : Z -> Z -> res (option rgba)) (r0 : raster) : res raster :=
  for_range_res 0 h (fun y r =>
    for_range_res 0 w (fun x r =>
      match f x y with
      | Ok (Some c) => Ok (r_set r (x + ox) (y + oy) c)
      | Ok None => Ok r
      | Panic s => Panic s
      end) r) r0.

(* ---------- MonoImg <-> image ---------- *)
(* ConvertToImage(invert): three loops rows / columns (bytes) / pixels with a running byte index;
   x = 8*columns + pixels enumerates 0 .. 8*wib-1 in order and the running index is
   rows*wib + columns.  Set outside the W x H rectangle (padding bits) is dropped. *)
Definition to_image_loop (invert : bool) (i : img) : res raster :=
  let g := ig i in
  paint_loop (8 * gwib g) (gH g) 0 0
    (fun x y =>
       do b <- rd (idata i) (y * gwib g + gdiv x 8) 1;
       let bit := Z.land b (Z.shiftl 1 (Z.land (7 - gmod x 8) 255)) >? 0 in
       Ok (Some (if xorb bit invert then c_black else c_white)))
    (r_new (gW g) (gH g) c_zero).

(* CreateFromImage(src): W, H = Bounds().Max (src is an image.RGBA at the origin); a pixel whose
   16-bit red value (8-bit red * 257) is <= 127 becomes a set bit; columns beyond W read the
   zero colour and therefore become set bits too *)
Definition red16 (c : rgba) : Z := let '(r, _, _, _) := c in r * 257.
Definition from_image_byte (src : raster) (row col : Z) : Z :=
  fold_left (fun acc p =>
               Z.lor acc (wrap8 (Z.land (Z.shiftl (qint (red16 (rat src (col * 8 + p) row) >? 127) 0 1) (7 - p)) 255)))
            (zseq 8) 0.
Definition from_image (src : raster) : img :=
  let w := rw src in let h := rh src in
  let wib := ceil_div8 w in
  mkImg (mkGeom w h wib w h 0 0 false) init_t
        (flat_map (fun row => map (fun col => from_image_byte src row col) (zseq wib)) (zseq h)) 0 65535.

(* CreateFromBytes(width, height, bytes): the data are DISCARDED (error returned) when shorter
   than wib*height; otherwise the slice itself (whole length) becomes the buffer *)
Definition create_from_bytes (w h : Z) (data : list Z) : img * bool :=
  let i := new_image w h in
  if gwib (ig i) * h >? zlen data then (i, false)
  else (mkImg (ig i) (it i) data (ibckg i) (ipixc i), true).

(* ---------- graphics states ---------- *)
(* HWCGfx: ImageType 0 = MONO, 1 = RGB16bit, 2 = Gray4bit; W, H uint32 *)
Record gfx := mkGfx { gtype : Z; gw : Z; gh : Z; gdata : list Z }.

Definition expand (v vmax : Z) : Z := wrap8 (map_value v 0 vmax 0 255).

(* CreateImgObjectFromRGBBytes *)
Definition rgb_cell (w : Z) (data : list Z) (x y : Z) : res (option rgba) :=
  let idx := (y * w + x) * 2 in
  if idx + 1 <? zlen data then
    do a <- rd data idx 2;
    do b <- rd data (idx + 1) 3;
    let word := Z.lor (Z.shiftl a 8) b in
    Ok (Some (expand (Z.land word 31) 31, expand (Z.land (Z.shiftr word 5) 63) 63, expand (Z.land (Z.shiftr word 11) 31) 31, 255))
  else Ok None.
Definition img_from_rgb_loop (w h : Z) (data : list Z) : res raster :=
  paint_loop w h 0 0 (rgb_cell w data) (r_new w h c_zero).

(* CreateImgObjectFromGrayBytes *)
Definition gray_cell (w : Z) (data : list Z) (x y : Z) : res (option rgba) :=
  let idx := gdiv (y * w + x) 2 in
  let odd := gmod (y * w + x) 2 in
  if idx <? zlen data then
    do b <- rd data idx 4;
    let nib := if odd =? 0 then Z.land (Z.shiftr b 4) 15 else Z.land b 15 in
    let gr := expand nib 15 in
    Ok (Some (gr, gr, gr, 255))
  else Ok None.
Definition img_from_gray_loop (w h : Z) (data : list Z) : res raster :=
  paint_loop w h 0 0 (gray_cell w data) (r_new w h c_zero).

(* ConvertGfxStateToPngBytes up to png.Encode: the image handed to the encoder (None: "No image
   to render").  MONO: data shorter than ceil(W/8)*H are padded with zero bytes (the F15 repair,
   /repo 645e4d4), then CreateFromBytes (error only logged) and ConvertToImage(true). *)
Definition pad_mono (w h : Z) (data : list Z) : list Z :=
  let need := ceil_div8 w * h in
  if zlen data <? need then data ++ zrepeat 0 (need - zlen data) else data.
Definition gfx_state_image_loop (g : gfx) : res (option raster) :=
  if gtype g =? 0 then
    do r <- to_image_loop true (fst (create_from_bytes (gw g) (gh g) (pad_mono (gw g) (gh g) (gdata g)))); Ok (Some r)
  else if gtype g =? 1 then do r <- img_from_rgb_loop (gw g) (gh g) (gdata g); Ok (Some r)
  else if gtype g =? 2 then do r <- img_from_gray_loop (gw g) (gh g) (gdata g); Ok (Some r)
  else Ok None.

(* RwpImgToImage(rwpImg, width, height): opaque black canvas, image centred with truncating /2 *)
Definition mono_cell (w : Z) (data : list Z) (x y : Z) : res (option rgba) :=
  let index := y * ceil_div8 w + gdiv x 8 in
  if (0 <=? index) && (index <? zlen data) then
    do b <- rd data index 5;
    Ok (Some (if Z.land b (wrap8 (Z.shiftl 1 (7 - gmod x 8))) >? 0 then c_white else c_black))
  else Ok None.
Definition rwp_cell (g : gfx) (x y : Z) : res (option rgba) :=
  if gtype g =? 1 then rgb_cell (gw g) (gdata g) x y
  else if gtype g =? 2 then gray_cell (gw g) (gdata g) x y
  else if gtype g =? 0 then mono_cell (gw g) (gdata g) x y
  else Ok None.
Definition rwp_to_image_loop (g : gfx) (width height : Z) : res raster :=
  let wo := gdiv (width - gw g) 2 in
  let ho := gdiv (height - gh g) 2 in
  paint_loop (gw g) (gh g) wo ho (rwp_cell g) (r_new width height c_black).

(* ---------- closed forms (proved equal to the loops in Proofs/ConvLoops.v) ----------
   Written over a data accessor (len, get) so that Run/C17.v can evaluate them with an indexed
   view of long data; the theorems instantiate get := znth 0 data. *)
Section Closed.
  Variables (len : Z) (get : Z -> Z).

  Definition rgb_at (w x y : Z) : option rgba :=
    let idx := (y * w + x) * 2 in
    if idx + 1 <? len then
      let word := Z.lor (Z.shiftl (get idx) 8) (get (idx + 1)) in
      Some (expand (Z.land word 31) 31, expand (Z.land (Z.shiftr word 5) 63) 63, expand (Z.land (Z.shiftr word 11) 31) 31, 255)
    else None.
  Definition gray_at (w x y : Z) : option rgba :=
    let k := y * w + x in
    if gdiv k 2 <? len then
      let b := get (gdiv k 2) in
      let nib := if gmod k 2 =? 0 then Z.land (Z.shiftr b 4) 15 else Z.land b 15 in
      Some (expand nib 15, expand nib 15, expand nib 15, 255)
    else None.
  Definition mono_at (w x y : Z) : option rgba :=
    let index := y * ceil_div8 w + gdiv x 8 in
    if (0 <=? index) && (index <? len) then
      Some (if Z.land (get index) (wrap8 (Z.shiftl 1 (7 - gmod x 8))) >? 0 then c_white else c_black)
    else None.
  Definition cell_at (ty w x y : Z) : option rgba :=
    if ty =? 1 then rgb_at w x y else if ty =? 2 then gray_at w x y else if ty =? 0 then mono_at w x y else None.

  (* pixel (X,Y) of RwpImgToImage *)
  Definition rwp_at (ty w h width height X Y : Z) : rgba :=
    if r_in width height X Y then
      let x := X - gdiv (width - w) 2 in let y := Y - gdiv (height - h) 2 in
      if r_in w h x y then match cell_at ty w x y with Some c => c | None => c_black end else c_black
    else c_zero.
  (* pixel (X,Y) of CreateImgObjectFromRGBBytes / ...GrayBytes *)
  Definition img_from_at (ty w h X Y : Z) : rgba :=
    if r_in w h X Y then match cell_at ty w X Y with Some c => c | None => c_zero end else c_zero.
  (* pixel (X,Y) of ConvertToImage(invert) for a buffer with wib bytes per row *)
  Definition to_image_at (invert : bool) (w h wib X Y : Z) : rgba :=
    if r_in w h X Y then
      if xorb (Z.land (get (Y * wib + gdiv X 8)) (Z.shiftl 1 (Z.land (7 - gmod X 8) 255)) >? 0) invert then c_black else c_white
    else c_zero.
End Closed.

(* the image ConvertGfxStateToPngBytes encodes, closed form *)
Definition gfx_state_at (g : gfx) (X Y : Z) : rgba :=
  if gtype g =? 0 then
    let i := fst (create_from_bytes (gw g) (gh g) (pad_mono (gw g) (gh g) (gdata g))) in
    to_image_at (znth 0 (idata i)) true (gw g) (gh g) (gwib (ig i)) X Y
  else img_from_at (zlen (gdata g)) (znth 0 (gdata g)) (gtype g) (gw g) (gh g) X Y.
