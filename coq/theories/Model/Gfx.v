(* Model of the chunked-graphics code paths (property C05), written from the REPAIRED source
   (fix: commits for findings F1-F3, see known_findings.jsonl):
     - encoder, 170-byte chunking            converterFunctions.go  "if stateRec.HWCGfx != nil ..."
     - batch decoder, graphics branch        converterFunctions.go  "else if regex_gfx.MatchString"
     - streaming reader ASCIIreader.Parse    rawpanelhelpers.go
     - encoding/json image of the reader     rawpanel-lib-c/main.go (Marshal/Unmarshal between lines)
   No proofs here.

   ===================== INTERFACE (stable; used by Model/EncIn.v, Model/DecIn.v) =============
   Record gfx                      image: g_type (0 MONO, 1 RGB16bit, 2 Gray4bit, any other int32 prints
                                   as HWCg#), g_w g_h g_x g_y (uint32 values), g_xy (XYoffset), g_data.
   gfx_lines g id : list bytes     ALL lines the encoder emits for image g and ONE target id (the
                                   encoder loops over HWCIDs one id at a time); [] when g_data = [].
                                   (alias: chunk_lines)
   gfx_match l : option gfx_sm     regex_gfx / ASCIIreader_gfx (the same pattern) on a line; Some sm
                                   iff the regex matches, sm = the sub-matches.  A line that matches
                                   can reach no earlier branch of the decoder's switch.
   gstate, gstate0                 the five temp_HWCGfx* locals of one batch-decoder call (value view)
   gfx_step st sm : gstate * option (list Z * gfx)
                                   one graphics line in the batch decoder: new locals and, when the
                                   line completes an image, the delivered (HWCIDs, HWCGfx) - the decoder
                                   then appends InboundMessage{States:[{HWCIDs, HWCGfx}]}.
   batch_gfx ls                    fold of gfx_step over a list of lines (non-graphics lines skipped),
                                   deliveries tagged with the 0-based position of the completing line.
   reader, reader0, parse st l : reader * parse_out
                                   ASCIIreader.Parse: PNil = returns nil; PBatch ls = returns
                                   RawPanelASCIIstringsToInboundMessages(ls).
   json_reader st                  Unmarshal(Marshal(st)) into a fresh ASCIIreader.
   The heap-level view of the batch decoder (shared *HWCGfx objects; what "never altered after
   delivery" is about) is hstate/hstep/batch_heap at the end of the file.
   =========================================================================================== *)
From RP Require Import Lib.Base Lib.Sexp Lib.Strings Lib.Utf8 Lib.B64 Lib.TrimSpace.
From Coq Require Import String.
Open Scope Z_scope.

Record gfx := mkGfx {
  g_type : Z; g_w : Z; g_h : Z; g_xy : bool; g_x : Z; g_y : Z; g_data : list Z }.

Definition gfx_empty : gfx := mkGfx 0 0 0 false 0 0 [].

(* ------------------------------------------------------------------ encoder *)
Definition bytes_per_line : Z := 170.

Definition cmd_string (t : Z) : list Z :=
  if t =? 1 then str "HWCgRGB" else if t =? 2 then str "HWCgGray" else str "HWCg".

(* int(math.Ceil(float64(len)/170)) for 0 <= len < 2^53 *)
Definition total_lines (len : Z) : Z := (len + 169) / 170.

Definition chunk_header (g : gfx) (total : Z) : list Z :=
  str "/" ++ itoa (total - 1) ++ str "," ++ itoa (g_w g) ++ str "x" ++ itoa (g_h g)
  ++ (if g_xy g then str "," ++ itoa (g_x g) ++ str "," ++ itoa (g_y g) else []).

(* ImageData[k*170 : k*170+segmentLength] *)
Definition chunk_data (data : list Z) (k : Z) : list Z :=
  firstn 170 (skipn (Z.to_nat (170 * k)) data).

Definition chunk_line (g : gfx) (id : Z) (total k : Z) : list Z :=
  cmd_string (g_type g) ++ str "#" ++ itoa id ++ str "=" ++ itoa k
  ++ (if k =? 0 then chunk_header g total else [])
  ++ str ":" ++ b64_encode (chunk_data (g_data g) k).

Definition gfx_lines (g : gfx) (id : Z) : list (list Z) :=
  let total := total_lines (zlen (g_data g)) in
  map (fun k => chunk_line g id total (Z.of_nat k)) (seq 0 (Z.to_nat total)).

Definition chunk_lines := gfx_lines.

(* ------------------------------------------------------------------ the regex
   ^(HWCgRGB#|HWCgGray#|HWCg#)([0-9,]+)=([0-9]+)(/([0-9]+),([0-9]+)x([0-9]+)(,([0-9]+),([0-9]+)|)|):(.ANY)$   [ANY = star]
   Every repetition is followed by a literal outside its class, so leftmost-first matching is
   deterministic: maximal runs.  `.` does not match LF and `$` is end of text (no (?m), no (?s)):
   the payload is the rest of the line and must be LF-free. *)
Record gfx_sm := mkSm {
  sm_cmd : list Z;       (* 1 *)
  sm_list : list Z;      (* 2 *)
  sm_idx : list Z;       (* 3 *)
  sm_adv : option (list Z * list Z * list Z * option (list Z * list Z));
                         (* Some (5, 6, 7, Some (9, 10)) iff sub-match 4 (resp. 8) is non-empty *)
  sm_payload : list Z }. (* 11 *)

Definition is_listch (c : Z) : bool := is_digit c || (c =? 44).

Definition take_digits1 (s : list Z) : option (list Z * list Z) :=
  let '(d, r) := span is_digit s in match d with [] => None | _ => Some (d, r) end.

Definition expect (c : Z) (s : list Z) : option (list Z) :=
  match s with x :: r => if x =? c then Some r else None | [] => None end.

Definition gfx_prefix (s : list Z) : option (list Z * list Z) :=
  match drop_prefix (str "HWCgRGB#") s with
  | Some r => Some (str "HWCgRGB#", r)
  | None =>
    match drop_prefix (str "HWCgGray#") s with
    | Some r => Some (str "HWCgGray#", r)
    | None =>
      match drop_prefix (str "HWCg#") s with
      | Some r => Some (str "HWCg#", r)
      | None => None
      end
    end
  end.

Definition payload_ok (p : list Z) : bool := negb (contains_byte 10 p).

Definition gfx_match (s : list Z) : option gfx_sm :=
  let? (cmd, r0) := gfx_prefix s in
  let '(lst, r1) := span is_listch r0 in
  match lst with
  | [] => None
  | _ =>
    let? r2 := expect 61 r1 in
    let? (idx, r3) := take_digits1 r2 in
    match r3 with
    | [] => None
    | c3 :: r4 =>
      if c3 =? 58 then (if payload_ok r4 then Some (mkSm cmd lst idx None r4) else None)
      else if c3 =? 47 then
        let? (mx, r5) := take_digits1 r4 in
        let? r6 := expect 44 r5 in
        let? (w, r7) := take_digits1 r6 in
        let? r8 := expect 120 r7 in
        let? (h, r9) := take_digits1 r8 in
        match r9 with
        | [] => None
        | c9 :: r10 =>
          if c9 =? 58 then (if payload_ok r10 then Some (mkSm cmd lst idx (Some (mx, w, h, None)) r10) else None)
          else if c9 =? 44 then
            let? (x, r11) := take_digits1 r10 in
            let? r12 := expect 44 r11 in
            let? (y, r13) := take_digits1 r12 in
            let? pay := expect 58 r13 in
            if payload_ok pay then Some (mkSm cmd lst idx (Some (mx, w, h, Some (x, y))) pay) else None
          else None
        end
      else None
    end
  end.

(* ------------------------------------------------------------------ batch decoder, value view *)
(* imageType from sub-match 1 *)
Definition type_of_cmd (cmd : list Z) : Z :=
  if bytes_eqb cmd (str "HWCgRGB#") then 1 else if bytes_eqb cmd (str "HWCgGray#") then 2 else 0.

(* su.IntExplode(list, ",") : []uint32 *)
Definition int_explode (l : list Z) : list Z := map (fun s => wrap32 (atoi s)) (split_on 44 l).

Definition sm_index (sm : gfx_sm) : Z := atoi (sm_idx sm).

(* maximum index and fresh image allocated by a chunk 0 *)
Definition sm_max (sm : gfx_sm) : Z :=
  match sm_adv sm with Some (mx, _, _, _) => atoi mx | None => 2 end.

Definition sm_new_image (sm : gfx_sm) : gfx :=
  let t := type_of_cmd (sm_cmd sm) in
  match sm_adv sm with
  | Some (_, w, h, off) =>
    mkGfx t (wrap32 (atoi w)) (wrap32 (atoi h))
          (match off with Some _ => true | None => false end)
          (match off with Some (x, _) => wrap32 (atoi x) | None => 0 end)
          (match off with Some (_, y) => wrap32 (atoi y) | None => 0 end) []
  | None => mkGfx t 64 32 false 0 0 []
  end.

Definition gfx_append (g : gfx) (d : list Z) : gfx :=
  mkGfx (g_type g) (g_w g) (g_h g) (g_xy g) (g_x g) (g_y g) (g_data g ++ d).

Record gstate := mkG {
  gs_img : gfx;        (* *temp_HWCGfx *)
  gs_count : Z;        (* temp_HWCGfx_count *)
  gs_max : Z;          (* temp_HWCGfx_max *)
  gs_list : list Z;    (* temp_HWCGfx_HWClist *)
  gs_type : Z }.       (* temp_HWCGfx_ImageType *)

Definition gstate0 : gstate := mkG gfx_empty 0 0 [] 0.

Definition gfx_step (st : gstate) (sm : gfx_sm) : gstate * option (list Z * gfx) :=
  let idx := sm_index sm in
  let ty := type_of_cmd (sm_cmd sm) in
  let dec := b64_decode (sm_payload sm) in
  let st1 := if idx =? 0 then mkG (sm_new_image sm) (-1) (sm_max sm) (sm_list sm) ty else st in
  if gs_type st1 =? ty then
    if bytes_eqb (sm_list sm) (gs_list st1) then
      if idx =? gs_count st1 + 1 then
        let img := gfx_append (gs_img st1) dec in
        if idx =? gs_max st1 then
          (* complete: deliver, detach the builder, wait for a new chunk 0 *)
          (mkG gfx_empty (-1) (gs_max st1) (gs_list st1) (gs_type st1),
           Some (int_explode (gs_list st1), img))
        else (mkG img (gs_count st1 + 1) (gs_max st1) (gs_list st1) (gs_type st1), None)
      else
        (* not the next index: the transfer is dead until a new chunk 0 *)
        (mkG (gs_img st1) (-1) (gs_max st1) (gs_list st1) (gs_type st1), None)
    else (st1, None)
  else (st1, None).

(* one line of the batch decoder as far as graphics are concerned *)
Definition gfx_line_step (st : gstate) (l : list Z) : gstate * option (list Z * gfx) :=
  match gfx_match l with Some sm => gfx_step st sm | None => (st, None) end.

Fixpoint batch_gfx_from (st : gstate) (pos : Z) (ls : list (list Z)) : list (Z * (list Z * gfx)) :=
  match ls with
  | [] => []
  | l :: r =>
    let '(st', d) := gfx_line_step st l in
    match d with
    | Some m => (pos, m) :: batch_gfx_from st' (pos + 1) r
    | None => batch_gfx_from st' (pos + 1) r
    end
  end.
Definition batch_gfx (ls : list (list Z)) : list (Z * (list Z * gfx)) := batch_gfx_from gstate0 0 ls.

(* ------------------------------------------------------------------ streaming reader *)
Record reader := mkR {
  r_count : Z;              (* HWCGfx_count *)
  r_type : list Z;          (* HWCGfx_ImageType *)
  r_buf : list (list Z);    (* HWCGfx *)
  r_max : Z;                (* HWCGfx_max *)
  r_list : list Z }.        (* HWCGfx_HWClist *)

Definition reader0 : reader := mkR 0 [] [] 0 [].   (* ASCIIreader{} *)

Inductive parse_out :=
| PNil                               (* return nil *)
| PBatch (ls : list (list Z)).       (* return RawPanelASCIIstringsToInboundMessages(ls) *)

Definition is_nil {A} (l : list A) : bool := match l with [] => true | _ => false end.

Definition parse (st0 : reader) (line : list Z) : reader * parse_out :=
  let st := if is_nil (r_list st0) && is_nil (r_type st0)
            then mkR (-1) (r_type st0) (r_buf st0) (r_max st0) (r_list st0) else st0 in
  let s := trim_space line in
  match gfx_match s with
  | Some sm =>
    let idx := sm_index sm in
    let st1 := if idx =? 0 then mkR (-1) (sm_cmd sm) [] (sm_max sm) (sm_list sm) else st in
    if bytes_eqb (r_type st1) (sm_cmd sm) then
      if bytes_eqb (r_list st1) (sm_list sm) then
        if idx =? r_count st1 + 1 then
          let buf := r_buf st1 ++ [s] in
          if idx =? r_max st1 then
            (mkR (-1) (r_type st1) [] (r_max st1) (r_list st1), PBatch buf)
          else (mkR (r_count st1 + 1) (r_type st1) buf (r_max st1) (r_list st1), PNil)
        else (mkR (-1) (r_type st1) [] (r_max st1) (r_list st1), PNil)
      else (st1, PNil)
    else (st1, PNil)
  | None => (st, PBatch [s])
  end.

(* graphics deliveries of one Parse call (positions inside the handed-over buffer dropped) *)
Definition out_gfx (o : parse_out) : list (list Z * gfx) :=
  match o with PNil => [] | PBatch ls => map snd (batch_gfx ls) end.

(* ------------------------------------------------------------------ encoding/json image
   json.Marshal of a Go string replaces every invalid UTF-8 byte by U+FFFD (written �);
   everything else (incl. the <,>,&,U+2028/9 escapes) reads back unchanged.  ints are exact;
   a nil slice reads back as nil and behaves as the empty slice. *)
Fixpoint json_string_fuel (fuel : nat) (s : list Z) : list Z :=
  match fuel with
  | O => []
  | Datatypes.S f =>
    match s with
    | [] => []
    | _ =>
      let '(r, n) := decode_rune s in
      (if (r =? rune_error) && Nat.eqb n 1 then [239; 191; 189] else firstn n s)
      ++ json_string_fuel f (skipn n s)
    end
  end.
Definition json_string (s : list Z) : list Z := json_string_fuel (List.length s) s.

Definition json_reader (st : reader) : reader :=
  mkR (r_count st) (json_string (r_type st)) (map json_string (r_buf st)) (r_max st) (json_string (r_list st)).

(* feeding disciplines: deliveries per line *)
Fixpoint stream_from (ser : bool) (st : reader) (ls : list (list Z)) : list (list (list Z * gfx)) :=
  match ls with
  | [] => []
  | l :: r =>
    let '(st', o) := parse st l in
    out_gfx o :: stream_from ser (if ser then json_reader st' else st') r
  end.

(* ------------------------------------------------------------------ batch decoder, heap view
   temp_HWCGfx is a pointer; the delivered message holds the SAME pointer.  Objects live in a
   store (allocation = append); a delivery is (HWCIDs, reference).  What the caller of the Go
   function sees is every delivered reference resolved against the FINAL store. *)
Record hstate := mkH {
  h_store : list gfx; h_cur : nat; h_count : Z; h_max : Z; h_list : list Z; h_type : Z }.

Definition hstate0 : hstate := mkH [gfx_empty] 0 0 0 [] 0.

Definition h_alloc (st : hstate) (g : gfx) : hstate :=
  mkH (h_store st ++ [g]) (List.length (h_store st)) (h_count st) (h_max st) (h_list st) (h_type st).

Definition h_get (st : hstate) (r : nat) : gfx := nth r (h_store st) gfx_empty.

Definition hstep (st : hstate) (sm : gfx_sm) : hstate * option (list Z * nat) :=
  let idx := sm_index sm in
  let ty := type_of_cmd (sm_cmd sm) in
  let dec := b64_decode (sm_payload sm) in
  let st1 := if idx =? 0
             then let a := h_alloc st (sm_new_image sm) in
                  mkH (h_store a) (h_cur a) (-1) (sm_max sm) (sm_list sm) ty
             else st in
  if h_type st1 =? ty then
    if bytes_eqb (sm_list sm) (h_list st1) then
      if idx =? h_count st1 + 1 then
        let store' := upd_nat (h_store st1) (h_cur st1) (gfx_append (h_get st1 (h_cur st1)) dec) in
        let st2 := mkH store' (h_cur st1) (h_count st1 + 1) (h_max st1) (h_list st1) (h_type st1) in
        if idx =? h_max st1 then
          let a := h_alloc st2 gfx_empty in
          (mkH (h_store a) (h_cur a) (-1) (h_max st1) (h_list st1) (h_type st1),
           Some (int_explode (h_list st1), h_cur st1))
        else (st2, None)
      else (mkH (h_store st1) (h_cur st1) (-1) (h_max st1) (h_list st1) (h_type st1), None)
    else (st1, None)
  else (st1, None).

Definition hline_step (st : hstate) (l : list Z) : hstate * option (list Z * nat) :=
  match gfx_match l with Some sm => hstep st sm | None => (st, None) end.

(* deliveries (position, ids, reference) and the final state *)
Fixpoint batch_heap_from (st : hstate) (pos : Z) (ls : list (list Z)) : hstate * list (Z * (list Z * nat)) :=
  match ls with
  | [] => (st, [])
  | l :: r =>
    let '(st', d) := hline_step st l in
    let '(fin, ds) := batch_heap_from st' (pos + 1) r in
    (fin, match d with Some m => (pos, m) :: ds | None => ds end)
  end.

(* what the caller sees *)
Definition batch_heap (ls : list (list Z)) : list (Z * (list Z * gfx)) :=
  let '(fin, ds) := batch_heap_from hstate0 0 ls in
  map (fun '(p, (ids, r)) => (p, (ids, h_get fin r))) ds.
