(* Transition system for the connection lifecycle of ConnectToPanel (connecttopanel.go): the
   main goroutine and, per connection, the WRITER goroutine and (since /repo 02bcd7d) the
   WATCHER goroutine (select over ctx.Done / quit; on ctx.Done: exit.Store(true), conn.Close()),
   sharing per connection [exit] (atomic bool), [quit] (closed channel?) and the socket (open?),
   and globally the wait-group counter and the context.  A run is a list of scheduler / environment choices.  Reads are abstract: the
   environment decides whether a read delivers a message or fails (a read on a locally
   closed socket can only fail).  No proofs here. *)
From RP Require Import Lib.Base.

Inductive mpc : Type :=
| MStart          (* wg.Add(1); defer wg.Done() *)
| MDial
| MWaitNoConn     (* select { ctx.Done / msgsToPanel / timer } after a failed dial *)
| MProbe          (* write ping, read with 2 s deadline, classify, maybe write "\n" *)
| MSpawn          (* wg.Add(1); go watcher; wg.Add(1); go writer   (both Adds are in main; writer since /repo c935b5d, watcher since 02bcd7d) *)
| MOnConnect
| MRead           (* the read loop *)
| MEofSleep       (* ASCII + io.EOF: time.Sleep(1 s) *)
| MCloseQuit      (* close(quit) *)
| MCloseConn      (* conn.Close() *)
| MLoadExit       (* doExit := exit.Load() *)
| MOnDisconnect (b : bool)
| MRetrySleep
| MReturning      (* deferred wg.Done() *)
| MReturned.

Inductive wpc : Type :=
| WAbsent         (* goroutine not created yet *)
| WNotStarted     (* created and registered with the wait group, not yet scheduled *)
| WSelect
| WWriting        (* writer only: inside conn.Write (returns when the panel takes the bytes or the socket is closed) *)
| WExitStore      (* ctx.Done chosen: exit.Store(true) *)
| WCloseConn      (* conn.Close() *)
| WDefer          (* deferred wg.Done() *)
| WDone.

Record crec : Type := mkC { c_w : wpc; c_x : wpc (* the watcher, same program counters, never WWriting *); c_exit : bool; c_quit : bool; c_open : bool }.

Record st : Type := mkSt {
  s_m : mpc;
  s_cs : list crec;    (* connections, newest first *)
  s_wg : Z;
  s_ctx : bool         (* cancelled? *)
}.

Definition init : st := mkSt MStart [] 0 false.

Inductive lab : Type :=
| LbConnect | LbDeliver | LbDisconnect (cancelled : bool) | LbReturned
| LbSleptNoConn | LbSleptEof | LbSleptRetry | LbCancel | LbDial (ok : bool) | LbTau.

Inductive menv : Type :=
| EDialOk | EDialFail | ESelCtx | ESelTimer | ESelMsg | EReadOk | EReadFail (ascii_eof : bool) | ENone.
Inductive wenv : Type := WCtx | WQuit | WMsg | WNone.

Inductive choice : Type :=
| CMain (e : menv)
| CWriter (i : nat) (w : wenv)
| CWatcher (i : nat) (w : wenv)
| CCancel.

Definition upd_cur (s : st) (f : crec -> crec) : list crec :=
  match s_cs s with c :: r => f c :: r | [] => [] end.
Definition cur (s : st) : crec := hd (mkC WAbsent WAbsent false false false) (s_cs s).

Definition set_w (w : wpc) (c : crec) : crec := mkC w (c_x c) (c_exit c) (c_quit c) (c_open c).
Definition set_x (x : wpc) (c : crec) : crec := mkC (c_w c) x (c_exit c) (c_quit c) (c_open c).
Definition set_exit (c : crec) : crec := mkC (c_w c) (c_x c) true (c_quit c) (c_open c).
Definition set_quit (c : crec) : crec := mkC (c_w c) (c_x c) (c_exit c) true (c_open c).
Definition set_closed (c : crec) : crec := mkC (c_w c) (c_x c) (c_exit c) (c_quit c) false.

Definition main_step (s : st) (e : menv) : option (st * lab) :=
  let go m := mkSt m (s_cs s) (s_wg s) (s_ctx s) in
  match s_m s, e with
  | MStart, ENone => Some (mkSt MDial (s_cs s) (s_wg s + 1) (s_ctx s), LbTau)
  | MDial, EDialOk => Some (mkSt MProbe (mkC WAbsent WAbsent false false true :: s_cs s) (s_wg s) (s_ctx s), LbDial true)
  | MDial, EDialFail => Some (go MWaitNoConn, LbDial false)
  | MWaitNoConn, ESelCtx => if s_ctx s then Some (go MReturning, LbTau) else None
  | MWaitNoConn, ESelTimer => Some (go MDial, LbSleptNoConn)
  | MWaitNoConn, ESelMsg => Some (go MDial, LbTau)
  | MProbe, ENone => Some (go MSpawn, LbTau)
  | MSpawn, ENone => Some (mkSt MOnConnect (upd_cur s (fun c => set_x WNotStarted (set_w WNotStarted c))) (s_wg s + 2) (s_ctx s), LbTau)
  | MOnConnect, ENone => Some (go MRead, LbConnect)
  | MRead, EReadOk => if c_open (cur s) then Some (go MRead, LbDeliver) else None
  | MRead, EReadFail eof =>
    if eof then (if c_open (cur s) then Some (go MEofSleep, LbTau) else None)
    else Some (go MCloseQuit, LbTau)
  | MEofSleep, ENone => Some (go MCloseQuit, LbSleptEof)
  | MCloseQuit, ENone => Some (mkSt MCloseConn (upd_cur s set_quit) (s_wg s) (s_ctx s), LbTau)
  | MCloseConn, ENone => Some (mkSt MLoadExit (upd_cur s set_closed) (s_wg s) (s_ctx s), LbTau)
  | MLoadExit, ENone => Some (go (MOnDisconnect (c_exit (cur s))), LbTau)
  | MOnDisconnect b, ENone => Some (go (if b then MReturning else MRetrySleep), LbDisconnect b)
  | MRetrySleep, ENone => Some (go MDial, LbSleptRetry)
  | MReturning, ENone => Some (mkSt MReturned (s_cs s) (s_wg s - 1) (s_ctx s), LbReturned)
  | _, _ => None
  end.

Fixpoint upd_nth {A} (l : list A) (i : nat) (f : A -> A) : list A :=
  match l, i with
  | [], _ => []
  | x :: r, O => f x :: r
  | x :: r, S k => x :: upd_nth r k f
  end.

Definition writer_step (s : st) (i : nat) (w : wenv) : option (st * lab) :=
  match nth_error (s_cs s) i with
  | None => None
  | Some c =>
    let upd f dwg := Some (mkSt (s_m s) (upd_nth (s_cs s) i f) (s_wg s + dwg) (s_ctx s), LbTau) in
    match c_w c, w with
    | WNotStarted, WNone => upd (set_w WSelect) 0
    | WSelect, WCtx => if s_ctx s then upd (set_w WExitStore) 0 else None
    | WSelect, WQuit => if c_quit c then upd (set_w WDefer) 0 else None
    | WSelect, WMsg => upd (set_w WWriting) 0
    | WWriting, WNone => upd (set_w WSelect) 0
    | WExitStore, WNone => upd (fun c => set_w WCloseConn (set_exit c)) 0
    | WCloseConn, WNone => upd (fun c => set_w WDefer (set_closed c)) 0
    | WDefer, WNone => upd (set_w WDone) (-1)
    | _, _ => None
    end
  end.

Definition watcher_step (s : st) (i : nat) (w : wenv) : option (st * lab) :=
  match nth_error (s_cs s) i with
  | None => None
  | Some c =>
    let upd f dwg := Some (mkSt (s_m s) (upd_nth (s_cs s) i f) (s_wg s + dwg) (s_ctx s), LbTau) in
    match c_x c, w with
    | WNotStarted, WNone => upd (set_x WSelect) 0
    | WSelect, WCtx => if s_ctx s then upd (set_x WExitStore) 0 else None
    | WSelect, WQuit => if c_quit c then upd (set_x WDefer) 0 else None
    | WExitStore, WNone => upd (fun c => set_x WCloseConn (set_exit c)) 0
    | WCloseConn, WNone => upd (fun c => set_x WDefer (set_closed c)) 0
    | WDefer, WNone => upd (set_x WDone) (-1)
    | _, _ => None
    end
  end.

Definition step (s : st) (c : choice) : option (st * lab) :=
  match c with
  | CMain e => main_step s e
  | CWriter i w => writer_step s i w
  | CWatcher i w => watcher_step s i w
  | CCancel => if s_ctx s then None else Some (mkSt (s_m s) (s_cs s) (s_wg s) true, LbCancel)
  end.

(* The code BEFORE /repo c935b5d had no watcher and executed wg.Add(1) inside the writer goroutine:
   the spawn did not touch the counter, the writer's first step incremented it, the watcher does not
   exist (its choices are disabled, it stays WNotStarted and is never counted).  Kept only to state
   the defect that was found (Props/C11.v c11_legacy_wg_gap). *)
Definition step_legacy (s : st) (c : choice) : option (st * lab) :=
  match c with
  | CWatcher _ _ => None
  | _ =>
  match step s c with
  | Some (s', l) =>
    match c, s_m s with
    | CMain ENone, MSpawn => Some (mkSt (s_m s') (s_cs s') (s_wg s' - 2) (s_ctx s'), l)
    | CWriter i WNone, _ =>
      match nth_error (s_cs s) i with
      | Some cr => match c_w cr with
                   | WNotStarted => Some (mkSt (s_m s') (s_cs s') (s_wg s' + 1) (s_ctx s'), l)
                   | _ => Some (s', l)
                   end
      | None => Some (s', l)
      end
    | _, _ => Some (s', l)
    end
  | None => None
  end
  end.
Fixpoint run_legacy (s : st) (cs : list choice) : st * list lab :=
  match cs with
  | [] => (s, [])
  | c :: r =>
    match step_legacy s c with
    | Some (s', l) => let (sf, ls) := run_legacy s' r in (sf, l :: ls)
    | None => run_legacy s r
    end
  end.

(* a run from [s] under a list of choices: final state and labels (disabled choices are skipped) *)
Fixpoint run (s : st) (cs : list choice) : st * list lab :=
  match cs with
  | [] => (s, [])
  | c :: r =>
    match step s c with
    | Some (s', l) => let (sf, ls) := run s' r in (sf, l :: ls)
    | None => run s r
    end
  end.

(* ---------- acceptance of an observed callback trace (validation of this model against
   the implementation; the theorems are about ALL runs, see Proofs/NetLifeProofs.v) ---------- *)
Definition mpc_eqb (a b : mpc) : bool :=
  match a, b with
  | MStart, MStart | MDial, MDial | MWaitNoConn, MWaitNoConn | MProbe, MProbe | MSpawn, MSpawn
  | MOnConnect, MOnConnect | MRead, MRead | MEofSleep, MEofSleep | MCloseQuit, MCloseQuit
  | MCloseConn, MCloseConn | MLoadExit, MLoadExit | MRetrySleep, MRetrySleep
  | MReturning, MReturning | MReturned, MReturned => true
  | MOnDisconnect x, MOnDisconnect y => Bool.eqb x y
  | _, _ => false
  end.
Definition wpc_eqb (a b : wpc) : bool :=
  match a, b with
  | WAbsent, WAbsent | WNotStarted, WNotStarted | WSelect, WSelect | WWriting, WWriting | WExitStore, WExitStore
  | WCloseConn, WCloseConn | WDefer, WDefer | WDone, WDone => true
  | _, _ => false
  end.
Definition crec_eqb (a b : crec) : bool :=
  wpc_eqb (c_w a) (c_w b) && wpc_eqb (c_x a) (c_x b) && Bool.eqb (c_exit a) (c_exit b) && Bool.eqb (c_quit a) (c_quit b) && Bool.eqb (c_open a) (c_open b).
Definition st_eqb (a b : st) : bool :=
  mpc_eqb (s_m a) (s_m b) && list_eqb crec_eqb (s_cs a) (s_cs b) && (s_wg a =? s_wg b) && Bool.eqb (s_ctx a) (s_ctx b).

Definition observable (l : lab) : bool :=
  match l with LbConnect | LbDisconnect _ | LbReturned => true | _ => false end.
Definition lab_eqb (a b : lab) : bool :=
  match a, b with
  | LbConnect, LbConnect | LbReturned, LbReturned => true
  | LbDisconnect x, LbDisconnect y => Bool.eqb x y
  | _, _ => false
  end.

(* the search only schedules the writer of the current connection and, eagerly, lets the
   writers of finished connections run to their end - a restriction of the scheduler, so
   every run it finds is a run of the system *)
Definition search_choices : list choice :=
  [CMain ENone; CMain EDialOk; CMain EDialFail; CMain ESelCtx; CMain ESelTimer; CMain EReadOk;
   CMain (EReadFail false); CMain (EReadFail true);
   CWriter 0 WNone; CWriter 0 WCtx; CWriter 0 WQuit; CWatcher 0 WNone; CWatcher 0 WCtx; CWatcher 0 WQuit; CCancel].

Fixpoint settle_one (fuel : nat) (s : st) (i : nat) : st :=
  match fuel with
  | O => s
  | S f =>
    match writer_step s i WNone with
    | Some (s', _) => settle_one f s' i
    | None => match writer_step s i WQuit with
              | Some (s', _) => settle_one f s' i
              | None =>
                match watcher_step s i WNone with
                | Some (s', _) => settle_one f s' i
                | None => match watcher_step s i WQuit with
                          | Some (s', _) => settle_one f s' i
                          | None => s
                          end
                end
              end
    end
  end.
(* old connections: indices 1.. *)
Definition settle (s : st) : st :=
  fold_left (fun acc i => settle_one 12 acc i) (seq 1 (length (s_cs s) - 1)) s.

Definition mem_st (x : st) (l : list st) : bool := existsb (st_eqb x) l.

Fixpoint add_new (xs seen acc : list st) : list st * list st :=
  match xs with
  | [] => (seen, acc)
  | x :: r => if mem_st x seen then add_new r seen acc else add_new r (x :: seen) (x :: acc)
  end.

Definition succs (want_silent : bool) (l : option lab) (s : st) : list st :=
  flat_map (fun c =>
    match step s c with
    | Some (s', lb) =>
      if want_silent then (if observable lb then [] else [settle s'])
      else match l with Some x => if lab_eqb lb x then [settle s'] else [] | None => [] end
    | None => []
    end) search_choices.

Fixpoint closure (fuel : nat) (frontier seen : list st) : list st :=
  match fuel with
  | O => seen
  | S f =>
    match frontier with
    | [] => seen
    | _ =>
      let (seen', fresh) := add_new (flat_map (succs true None) frontier) seen [] in
      closure f fresh seen'
    end
  end.

Fixpoint accept_from (tr : list lab) (ss : list st) : bool :=
  match tr with
  | [] => match ss with [] => false | _ => true end
  | l :: r =>
    let cl := closure 64 ss ss in
    let (nx, _) := add_new (flat_map (succs false (Some l)) cl) [] [] in
    match nx with
    | [] => false
    | _ => accept_from r nx
    end
  end.

Definition accepts_trace (tr : list lab) : bool := accept_from tr [init].
