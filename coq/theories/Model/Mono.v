(* Executable model of /repo/ibeam_lib_monogfx/monogfx.go (drawing part).
   Byte buffer exactly as in Go: row-major, widthInBytes = ceil(W/8), MSB = leftmost pixel.
   No proofs in this file. *)
From RP Require Import Lib.Base Lib.Utf8 Gen.Fonts.

(* what DrawPixel reads *)
Record geom := mkGeom {
  gW : Z; gH : Z; gwib : Z;
  gbw : Z; gbh : Z; gbx : Z; gby : Z;
  ginv : bool }.

(* text state *)
Record tstate := mkT {
  tfont : Z;        (* 0 = 5x7 (default), 1 = 8x8, 2 = 5x5 *)
  tprop : bool;
  tspacing : Z;     (* charSpacingCompensation, a byte *)
  tcx : Z; tcy : Z;
  tcol : bool; tbg : bool;
  tsh : Z; tsv : Z;
  twrap : bool }.

Record img := mkImg {
  ig : geom;
  it : tstate;
  idata : list Z;
  ibckg : Z;      (* OLEDBckgColor, uint16 *)
  ipixc : Z }.    (* OLEDPixelColor, uint16 *)

Definition with_data (i : img) (d : list Z) : img := mkImg (ig i) (it i) d (ibckg i) (ipixc i).
Definition with_geom (i : img) (g : geom) : img := mkImg g (it i) (idata i) (ibckg i) (ipixc i).
Definition with_t (i : img) (t : tstate) : img := mkImg (ig i) t (idata i) (ibckg i) (ipixc i).

Definition set_bbox (g : geom) (x y w h : Z) : geom := mkGeom (gW g) (gH g) (gwib g) w h x y (ginv g).
Definition set_inv (g : geom) (b : bool) : geom := mkGeom (gW g) (gH g) (gwib g) (gbw g) (gbh g) (gbx g) (gby g) b.

Definition norm_font (n : Z) : Z := if n =? 1 then 1 else if n =? 2 then 2 else 0.

Definition init_t : tstate := mkT 0 true 0 0 0 false false 1 1 true.

(* NewImage(w,h) for w,h >= 0 (make panics on a negative size: outside every claim) *)
Definition new_image (w h : Z) : img :=
  let wib := ceil_div8 w in
  mkImg (mkGeom w h wib w h 0 0 false) init_t (zrepeat 0 (wib * h)) 0 65535.

(* ---- DrawPixel, monogfx.go:236-251 (with the x >= 0 && y >= 0 guard of the F9 repair) ---- *)
Definition width_max (g : geom) : Z := qint (gbw g + gbx g >? gW g) (gW g) (gbw g + gbx g).
Definition height_max (g : geom) : Z := qint (gbh g + gby g >? gH g) (gH g) (gbh g + gby g).

Definition pixel_mask (x : Z) : Z := wrap8 (Z.shiftl 1 (7 - gmod x 8)).

Definition draw_pixel (g : geom) (x0 y0 : Z) (c : bool) (d : list Z) : list Z :=
  let x := x0 + gbx g in
  let y := y0 + gby g in
  if (0 <=? x) && (0 <=? y) && (x <? width_max g) && (y <? height_max g) then
    let index := y * gwib g + gdiv x 8 in
    if (0 <=? index) && (index <? zlen d) then
      let old := znth 0 d index in
      if xorb c (ginv g)
      then zupd d index (Z.lor old (pixel_mask x))
      else zupd d index (Z.land old (Z.lxor (pixel_mask x) 255))
    else d
  else d.

(* ---- lines and rectangles ---- *)
Definition vline (g : geom) (x y h : Z) (c : bool) (d : list Z) : list Z :=
  for_range 0 h (fun i d => draw_pixel g x (y + i) c d) d.
Definition hline (g : geom) (x y w : Z) (c : bool) (d : list Z) : list Z :=
  for_range 0 w (fun i d => draw_pixel g (x + i) y c d) d.
Definition fill_rect (g : geom) (x y w h : Z) (c : bool) (d : list Z) : list Z :=
  for_range x w (fun i d => vline g i y h c d) d.

(* ---- circle helpers: `for x < y` on fuel; r+1 iterations always suffice ---- *)
Definition corner_pixels (g : geom) (x0 y0 x y corner : Z) (c : bool) (d : list Z) : list Z :=
  let d := if Z.land corner 4 >? 0 then draw_pixel g (x0 + y) (y0 + x) c (draw_pixel g (x0 + x) (y0 + y) c d) else d in
  let d := if Z.land corner 2 >? 0 then draw_pixel g (x0 + y) (y0 - x) c (draw_pixel g (x0 + x) (y0 - y) c d) else d in
  let d := if Z.land corner 8 >? 0 then draw_pixel g (x0 - x) (y0 + y) c (draw_pixel g (x0 - y) (y0 + x) c d) else d in
  let d := if Z.land corner 1 >? 0 then draw_pixel g (x0 - x) (y0 - y) c (draw_pixel g (x0 - y) (y0 - x) c d) else d in
  d.

Fixpoint circle_loop (fuel : nat) (body : Z -> Z -> list Z -> list Z) (f ddx ddy x y : Z) (d : list Z) : list Z :=
  match fuel with
  | O => d
  | S fuel' =>
    if x <? y then
      let '(y, ddy, f) := if f >=? 0 then (y - 1, ddy + 2, f + (ddy + 2)) else (y, ddy, f) in
      let x := x + 1 in
      let ddx := ddx + 2 in
      let f := f + ddx in
      circle_loop fuel' body f ddx ddy x y (body x y d)
    else d
  end.

Definition circle_fuel (r : Z) : nat := S (Z.to_nat r).

Definition circle_helper (g : geom) (x0 y0 r corner : Z) (c : bool) (d : list Z) : list Z :=
  circle_loop (circle_fuel r) (fun x y d => corner_pixels g x0 y0 x y corner c d) (1 - r) 1 (-2 * r) 0 r d.

Definition fill_corner_lines (g : geom) (x0 y0 x y corner delta : Z) (c : bool) (d : list Z) : list Z :=
  let d := if Z.land corner 1 >? 0
           then vline g (x0 + y) (y0 - x) (2 * x + 1 + delta) c (vline g (x0 + x) (y0 - y) (2 * y + 1 + delta) c d) else d in
  let d := if Z.land corner 2 >? 0
           then vline g (x0 - y) (y0 - x) (2 * x + 1 + delta) c (vline g (x0 - x) (y0 - y) (2 * y + 1 + delta) c d) else d in
  d.

Definition fill_circle_helper (g : geom) (x0 y0 r corner delta : Z) (c : bool) (d : list Z) : list Z :=
  circle_loop (circle_fuel r) (fun x y d => fill_corner_lines g x0 y0 x y corner delta c d) (1 - r) 1 (-2 * r) 0 r d.

Definition round_rect (g : geom) (x y w h r : Z) (c : bool) (d : list Z) : list Z :=
  let d := hline g (x + r) y (w - 2 * r) c d in
  let d := hline g (x + r) (y + h - 1) (w - 2 * r) c d in
  let d := vline g x (y + r) (h - 2 * r) c d in
  let d := vline g (x + w - 1) (y + r) (h - 2 * r) c d in
  let d := circle_helper g (x + r) (y + r) r 1 c d in
  let d := circle_helper g (x + w - r - 1) (y + r) r 2 c d in
  let d := circle_helper g (x + w - r - 1) (y + h - r - 1) r 4 c d in
  circle_helper g (x + r) (y + h - r - 1) r 8 c d.

Definition fill_round_rect (g : geom) (x y w h r : Z) (c : bool) (d : list Z) : list Z :=
  let d := fill_rect g (x + r) y (w - 2 * r) h c d in
  let d := fill_circle_helper g (x + w - r - 1) (y + r) r 1 (h - 2 * r - 1) c d in
  fill_circle_helper g (x + r) (y + r) r 2 (h - 2 * r - 1) c d.

(* ---- DrawBitmap, 584-599 ---- *)
Definition draw_bitmap (g : geom) (x y : Z) (bm : list Z) (w h : Z) (c inverted all : bool) (d : list Z) : list Z :=
  let bw := gdiv (w + 7) 8 in
  for_range 0 h (fun j d =>
    for_range 0 w (fun i d =>
      let idx := j * bw + gdiv i 8 in
      if zlen bm >? idx then
        (* idx >= 0 here because i, j >= 0 inside the loops and bw >= 0 when w >= 1 *)
        let bit := xorb (Z.land (znth 0 bm idx) (Z.shiftr 128 (Z.land i 7)) >? 0) inverted in
        if all || bit then draw_pixel g (x + i) (y + j) (xorb c (negb bit)) d else d
      else d) d) d.

(* ---- fonts ---- *)
Definition font_bbh (f : Z) : Z := if f =? 2 then 6 else 8.
Definition font_bbw (f : Z) : Z := if f =? 1 then 8 else 6.
Definition font_tight (f : Z) : Z := if f =? 1 then 0 else 1.
Definition font_data (f : Z) : list Z := if f =? 1 then font_8x8 else if f =? 2 then font_5x5 else font_5x7.
Definition font_start : Z := 32.
Definition font_end : Z := 127.
Definition font_memw (f : Z) : Z := font_bbw f - font_tight f.

Definition in_font (c : Z) : bool := (font_start <=? c) && (c <=? font_end).

Fixpoint count_leading_zero (l : list Z) : Z :=
  match l with
  | [] => 0
  | x :: r => if x >? 0 then 0 else 1 + count_leading_zero r
  end.

Definition glyph_cols (f c : Z) : list Z :=
  firstn (Z.to_nat (font_memw f)) (skipn (Z.to_nat ((c - font_start) * font_memw f)) (font_data f)).

(* GetCharWidth *)
Definition char_width (t : tstate) (c : Z) : Z :=
  let f := tfont t in
  if in_font c && tprop t then
    let cols := glyph_cols f c in
    let sb := count_leading_zero cols in
    let eb := count_leading_zero (rev cols) in
    if sb =? font_memw f then constrain (Z.shiftr (font_bbw f) 1) 3 (font_bbw f)
    else wrap8 (font_memw f - sb - eb + 1)
  else font_bbw f.

(* GetCharStart *)
Definition char_start (t : tstate) (c : Z) : Z :=
  let f := tfont t in
  if in_font c && tprop t then
    let sb := count_leading_zero (glyph_cols f c) in
    if sb =? font_memw f then 0 else sb
  else 0.

Definition get_bwidth (g : geom) : Z := qint (gbw g >? 0) (gbw g) (gW g).
Definition get_bheight (g : geom) : Z := qint (gbh g >? 0) (gbh g) (gH g).

Definition block (g : geom) (x y sh sv : Z) (c : bool) (d : list Z) : list Z :=
  if (sh =? 1) && (sv =? 1) then draw_pixel g x y c d else fill_rect g x y sh sv c d.

(* the column byte DrawChar uses for column i of character c *)
Definition char_column (t : tstate) (c cw cstart i : Z) : Z :=
  let f := tfont t in
  if in_font c then
    if (tprop t || (font_tight f >? 0)) && (i =? cw - 1) then 0
    else znth 0 (font_data f) (wrap32 (wrap8 (c - font_start) * font_memw f + cstart) + i)
  else
    if (i =? 0) || (i =? cw - 1) then 255 else Z.lor 1 (wrap8 (Z.shiftl 1 (font_bbh f - 1))).

(* DrawChar, 470-516 *)
Definition draw_char (g : geom) (t : tstate) (x y c : Z) (col bg : bool) (sh sv : Z) (d : list Z) : list Z :=
  let f := tfont t in
  let cw := char_width t c in
  if (x >? get_bwidth g - (cw - 1) * sh) || (y >? gH g)
     || (x + font_bbw f * sh - 1 <? 0) || (y + font_bbh f * sv - 1 <? 0) then d
  else
    let cstart := char_start t c in
    for_range 0 cw (fun i d =>
      let colbyte := char_column t c cw cstart i in
      for_range 0 (font_bbh f) (fun j d =>
        if Z.testbit colbyte j then block g (x + i * sh) (y + j * sv) sh sv col d
        else if negb (Bool.eqb bg col) then block g (x + i * sh) (y + j * sv) sh sv bg d
        else d) d) d.

Definition set_cursor (t : tstate) (x y : Z) : tstate :=
  mkT (tfont t) (tprop t) (tspacing t) x y (tcol t) (tbg t) (tsh t) (tsv t) (twrap t).

(* writeChar, 518-534; lineSpacingCompensation is never set: 0 *)
Definition write_char (g : geom) (td : tstate * list Z) (c : Z) : tstate * list Z :=
  let '(t, d) := td in
  if c =? 10 then (set_cursor t 0 (tcy t + tsv t * font_bbh (tfont t)), d)
  else if c =? 13 then (t, d)
  else
    let d := draw_char g t (tcx t) (tcy t) c (tcol t) (tbg t) (tsh t) (tsv t) d in
    let cw := char_width t c in
    let cx := tcx t + tsh t * cw + tspacing t in
    if twrap t && (cx >? get_bwidth g - tsh t * (cw - 1))
    then (set_cursor t 0 (tcy t + tsv t * font_bbh (tfont t)), d)
    else (set_cursor t cx (tcy t), d).

Definition render_chars (g : geom) (cs : list Z) (td : tstate * list Z) : tstate * list Z :=
  fold_left (write_char g) cs td.
(* RenderText(str): ranges over the string's runes, truncating each to a byte *)
Definition render_text (g : geom) (s : list Z) (td : tstate * list Z) : tstate * list Z :=
  render_chars g (range_bytes s) td.

Definition set_font (t : tstate) (n : Z) (p : bool) : tstate :=
  mkT (norm_font n) p (tspacing t) (tcx t) (tcy t) (tcol t) (tbg t) (tsh t) (tsv t) (twrap t).
Definition set_text_size (t : tstate) (h v : Z) : tstate :=
  let h' := qint (h >? 0) h 1 in
  mkT (tfont t) (tprop t) (tspacing t) (tcx t) (tcy t) (tcol t) (tbg t) h' (qint (v =? 0) h' v) (twrap t).
Definition set_text_color (t : tstate) (c : bool) : tstate :=
  mkT (tfont t) (tprop t) (tspacing t) (tcx t) (tcy t) c c (tsh t) (tsv t) (twrap t).
Definition set_spacing (t : tstate) (s : Z) : tstate :=
  mkT (tfont t) (tprop t) (wrap8 s) (tcx t) (tcy t) (tcol t) (tbg t) (tsh t) (tsv t) (twrap t).
Definition set_wrap (t : tstate) (w : bool) : tstate :=
  mkT (tfont t) (tprop t) (tspacing t) (tcx t) (tcy t) (tcol t) (tbg t) (tsh t) (tsv t) w.

Definition str_width_chars (t : tstate) (cs : list Z) : Z :=
  fold_left (fun w c => w + (char_width t c * tsh t + tspacing t)) cs 0 - tsh t.
Definition str_width (t : tstate) (s : list Z) : Z := str_width_chars t (range_bytes s).
Definition line_height (t : tstate) : Z := wrap32 (wrap32 (tsv t) * font_bbh (tfont t)).

(* ---- operations as data (C16 op lists) ---- *)
Inductive op :=
| OPixel (x y : Z) (c : bool)
| OHLine (x y w : Z) (c : bool)
| OVLine (x y h : Z) (c : bool)
| OFillRect (x y w h : Z) (c : bool)
| ORoundRect (x y w h r : Z) (c : bool)
| OFillRoundRect (x y w h r : Z) (c : bool)
| OCircleHelper (x0 y0 r corner : Z) (c : bool)
| OFillCircleHelper (x0 y0 r corner delta : Z) (c : bool)
| OBitmap (x y : Z) (bm : list Z) (w h : Z) (c inverted all : bool)
| OChar (x y ch : Z) (c bg : bool) (sh sv : Z)
| OText (s : list Z)
| OSetBBox (x y w h : Z)
| OInvert (v : bool)
| OSetFont (n : Z) (p : bool)
| OSetCursor (x y : Z)
| OSetTextSize (h v : Z)
| OSetTextColor (c : bool)
| OSetSpacing (s : Z)
| OSetWrap (w : bool).

Definition run_op (i : img) (o : op) : img :=
  let g := ig i in
  let d := idata i in
  match o with
  | OPixel x y c => with_data i (draw_pixel g x y c d)
  | OHLine x y w c => with_data i (hline g x y w c d)
  | OVLine x y h c => with_data i (vline g x y h c d)
  | OFillRect x y w h c => with_data i (fill_rect g x y w h c d)
  | ORoundRect x y w h r c => with_data i (round_rect g x y w h r c d)
  | OFillRoundRect x y w h r c => with_data i (fill_round_rect g x y w h r c d)
  | OCircleHelper x0 y0 r k c => with_data i (circle_helper g x0 y0 r k c d)
  | OFillCircleHelper x0 y0 r k dl c => with_data i (fill_circle_helper g x0 y0 r k dl c d)
  | OBitmap x y bm w h c iv al => with_data i (draw_bitmap g x y bm w h c iv al d)
  | OChar x y ch c bg sh sv => with_data i (draw_char g (it i) x y ch c bg sh sv d)
  | OText s => let '(t, d') := render_text g s (it i, d) in with_data (with_t i t) d'
  | OSetBBox x y w h => with_geom i (set_bbox g x y w h)
  | OInvert v => with_geom i (set_inv g v)
  | OSetFont n p => with_t i (set_font (it i) n p)
  | OSetCursor x y => with_t i (set_cursor (it i) x y)
  | OSetTextSize h v => with_t i (set_text_size (it i) h v)
  | OSetTextColor c => with_t i (set_text_color (it i) c)
  | OSetSpacing s => with_t i (set_spacing (it i) s)
  | OSetWrap w => with_t i (set_wrap (it i) w)
  end.

Definition run_ops (i : img) (ops : list op) : img := fold_left run_op ops i.
