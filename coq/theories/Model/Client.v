(* Model of the library's own logic in connecttopanel.go (ConnectToPanel) and of
   rawpanelhelpers.go AutoDetectIfPanelEncodingIsBinary, written against the environment
   of Model/Net.v.  Hand transcription, tied to /repo by replaying scripted TCP scenarios
   (harness/net).  No proofs here.

   External functions are parameters, never axioms:
     unmarshal : payload bytes -> M      proto.Unmarshal into a fresh OutboundMessage (its
                                         error is ignored by the code, connecttopanel.go:197)
     decode    : trimmed line -> M       RawPanelASCIIstringsToOutboundMessages([]string{line})
   M is the type of what is sent on msgsFromPanel. *)
From RP Require Import Lib.Base Lib.Varint Lib.Strings Model.Net.

(* ---------- negotiation (connecttopanel.go:72-130, rawpanelhelpers.go:681-739) ---------- *)

(* strings.Split(s, "\n")[0] *)
Fixpoint upto_lf (s : bytes) : bytes :=
  match s with
  | [] => []
  | b :: r => if b =? 10 then [] else b :: upto_lf r
  end.

Definition errormsg_prefix : bytes := [69; 114; 114; 111; 114; 77; 115; 103; 61]. (* "ErrorMsg=" *)

Definition errmsg_of (reply : bytes) : bytes :=
  let first := upto_lf reply in
  if has_prefix errormsg_prefix first then skipn 9 first else [].

(* reconnecting client: (binaryPanel, errorMsg).  ASCII <=> one "\n" is written. *)
Definition classify_client (r : pres) : bool * bytes :=
  match r with
  | PErr => (false, [])
  | PData bs =>
    let n := zlen bs in
    if (4 <? n) && (wrap32 (le32_dec bs + 4) =? n) then (true, []) else (false, errmsg_of bs)
  end.

Definition rdy_word : bytes := [82; 68; 89; 10].   (* "RDY\n" *)
Definition map_word : bytes := [109; 97; 112; 61]. (* "map=" *)

(* stand-alone detector: returned flag; it writes one "\n" exactly when it returns false *)
Definition classify_detector (r : pres) : bool :=
  match r with
  | PErr => false
  | PData bs =>
    if (4 <=? zlen bs) && (bytes_eqb (firstn 4 bs) rdy_word || bytes_eqb (firstn 4 bs) map_word) then false
    else true
  end.

(* bytes the negotiation writes to the socket *)
Definition negotiation_bytes (binary : bool) : bytes := probe_bytes ++ (if binary then [] else [10]).

(* ---------- strings.TrimSpace, ASCII white space (\t \n \v \f \r space) ---------- *)
Definition is_space (c : Z) : bool := (c =? 32) || ((9 <=? c) && (c <=? 13)).
Fixpoint trim_left (s : bytes) : bytes :=
  match s with
  | [] => []
  | c :: r => if is_space c then trim_left r else s
  end.
Definition trim_space (s : bytes) : bytes := rev_append (trim_left (rev_append (trim_left s) [])) [].

Inductive reason : Type := REof | RReset | RTimeout | RLimit | RCancel.
Definition reason_of (e : rerr) : reason :=
  match e with ETimeout => RTimeout | EEof => REof | EReset => RReset | EClosed => RCancel end.

Inductive outcome : Type :=
| Waiting                      (* blocked in a read for ever: still connected *)
| Dropped (t : Z) (r : reason) (* the read loop ended at time t *)
| NoFuel.

Section Reader.
Variable M : Type.
Variable unmarshal : bytes -> M.
Variable decode : bytes -> M.

Inductive cobs : Type :=
| OAlloc (t n : Z)           (* make([]byte, n) at time t *)
| ODeliver (t : Z) (m : M).  (* msgsFromPanel <- m at time t *)

Definition payload_limit : Z := 500000.

(* binary read loop, connecttopanel.go:178-205 (after the fix for F14: the first header
   byte is awaited with no deadline, the other three under now+2 s) *)
Fixpoint bin_loop (fuel : nat) (c : conn) : list cobs * outcome :=
  match fuel with
  | O => ([], NoFuel)
  | S f =>
    match read_full 1 None c with                         (* SetReadDeadline(zero); ReadFull(header[0:1]) *)
    | (RData h1, c1) =>
      match read_full 3 (Some (now c1 + 2000)) c1 with    (* SetReadDeadline(now+2s); ReadFull(header[1:4]) *)
      | (RData h2, c2) =>
        let n := le32_dec (h1 ++ h2) in
        if n <? payload_limit then
          match read_full n (Some (now c2 + 2000)) c2 with (* make; SetReadDeadline(now+2s); ReadFull(payload) *)
          | (RData p, c3) =>
            let (o, out) := bin_loop f c3 in
            (OAlloc (now c2) n :: ODeliver (now c3) (unmarshal p) :: o, out)
          | (RErr e, c3) => ([OAlloc (now c2) n], Dropped (now c3) (reason_of e))
          | (RBlocked, _) => ([OAlloc (now c2) n], Waiting)
          end
        else ([], Dropped (now c2) RLimit)
      | (RErr e, c2) => ([], Dropped (now c2) (reason_of e))
      | (RBlocked, _) => ([], Waiting)
      end
    | (RErr e, c1) => ([], Dropped (now c1) (reason_of e))
    | (RBlocked, _) => ([], Waiting)
    end
  end.

(* ASCII read loop, connecttopanel.go:206-223 *)
Fixpoint asc_loop (fuel : nat) (c : conn) : list cobs * outcome :=
  match fuel with
  | O => ([], NoFuel)
  | S f =>
    match read_line c with
    | (RData l, c1) =>
      let (o, out) := asc_loop f c1 in
      (ODeliver (now c1) (decode (trim_space l)) :: o, out)
    | (RErr e, c1) => ([], Dropped (now c1) (reason_of e))
    | (RBlocked, _) => ([], Waiting)
    end
  end.

(* one connection: negotiation, then the read loop.  Times are relative to the dial.
   [lclose]: the instant at which the context is cancelled (the writer goroutine, which
   exists from the end of the negotiation on, then closes the socket). *)
Record conn_result : Type := mkCR {
  cr_t0 : Z;            (* end of negotiation = onconnect *)
  cr_bin : bool;
  cr_err : bytes;
  cr_obs : list cobs;
  cr_out : outcome
}.

Definition arm_cancel (c : conn) (lclose : option Z) : conn :=
  mkConn (now c) (pend c) (cl c) (match lclose with Some l => Some (Z.max (now c) l) | None => None end).

Definition run_conn (fuel : nat) (s : script) (lclose : option Z) : conn_result :=
  let (r, c) := probe_read s in
  let (bin, err) := classify_client r in
  let c' := arm_cancel c lclose in
  let (o, out) := if bin then bin_loop fuel c' else asc_loop fuel c' in
  mkCR (now c) bin err o out.

(* ---------- the retry loop around it (connecttopanel.go:54-68, 225-238), timed ---------- *)
Record cfg : Type := mkCfg { noconn : Z; reconn : Z }.   (* milliseconds *)

(* Go: 0 means "use the default" (3 s / 1 s) *)
Definition cfg_of (no_s re_s : Z) : cfg :=
  mkCfg (1000 * (if no_s =? 0 then 3 else no_s)) (1000 * (if re_s =? 0 then 1 else re_s)).

Inductive lev : Type :=
| LDial (t : Z) (ok : bool)
| LWrote (t : Z) (bs : bytes)              (* negotiation bytes written by the main goroutine *)
| LConnect (t : Z) (err : bytes) (bin : bool)
| LAlloc (t n : Z)
| LDeliver (t : Z) (m : M)
| LDisconnect (t : Z) (cancelled : bool)
| LReturned (t : Z)
| LFuel.

Definition lev_of (a : Z) (o : cobs) : lev :=
  match o with OAlloc t n => LAlloc (a + t) n | ODeliver t m => LDeliver (a + t) m end.

Definition is_eof (r : reason) : bool := match r with REof => true | _ => false end.
Definition is_cancel (r : reason) : bool := match r with RCancel => true | _ => false end.

(* [listen_from]: dials before this instant are refused; [scripts]: one per accepted
   connection, further dials are refused; [lats]: time a successful dial takes (environment);
   [cT]: cancellation instant.  Absolute times. *)
Fixpoint run_life (fuel cfuel : nat) (cf : cfg) (listen_from : Z) (scripts : list script)
         (lats : list Z) (cT : option Z) (t : Z) : list lev :=
  match fuel with
  | O => [LFuel]
  | S f =>
    match (if t <? listen_from then None else match scripts with [] => None | s :: r => Some (s, r) end) with
    | None =>
      LDial t false ::
      match cT with
      | Some c => if c <? t + noconn cf then [LReturned (Z.max t c)]
                  else run_life f cfuel cf listen_from scripts lats cT (t + noconn cf)
      | None => run_life f cfuel cf listen_from scripts lats cT (t + noconn cf)
      end
    | Some (s, r) =>
      let a := t + hd 0 lats in
      let cr := run_conn cfuel s (match cT with Some c => Some (c - a) | None => None end) in
      LDial t true :: LWrote a (negotiation_bytes (cr_bin cr)) :: LConnect (a + cr_t0 cr) (cr_err cr) (cr_bin cr) ::
      map (lev_of a) (cr_obs cr) ++
      match cr_out cr with
      | Waiting => []
      | NoFuel => [LFuel]
      | Dropped td why =>
        (* ASCII + io.EOF: time.Sleep(1 s) before the teardown, with the writer still alive *)
        let tdisc := a + td + (if negb (cr_bin cr) && is_eof why then 1000 else 0) in
        let cancelled := is_cancel why || (match cT with Some c => c <? tdisc | None => false end) in
        LDisconnect tdisc cancelled ::
        (if cancelled then [LReturned tdisc]
         else run_life f cfuel cf listen_from r (tl lats) cT (tdisc + reconn cf))
      end
    end
  end.

End Reader.

(* ---------- writer goroutine (connecttopanel.go:140-169) ---------- *)
Section Writer.
Variable Msg : Type.
Variable marshal : Msg -> bytes.            (* proto.Marshal *)
Variable enc_in : list Msg -> list bytes.   (* InboundMessagesToRawPanelASCIIstrings *)

(* bytes produced for one received submission *)
Definition write_one (binary : bool) (sub : list Msg) : bytes :=
  if binary then concat (map (fun m => frame (marshal m)) sub)
  else concat (map (fun l => l ++ [10]) (enc_in sub)).

(* [subs]: submissions in the order in which the goroutine receives them from the channel *)
Definition written (binary : bool) (subs : list (list Msg)) : bytes :=
  concat (map (write_one binary) subs).
End Writer.

Arguments OAlloc {M}. Arguments ODeliver {M}.
Arguments LDial {M}. Arguments LWrote {M}. Arguments LConnect {M}. Arguments LAlloc {M}.
Arguments LDeliver {M}. Arguments LDisconnect {M}. Arguments LReturned {M}. Arguments LFuel {M}.
