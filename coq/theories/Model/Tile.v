(* Executable model of WriteDisplayTileNew (/repo/rawpanelhelpers.go:306-620) and
   convertToColorRGB16bit (188-224), on top of Model/Mono.v.  No proofs in this file.

   Shape: the renderer is a straight-line program over the MonoImg API whose arguments
   depend on the text state, the geometry and on text metrics (StrWidth / LineHeight of the
   *current* font, size and spacing).  The model computes that program as DATA
   ([tile_ops] : list op) - metrics are evaluated on a tracked copy of the font/size state -
   and runs it with Mono.run_ops.  The op list has three parts:
     prologue  InvertPixels(Inverted); FillRect(0,0,W,H,false); spacing; wrap off; SetBoundingBox
     body      text / line / rectangle / bitmap operations ([dop]: by construction no
               InvertPixels and no SetBoundingBox), does not read Inverted
     epilogue  (border > 0) clear the top/left border strips                (F10 repair)
   Numeric details that decide pixels are exact: uint32 arithmetic of titleHeight, int32
   subtraction of the limit marks, float64 arithmetic of the scale bar and of the %1.2f-style
   value strings (Lib/FloatTile.v). *)
From RP Require Import Lib.Base Lib.Sexp Lib.Utf8 Lib.FloatTile Gen.Tables Model.Mono.

(* ---- the text state (rwp.HWCText); pointers to sub-messages are options ---- *)
Record mfont := mkFont { f_face : Z; f_h : Z; f_w : Z }.        (* FontFace int32; TextHeight, TextWidth uint32 *)
Record mstyle := mkStyle {
  s_title : option mfont; s_text : option mfont; s_fixed : bool;
  s_pad : Z; s_spacing : Z; s_ufs : Z }.                          (* uint32 each *)
Record mscale := mkScale { sc_type : Z; sc_rl : Z; sc_rh : Z; sc_ll : Z; sc_lh : Z }.  (* int32 each *)
Record mcolor := mkColor { c_rgb : option (Z * Z * Z); c_idx : option Z }.            (* uint32 x3; int32 *)
Record mtext := mkText {
  x_int : Z; x_fmt : Z; x_sicon : Z; x_micon : Z;
  x_title : list Z; x_solid : bool; x_l1 : list Z; x_l2 : list Z;
  x_int2 : Z; x_pair : Z;
  x_scale : option mscale; x_style : option mstyle;
  x_inv : bool; x_pix : option mcolor; x_bg : option mcolor }.

Definition empty_font : mfont := mkFont 0 0 0.
Definition empty_style : mstyle := mkStyle None None false 0 0 0.
Definition empty_scale : mscale := mkScale 0 0 0 0 0.

(* lines 308-319: the function fills absent sub-messages of its ARGUMENT *)
Definition fill_style (o : option mstyle) : mstyle :=
  let s := match o with Some s => s | None => empty_style end in
  mkStyle (Some (match s_title s with Some f => f | None => empty_font end))
          (Some (match s_text s with Some f => f | None => empty_font end))
          (s_fixed s) (s_pad s) (s_spacing s) (s_ufs s).
Definition fill_text (t : mtext) : mtext :=
  mkText (x_int t) (x_fmt t) (x_sicon t) (x_micon t) (x_title t) (x_solid t) (x_l1 t) (x_l2 t)
         (x_int2 t) (x_pair t)
         (Some (match x_scale t with Some s => s | None => empty_scale end))
         (Some (fill_style (x_style t))) (x_inv t) (x_pix t) (x_bg t).

Definition the_font (o : option mfont) : mfont := match o with Some f => f | None => empty_font end.
Definition the_scale (t : mtext) : mscale := match x_scale t with Some s => s | None => empty_scale end.
Definition the_style (t : mtext) : mstyle := fill_style (x_style t).

Definition set_inverted (t : mtext) (b : bool) : mtext :=
  mkText (x_int t) (x_fmt t) (x_sicon t) (x_micon t) (x_title t) (x_solid t) (x_l1 t) (x_l2 t)
         (x_int2 t) (x_pair t) (x_scale t) (x_style t) b (x_pix t) (x_bg t).
Definition set_value (t : mtext) (v : Z) : mtext :=
  mkText v (x_fmt t) (x_sicon t) (x_micon t) (x_title t) (x_solid t) (x_l1 t) (x_l2 t)
         (x_int2 t) (x_pair t) (x_scale t) (x_style t) (x_inv t) (x_pix t) (x_bg t).

(* ---- colours: convertToColorRGB16bit, SetOLED*Color ---- *)
Definition map_constrain (x imin imax omin omax : Z) : Z := constrain (map_value x imin imax omin omax) omin omax.

(* a checked table read: Go panics on an index outside the slice *)
Definition read_tab (site : Z) (tab : list Z) (k : Z) : res Z :=
  if (0 <=? k) && (k <? zlen tab) then Ok (znth 0 tab k) else Panic site.

Definition color6 (c : mcolor) : res Z :=
  match c_rgb c with
  | Some (r, g, b) =>
    Ok (Z.lor (Z.lor (Z.shiftl (Z.land (map_constrain r 0 255 0 3) 3) 4)
                     (Z.shiftl (Z.land (map_constrain g 0 255 0 3) 3) 2))
              (Z.land (map_constrain b 0 255 0 3) 3))
  | None =>
    match c_idx c with
    | Some i =>
      let k := Z.land i 31 in
      read_tab 1 button_colors (if k >=? zlen button_colors then 0 else k)
    | None => Ok 0
    end
  end.

Definition oled16 (c : Z) : Z :=
  let r := map_value (Z.land (Z.shiftr c 4) 3) 0 3 0 31 in
  let g := map_value (Z.land (Z.shiftr c 2) 3) 0 3 0 63 in
  let b := map_value (Z.land c 3) 0 3 0 31 in
  wrap16 (Z.lor (Z.lor (Z.shiftl (Z.land b 31) 11) (Z.shiftl (Z.land g 63) 5)) (Z.land r 31)).

Definition with_colors (i : img) (bg pc : Z) : img := mkImg (ig i) (it i) (idata i) bg pc.

(* ---- body operations ---- *)
Inductive dop :=
| DSetFont (n : Z) (p : bool)
| DSetTextColor (c : bool)
| DSetTextSize (h v : Z)
| DSetCursor (x y : Z)
| DText (s : list Z)
| DHLine (x y w : Z) (c : bool)
| DFillRoundRect (x y w h r : Z) (c : bool)
| DRoundRect (x y w h r : Z) (c : bool)
| DBitmap (x y : Z) (bm : list Z) (w h : Z) (c inverted all : bool).

Definition op_of (d : dop) : op :=
  match d with
  | DSetFont n p => OSetFont n p
  | DSetTextColor c => OSetTextColor c
  | DSetTextSize h v => OSetTextSize h v
  | DSetCursor x y => OSetCursor x y
  | DText s => OText s
  | DHLine x y w c => OHLine x y w c
  | DFillRoundRect x y w h r c => OFillRoundRect x y w h r c
  | DRoundRect x y w h r c => ORoundRect x y w h r c
  | DBitmap x y bm w h c iv al => OBitmap x y bm w h c iv al
  end.

(* the part of the text state that StrWidth / LineHeight read *)
Definition track (ts : tstate) (d : dop) : tstate :=
  match d with
  | DSetFont n p => set_font ts n p
  | DSetTextSize h v => set_text_size ts h v
  | _ => ts
  end.

Definition wst := (tstate * list dop)%type.
Definition emit (d : dop) (s : wst) : wst := (track (fst s) d, snd s ++ [d]).
Definition swid (s : wst) (str : list Z) : Z := str_width (fst s) str.
Definition lhei (s : wst) : Z := line_height (fst s).
Definition nonempty {A} (l : list A) : bool := match l with [] => false | _ => true end.

(* the geometry-derived and style-derived parameters of one call *)
Record tparams := mkP {
  pW : Z; pH : Z; pborder : Z;
  paw : Z; pah : Z;                      (* activeWidth, activeHeight *)
  pffc : Z; pfft : Z; pprop : bool;      (* fontFaceContent, fontFaceTitle, fontProportional *)
  pfH : Z; pfV : Z; ptH : Z; ptV : Z;    (* fontTextSizeH/V, titleTextSizeH/V *)
  pspacing : Z }.

Definition params (t : mtext) (W H shrink border : Z) : tparams :=
  let st := the_style t in
  let tf := the_font (s_text st) in
  let xf := the_font (s_title st) in
  let wsh := qint (Z.land shrink 1 >? 0) 1 0 in
  let hsh := qint (Z.land shrink 2 >? 0) 1 0 in
  mkP W H border
      (qint (border >? 0) (W - border * 2) (W - wsh))
      (qint (border >? 0) (H - border * 2) (H - hsh))
      (Z.land (f_face tf) 7) (Z.land (f_face xf) 7) (negb (s_fixed st))
      (Z.land (f_w tf) 3) (Z.land (f_h tf) 3) (Z.land (f_w xf) 3) (Z.land (f_h xf) 3)
      (Z.land (s_spacing st) 3).

Definition centre_x (p : tparams) (s : wst) (str : list Z) : Z :=
  Z.shiftr (constrain (paw p - swid s str) 0 (paw p)) 1.

(* case 10: one line *)
Definition body_oneline (t : mtext) (p : tparams) (s : wst) : wst :=
  let s := emit (DSetFont (pffc p) (pprop p)) s in
  let s := emit (DSetTextColor true) s in
  let tsz := constrain (s_ufs (the_style t)) 1 4 in
  let s := emit (DSetTextSize (qint (pfH p >? 0) (pfH p) tsz) (qint (pfV p >? 0) (pfV p) tsz)) s in
  let xo := centre_x p s (x_title t) in
  let yo := Z.shiftr (pah p - lhei s) 1 in
  let s := emit (DSetCursor xo yo) s in
  emit (DText (x_title t)) s.

(* case 11: two lines *)
Definition body_twolines (t : mtext) (p : tparams) (s : wst) : wst :=
  let s := emit (DSetFont (pffc p) (pprop p)) s in
  let s := emit (DSetTextColor true) s in
  let tsz := constrain (s_ufs (the_style t)) 1 4 in
  let s := emit (DSetTextSize (qint (pfH p >? 0) (pfH p) tsz) (qint (pfV p >? 0) (pfV p) tsz)) s in
  let xo := centre_x p s (x_l1 t) in
  let yo := Z.shiftr (pah p) 1 - lhei s in
  let s := emit (DSetCursor xo yo) s in
  let s := emit (DText (x_l1 t)) s in
  let xo := centre_x p s (x_l2 t) in
  let yo := Z.shiftr (pah p) 1 in
  let s := emit (DSetCursor xo yo) s in
  emit (DText (x_l2 t)) s.

(* the value string of the default layout *)
Definition value_string (fmt v : Z) : list Z :=
  if fmt =? 1 then fmt_fixed 2 (fdiv v 1000)
  else if fmt =? 8 then fmt_fixed 3 (fdiv v 1000)
  else if fmt =? 9 then fmt_fixed 2 (fdiv v 100)
  else if fmt =? 12 then fmt_fixed 1 (fdiv v 10)
  else if fmt =? 2 then itoa v ++ [37]
  else if fmt =? 3 then itoa v ++ [100; 66]
  else if fmt =? 4 then itoa v ++ [102]
  else if fmt =? 6 then itoa v ++ [75]
  else if fmt =? 7 then []
  else itoa v.

(* int(float64(num)/float64(rangeDiff)*float64(activeWidth)) constrained to [0, activeWidth] *)
Definition wbar (num rdiff aw : Z) : Z := constrain (scale_pos num rdiff aw) 0 aw.

(* the scale line in the bottom of the tile (a == 0), lines 559-588 *)
Definition body_scale (t : mtext) (p : tparams) (s : wst) : wst :=
  let sc := the_scale t in
  let aw := paw p in
  let ah := pah p in
  let rdiff := sc_rh sc - sc_rl sc in                  (* int(RangeHigh) - int(RangeLow): no wrap (N2 repair) *)
  if (sc_type sc >? 0) && negb (rdiff =? 0) then
    let s := emit (DRoundRect 0 (ah - 1) (pW p) 1 0 true) s in
    let wb := wbar (x_int t - sc_rl sc) rdiff aw in
    let s := if (sc_type sc =? 1) && (wb >? 0) then emit (DFillRoundRect 0 (ah - 3) wb 3 0 true) s else s in
    let s := if sc_type sc =? 2 then emit (DFillRoundRect (constrain (wb - 1) 0 (aw - 3)) (ah - 3) 3 3 0 true) s else s in
    let s := if sc_type sc =? 3 then
               let bw := wb - Z.shiftr aw 1 in
               let bx := qint (bw <? 0) (constrain (Z.shiftr aw 1 + bw) 0 aw) (Z.shiftr aw 1) in
               emit (DFillRoundRect bx (ah - 3) (constrain (Z.abs bw) 1 (Z.shiftr aw 1)) 3 0 true) s
             else s in
    let s := if sc_rh sc >? sc_lh sc then
               let wl := wbar (sint32 (sc_lh sc - sc_rl sc)) rdiff aw in
               emit (DFillRoundRect (constrain wl 0 (aw - 1)) (ah - 4) 1 3 0 true) s
             else s in
    let s := if sc_rl sc <? sc_ll sc then
               let wl := wbar (sint32 (sc_ll sc - sc_rl sc)) rdiff aw in
               emit (DFillRoundRect (constrain wl 0 (aw - 1)) (ah - 4) 1 3 0 true) s
             else s in
    s
  else s.

(* one pass of the `for a := 0; a < (pair > 0 ? 2 : 1); a++` loop, lines 447-589 *)
Definition body_iter (t : mtext) (p : tparams) (avail mid : Z) (a : Z) (s : wst) : wst :=
  let aw := paw p in
  let pair := x_pair t in
  let fmt := x_fmt t in
  let v := if a =? 0 then x_int t else x_int2 t in
  let out := value_string fmt v in
  let line := if a =? 0 then x_l1 t else x_l2 t in
  let narrow := DSetTextSize (qint (pfH p >? 0) (pfH p) 1) (qint (pfV p >? 0) (pfV p) (qint (avail >=? 12) 2 0)) in
  (* label *)
  let s :=
    if nonempty line then
      if pair >? 0 then
        let xo := if nonempty out then 2 else centre_x p s line in
        let yo := mid + 1 + (a - 1) * (lhei s + 1) in
        emit (DText line) (emit (DSetCursor xo yo) s)
      else
        let s := if aw <? swid s line then emit narrow s else s in
        let xo := if nonempty out then 2 else centre_x p s line in
        let yo := mid + 1 - Z.shiftr (lhei s) 1 in
        emit (DText line) (emit (DSetCursor xo yo) s)
    else s in
  (* value *)
  let s :=
    if nonempty out then
      if pair >? 0 then
        let xo := if nonempty line then constrain (aw - swid s out - 2) 0 aw else centre_x p s out in
        let yo := mid + 1 + (a - 1) * wrap32 (lhei s + 1) in
        let s := emit (DText out) (emit (DSetCursor xo yo) s) in
        if fmt =? 5 then
          emit (DText [49; 47]) (emit (DSetCursor (constrain (xo - 10) 0 100) yo) (emit (DSetTextSize 1 1) s))
        else s
      else
        let s := if aw <? swid s out then emit narrow s else s in
        let xo := if nonempty line then constrain (aw - swid s out - 2) 0 aw else centre_x p s out in
        let yo := mid + 1 - Z.shiftr (lhei s) 1 in
        let s := emit (DText out) (emit (DSetCursor xo yo) s) in
        if fmt =? 5 then
          emit (DText [49; 47]) (emit (DSetCursor (constrain (xo - 10) 0 100) (yo - 2)) (emit (DSetTextSize 1 1) s))
        else s
    else s in
  (* borders for pairs *)
  let s :=
    if pair =? a + 2 then
      emit (DRoundRect 0 (mid - 1 + (a - 1) * (lhei s + 1)) aw (lhei s + 3) 1 true) s
    else if (pair =? 4) && (a =? 0) then
      emit (DRoundRect 0 (mid - 1 + (a - 1) * (lhei s + 1)) aw (lhei s * 2 + 4) 1 true) s
    else s in
  if a =? 0 then body_scale t p s else s.

(* default: title bar, icons, values, pair borders, scale bar; lines 391-601 *)
Definition body_default (t : mtext) (p : tparams) (s : wst) : wst :=
  let W := pW p in
  let H := pH p in
  let aw := paw p in
  let ah := pah p in
  let st := the_style t in
  let title := x_title t in
  let is_title := nonempty title in
  let mini := (H <? 32) && negb (W =? 256) in
  let padding := qint (s_pad st >? 0) (s_pad st) (qint mini 1 (qint (W =? 256) 3 1)) in
  let s := emit (DSetFont (qint mini 2 (pfft p)) (pprop p)) s in
  let s := emit (DSetTextSize (qint (ptH p >? 0) (ptH p) (qint (W =? 256) 2 1)) (qint (ptV p >? 0) (ptV p) 1)) s in
  let th := wrap32 (lhei s - 1 + 2 * padding) in            (* uint32 titleHeight *)
  let lock := x_sicon t =? 2 in
  let s :=
    if is_title then
      let s := if negb (x_solid t)
               then emit (DSetTextColor true) (emit (DHLine 1 (wrap32 (th - 1)) (aw - 2) true) s)
               else emit (DSetTextColor false) (emit (DFillRoundRect 0 0 aw th 1 true) s) in
      let xo := Z.shiftr (constrain (aw - swid s title - qint lock 6 0) 0 aw) 1 in
      let yo := constrain (padding - qint (negb (x_solid t)) 1 0) 0 10 in
      let xo := if x_solid t && (xo =? 0) then xo + 1 else xo in
      emit (DText title) (emit (DSetCursor xo yo) s)
    else s in
  let s := if x_sicon t =? 1 then emit (DBitmap (aw - 7) th speed_graphic 5 2 true false false) s else s in
  let s := if lock
           then emit (DBitmap (aw - 8) (constrain (Z.shiftr (wrap32 (th - 8)) 1) (-1) 10) lock_graphic 8 8 true (negb (x_solid t)) true) s
           else s in
  let top := qint is_title th 0 in
  let avail := ah - top - qint (sc_type (the_scale t) >? 0) 3 0 in
  let mid := top + Z.shiftr (avail + 1) 1 in
  if avail >=? 8 then
    let pair := x_pair t in
    let s := emit (DSetFont (pffc p) (pprop p)) s in
    let s := emit (DSetTextColor true) s in
    let s := emit (DSetTextSize (qint (pfH p >? 0) (pfH p) (qint (pair >? 0) 1 2))
                                (qint (pfV p >? 0) (pfV p) (qint (H >=? 48) 2 0))) s in
    let s := if (H <? 32) && (pair >? 0) then emit (DSetFont 2 (pprop p)) s else s in
    let s := if (avail <? 12) && (pair =? 0) && (pfH p =? 0) && (pfV p =? 0) then emit (DSetTextSize 1 1) s else s in
    let s := body_iter t p avail mid 0 s in
    let s := if pair >? 0 then body_iter t p avail mid 1 s else s in
    let s := if x_sicon t =? 3 then emit (DBitmap (aw - 8) (ah - 8) no_access_graphic 8 8 true true true) s else s in
    let s := if (1 <=? x_micon t) && (x_micon t <=? 7)
             then emit (DBitmap (aw - 8) (qint is_title (th + 1) 0)
                                (nth (Z.to_nat (x_micon t - 1)) icons8by8 []) 8 8 true false true) s
             else s in
    s
  else s.

Definition body (t : mtext) (p : tparams) (s : wst) : wst :=
  if x_fmt t =? 10 then body_oneline t p s
  else if x_fmt t =? 11 then body_twolines t p s
  else body_default t p s.

(* text state after NewImage + SetCharSpacingCompensation + SetTextWrap(false) *)
Definition tile_t0 (p : tparams) : tstate := set_wrap (set_spacing init_t (pspacing p)) false.

(* the body never reads Inverted: it is computed from the state with the flag cleared *)
Definition tile_body (t : mtext) (W H shrink border : Z) : list dop :=
  let t0 := set_inverted t false in
  let p := params t0 W H shrink border in
  snd (body t0 p (tile_t0 p, [])).

Definition prologue (inv : bool) (p : tparams) : list op :=
  [OInvert inv; OFillRect 0 0 (pW p) (pH p) false; OSetSpacing (pspacing p); OSetWrap false;
   OSetBBox (pborder p) (pborder p) (paw p) (pah p)].

(* F10 repair: the bounding box clips right/bottom only; clear what was drawn at negative
   relative coordinates into the top/left border *)
Definition epilogue (p : tparams) : list op :=
  if pborder p >? 0 then
    [OSetBBox 0 0 (pW p) (pH p); OFillRect 0 0 (pW p) (pborder p) false; OFillRect 0 0 (pborder p) (pH p) false;
     OSetBBox (pborder p) (pborder p) (paw p) (pah p)]
  else [].

Definition tile_ops (t : mtext) (W H shrink border : Z) : list op :=
  let p := params t W H shrink border in
  prologue (x_inv t) p ++ map op_of (tile_body t W H shrink border) ++ epilogue p.

Definition opt_color (o : option mcolor) (dflt : Z) : res Z :=
  match o with
  | Some c => do c6 <- color6 c; Ok (oled16 c6)
  | None => Ok dflt
  end.

(* the renderer proper, on a state whose sub-messages have been filled in *)
Definition tile_filled (t : mtext) (W H shrink border : Z) : res img :=
  do bg <- opt_color (x_bg t) 0;
  do pc <- opt_color (x_pix t) 65535;
  Ok (run_ops (with_colors (new_image W H) bg pc) (tile_ops t W H shrink border)).

(* WriteDisplayTileNew(t, W, H, shrink, border) for W, H >= 0: first fills the absent
   sub-messages of its argument (lines 308-319; the caller's object is [fill_text t]
   afterwards), then renders *)
Definition tile (t : mtext) (W H shrink border : Z) : res img :=
  tile_filled (fill_text t) W H shrink border.

(* GetImgSliceRGB, monogfx.go:150-175 *)
Definition rgb_slice (i : img) : list Z :=
  let g := ig i in
  flat_map (fun r =>
    flat_map (fun c =>
      let byte := znth 0 (idata i) (Z.of_nat r * gwib g + Z.of_nat c / 8) in
      let lit := Z.land byte (Z.shiftl 1 (7 - Z.of_nat c mod 8)) >? 0 in
      let col := if lit then ipixc i else ibckg i in
      [Z.shiftr col 8; Z.land col 255])
    (seq 0 (Z.to_nat (gW g)))) (seq 0 (Z.to_nat (gH g))).
