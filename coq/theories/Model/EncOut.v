(* Model of OutboundMessagesToRawPanelASCIIstrings (converterFunctions.go:1500-1787).  No proofs.

   * [flat], [flat_svg] stand for stripLineBreaks / stripLineBreaksSvg; the encoder only applies
     them to seven payload strings, so they are Section variables here; [enc_out_go] below
     instantiates them with the models strip_lb / strip_lb_svg of Model/Flatten.v (C07).
   * The last step is singleLines(returnStrings): every LF of every returned string becomes a
     space ([one_lines] of Model/Flatten.v).
   * networkStringFromConfig (json.Marshal) is the identity on the carried JSON text (oracle, MsgOut.v).
   * `for k, v := range HWCavailability` iterates in an unspecified order: [enc_msg] takes the
     iteration order [ord] (a permutation of [om_map m]) as an explicit argument.
   * Panic sites: a nil message (1505), a nil element of Events (1718) or Registers (1738). *)
From RP Require Import Lib.Base Lib.Sexp Lib.Strings Lib.FloatFmt Model.MsgOut Model.Flatten.
From Coq Require Import String.
Open Scope Z_scope.

Definition kv (k : string) (v : bytes) : bytes := str k ++ v.

Definition enc_flow (w : Z) : list bytes :=
  if w =? 2 then [str "ack"] else if w =? 3 then [str "nack"] else if w =? 1 then [str "ping"]
  else if w =? 4 then [str "BSY"] else if w =? 5 then [str "RDY"] else if w =? 100 then [str "list"] else [].

Definition opt_line (k : string) (v : bytes) : list bytes :=
  match v with [] => [] | _ => [kv k v] end.

Definition enc_panel_type (t : Z) : list bytes :=
  if t =? 1 then [str "_panelType=BPI"] else if t =? 2 then [str "_panelType=Physical"]
  else if t =? 3 then [str "_panelType=Emulation"] else if t =? 4 then [str "_panelType=Touch"]
  else if t =? 5 then [str "_panelType=Composite"] else [].

Definition enc_support (c : list bool) : bytes :=
  kv "_support=" (join [44] (map fst (filter snd (combine cap_names c)))).

Definition enc_pinfo (p : panel_info) : list bytes :=
  opt_line "_model=" (pi_model p) ++ opt_line "_serial=" (pi_serial p) ++ opt_line "_version=" (pi_version p) ++
  opt_line "_name=" (pi_name p) ++ opt_line "_platform=" (pi_platform p) ++
  (if pi_bpr p then [str "_bluePillReady=1"] else []) ++
  (if pi_maxclients p >? 0 then [kv "_serverModeMaxClients=" (itoa (pi_maxclients p))] else []) ++
  (match pi_locked p with [] => [] | l => [kv "_serverModeLockToIP=" (join [59] l)] end) ++
  enc_panel_type (pi_type p) ++
  (match pi_support p with Some c => [enc_support c] | None => [] end).

Definition enc_health (r : Z) : list bytes :=
  if r =? 0 then [str "EnvironmentalHealth=Normal"] else if r =? 1 then [str "EnvironmentalHealth=Safemode"]
  else if r =? 2 then [str "EnvironmentalHealth=Blocked"] else [].

Definition b01 (b : bool) : bytes := if b then [49] else [48].

(* the 20 printed values of a SysStat line, in order *)
Definition ss_values (s : sys_stat) : list bytes :=
  [itoa (ss_cpu s); fmt_f32 1 (ss_temp s); fmt_f32 1 (ss_ext s); fmt_f32 2 (ss_volt s)] ++
  map (fun i => itoa (nth i (ss_ints s) 0)) (seq 0 8) ++
  map (fun i => b01 (nth i (ss_flags s) false)) (seq 0 8).

Definition enc_sys (s : sys_stat) : bytes :=
  kv "SysStat=" (List.concat (map (fun nv => fst nv ++ [58] ++ snd nv ++ [58]) (combine ss_names (ss_values s)))).

Definition ev_head (id : Z) : bytes := kv "HWC#" (itoa id).

Definition enc_event (e : hwc_event) : list bytes :=
  (match ev_bin e with
   | Some b => [ev_head (ev_id e) ++ (if be_edge b >? 0 then 46 :: itoa (be_edge b) else []) ++
                (if be_pressed b then str "=Down" else str "=Up")]
   | None => [] end) ++
  (match ev_pulsed e with Some v => [ev_head (ev_id e) ++ kv "=Enc:" (itoa v)] | None => [] end) ++
  (match ev_abs e with Some (v, _) => [ev_head (ev_id e) ++ kv "=Abs:" (itoa v)] | None => [] end) ++
  (match ev_speed e with Some (v, _) => [ev_head (ev_id e) ++ kv "=Speed:" (itoa v)] | None => [] end) ++
  (match ev_raw e with Some v => [ev_head (ev_id e) ++ kv "=Raw:" (itoa v)] | None => [] end).

Fixpoint enc_events (l : list (option hwc_event)) : res (list bytes) :=
  match l with
  | [] => Ok []
  | None :: _ => Panic 1718
  | Some e :: r => do rs <- enc_events r; Ok (enc_event e ++ rs)
  end.

Definition reg_line (k : string) (r : register) : list bytes := [kv k (rg_id r) ++ 61 :: itoa (rg_val r)].
Definition enc_reg (r : register) : list bytes :=
  if rg_kind r =? 0 then reg_line "Mem" r else if rg_kind r =? 1 then reg_line "Flag#" r
  else if rg_kind r =? 2 then reg_line "Shift" r else if rg_kind r =? 3 then reg_line "State" r else [].

Fixpoint enc_regs (l : list (option register)) : res (list bytes) :=
  match l with
  | [] => Ok []
  | None :: _ => Panic 1738
  | Some x :: r => do rs <- enc_regs r; Ok (enc_reg x ++ rs)
  end.

Definition enc_map_entry (e : Z * Z) : bytes := kv "map=" (itoa (fst e)) ++ 58 :: itoa (snd e).

Definition of_opt {A} (o : option A) (f : A -> list bytes) : list bytes :=
  match o with Some a => f a | None => [] end.

Section Enc.
Variables flat flat_svg : bytes -> bytes.

(* everything before the map block *)
Definition enc_pre (m : out_msg) : list bytes :=
  enc_flow (om_flow m) ++
  of_opt (om_pinfo m) enc_pinfo ++
  of_opt (om_topo m) (fun t => [kv "_panelTopology_svgbase=" (flat_svg (fst t)); kv "_panelTopology_HWC=" (flat (snd t))]) ++
  of_opt (om_burnin m) (fun j => [kv "_burninProfile=" (flat j)]) ++
  of_opt (om_netcfg m) (fun j => [kv "_networkConfig=" j]) ++
  of_opt (om_calib m) (fun j => [kv "_calibrationProfile=" (flat j)]) ++
  of_opt (om_defcalib m) (fun j => [kv "_defaultCalibrationProfile=" (flat j)]) ++
  of_opt (om_sleept m) (fun v => [kv "_sleepTimer=" (itoa v)]) ++
  of_opt (om_sleeps m) (fun v => [kv "_isSleeping=" (b01 v)]) ++
  of_opt (om_hb m) (fun v => [kv "_heartBeatTimer=" (itoa v)]) ++
  of_opt (om_dim m) (fun v => [kv "DimmedGain=" (itoa v)]) ++
  of_opt (om_conn m) (fun l => [kv "_connections=" (join [59] l)]) ++
  of_opt (om_rts m) (fun r => match r with (a, b, c, d) =>
     (if a >? 0 then [kv "_bootsCount=" (itoa a)] else []) ++
     (if b >? 0 then [kv "_totalUptimeMin=" (itoa b)] else []) ++
     (if c >? 0 then [kv "_sessionUptimeMin=" (itoa c)] else []) ++
     (if d >? 0 then [kv "_screenSaverOnMin=" (itoa d)] else []) end) ++
  of_opt (om_err m) (fun s => [kv "ErrorMsg=" (flat s)]) ++
  of_opt (om_msg m) (fun s => [kv "Msg=" (flat s)]).

(* between the map block and the events *)
Definition enc_mid (m : out_msg) : list bytes :=
  of_opt (om_health m) enc_health ++ of_opt (om_sys m) (fun s => [enc_sys s]).

Definition enc_msg (ord : list (Z * Z)) (m : out_msg) : res (list bytes) :=
  do evs <- enc_events (om_events m);
  do regs <- enc_regs (om_regs m);
  Ok (enc_pre m ++ map enc_map_entry ord ++ enc_mid m ++ evs ++ regs).

(* ords: the map iteration order of each message, in message order (missing = the stored order) *)
Fixpoint enc_out_raw (ords : list (list (Z * Z))) (ms : list (option out_msg)) : res (list bytes) :=
  match ms with
  | [] => Ok []
  | None :: _ => Panic 1505
  | Some m :: r =>
    let ord := match ords with o :: _ => o | [] => om_map m end in
    do ls <- enc_msg ord m;
    do rs <- enc_out_raw (tl ords) r;
    Ok (ls ++ rs)
  end.

(* singleLines(returnStrings) just before returning *)
Definition enc_out (ords : list (list (Z * Z))) (ms : list (option out_msg)) : res (list bytes) :=
  do ls <- enc_out_raw ords ms; Ok (one_lines ls).
End Enc.

(* the encoder with the library's own flattening helpers *)
Definition enc_out_go := enc_out strip_lb strip_lb_svg.
