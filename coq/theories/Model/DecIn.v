(* Executable model of RawPanelASCIIstringsToInboundMessages (converterFunctions.go:19-651)
   with convertToColorStruct and the ibeam-lib-utils helpers it uses (IntExplode,
   IndexValueToInt/String, Intval, MapAndConstrainValue).  The graphics branch (lines
   340-402) is Model/Gfx.v's [gfx_match] / [gfx_step].  The three encoding/json calls are
   Section variables (oracles).  No proofs here.

   Regular expressions (Go RE2: `.` excludes LF, `$` = end of text, leftmost-first
   alternation; in every pattern no keyword alternative is a prefix of another one and every
   repetition is followed by a literal outside its class, so matching is deterministic) are
   hand-written matchers returning FindStringSubmatch's slice.  Indexing that slice is the
   only place where the Go code could panic (index out of range):
     sites 601.. = regex_cmd, 611.. = genericSingle, 621.. = genericDual,
           631.. = genericSingleStr, 641.. = registers  (+ sub-match number).
   A nil element of a JSON message array ("[null]") was appended to the result before the
   repair of finding F4; the repaired code skips it. *)
From RP Require Import Lib.Base Lib.Sexp Lib.Strings Model.Gfx Model.MsgIn.
From Coq Require Import String.
Open Scope string_scope.
Open Scope list_scope.
Open Scope Z_scope.

(* ---------------------------------------------------------------- matchers *)
Fixpoint match_kw (kws : list string) (s : list Z) : option (list Z * list Z) :=
  match kws with
  | [] => None
  | k :: r => match drop_prefix (str k) s with Some rest => Some (str k, rest) | None => match_kw r s end
  end.

Definition no_lf (s : list Z) : bool := negb (contains_byte 10 s).
Definition is_regid (c : Z) : bool := is_upper c || is_digit c.

(* ^(HWC#|HWCx#|HWCc#|HWCt#|HWCrawADCValues#)([0-9,]+)=(.ANY)$   [ANY = star] *)
Definition m_cmd (s : list Z) : option (list (list Z)) :=
  let? (kw, r0) := match_kw ["HWC#"; "HWCx#"; "HWCc#"; "HWCt#"; "HWCrawADCValues#"] s in
  let '(ids, r1) := span is_listch r0 in
  match ids with
  | [] => None
  | _ => let? rest := expect 61 r1 in if no_lf rest then Some [s; kw; ids; rest] else None
  end.

(* ^(HeartBeatTimer|...|PanelBrightness)=([0-9]+)$ *)
Definition m_single (s : list Z) : option (list (list Z)) :=
  let? (kw, r0) := match_kw ["HeartBeatTimer"; "DimmedGain"; "PublishSystemStat"; "LoadCPU"; "SleepTimer";
                             "SleepMode"; "SleepScreenSaver"; "Webserver"; "JSONonOutbound"; "PanelBrightness"] s in
  let? r1 := expect 61 r0 in
  let? (d, r2) := take_digits1 r1 in
  match r2 with [] => Some [s; kw; d] | _ => None end.

(* ^(PanelBrightness)=([0-9]+),([0-9]+)$ *)
Definition m_dual (s : list Z) : option (list (list Z)) :=
  let? (kw, r0) := match_kw ["PanelBrightness"] s in
  let? r1 := expect 61 r0 in
  let? (a, r2) := take_digits1 r1 in
  let? r3 := expect 44 r2 in
  let? (b, r4) := take_digits1 r3 in
  match r4 with [] => Some [s; kw; a; b] | _ => None end.

(* ^(SetCalibrationProfile|SimulateEnvironmentalHealth|SetNetworkConfig)=(.ANY)$   [ANY = star] *)
Definition m_str (s : list Z) : option (list (list Z)) :=
  let? (kw, r0) := match_kw ["SetCalibrationProfile"; "SimulateEnvironmentalHealth"; "SetNetworkConfig"] s in
  let? rest := expect 61 r0 in
  if no_lf rest then Some [s; kw; rest] else None.

(* ^(Flag#|Mem|Shift|State)([A-Z0-9]STAR)=([0-9]+)$ *)
Definition m_reg (s : list Z) : option (list (list Z)) :=
  let? (kw, r0) := match_kw ["Flag#"; "Mem"; "Shift"; "State"] s in
  let '(id, r1) := span is_regid r0 in
  let? r2 := expect 61 r1 in
  let? (d, r3) := take_digits1 r2 in
  match r3 with [] => Some [s; kw; id; d] | _ => None end.

(* submatches[k] *)
Definition grp (gs : list (list Z)) (k : nat) (site : Z) : res (list Z) :=
  match nth_error gs k with Some x => Ok x | None => Panic (site + Z.of_nat k) end.

(* ---------------------------------------------------------------- field helpers *)
Definition seq_eqb (a : list Z) (s : string) : bool := bytes_eqb a (str s).

(* su.IndexValueToInt / IndexValueToString *)
Definition ivi (fs : list (list Z)) (k : nat) : Z :=
  match nth_error fs k with Some f => atoi f | None => 0 end.
Definition ivs (fs : list (list Z)) (k : nat) : list Z :=
  match nth_error fs k with Some f => f | None => [] end.

(* uint32(su.MapAndConstrainValue(x, 0, 0x3, 0, 0xFF)) *)
Definition unquant2 (x : Z) : Z := wrap32 (constrain (map_value x 0 3 0 255) 0 255).

Definition rgb_of_bits (v : Z) : ColorRGB :=
  mkRGB (unquant2 (Z.land (Z.shiftr v 4) 3)) (unquant2 (Z.land (Z.shiftr v 2) 3)) (unquant2 (Z.land v 3)).

(* convertToColorStruct; also the HWCc# branch (lines 209-237), same shape *)
Definition color_struct (v : Z) : Color :=
  if Z.land v 64 >? 0 then mkColor (Some (rgb_of_bits v)) None
  else mkColor None (Some (Z.land v 31)).

Definition dec_mode (v : Z) : HWCMode :=
  mkMode (Z.land v 15) (Z.land v 32 =? 32) (Z.land (Z.shiftr v 8) 15).
Definition dec_ext (v : Z) : HWCExtended :=
  mkExt (Z.land (Z.shiftr v 12) 15) (Z.land v 4095).

(* lines 239-317 *)
Definition dec_text (fs : list (list Z)) : HWCText :=
  let n k := ivi fs k in
  let pair0 := sint32 (n 8%nat) in
  let pair := if negb (nilb (ivs fs 7)) || negb (nilb (ivs fs 6))
              then sint32 (if pair0 >? 0 then pair0 else 1) else pair0 in
  let fmt0 := sint32 (n 1%nat) in
  let ufs := wrap32 (if (n 1%nat =? 10) || (n 1%nat =? 11) then n 0%nat else 0) in
  let style :=
    mkStyle (Some (mkFont (Z.land (Z.shiftr (n 15%nat) 3) 7) (Z.land (Z.shiftr (n 16%nat) 6) 3)
                          (Z.land (Z.shiftr (n 16%nat) 4) 3)))
            (Some (mkFont (Z.land (n 15%nat) 7) (Z.land (Z.shiftr (n 16%nat) 2) 3) (Z.land (n 16%nat) 3)))
            (Z.land (Z.shiftr (n 15%nat) 6) 1 >? 0)
            (Z.land (n 17%nat) 3) (Z.land (Z.shiftr (n 17%nat) 2) 7) ufs in
  let fmt := if nilb (ivs fs 0) && (fmt0 =? 0) then 7 else fmt0 in
  let int0 := sint32 (n 0%nat) in
  let int1 := if ufs >? 0 then 0 else int0 in
  let int2 := if fmt =? 7 then 0 else int1 in
  let is1011 := (fmt =? 10) || (fmt =? 11) in
  let title := ivs fs 3 in
  let solid0 := n 4%nat =? 0 in
  let solid1 := if is1011 then false else solid0 in
  let solid2 := if nilb title then false else solid1 in
  mkText int2 fmt (Z.land (n 2%nat) 3) (Z.land (Z.shiftr (n 2%nat) 3) 7) title solid2
         (ivs fs 5) (ivs fs 6) (sint32 (n 7%nat)) (if is1011 then 0 else pair)
         (Some (mkScale (sint32 (n 9%nat)) (sint32 (n 10%nat)) (sint32 (n 11%nat)) (sint32 (n 12%nat))
                        (sint32 (n 13%nat))))
         (Some style) (n 18%nat >? 0)
         (if n 19%nat >? 0 then Some (color_struct (n 19%nat)) else None)
         (if n 20%nat >? 0 then Some (color_struct (n 20%nat)) else None) false.

Definition state_msg (s : HWCState) : InboundMessage := mkMsg 0 None [Some s] [].
Definition cmd_msg (c : Command) : InboundMessage := mkMsg 0 (Some c) [] [].
Definition reg_msg (k : Z) (id : list Z) (v : Z) : InboundMessage := mkMsg 0 None [] [Some (mkReg k id v)].
Definition st_with_ids (ids : list Z) : HWCState := mkState ids None None None None None None None.

Definition of_gfx (g : gfx) : HWCGfx :=
  mkHGfx (g_type g) (g_w g) (g_h g) (g_xy g) (g_x g) (g_y g) (g_data g) false.

(* the 16 exact-match command words (lines 65-160), in the field order of [Command] *)
Definition flag_words : list string :=
  ["ActivePanel=1"; "list"; "map"; "PanelTopology?"; "BurninProfile?"; "CalibrationProfile?";
   "NetworkConfig?"; "Registers?"; "Connections?"; "RunTimeStats?"; "Clear"; "ClearLEDs";
   "ClearDisplays"; "SleepTimer?"; "WakeUp!"; "Reboot"].
Definition flag_cmd (k : nat) : Command :=
  let b j := Nat.eqb k j in
  mkCmd (b 0%nat) (b 1%nat) (b 2%nat) (b 3%nat) (b 4%nat) (b 5%nat) (b 6%nat) (b 7%nat) (b 8%nat)
        (b 9%nat) (b 10%nat) (b 11%nat) (b 12%nat) (b 13%nat) (b 14%nat) (b 15%nat)
        None None None None None None None None None None None None None.

Fixpoint lookup_flag (l : list string) (k : nat) (s : list Z) : option Command :=
  match l with
  | [] => None
  | w :: r => if seq_eqb s w then Some (flag_cmd k) else lookup_flag r (Datatypes.S k) s
  end.

(* setters on the empty command *)
Definition with_bright (a b : Z) : Command :=
  mkCmd false false false false false false false false false false false false false false false false
        (Some (a, b)) None None None None None None None None None None None None.
Definition with_setcal (j : list Z) : Command :=
  mkCmd false false false false false false false false false false false false false false false false
        None (Some j) None None None None None None None None None None None.
Definition with_setnet (n : option (list Z)) : Command :=
  mkCmd false false false false false false false false false false false false false false false false
        None None n None None None None None None None None None None.
Definition with_simenv (m : Z) : Command :=
  mkCmd false false false false false false false false false false false false false false false false
        None None None (Some m) None None None None None None None None None.
Definition with_sleeptimeout (v : Z) : Command :=
  mkCmd false false false false false false false false false false false false false false false false
        None None None None (Some v) None None None None None None None None.
Definition with_sleepmode (v : Z) : Command :=
  mkCmd false false false false false false false false false false false false false false false false
        None None None None None (Some v) None None None None None None None.
Definition with_screensaver (v : Z) : Command :=
  mkCmd false false false false false false false false false false false false false false false false
        None None None None None None (Some v) None None None None None None.
Definition with_dimmed (v : Z) : Command :=
  mkCmd false false false false false false false false false false false false false false false false
        None None None None None None None (Some v) None None None None None.
Definition with_heartbeat (v : Z) : Command :=
  mkCmd false false false false false false false false false false false false false false false false
        None None None None None None None None (Some v) None None None None.
Definition with_pubstat (v : Z) : Command :=
  mkCmd false false false false false false false false false false false false false false false false
        None None None None None None None None None (Some v) None None None.
Definition with_loadcpu (v : Z) : Command :=
  mkCmd false false false false false false false false false false false false false false false false
        None None None None None None None None None None (Some v) None None.
Definition with_web (v : bool) : Command :=
  mkCmd false false false false false false false false false false false false false false false false
        None None None None None None None None None None None (Some v) None.
Definition with_jsoncfg (v : bool) : Command :=
  mkCmd false false false false false false false false false false false false false false false false
        None None None None None None None None None None None None (Some v).

Section Dec.
  (* json.Unmarshal(line, &HWCState{}); json.Unmarshal(line, &[]*InboundMessage{});
     networkConfigFromString *)
  Variable json_state : list Z -> HWCState.
  Variable json_msgs : list Z -> list (option InboundMessage).
  Variable nc_parse : list Z -> option (list Z).

  (* regex_cmd branch, lines 178-339 *)
  Definition dec_cmd_line (gs : list (list Z)) : res (list InboundMessage) :=
    do idsS <- grp gs 2 600;
    let ids := int_explode idsS in
    do kw <- grp gs 1 600;
    let one st := Ok [state_msg st] in
    if seq_eqb kw "HWC#" then
      do v <- grp gs 3 600;
      one (mkState ids (Some (dec_mode (atoi v))) None None None None None None)
    else if seq_eqb kw "HWCx#" then
      do v <- grp gs 3 600;
      one (mkState ids None None (Some (dec_ext (atoi v))) None None None None)
    else if seq_eqb kw "HWCc#" then
      do v <- grp gs 3 600;
      one (mkState ids None (Some (color_struct (atoi v))) None None None None None)
    else if seq_eqb kw "HWCt#" then
      do v <- grp gs 3 600;
      one (mkState ids None None None (Some (dec_text (split_on 124 v))) None None None)
    else if seq_eqb kw "HWCrawADCValues#" then
      do v <- grp gs 3 600;
      one (mkState ids None None None None None (Some (atoi v =? 1)) None)
    else Ok [].

  (* lines 403-487 *)
  Definition dec_single_line (gs : list (list Z)) : res (list InboundMessage) :=
    do ps <- grp gs 2 610;
    let p := atoi ps in
    do kw <- grp gs 1 610;
    let one c := Ok [cmd_msg c] in
    if seq_eqb kw "HeartBeatTimer" then one (with_heartbeat (wrap32 p))
    else if seq_eqb kw "DimmedGain" then one (with_dimmed (wrap32 p))
    else if seq_eqb kw "PublishSystemStat" then one (with_pubstat (wrap32 p))
    else if seq_eqb kw "LoadCPU" then one (with_loadcpu (sint32 (wrap32 p)))
    else if seq_eqb kw "SleepTimer" then one (with_sleeptimeout (wrap32 p))
    else if seq_eqb kw "SleepMode" then one (with_sleepmode (sint32 p))
    else if seq_eqb kw "SleepScreenSaver" then one (with_screensaver (sint32 p))
    else if seq_eqb kw "Webserver" then one (with_web (p >? 0))
    else if seq_eqb kw "JSONonOutbound" then one (with_jsoncfg (p >? 0))
    else if seq_eqb kw "PanelBrightness" then one (with_bright (wrap32 p) (wrap32 p))
    else Ok [].

  (* lines 488-501 *)
  Definition dec_dual_line (gs : list (list Z)) : res (list InboundMessage) :=
    do a <- grp gs 2 620;
    do b <- grp gs 3 620;
    do kw <- grp gs 1 620;
    if seq_eqb kw "PanelBrightness" then Ok [cmd_msg (with_bright (wrap32 (atoi a)) (wrap32 (atoi b)))]
    else Ok [].

  (* lines 502-545 *)
  Definition dec_str_line (gs : list (list Z)) : res (list InboundMessage) :=
    do kw <- grp gs 1 630;
    if seq_eqb kw "SetCalibrationProfile" then
      do v <- grp gs 2 630; Ok [cmd_msg (with_setcal v)]
    else if seq_eqb kw "SetNetworkConfig" then
      do v <- grp gs 2 630; Ok [cmd_msg (with_setnet (nc_parse v))]
    else if seq_eqb kw "SimulateEnvironmentalHealth" then
      do v <- grp gs 2 630;
      if seq_eqb v "Normal" then Ok [cmd_msg (with_simenv 0)]
      else if seq_eqb v "Safemode" then Ok [cmd_msg (with_simenv 1)]
      else if seq_eqb v "Blocked" then Ok [cmd_msg (with_simenv 2)]
      else Ok []
    else Ok [].

  (* lines 546-589 *)
  Definition dec_reg_line (gs : list (list Z)) : res (list InboundMessage) :=
    do kw <- grp gs 1 640;
    if seq_eqb kw "Mem" then
      do id <- grp gs 2 640; do v <- grp gs 3 640; Ok [reg_msg 0 id (wrap32 (atoi v))]
    else if seq_eqb kw "Flag#" then
      do id <- grp gs 2 640; do v <- grp gs 3 640;
      Ok [reg_msg 1 (itoa (atoi id)) (if atoi v >? 0 then 1 else 0)]
    else if seq_eqb kw "Shift" then
      do id <- grp gs 2 640; do v <- grp gs 3 640; Ok [reg_msg 2 id (wrap32 (atoi v))]
    else if seq_eqb kw "State" then
      do id <- grp gs 2 640; do v <- grp gs 3 640; Ok [reg_msg 3 id (wrap32 (atoi v))]
    else Ok [].

  (* one input string: new graphics locals and the messages appended to returnMsgs *)
  Definition dec_line (st : gstate) (l : list Z) : res (gstate * list InboundMessage) :=
    match l with
    | [] => Ok (st, [])
    | c0 :: _ =>
      if seq_eqb l "ping" then Ok (st, [mkMsg 1 None [] []])
      else if seq_eqb l "ack" then Ok (st, [mkMsg 2 None [] []])
      else if seq_eqb l "nack" then Ok (st, [mkMsg 3 None [] []])
      else match lookup_flag flag_words 0 l with
      | Some c => Ok (st, [cmd_msg c])
      | None =>
        if c0 =? 123 then Ok (st, [state_msg (json_state l)])
        else if c0 =? 91 then Ok (st, filter_some (json_msgs l))
        else match m_cmd l with
        | Some gs => do ms <- dec_cmd_line gs; Ok (st, ms)
        | None =>
          match gfx_match l with
          | Some sm =>
            let '(st', d) := gfx_step st sm in
            Ok (st', match d with
                     | Some (ids, g) =>
                       [state_msg (mkState ids None None None None (Some (of_gfx g)) None None)]
                     | None => []
                     end)
          | None =>
            match m_single l with
            | Some gs => do ms <- dec_single_line gs; Ok (st, ms)
            | None =>
              match m_dual l with
              | Some gs => do ms <- dec_dual_line gs; Ok (st, ms)
              | None =>
                match m_str l with
                | Some gs => do ms <- dec_str_line gs; Ok (st, ms)
                | None =>
                  match m_reg l with
                  | Some gs => do ms <- dec_reg_line gs; Ok (st, ms)
                  | None => Ok (st, [empty_msg])
                  end
                end
              end
            end
          end
        end
      end
    end.

  Fixpoint dec_in_from (st : gstate) (ls : list (list Z)) : res (list InboundMessage) :=
    match ls with
    | [] => Ok []
    | l :: r =>
      do x <- dec_line st l;
      do rest <- dec_in_from (fst x) r;
      Ok (snd x ++ rest)
    end.

  Definition dec_in (ls : list (list Z)) : res (list InboundMessage) := dec_in_from gstate0 ls.
End Dec.
