(* Model of the flattening helpers of converterFunctions.go (REPAIRED source, findings F7, F8):
     stripLineBreaks(in)      = strip_lb      Split on LF, TrimSpace every part, Join with ""
     stripLineBreaksSvg(svg)  = strip_lb_svg  same, but a part that does not end in '>' gets one
                                              space APPENDED (multi-line path data stays separated)
     singleLine(s)            = one_line      the final pass both encoders apply to every string
                                              they return: LF -> space
   INTERFACE for Model/EncIn.v and Model/EncOut.v: the last step of both encoders is
   [map one_line returnStrings]  (one_lines).  No proofs here. *)
From RP Require Import Lib.Base Lib.Strings Lib.TrimSpace.

Definition strip_lb (s : list Z) : list Z := concat (map trim_space (split_on 10 s)).

Definition svg_part (p : list Z) : list Z :=
  let t := trim_space p in if has_suffix [62] t then t else t ++ [32].

Definition strip_lb_svg (s : list Z) : list Z := concat (map svg_part (split_on 10 s)).

(* strings.ReplaceAll(s, "\n", " ") *)
Definition one_line (s : list Z) : list Z := map (fun c => if c =? 10 then 32 else c) s.
Definition one_lines (ls : list (list Z)) : list (list Z) := map one_line ls.
