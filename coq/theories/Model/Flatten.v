(* Model of the flattening helpers of converterFunctions.go (REPAIRED source, findings F7, F8):
     stripLineBreaks(in)      = strip_lb      Split on LF, TrimSpace every part, Join with ""
     stripLineBreaksSvg(svg)  = strip_lb_svg  same, but a part that does not end in '>' gets one
                                              space APPENDED (multi-line path data stays separated)
     singleLine(s)            = one_line      the final pass both encoders apply to every string
                                              they return: LF -> space
   INTERFACE for Model/EncIn.v and Model/EncOut.v: the last step of both encoders is
   [map one_line returnStrings]  (one_lines).  No proofs here. *)
From RP Require Import Lib.Base Lib.Strings Lib.TrimSpace.

Definition strip_lb (s : list Z) : list Z := concat (map trim_space (split_on 10 s)).

Definition svg_part (p : list Z) : list Z :=
  let t := trim_space p in if has_suffix [62] t then t else t ++ [32].

Definition strip_lb_svg (s : list Z) : list Z := concat (map svg_part (split_on 10 s)).

(* strings.ReplaceAll(s, "\n", " ") *)
Definition one_line (s : list Z) : list Z := map (fun c => if c =? 10 then 32 else c) s.
Definition one_lines (ls : list (list Z)) : list (list Z) := map one_line ls.

(* ---- execution twins: the same functions with List.rev (quadratic) replaced by rev_append, so
   that payloads with a single line of 200 000 bytes run in the driver.  Equal to the
   definitions above (Proofs/FlattenProofs.v, *_fast_eq lemmas); used by Run/C07.v only. ---- *)
Definition lrev {A} (l : list A) : list A := rev_append l [].

Fixpoint split_on_aux_fast (sep : Z) (s : list Z) (cur : list Z) : list (list Z) :=
  match s with
  | [] => [lrev cur]
  | c :: r => if c =? sep then lrev cur :: split_on_aux_fast sep r [] else split_on_aux_fast sep r (c :: cur)
  end.
Definition split_on_fast (sep : Z) (s : list Z) : list (list Z) := split_on_aux_fast sep s [].

Definition trim_space_fast (s : list Z) : list Z :=
  let t := trim_left s in lrev (trim_right_rev_fuel (length t) (lrev t)).

Definition svg_part_fast (p : list Z) : list Z :=
  let t := trim_space_fast p in
  if match lrev t with c :: _ => c =? 62 | [] => false end then t else t ++ [32].

Definition strip_lb_fast (s : list Z) : list Z := concat (map trim_space_fast (split_on_fast 10 s)).
Definition strip_lb_svg_fast (s : list Z) : list Z := concat (map svg_part_fast (split_on_fast 10 s)).
