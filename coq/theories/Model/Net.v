(* Environment model shared by C08-C12 (DESIGN section 5 "Common environment model").
   TRUSTED: this file says how the outside world behaves - an ordered reliable byte stream
   with arrival times, io.ReadFull / bufio.ReadString / a single conn.Read under an absolute
   read deadline, a peer close (FIN), a peer reset (RST), and a local close of the socket by
   another goroutine.  The library's own logic is in Model/Client.v.  No proofs here.

   Time is Z milliseconds.  A script is what the peer does after accepting the connection:
   segments written at given times, then possibly a close or a reset.  Segment boundaries
   matter only to the single conn.Read of the probe phase; ReadFull and ReadString see the
   stream as timed bytes. *)
From RP Require Import Lib.Base.

Inductive ev : Type :=
| Seg (t : Z) (bs : bytes)
| Close (t : Z)
| Reset (t : Z).
Definition script := list ev.

(* a byte together with its arrival time *)
Definition tbyte := (Z * Z)%type.

(* ---- timed bytes of a script: reference definition ... *)
Fixpoint tbytes (s : script) : list tbyte :=
  match s with
  | Seg t bs :: r => map (pair t) bs ++ tbytes r
  | _ => []
  end.
Definition bytes_of (s : script) : bytes := map snd (tbytes s).

(* ... and the tail-recursive version the extracted model runs (500 kB payloads); equal to
   [tbytes] by Proofs/NetProofs.tbytes_tr_eq *)
Fixpoint stamp_rev (t : Z) (bs : bytes) (acc : list tbyte) : list tbyte :=
  match bs with
  | [] => acc
  | b :: r => stamp_rev t r ((t, b) :: acc)
  end.
Fixpoint tbytes_rev (s : script) (acc : list tbyte) : list tbyte :=
  match s with
  | Seg t bs :: r => tbytes_rev r (stamp_rev t bs acc)
  | _ => acc
  end.
Definition tbytes_tr (s : script) : list tbyte := rev_append (tbytes_rev s []) [].

(* how the stream ends: time and whether it is a reset *)
Fixpoint close_of (s : script) : option (Z * bool) :=
  match s with
  | [] => None
  | Seg _ _ :: r => close_of r
  | Close t :: _ => Some (t, false)
  | Reset t :: _ => Some (t, true)
  end.

(* times never go backwards, starting from [t0] *)
Fixpoint script_sorted (t0 : Z) (s : script) : bool :=
  match s with
  | [] => true
  | Seg t _ :: r => (t0 <=? t) && script_sorted t r
  | Close t :: _ => t0 <=? t
  | Reset t :: _ => t0 <=? t
  end.
Fixpoint tb_sorted (t0 : Z) (l : list tbyte) : bool :=
  match l with
  | [] => true
  | (t, _) :: r => (t0 <=? t) && tb_sorted t r
  end.

(* ---- a connection as seen by the reading goroutine *)
Record conn : Type := mkConn {
  now : Z;                      (* current time of the reader *)
  pend : list tbyte;            (* bytes not yet consumed, with their arrival times *)
  cl : option (Z * bool);       (* peer close: time, reset? (after all bytes) *)
  lcl : option Z                (* the socket is closed locally (writer goroutine on cancel) at this time *)
}.

Inductive rerr : Type := ETimeout | EEof | EReset | EClosed.
Inductive rres : Type := RData (bs : bytes) | RErr (e : rerr) | RBlocked.

Definition set_now (c : conn) (t : Z) : conn := mkConn t (pend c) (cl c) (lcl c).

(* what cuts a blocked read short: the earlier of the local close and the armed absolute
   deadline (a deadline already in the past fires at once) *)
Definition interrupt (c : conn) (dl : option Z) : option (Z * rerr) :=
  match lcl c, dl with
  | Some l, Some d => if l <=? d then Some (Z.max (now c) l, EClosed) else Some (Z.max (now c) d, ETimeout)
  | Some l, None => Some (Z.max (now c) l, EClosed)
  | None, Some d => Some (Z.max (now c) d, ETimeout)
  | None, None => None
  end.

(* take exactly k >= 1 bytes; returns them, the latest arrival time among them (not below
   [tm]) and the rest; None when fewer than k are left.  Tail recursive. *)
Fixpoint take_tr (k : Z) (l : list tbyte) (acc : bytes) (tm : Z) : option (bytes * Z * list tbyte) :=
  match l with
  | [] => None
  | (t, b) :: r =>
    if k <=? 1 then Some (rev_append (b :: acc) [], Z.max tm t, r)
    else take_tr (k - 1) r (b :: acc) (Z.max tm t)
  end.

(* the natural end of a read that cannot be satisfied by data: the peer's close *)
Definition finish_nodata (c : conn) (dl : option Z) : rres * conn :=
  match cl c with
  | Some (ct, rst) =>
    let tc := Z.max (now c) ct in
    match interrupt c dl with
    | Some (ti, e) => if ti <=? tc then (RErr e, set_now c ti) else (RErr (if rst then EReset else EEof), set_now c tc)
    | None => (RErr (if rst then EReset else EEof), set_now c tc)
    end
  | None =>
    match interrupt c dl with
    | Some (ti, e) => (RErr e, set_now c ti)
    | None => (RBlocked, c)
    end
  end.

Definition finish_data (c : conn) (dl : option Z) (bs : bytes) (tn : Z) (rest : list tbyte) : rres * conn :=
  match interrupt c dl with
  | Some (ti, e) => if ti <=? tn then (RErr e, set_now c ti) else (RData bs, mkConn tn rest (cl c) (lcl c))
  | None => (RData bs, mkConn tn rest (cl c) (lcl c))
  end.

(* io.ReadFull(conn, buf) with len(buf) = n under deadline [dl]: returns when n bytes have
   arrived, or the deadline passes, or the peer closed, or the socket is closed locally.
   n = 0 returns at once without touching the socket. *)
Definition read_full (n : Z) (dl : option Z) (c : conn) : rres * conn :=
  if n <=? 0 then (RData [], c)
  else match take_tr n (pend c) [] (now c) with
       | Some (bs, tn, rest) => finish_data c dl bs tn rest
       | None => finish_nodata c dl
       end.

(* bufio.Reader.ReadString('\n') (no deadline is ever armed in ASCII mode): the bytes up to
   and including the first LF.  On EOF the partial data is returned with the error and is
   dropped by the caller. *)
Fixpoint line_tr (l : list tbyte) (acc : bytes) (tm : Z) : option (bytes * Z * list tbyte) :=
  match l with
  | [] => None
  | (t, b) :: r =>
    if b =? 10 then Some (rev_append (b :: acc) [], Z.max tm t, r)
    else line_tr r (b :: acc) (Z.max tm t)
  end.
Definition read_line (c : conn) : rres * conn :=
  match line_tr (pend c) [] (now c) with
  | Some (bs, tn, rest) => finish_data c None bs tn rest
  | None => finish_nodata c None
  end.

(* ---- probe phase: ONE conn.Read into a 1000-byte buffer under a 2000 ms deadline, issued
   at time 0 of the connection.  It returns what the first arriving segment holds. *)
Inductive pres : Type := PData (bs : bytes) | PErr.

Fixpoint probe_read (s : script) : pres * conn :=
  match s with
  | [] => (PErr, mkConn 2000 [] None None)
  | Seg t bs :: r =>
    match bs with
    | [] => probe_read r
    | _ :: _ =>
      if t <? 2000 then (PData (firstn 1000 bs), mkConn t (stamp_rev t (rev_append (skipn 1000 bs) []) (tbytes_tr r)) (close_of r) None)
      else (PErr, mkConn 2000 (tbytes_tr s) (close_of s) None)
    end
  | Close t :: _ => if t <? 2000 then (PErr, mkConn t [] (Some (t, false)) None) else (PErr, mkConn 2000 [] (Some (t, false)) None)
  | Reset t :: _ => if t <? 2000 then (PErr, mkConn t [] (Some (t, true)) None) else (PErr, mkConn 2000 [] (Some (t, true)) None)
  end.
