(* Executable model of GenerateCompositeSVGdoc (topology/svgicon.go:57-214): the list of
   nodes the generator APPENDS TO THE ROOT of the parsed base document, in order, as a
   function of the (already JSON-decoded) topology, the availability map and the four render
   switches.  XML parsing of the base and serialisation are go-xmldom's (oracle, tied only).
   float32 behaviour (compare with 0, "%03f", += 90) is an explicit environment argument
   [fenv]; Run/C15.v instantiates it with Lib/FloatFmt.  No proofs. *)
From RP Require Import Lib.Base Lib.Sexp Lib.Strings Model.Topo.
From Coq Require Import String.
Local Open Scope string_scope.
Open Scope Z_scope.

Record node : Type := Node { nName : list Z; nAttrs : list (list Z * list Z); nText : list Z }.

Record fenv : Type := FEnv {
  f_nonzero : Z -> bool;        (* rotate != 0 *)
  f_fmt : Z -> list Z;          (* fmt.Sprintf("%03f", rotate) *)
  f_add90 : Z -> Z }.           (* rotate += 90 in float32 *)

Record opts : Type := Opts { oLabels : bool; oHWCID : bool; oType : bool; oDispSize : bool }.

Definition a (k v : string) : list Z * list Z := (str k, str v).
Definition ai (k : string) (v : Z) : list Z * list Z := (str k, itoa v).
Definition isin (s : string) (l : list (list Z)) : bool := existsb (fun e => bytes_eqb e (str s)) l.

(* fmt.Sprintf("rotate(%03f %d %d)", rot, x, y) *)
Definition rot_value (fe : fenv) (rot x y : Z) : list Z :=
  (str "rotate(" ++ f_fmt fe rot ++ [32] ++ itoa x ++ [32] ++ itoa y ++ str ")")%list.
Definition rot_attr (fe : fenv) (rot x y : Z) : list (list Z * list Z) :=
  if f_nonzero fe rot then [(str "transform", rot_value fe rot x y)] else [].

(* su.Qint(typeDef.H > 0, typeDef.H, typeDef.W) *)
Definition extent (d : typedef) : Z := if tH d >? 0 then tH d else tW d.

(* lines 68-84; SetAttributeValue("rx") is called twice: one attribute *)
Definition main_node (fe : fenv) (h : hwc) (d : typedef) : node :=
  if tH d >? 0 then
    Node (str "rect")
         ([ai "x" (hX h - gdiv (tW d) 2); ai "y" (hY h - gdiv (tH d) 2); ai "width" (tW d); ai "height" (tH d);
           ai "rx" 10]
          ++ rot_attr fe (tRotate d) (hX h) (hY h)
          ++ [a "fill" "#dddddd"; a "stroke" "#000"; a "stroke-width" "2"; (str "id", (str "HWc" ++ itoa (hId h))%list)])%list
         []
  else
    Node (str "circle")
         ([ai "cx" (hX h); ai "cy" (hY h); ai "r" (gdiv (tW d) 2)]
          ++ rot_attr fe (tRotate d) (hX h) (hY h)
          ++ [a "fill" "#dddddd"; a "stroke" "#000"; a "stroke-width" "2"; (str "id", (str "HWc" ++ itoa (hId h))%list)])%list
         [].

(* addSubElFormatting (227-243) *)
Definition sub_fmt (s : subel) : list (list Z * list Z) :=
  ((if sRx s =? 0 then [] else [ai "rx" (sRx s)])
   ++ (if sRy s =? 0 then [] else [ai "ry" (sRy s)])
   ++ (match sStyle s with [] => [] | _ => [(str "style", sStyle s)] end)
   ++ [a "fill" "#cccccc"; a "stroke" "#666"; a "stroke-width" "1"])%list.

(* lines 88-113: "r" -> rect, "c" -> circle, anything else ("d" display placeholder) nothing *)
Definition sub_nodes (fe : fenv) (h : hwc) (d : typedef) (s : subel) : list node :=
  if bytes_eqb (sObj s) (str "r") then
    [Node (str "rect")
          ([ai "x" (hX h + sX s); ai "y" (hY h + sY s); ai "width" (sW s); ai "height" (sH s); a "pointer-events" "none"]
           ++ rot_attr fe (tRotate d) (hX h) (hY h) ++ sub_fmt s)%list []]
  else if bytes_eqb (sObj s) (str "c") then
    [Node (str "circle")
          ([ai "cx" (hX h + sX s); ai "cy" (hY h + sY s); ai "r" (sR s); a "pointer-events" "none"]
           ++ rot_attr fe (tRotate d) (hX h) (hY h) ++ sub_fmt s)%list []]
  else [].

(* lines 117-146 *)
Definition label_lines (txt : list Z) : list (list Z) :=
  let sp := split_on 124 txt in
  match sp with
  | l0 :: l1 :: _ => match l1 with [] => [l0] | _ => [l0; l1] end
  | _ => [hd [] sp]
  end.

Definition label_nodes (fe : fenv) (o : opts) (ropts : list (list Z)) (h : hwc) (d : typedef) : list node :=
  if oLabels o || isin "txt" ropts then
    let lines := label_lines (hTxt h) in
    let cnt := zlen lines in
    let fill := if isin "invtxt" ropts then (if oLabels o then "#FFF" else "#666")
                else (if oLabels o then "#000" else "#999") in
    let rot := if tH d >? tW d * 2 then f_add90 fe (tRotate d) else tRotate d in
    (fix go (ls : list (list Z)) (k : Z) : list node :=
       match ls with
       | [] => []
       | l :: r =>
         Node (str "text")
              ([ai "x" (hX h); ai "y" (hY h + 27 + k * 30 - gdiv (cnt * 30) 2); a "text-anchor" "middle"; a "fill" fill;
                a "font-weight" "bold"; a "font-size" "30"; a "font-family" "sans-serif"; a "pointer-events" "none"]
               ++ rot_attr fe rot (hX h) (hY h))%list
              l :: go r (k + 1)
       end) lines 0
  else [].

(* lines 148-162 *)
Definition type_nodes (fe : fenv) (o : opts) (h : hwc) (d : typedef) : list node :=
  if oType o then
    [Node (str "text")
          ([ai "x" (hX h); ai "y" (hY h - gdiv (extent d) 2 - 2); a "text-anchor" "middle"; a "fill" "#333";
            a "font-size" "20"; a "font-family" "sans-serif"; a "pointer-events" "none"]
           ++ rot_attr fe (tRotate d) (hX h) (hY h))%list
          (str "[TYPE=" ++ itoa (hType h) ++ str "]")%list]
  else [].

(* lines 164-192 *)
Definition dispsize_nodes (fe : fenv) (o : opts) (h : hwc) (d : typedef) : list node :=
  match tDisp d with
  | Some dp =>
    if oDispSize o then
      let '(lx, ly) :=
        if (dSubidx dp >=? 0) && (zlen (tSub d) >? dSubidx dp) then
          let s := znth (SubEl [] 0 0 0 0 0 0 0 [] 0) (tSub d) (dSubidx dp) in
          (hX h + sX s + gdiv (sW s) 2, hY h + sY s + gdiv (sH s) 2)
        else (hX h, hY h - gdiv (extent d) 2 - 2) in
      [Node (str "text")
            ([ai "x" lx; ai "y" ly; a "text-anchor" "middle"; a "fill" "#ccc"; a "font-size" "25";
              a "font-family" "sans-serif"; a "stroke" "#333"; a "stroke-width" "6px"; a "paint-order" "stroke";
              a "pointer-events" "none"]
             ++ rot_attr fe (tRotate d) (hX h) (hY h))%list
            (itoa (dW dp) ++ str "x" ++ itoa (dH dp) ++ match dType dp with [] => [] | ty => 32 :: ty end)%list]
    else []
  | None => []
  end.

(* lines 194-213 *)
Definition id_nodes (fe : fenv) (o : opts) (ropts : list (list Z)) (h : hwc) (d : typedef) : list node :=
  if oHWCID o || isin "hwcid" ropts then
    [Node (str "text")
          ([ai "x" (hX h - (if tH d >? 0 then gdiv (tW d) 2 - 4 else 0)); ai "y" (hY h - gdiv (extent d) 2 + 20)]
           ++ (if tH d =? 0 then [a "text-anchor" "middle"] else [])
           ++ [a "fill" (if oHWCID o then "#000" else "#999"); a "font-size" "20"; a "font-family" "sans-serif";
               a "pointer-events" "none"]
           ++ rot_attr fe (tRotate d) (hX h) (hY h))%list
          (itoa (hId h))]
  else [].

(* theMap != nil && theMap[id] == 0 -> continue *)
Definition avail (m : option (list (Z * Z))) (id : Z) : bool :=
  match m with
  | None => true
  | Some l => match map_find id l with Some v => negb (v =? 0) | None => false end
  end.

Definition comp_nodes (fe : fenv) (o : opts) (t : topology) (h : hwc) : list node :=
  let d := resolve1 t h in
  let ropts := split_on 44 (tRender d) in
  (main_node fe h d :: flat_map (sub_nodes fe h d) (tSub d)
   ++ label_nodes fe o ropts h d ++ type_nodes fe o h d ++ dispsize_nodes fe o h d ++ id_nodes fe o ropts h d)%list.

(* nodes with provenance: position of the component they stem from *)
Fixpoint tagged_from (fe : fenv) (o : opts) (t : topology) (m : option (list (Z * Z))) (hs : list hwc) (k : nat)
  : list (nat * node) :=
  match hs with
  | [] => []
  | h :: r =>
    ((if avail m (hId h) then map (fun n => (k, n)) (comp_nodes fe o t h) else [])
     ++ tagged_from fe o t m r (Datatypes.S k))%list
  end.

Definition svg_nodes_tagged (fe : fenv) (o : opts) (t : topology) (m : option (list (Z * Z))) : list (nat * node) :=
  tagged_from fe o t m (tpHWc t) 0.

Definition svg_nodes (fe : fenv) (o : opts) (t : topology) (m : option (list (Z * Z))) : list node :=
  map snd (svg_nodes_tagged fe o t m).

(* GenerateCompositeSVG's fixed switches (lines 23-26) *)
Definition default_opts : opts := Opts true true false false.
