(* Teardown of ONE established connection of ConnectToPanel against an ADVERSARIAL panel: it never
   sends anything and never reads anything, so a Read of the client returns only when the client's
   own socket has been closed, and a Write that has blocked (socket buffers full) returns only then
   too.  Three goroutines (connecttopanel.go): the read loop of the call itself, the writer
   (select over ctx.Done / quit / msgsToPanel, then conn.Write), and - since /repo 02bcd7d - the
   watcher (select over ctx.Done / quit; on ctx.Done: exit.Store(true); conn.Close()).
   [watcher = false] is the code before that commit.

   Steps are INTERNAL (the goroutine can take them by itself; a fair scheduler eventually does) or
   ENVIRONMENT (the application submits a message; the context is cancelled).  The panel has no
   steps at all - that is the adversary.  No proofs here. *)
From RP Require Import Lib.Base.

Inductive rpc := RRead | RCloseQuit | RCloseConn | RLoadExit | RDisc (cancelled : bool) | RDone.
Inductive gpc := GNotStarted | GSelect | GWriting | GExitStore | GCloseConn | GDefer | GDone.

Record tst := mkT {
  t_r : rpc;
  t_w : gpc;          (* writer *)
  t_x : gpc;          (* watcher (stays GDone from the start when the code has none) *)
  t_ctx : bool; t_quit : bool; t_open : bool; t_exit : bool;
  t_wg : nat }.       (* registrations of writer and watcher not yet Done *)

Definition tinit (watcher : bool) : tst :=
  mkT RRead GNotStarted (if watcher then GNotStarted else GDone) false false true false (if watcher then 2 else 1).

Definition rpc_eqb (a b : rpc) : bool :=
  match a, b with
  | RRead, RRead | RCloseQuit, RCloseQuit | RCloseConn, RCloseConn | RLoadExit, RLoadExit | RDone, RDone => true
  | RDisc x, RDisc y => Bool.eqb x y
  | _, _ => false
  end.
Definition gpc_eqb (a b : gpc) : bool :=
  match a, b with
  | GNotStarted, GNotStarted | GSelect, GSelect | GWriting, GWriting | GExitStore, GExitStore
  | GCloseConn, GCloseConn | GDefer, GDefer | GDone, GDone => true
  | _, _ => false
  end.
Definition tst_eqb (a b : tst) : bool :=
  rpc_eqb (t_r a) (t_r b) && gpc_eqb (t_w a) (t_w b) && gpc_eqb (t_x a) (t_x b)
  && Bool.eqb (t_ctx a) (t_ctx b) && Bool.eqb (t_quit a) (t_quit b) && Bool.eqb (t_open a) (t_open b)
  && Bool.eqb (t_exit a) (t_exit b) && Nat.eqb (t_wg a) (t_wg b).

(* ---- internal steps ---- *)
Definition reader_step (s : tst) : option tst :=
  let go r := mkT r (t_w s) (t_x s) (t_ctx s) (t_quit s) (t_open s) (t_exit s) (t_wg s) in
  match t_r s with
  | RRead => if t_open s then None (* blocked: the panel sends nothing *) else Some (go RCloseQuit)
  | RCloseQuit => Some (mkT RCloseConn (t_w s) (t_x s) (t_ctx s) true (t_open s) (t_exit s) (t_wg s))
  | RCloseConn => Some (mkT RLoadExit (t_w s) (t_x s) (t_ctx s) (t_quit s) false (t_exit s) (t_wg s))
  | RLoadExit => Some (go (RDisc (t_exit s)))
  | RDisc _ => Some (go RDone)
  | RDone => None
  end.

(* one select-loop goroutine; [can_write]: it also serves msgsToPanel.  [set] stores its new pc. *)
Definition loop_step (s : tst) (pc : gpc) (set : gpc -> tst -> tst) : list tst :=
  match pc with
  | GNotStarted => [set GSelect s]
  | GSelect =>
    (if t_ctx s then [set GExitStore s] else []) ++ (if t_quit s then [set GDefer s] else [])
  | GWriting => if t_open s then [] (* blocked: the panel reads nothing *) else [set GSelect s]
  | GExitStore => [set GCloseConn (mkT (t_r s) (t_w s) (t_x s) (t_ctx s) (t_quit s) (t_open s) true (t_wg s))]
  | GCloseConn => [set GDefer (mkT (t_r s) (t_w s) (t_x s) (t_ctx s) (t_quit s) false (t_exit s) (t_wg s))]
  | GDefer => [set GDone (mkT (t_r s) (t_w s) (t_x s) (t_ctx s) (t_quit s) (t_open s) (t_exit s) (Nat.pred (t_wg s)))]
  | GDone => []
  end.

Definition set_tw (pc : gpc) (s : tst) : tst := mkT (t_r s) pc (t_x s) (t_ctx s) (t_quit s) (t_open s) (t_exit s) (t_wg s).
Definition set_tx (pc : gpc) (s : tst) : tst := mkT (t_r s) (t_w s) pc (t_ctx s) (t_quit s) (t_open s) (t_exit s) (t_wg s).

Definition internal (s : tst) : list tst :=
  (match reader_step s with Some s' => [s'] | None => [] end)
  ++ loop_step s (t_w s) set_tw
  ++ (match t_x s with GWriting => [] | pc => loop_step s pc set_tx end).

(* ---- environment steps: cancellation; the application hands in a message (the writer, in its
   select, takes it and enters conn.Write, which blocks) ---- *)
Definition env (s : tst) : list tst :=
  (if t_ctx s then [] else [mkT (t_r s) (t_w s) (t_x s) true (t_quit s) (t_open s) (t_exit s) (t_wg s)])
  ++ (match t_w s with GSelect => [set_tw GWriting s] | _ => [] end).

Definition all_done (s : tst) : bool :=
  rpc_eqb (t_r s) RDone && gpc_eqb (t_w s) GDone && gpc_eqb (t_x s) GDone.

(* ---- reachable states, by exhaustive closure (the state space is finite) ---- *)
Definition mem_t (x : tst) (l : list tst) : bool := existsb (tst_eqb x) l.
Fixpoint add_new_t (xs seen fresh : list tst) : list tst * list tst :=
  match xs with
  | [] => (seen, fresh)
  | x :: r => if mem_t x seen then add_new_t r seen fresh else add_new_t r (x :: seen) (x :: fresh)
  end.
Fixpoint closure_t (fuel : nat) (frontier seen : list tst) : list tst :=
  match fuel with
  | O => seen
  | S f =>
    match frontier with
    | [] => seen
    | _ => let (seen', fresh) := add_new_t (flat_map (fun s => internal s ++ env s) frontier) seen [] in
           closure_t f fresh seen'
    end
  end.
Definition reach (watcher : bool) : list tst := closure_t 64 [tinit watcher] [tinit watcher].

(* ---- a variant for the internal steps after cancellation ---- *)
Definition r_rank (r : rpc) : nat :=
  match r with RRead => 5 | RCloseQuit => 4 | RCloseConn => 3 | RLoadExit => 2 | RDisc _ => 1 | RDone => 0 end.
Definition g_rank (g : gpc) : nat :=
  match g with GNotStarted => 6 | GWriting => 5 | GSelect => 4 | GExitStore => 3 | GCloseConn => 2 | GDefer => 1 | GDone => 0 end.
Definition rank (s : tst) : nat := r_rank (t_r s) + g_rank (t_w s) + g_rank (t_x s).

(* ---- the outcome under a fair scheduler once the application and the context are quiet:
   run internal steps (first enabled one) until none is left ---- *)
Fixpoint settle_t (fuel : nat) (s : tst) : tst :=
  match fuel with
  | O => s
  | S f => match internal s with s' :: _ => settle_t f s' | [] => s end
  end.

(* the history of the harness scenario writer-blocked-cancel: connection established, writer started,
   a message taken and the Write blocked, then the context cancelled *)
Definition blocked_then_cancelled (watcher : bool) : tst :=
  let s0 := tinit watcher in
  let s1 := set_tw GSelect s0 in
  let s2 := set_tw GWriting s1 in
  mkT (t_r s2) (t_w s2) (t_x s2) true (t_quit s2) (t_open s2) (t_exit s2) (t_wg s2).

(* Some b: the call gets out of the connection and reports disconnect(b); None: it hangs *)
Definition blocked_cancel_outcome (watcher : bool) : option bool :=
  let s := settle_t 40 (blocked_then_cancelled watcher) in
  if all_done s then Some (t_exit s) else None.
