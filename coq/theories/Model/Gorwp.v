(* Model of gorwp (gorwp/rawpanel.go, inputs.go, rawpanelstate.go) as of the repaired tree
   (fix commits c766837 over-limit header ends the read loop, 8fd853f writer goroutine
   separated from the dispatcher, a15c50b handler maps under a mutex, 755c97a init fails on a
   lost connection).  Definitions only, no proofs.

   Parts:
   1. data: outbound messages as far as gorwp looks at them, bindings, handlers;
   2. the pure dispatcher  dispatch : bindings -> pstate -> omsg -> list action * pstate * bindings
      (procesMessagesFromPanel, one message);
   3. the reader (readFromPanel) as a byte-wise automaton over an input script of
      segments / deadline expiry / close, with gorwp's own framing rules;
   4. the running system as a transition system: reader, dispatcher and writer goroutines,
      toPanel / fromPanel (capacity 10), ticker, ctx, Bind* and Set* calls from other
      goroutines; a scheduler choice list drives it;
   5. the initialisation window of Connect.

   The decoders are parameters: [unm] = proto.Unmarshal on a binary payload (error ignored),
   [dec] = helpers.RawPanelASCIIstringsToOutboundMessages on one trimmed line (builder cout's
   property); both are looked at only through the omsg they return. *)
From RP Require Import Lib.Base.

(* ------------------------------------------------------------------ 1. data *)
Record event := mkEvent {
  e_id  : Z;                     (* HWCID *)
  e_bin : option (bool * Z);     (* Binary: pressed, edge (enum value as sent) *)
  e_pul : option Z;              (* Pulsed.Value *)
  e_abs : option Z;              (* Absolute.Value *)
  e_spd : option Z               (* Speed.Value *)
}.

Record pinfo := mkInfo { pi_model : bytes; pi_serial : bytes; pi_name : bytes }.
Record ptopo := mkTopo { pt_json : bytes; pt_svg : bytes }.

Record omsg := mkMsg {
  m_flow   : Z;                  (* FlowMessage: 1 ping, 2 ack, 3 nack, ... *)
  m_info   : option pinfo;       (* PanelInfo *)
  m_avail  : list (Z * Z);       (* HWCavailability (a Go map: distinct keys) *)
  m_topo   : option ptopo;       (* PanelTopology *)
  m_events : list event
}.

Definition delivery := list omsg.   (* one value sent into fromPanel *)

Inductive kind := KTrigger | KBinary | KPulsed | KAbsolute | KIntensity.
Definition kind_eqb (a b : kind) : bool :=
  match a, b with
  | KTrigger, KTrigger | KBinary, KBinary | KPulsed, KPulsed | KAbsolute, KAbsolute | KIntensity, KIntensity => true
  | _, _ => false
  end.

(* what travels through toPanel, as far as the properties distinguish it *)
Inductive titem :=
| TAck                      (* FlowMessage ACK, the answer to a panel ping *)
| TPing                     (* the ticker's ping *)
| TFb (id st : Z)           (* a state sent by a handler or by user code (Set* / SendRawState) *)
| TInit.                    (* the initial request of Connect *)

(* A handler, seen from gorwp: an identity, the states it sends to the panel when invoked (Set* / SendRawState:
   the API offers a handler no way to send a flow message), and the Bind* calls it then makes itself - for its
   own id or for others ("shift" keys, one-shot handlers re-binding themselves). *)
Inductive handler :=
| mkHandler (tag : Z) (sends : list (Z * Z)) (binds : list (kind * Z * handler)).
Definition h_tag (h : handler) : Z := match h with mkHandler t _ _ => t end.
Definition h_sends (h : handler) : list (Z * Z) := match h with mkHandler _ s _ => s end.
Definition h_binds (h : handler) : list (kind * Z * handler) := match h with mkHandler _ _ b => b end.
Definition fb_items (h : handler) : list titem := map (fun p => TFb (fst p) (snd p)) (h_sends h).

(* handler invocation with the arguments gorwp passes *)
Inductive callrec :=
| CTrigger (id tag : Z) (e : event)            (* TriggerFunc(hwc, event) *)
| CBinary (id tag : Z) (status edge : Z)       (* BinaryFunc(hwc, BinaryStatus, BinaryEdge) *)
| CValue (k : kind) (id tag : Z) (v : Z).      (* Pulsed / Absolute / Intensity func (hwc, int) *)

(* the five maps: newest binding first *)
Definition bindings := list (kind * Z * handler).
Fixpoint lookup (b : bindings) (k : kind) (id : Z) : option handler :=
  match b with
  | [] => None
  | (k', id', h) :: r => if kind_eqb k k' && (id =? id') then Some h else lookup r k id
  end.
Definition bind (b : bindings) (k : kind) (id : Z) (h : handler) : bindings := (k, id, h) :: b.

(* ------------------------------------------------------------------ 2. dispatcher *)
(* panel state (RawPanelState); availability as an association list sorted by key *)
Record pstate := mkState {
  g_model : bytes; g_serial : bytes; g_name : bytes;
  g_json : bytes; g_svg : bytes;
  g_avail : list (Z * Z)
}.
Definition st0 : pstate := mkState [] [] [] [] [] [].

Definition nonempty (s : bytes) : bool := match s with [] => false | _ => true end.
Definition keep (new old : bytes) : bytes := if nonempty new then new else old.

Fixpoint avail_set (k v : Z) (l : list (Z * Z)) : list (Z * Z) :=
  match l with
  | [] => [(k, v)]
  | (k', v') :: r => if k <? k' then (k, v) :: l else if k =? k' then (k, v) :: r else (k', v') :: avail_set k v r
  end.
Fixpoint avail_get (k : Z) (l : list (Z * Z)) : option Z :=
  match l with
  | [] => None
  | (k', v) :: r => if k =? k' then Some v else avail_get k r
  end.

(* lines 273-317: each part under the state lock *)
Definition upd_state (st : pstate) (m : omsg) : pstate :=
  let st1 := match m_info m with
             | Some i => mkState (keep (pi_model i) (g_model st)) (keep (pi_serial i) (g_serial st)) (keep (pi_name i) (g_name st))
                                 (g_json st) (g_svg st) (g_avail st)
             | None => st
             end in
  let st2 := mkState (g_model st1) (g_serial st1) (g_name st1) (g_json st1) (g_svg st1)
                     (fold_left (fun a kv => avail_set (fst kv) (snd kv) a) (m_avail m) (g_avail st1)) in
  match m_topo m with
  | Some t => mkState (g_model st2) (g_serial st2) (g_name st2) (keep (pt_json t) (g_json st2)) (keep (pt_svg t) (g_svg st2)) (g_avail st2)
  | None => st2
  end.

Definition initialised (st : pstate) : bool :=
  nonempty (g_model st) && nonempty (g_serial st) && nonempty (g_json st) && nonempty (g_svg st).

(* one event against a snapshot of the five maps (looked up under the mutex, then called in
   this order without it): trigger, binary, pulsed, absolute, intensity *)
Definition calls_of_event (b : bindings) (e : event) : list (callrec * handler) :=
  let id := e_id e in
  (match lookup b KTrigger id with Some h => [(CTrigger id (h_tag h) e, h)] | None => [] end) ++
  (match lookup b KBinary id, e_bin e with
   | Some h, Some (p, edge) => [(CBinary id (h_tag h) (qint p 1 0) (wrap8 edge), h)]   (* BinaryEdge is a uint8 *)
   | _, _ => [] end) ++
  (match lookup b KPulsed id, e_pul e with Some h, Some v => [(CValue KPulsed id (h_tag h) v, h)] | _, _ => [] end) ++
  (match lookup b KAbsolute id, e_abs e with Some h, Some v => [(CValue KAbsolute id (h_tag h) v, h)] | _, _ => [] end) ++
  (match lookup b KIntensity id, e_spd e with Some h, Some v => [(CValue KIntensity id (h_tag h) v, h)] | _, _ => [] end).

Definition reg := (kind * Z * handler)%type.

Inductive action := Call (c : callrec) | Send (t : titem) | Rebind (r : reg).

Definition acts_of_calls (l : list (callrec * handler)) : list action :=
  flat_map (fun ch => Call (fst ch) :: map Send (fb_items (snd ch)) ++ map Rebind (h_binds (snd ch))) l.

(* the registrations the invoked handlers make, in invocation order; applied to the newest-first maps *)
Definition binds_of_calls (l : list (callrec * handler)) : list reg := flat_map (fun ch => h_binds (snd ch)) l.
Definition apply_binds (b : bindings) (rs : list reg) : bindings := rev rs ++ b.

(* the events of one message: every event is looked up in the maps as the handlers of the earlier events left them *)
Fixpoint dispatch_events (b : bindings) (evs : list event) : list action * bindings :=
  match evs with
  | [] => ([], b)
  | e :: r =>
    let chs := calls_of_event b e in
    let '(a, b') := dispatch_events (apply_binds b (binds_of_calls chs)) r in
    (acts_of_calls chs ++ a, b')
  end.

(* procesMessagesFromPanel on one message (no Bind* from other goroutines meanwhile) *)
Definition dispatch (b : bindings) (st : pstate) (m : omsg) : list action * pstate * bindings :=
  let '(a, b') := dispatch_events b (m_events m) in
  ((if m_flow m =? 1 then [Send TAck] else []) ++ a, upd_state st m, b').

Fixpoint dispatch_all (b : bindings) (st : pstate) (ms : list omsg) : list action * pstate * bindings :=
  match ms with
  | [] => ([], st, b)
  | m :: r => let '(a, st1, b1) := dispatch b st m in let '(a', st2, b2) := dispatch_all b1 st1 r in (a ++ a', st2, b2)
  end.

Definition calls_of (l : list action) : list callrec :=
  flat_map (fun a => match a with Call c => [c] | _ => [] end) l.
Definition sends_of (l : list action) : list titem :=
  flat_map (fun a => match a with Send t => [t] | _ => [] end) l.

(* ------------------------------------------------------------------ 3. reader *)
(* what the environment does to the connection, in order *)
Inductive rin :=
| RBytes (bs : bytes)   (* a TCP segment arrives *)
| RStall                (* the armed read deadline (if any) expires: 2 s after a header completed *)
| RClose.               (* the peer closes / the connection fails *)

Definition payload_limit : Z := 500000.

Inductive rstate :=
| RHdr (acc : list Z)                (* binary: reading the 4 header bytes, [acc] so far (no deadline armed) *)
| RPay (need : Z) (racc : list Z)    (* binary: [need] > 0 payload bytes missing, collected so far reversed (deadline armed) *)
| RLine (racc : list Z)              (* ASCII: the current line so far, reversed *)
| RDead.                             (* readFromPanel has returned *)

Definition le32_val (h : list Z) : Z :=
  match h with
  | [a; b; c; d] => a + 256 * b + 65536 * c + 16777216 * d
  | _ => 0
  end.

(* strings.TrimSpace, ASCII white space (assumption: no other Unicode space at a line's ends) *)
Definition is_space (c : Z) : bool := (c =? 32) || ((9 <=? c) && (c <=? 13)).
Fixpoint trim_left (s : list Z) : list Z :=
  match s with c :: r => if is_space c then trim_left r else s | [] => [] end.
(* [rev_append _ []] is List.rev in linear time (List.rev itself is quadratic, which the extracted
   model cannot afford on topology lines of 64 KiB and more); [rev_alt] says they are equal *)
Definition trim_space (s : list Z) : list Z := rev_append (trim_left (rev_append (trim_left s) [])) [].

Definition ack_line : list Z := [97; 99; 107].

Section Reader.
  Variable unm : bytes -> omsg.          (* proto.Unmarshal, error ignored *)
  Variable dec : bytes -> list omsg.     (* the ASCII decoder on one trimmed line *)

  (* line 222: an ACK frame is dropped whole *)
  Definition deliver_bin (p : bytes) : list delivery :=
    let m := unm p in if m_flow m =? 2 then [] else [[m]].
  (* lines 248-253 *)
  Definition deliver_line (l : bytes) : list delivery :=
    let t := trim_space l in if bytes_eqb t ack_line then [] else [dec t].

  Definition rbyte (st : rstate) (c : Z) : rstate * list delivery :=
    match st with
    | RDead => (RDead, [])
    | RHdr acc =>
      let acc' := acc ++ [c] in
      if zlen acc' <? 4 then (RHdr acc', [])
      else let n := le32_val acc' in
           if n <? payload_limit then (if n =? 0 then (RHdr [], deliver_bin []) else (RPay n [], []))
           else (RDead, [])                              (* over the limit: return an error (c766837) *)
    | RPay need racc =>
      if need <=? 1 then (RHdr [], deliver_bin (rev_append (c :: racc) [])) else (RPay (need - 1) (c :: racc), [])
    | RLine racc =>
      if c =? 10 then (RLine [], deliver_line (rev_append racc [])) else (RLine (c :: racc), [])
    end.

  Fixpoint rbytes (st : rstate) (bs : list Z) : rstate * list delivery :=
    match bs with
    | [] => (st, [])
    | c :: r => let '(st1, d1) := rbyte st c in let '(st2, d2) := rbytes st1 r in (st2, d1 ++ d2)
    end.

  Definition rstep (st : rstate) (i : rin) : rstate * list delivery :=
    match i with
    | RBytes bs => rbytes st bs
    | RStall => (match st with RPay _ _ => RDead | _ => st end, [])   (* ReadFull(payload) times out: break *)
    | RClose => (RDead, [])                                           (* EOF / ErrUnexpectedEOF: partial data dropped *)
    end.

  Fixpoint reader_run (st : rstate) (ins : list rin) : rstate * list delivery :=
    match ins with
    | [] => (st, [])
    | i :: r => let '(st1, d1) := rstep st i in let '(st2, d2) := reader_run st1 r in (st2, d1 ++ d2)
    end.

  Definition rinit (binary : bool) : rstate := if binary then RHdr [] else RLine [].
End Reader.

(* the byte-level view of an input script: segment boundaries are not part of it *)
Inductive bev := BByte (c : Z) | BStall | BClose.
Definition bevs_of (ins : list rin) : list bev :=
  flat_map (fun i => match i with RBytes bs => map BByte bs | RStall => [BStall] | RClose => [BClose] end) ins.

(* ------------------------------------------------------------------ 4. the running system *)
Definition cap : nat := 10.   (* make(chan ..., 10), both queues *)

(* the dispatcher goroutine's remaining program for the deliveries it has taken *)
Inductive dop :=
| DSend (t : titem)                    (* rp.toPanel <- ... : blocks while the queue is full *)
| DState (m : omsg)                    (* the three locked state updates of one message *)
| DEvent (e : event)                   (* look the five maps up for this event (under the mutex) *)
| DCall (c : callrec)                  (* invoke one handler *)
| DBind (r : reg).                     (* the running handler calls Bind* (takes the mutex for writing) *)

Definition ops_of_msg (m : omsg) : list dop :=
  (if m_flow m =? 1 then [DSend TAck] else []) ++ DState m :: map DEvent (m_events m).
Definition ops_of_calls (l : list (callrec * handler)) : list dop :=
  flat_map (fun ch => DCall (fst ch) :: map DSend (fb_items (snd ch)) ++ map DBind (h_binds (snd ch))) l.

Record sys := mkSys {
  s_in     : list rin;          (* what the environment will still do to the connection *)
  s_rd     : rstate;            (* reader goroutine *)
  s_rpend  : list delivery;     (* parsed by the reader, not yet put into fromPanel (it blocks on each) *)
  s_rexit  : bool;              (* readFromPanel returned and listen() closed the connection and cancelled *)
  s_from   : list delivery;     (* fromPanel *)
  s_to     : list titem;        (* toPanel *)
  s_ops    : list dop;          (* dispatcher goroutine; [] = waiting in its select *)
  s_dalive : bool;              (* dispatcher goroutine has not returned *)
  s_walive : bool;              (* writer goroutine has not returned *)
  s_cancel : bool;              (* ctx.Done() closed *)
  s_b      : bindings;
  s_st     : pstate;
  (* observation logs *)
  s_trace  : list callrec;                  (* handler invocations, in order *)
  s_wire   : list titem;                    (* written to the socket, in order *)
  s_evlog  : list (event * bindings);       (* events looked up so far, each with the maps it saw *)
  s_blog   : list reg                       (* registrations made so far (handlers and other goroutines), in order *)
}.

Inductive choice :=
| CRead                                  (* reader: next environment input *)
| CPush                                  (* reader: fromPanel <- delivery *)
| CRExit                                 (* reader returned: connection.Close(); cancel() *)
| CTake                                  (* dispatcher: case msgs := <-fromPanel *)
| CDisp                                  (* dispatcher: next operation of its program *)
| CDExit                                 (* dispatcher: case <-ctx.Done() *)
| CWrite                                 (* writer: case msgs := <-toPanel; write *)
| CTick                                  (* writer: case <-ticker.C; write a ping *)
| CWExit                                 (* writer: case <-ctx.Done() *)
| CBind (k : kind) (id : Z) (h : handler)   (* another goroutine: Bind* *)
| CUser (t : titem)                      (* another goroutine: Set* / SendRawState / init request *)
| CCancel.                               (* another goroutine: Close() *)

Section System.
  Variable unm : bytes -> omsg.
  Variable dec : bytes -> list omsg.

  Definition room (q : list titem) : bool := Nat.ltb (length q) cap.

  Definition set_ops (s : sys) ops := mkSys (s_in s) (s_rd s) (s_rpend s) (s_rexit s) (s_from s) (s_to s) ops (s_dalive s) (s_walive s) (s_cancel s) (s_b s) (s_st s) (s_trace s) (s_wire s) (s_evlog s) (s_blog s).

  Definition step (s : sys) (c : choice) : option sys :=
    match c with
    | CRead =>
      match s_in s, s_rpend s, s_rexit s with
      | i :: rest, [], false =>
        match s_rd s with
        | RDead => None
        | _ => let '(rd', ds) := rstep unm dec (s_rd s) i in
               Some (mkSys rest rd' ds false (s_from s) (s_to s) (s_ops s) (s_dalive s) (s_walive s) (s_cancel s) (s_b s) (s_st s) (s_trace s) (s_wire s) (s_evlog s) (s_blog s))
        end
      | _, _, _ => None
      end
    | CPush =>
      match s_rpend s with
      | d :: r => if Nat.ltb (length (s_from s)) cap
                  then Some (mkSys (s_in s) (s_rd s) r (s_rexit s) (s_from s ++ [d]) (s_to s) (s_ops s) (s_dalive s) (s_walive s) (s_cancel s) (s_b s) (s_st s) (s_trace s) (s_wire s) (s_evlog s) (s_blog s))
                  else None
      | [] => None
      end
    | CRExit =>
      match s_rd s, s_rpend s, s_rexit s with
      | RDead, [], false => Some (mkSys (s_in s) RDead [] true (s_from s) (s_to s) (s_ops s) (s_dalive s) (s_walive s) true (s_b s) (s_st s) (s_trace s) (s_wire s) (s_evlog s) (s_blog s))
      | _, _, _ => None
      end
    | CTake =>
      match s_ops s, s_from s, s_dalive s with
      | [], d :: r, true => Some (mkSys (s_in s) (s_rd s) (s_rpend s) (s_rexit s) r (s_to s) (flat_map ops_of_msg d) true (s_walive s) (s_cancel s) (s_b s) (s_st s) (s_trace s) (s_wire s) (s_evlog s) (s_blog s))
      | _, _, _ => None
      end
    | CDisp =>
      if s_dalive s then
        match s_ops s with
        | [] => None
        | DSend t :: r => if room (s_to s)
                          then Some (mkSys (s_in s) (s_rd s) (s_rpend s) (s_rexit s) (s_from s) (s_to s ++ [t]) r true (s_walive s) (s_cancel s) (s_b s) (s_st s) (s_trace s) (s_wire s) (s_evlog s) (s_blog s))
                          else None
        | DState m :: r => Some (mkSys (s_in s) (s_rd s) (s_rpend s) (s_rexit s) (s_from s) (s_to s) r true (s_walive s) (s_cancel s) (s_b s) (upd_state (s_st s) m) (s_trace s) (s_wire s) (s_evlog s) (s_blog s))
        | DEvent e :: r => Some (mkSys (s_in s) (s_rd s) (s_rpend s) (s_rexit s) (s_from s) (s_to s) (ops_of_calls (calls_of_event (s_b s) e) ++ r) true (s_walive s) (s_cancel s) (s_b s) (s_st s) (s_trace s) (s_wire s) (s_evlog s ++ [(e, s_b s)]) (s_blog s))
        | DBind rg :: r => Some (mkSys (s_in s) (s_rd s) (s_rpend s) (s_rexit s) (s_from s) (s_to s) r true (s_walive s) (s_cancel s) (rg :: s_b s) (s_st s) (s_trace s) (s_wire s) (s_evlog s) (s_blog s ++ [rg]))
        | DCall c :: r => Some (mkSys (s_in s) (s_rd s) (s_rpend s) (s_rexit s) (s_from s) (s_to s) r true (s_walive s) (s_cancel s) (s_b s) (s_st s) (s_trace s ++ [c]) (s_wire s) (s_evlog s) (s_blog s))
        end
      else None
    | CDExit =>
      match s_ops s, s_dalive s, s_cancel s with
      | [], true, true => Some (mkSys (s_in s) (s_rd s) (s_rpend s) (s_rexit s) (s_from s) (s_to s) [] false (s_walive s) true (s_b s) (s_st s) (s_trace s) (s_wire s) (s_evlog s) (s_blog s))
      | _, _, _ => None
      end
    | CWrite =>
      match s_to s, s_walive s with
      | t :: r, true => Some (mkSys (s_in s) (s_rd s) (s_rpend s) (s_rexit s) (s_from s) r (s_ops s) (s_dalive s) true (s_cancel s) (s_b s) (s_st s) (s_trace s) (s_wire s ++ [t]) (s_evlog s) (s_blog s))
      | _, _ => None
      end
    | CTick =>
      if s_walive s then Some (mkSys (s_in s) (s_rd s) (s_rpend s) (s_rexit s) (s_from s) (s_to s) (s_ops s) (s_dalive s) true (s_cancel s) (s_b s) (s_st s) (s_trace s) (s_wire s ++ [TPing]) (s_evlog s) (s_blog s))
      else None
    | CWExit =>
      match s_walive s, s_cancel s with
      | true, true => Some (mkSys (s_in s) (s_rd s) (s_rpend s) (s_rexit s) (s_from s) (s_to s) (s_ops s) (s_dalive s) false true (s_b s) (s_st s) (s_trace s) (s_wire s) (s_evlog s) (s_blog s))
      | _, _ => None
      end
    | CBind k id h =>
      Some (mkSys (s_in s) (s_rd s) (s_rpend s) (s_rexit s) (s_from s) (s_to s) (s_ops s) (s_dalive s) (s_walive s) (s_cancel s) (bind (s_b s) k id h) (s_st s) (s_trace s) (s_wire s) (s_evlog s) (s_blog s ++ [(k, id, h)]))
    | CUser t =>
      if room (s_to s)
      then Some (mkSys (s_in s) (s_rd s) (s_rpend s) (s_rexit s) (s_from s) (s_to s ++ [t]) (s_ops s) (s_dalive s) (s_walive s) (s_cancel s) (s_b s) (s_st s) (s_trace s) (s_wire s) (s_evlog s) (s_blog s))
      else None
    | CCancel =>
      Some (mkSys (s_in s) (s_rd s) (s_rpend s) (s_rexit s) (s_from s) (s_to s) (s_ops s) (s_dalive s) (s_walive s) true (s_b s) (s_st s) (s_trace s) (s_wire s) (s_evlog s) (s_blog s))
    end.

  (* a schedule is a list of choices; a choice that is not enabled is skipped *)
  Fixpoint run (s : sys) (sched : list choice) : sys :=
    match sched with
    | [] => s
    | c :: r => match step s c with Some s' => run s' r | None => run s r end
    end.

  Definition sys0 (binary : bool) (b : bindings) (ins : list rin) : sys :=
    mkSys ins (rinit binary) [] false [] [] [] true true false b st0 [] [] [] [].

  (* the steps of the three goroutines themselves (no environment input, no other goroutine) *)
  Definition internal : list choice := [CWrite; CDisp; CTake; CPush].

  (* run internal steps by fixed priority until none is enabled (fuel bounds the search) *)
  Fixpoint first_enabled (s : sys) (cs : list choice) : option sys :=
    match cs with
    | [] => None
    | c :: r => match step s c with Some s' => Some s' | None => first_enabled s r end
    end.
  Fixpoint drain (prio : list choice) (fuel : nat) (s : sys) : sys :=
    match fuel with
    | O => s
    | S f => match first_enabled s prio with Some s' => drain prio f s' | None => s end
    end.
End System.

(* what the writer wrote on behalf of the dispatcher: acks and handler feedback *)
Definition is_disp_item (t : titem) : bool := match t with TAck | TFb _ _ => true | _ => false end.

(* ------------------------------------------------------------------ 5. Connect's init window *)
(* what happens on the connection during Connect, with arrival times in ms after the request *)
Inductive iev := IDeliver (d : delivery) | ILost.   (* ILost: connection closed / ctx cancelled *)

Definition init_window : Z := 2000.

(* init(): success iff IsInitialized() becomes true before the window ends and before the
   connection is lost (755c97a); events after either are irrelevant *)
Fixpoint connect_ok (b : bindings) (st : pstate) (evs : list (Z * iev)) : bool :=
  initialised st ||
  match evs with
  | [] => false
  | (t, IDeliver d) :: r => if t <? init_window then (let '(_, st', b') := dispatch_all b st d in connect_ok b' st' r) else false
  | (t, ILost) :: r => false
  end.
