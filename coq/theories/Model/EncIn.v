(* Executable model of InboundMessagesToRawPanelASCIIstrings (converterFunctions.go:654-963)
   with convertToColorInteger, stripLineBreaks (strings.TrimSpace = Lib/TrimSpace.v), the
   170-byte graphics chunking (Model/Gfx.v) and the ibeam-lib-utils helpers it uses
   (MapAndConstrainValue, IntImplode, StringImplodeRemoveTrailingEmpty).  Panic sites are
   explicit.  The two encoding/json calls (Processors state, NetworkConfig) are Section
   variables (oracles).  No proofs here.

   Panic sites (Go nil dereference through direct field access):
     701  nil element in InboundMessage.States      (stateRec.HWCIDs, line 768)
     702  nil element in InboundMessage.Registers   (reg.Reg, line 921)
   Site 703 (HWCText.TextStyling nil with Formatting 10/11, line 873) existed before
   the repair of finding F5; the repaired code uses the nil-safe getters. *)
From RP Require Import Lib.Base Lib.Sexp Lib.Strings Lib.TrimSpace Model.Gfx Model.Flatten Model.MsgIn.
From Coq Require Import String.
Open Scope string_scope.
Open Scope list_scope.
Open Scope Z_scope.

(* stripLineBreaks *)
Definition strip_line_breaks (s : list Z) : list Z :=
  join [] (map trim_space (split_on 10 s)).

(* su.MapAndConstrainValue(x, 0, 0xFF, 0, 0x3) & 0x3 *)
Definition quant2 (c : Z) : Z := Z.land (constrain (map_value c 0 255 0 3) 0 3) 3.

Definition rgb_bits (c : ColorRGB) : Z :=
  Z.lor (Z.lor (Z.shiftl (quant2 (cr_red c)) 4) (Z.shiftl (quant2 (cr_green c)) 2)) (quant2 (cr_blue c)).

(* lines 773, 778-786, 790 *)
Definition pack_mode (m : HWCMode) : Z :=
  Z.lor (Z.lor (Z.land (m_state m) 7) (Z.shiftl (Z.land (m_blink m) 15) 8)) (if m_output m then 32 else 0).
Definition pack_hwccolor (c : Color) : option Z :=
  match c_rgb c, c_index c with
  | Some rgb, _ => Some (Z.lor 192 (rgb_bits rgb))
  | None, Some ix => Some (Z.lor 128 (Z.land ix 31))
  | None, None => None
  end.
Definition pack_ext (x : HWCExtended) : Z :=
  Z.lor (Z.land (x_value x) 4095) (Z.shiftl (Z.land (x_interp x) 15) 12).
(* convertToColorInteger *)
Definition color_integer (c : Color) : Z :=
  match c_rgb c, c_index c with
  | Some rgb, _ => Z.lor 64 (rgb_bits rgb)
  | None, Some ix => Z.land ix 31
  | None, None => 0
  end.

(* su.StringImplodeRemoveTrailingEmpty: walks from the end; [fill] turns on at the last
   non-empty string; every filled position contributes token ++ val; the leading token is
   cut off at the end. *)
Fixpoint implode_aux (tok : list Z) (l : list (list Z)) : list Z * bool :=
  match l with
  | [] => ([], false)
  | x :: r =>
    let '(o, fill) := implode_aux tok r in
    let fill' := fill || negb (nilb x) in
    (if fill' then tok ++ x ++ o else o, fill')
  end.
Definition implode_trim (l : list (list Z)) : list Z :=
  match fst (implode_aux [124] l) with [] => [] | _ :: r => r end.

Definition itoa_if (c : bool) (v : Z) : list Z := if c then itoa v else [].
Definition is_10_11 (f : Z) : bool := (f =? 10) || (f =? 11).

(* lines 794-877: the 21 slots *)
Definition style_face (s : TextStyle) : Z :=
  Z.lor (Z.lor (match ts_textfont s with Some f => Z.land (f_face f) 7 | None => 0 end)
               (match ts_titlefont s with Some f => Z.shiftl (Z.land (f_face f) 7) 3 | None => 0 end))
        (Z.shiftl (if ts_fixed s then 1 else 0) 6).
Definition style_sizes (s : TextStyle) : Z :=
  Z.lor (match ts_textfont s with
         | Some f => Z.lor (Z.land (f_width f) 3) (Z.shiftl (Z.land (f_height f) 3) 2) | None => 0 end)
        (match ts_titlefont s with
         | Some f => Z.lor (Z.shiftl (Z.land (f_width f) 3) 4) (Z.shiftl (Z.land (f_height f) 3) 6) | None => 0 end).
Definition style_settings (s : TextStyle) : Z :=
  Z.lor (Z.land (ts_padding s) 3) (Z.shiftl (Z.land (ts_spacing s) 7) 2).
Definition icon_integer (t : HWCText) : Z :=
  Z.lor (Z.land (t_sicon t) 3) (Z.shiftl (Z.land (t_micon t) 7) 3).

Definition text_slots (t : HWCText) : list (list Z) :=
  let fmt := t_fmt t in
  let hide := fmt =? 7 in
  let s0 := if hide then []
            else if is_10_11 fmt then itoa (match t_style t with Some s => ts_ufs s | None => 0 end)
            else itoa (t_int t) in
  let s1 := if hide then [] else itoa_if (fmt >? 0) fmt in
  let s2 := if (t_sicon t >? 0) || (t_micon t >? 0) then itoa_if (icon_integer t >? 0) (icon_integer t) else [] in
  let s3 := t_title t in
  let s4 := if t_solid t then [] else [49] in
  let s5 := t_l1 t in
  let s6 := t_l2 t in
  let s7 := itoa_if (negb (t_int2 t =? 0)) (t_int2 t) in
  let s8 := itoa_if (t_pair t >? 0) (t_pair t) in
  let sc := match t_scale t with
            | Some s => if sc_type s >? 0
                        then [itoa (sc_type s); itoa (sc_rlo s); itoa (sc_rhi s); itoa (sc_llo s); itoa (sc_lhi s)]
                        else [[]; []; []; []; []]
            | None => [[]; []; []; []; []]
            end in
  let st := match t_style t with
            | Some s => [itoa_if (style_face s >? 0) (style_face s);
                         itoa_if (style_sizes s >? 0) (style_sizes s);
                         itoa_if (style_settings s >? 0) (style_settings s)]
            | None => [[]; []; []]
            end in
  let s18 := if t_inv t then [49] else [] in
  let s19 := match t_pix t with Some c => itoa (color_integer c) | None => [] end in
  let s20 := match t_bg t with Some c => itoa (color_integer c) | None => [] end in
  [s0; s1; s2; s3; s4; s5; s6; s7; s8] ++ sc ++ [[]] ++ st ++ [s18; s19; s20].

Definition text_line (id : Z) (t : HWCText) : list Z :=
  str "HWCt#" ++ itoa id ++ [61] ++ implode_trim (text_slots t).

(* lines 881-905: chunking is Model/Gfx.v's [gfx_lines] on the image view of the sub-message *)
Definition to_gfx (g : HWCGfx) : gfx :=
  mkGfx (hg_type g) (hg_w g) (hg_h g) (hg_xy g) (hg_x g) (hg_y g) (hg_data g).

Section Enc.
  (* json.Marshal(stateRec) for a state with Processors; networkStringFromConfig *)
  Variable json_enc : HWCState -> list Z.
  Variable nc_print : list Z -> list Z.

  Definition kwline (b : bool) (s : string) : list (list Z) := if b then [str s] else [].
  Definition numline {A} (o : option A) (s : string) (f : A -> Z) : list (list Z) :=
    match o with Some a => [str s ++ itoa (f a)] | None => [] end.
  Definition b2z (b : bool) : Z := if b then 1 else 0.

  Definition flow_lines (f : Z) : list (list Z) :=
    if f =? 2 then [str "ack"] else if f =? 3 then [str "nack"] else if f =? 1 then [str "ping"] else [].

  Definition cmd_lines (c : Command) : list (list Z) :=
    kwline (c_activate c) "ActivePanel=1" ++ kwline (c_info c) "list" ++ kwline (c_map c) "map" ++
    kwline (c_topology c) "PanelTopology?" ++ kwline (c_burnin c) "BurninProfile?" ++
    kwline (c_calib c) "CalibrationProfile?" ++ kwline (c_netcfg c) "NetworkConfig?" ++
    kwline (c_registers c) "Registers?" ++ kwline (c_connections c) "Connections?" ++
    kwline (c_stats c) "RunTimeStats?" ++ kwline (c_clear c) "Clear" ++ kwline (c_clearleds c) "ClearLEDs" ++
    kwline (c_cleardisp c) "ClearDisplays" ++ kwline (c_getsleep c) "SleepTimer?" ++
    kwline (c_wakeup c) "WakeUp!" ++ kwline (c_reboot c) "Reboot" ++
    (match c_bright c with
     | Some (leds, oleds) => [str "PanelBrightness=" ++ itoa leds ++ [44] ++ itoa oleds] | None => [] end) ++
    (match c_setcal c with Some j => [str "SetCalibrationProfile=" ++ strip_line_breaks j] | None => [] end) ++
    (match c_setnet c with Some n => [str "SetNetworkConfig=" ++ nc_print n] | None => [] end) ++
    (match c_simenv c with
     | Some m => if m =? 0 then [str "SimulateEnvironmentalHealth=Normal"]
                 else if m =? 1 then [str "SimulateEnvironmentalHealth=Safemode"]
                 else if m =? 2 then [str "SimulateEnvironmentalHealth=Blocked"] else []
     | None => [] end) ++
    numline (c_sleeptimeout c) "SleepTimer=" id ++ numline (c_sleepmode c) "SleepMode=" id ++
    numline (c_screensaver c) "SleepScreenSaver=" id ++ numline (c_dimmed c) "DimmedGain=" id ++
    numline (c_heartbeat c) "HeartBeatTimer=" id ++ numline (c_pubstat c) "PublishSystemStat=" id ++
    numline (c_loadcpu c) "LoadCPU=" id ++ numline (c_web c) "Webserver=" b2z ++
    numline (c_jsoncfg c) "JSONonOutbound=" b2z.

  Definition idline (kw : string) (i : Z) (v : Z) : list Z := str kw ++ itoa i ++ [61] ++ itoa v.

  (* lines 772-913 for one id *)
  Definition state_id_lines (s : HWCState) (i : Z) : list (list Z) :=
    (match s_mode s with Some m => [idline "HWC#" i (pack_mode m)] | None => [] end) ++
    (match s_color s with
     | Some c => match pack_hwccolor c with Some v => [idline "HWCc#" i v] | None => [] end
     | None => [] end) ++
    (match s_ext s with Some x => [idline "HWCx#" i (pack_ext x)] | None => [] end) ++
    (match s_text s with Some t => if text_is_empty t then [] else [text_line i t] | None => [] end) ++
    (match s_gfx s with Some g => if gfx_is_empty g then [] else gfx_lines (to_gfx g) i | None => [] end) ++
    (match s_adc s with Some b => [idline "HWCrawADCValues#" i (b2z b)] | None => [] end) ++
    (match s_proc s with Some _ => [json_enc s] | None => [] end).

  Definition state_lines (s : HWCState) : list (list Z) := flat_map (state_id_lines s) (s_ids s).

  Fixpoint states_lines (l : list (option HWCState)) : res (list (list Z)) :=
    match l with
    | [] => Ok []
    | None :: _ => Panic 701
    | Some s :: r => do rest <- states_lines r; Ok (state_lines s ++ rest)
    end.

  Definition reg_line (r : Register) : list (list Z) :=
    let mk kw := [str kw ++ r_id r ++ [61] ++ itoa (r_value r)] in
    if r_kind r =? 0 then mk "Mem" else if r_kind r =? 1 then mk "Flag#"
    else if r_kind r =? 2 then mk "Shift" else if r_kind r =? 3 then mk "State" else [].

  Fixpoint regs_lines (l : list (option Register)) : res (list (list Z)) :=
    match l with
    | [] => Ok []
    | None :: _ => Panic 702
    | Some r :: rest => do ls <- regs_lines rest; Ok (reg_line r ++ ls)
    end.

  Definition enc_in_msg (m : InboundMessage) : res (list (list Z)) :=
    let pre := flow_lines (im_flow m) ++ match im_cmd m with Some c => cmd_lines c | None => [] end in
    do sl <- states_lines (im_states m);
    do rl <- regs_lines (im_regs m);
    Ok (pre ++ sl ++ rl).

  Fixpoint enc_in_raw (ms : list InboundMessage) : res (list (list Z)) :=
    match ms with
    | [] => Ok []
    | m :: r => do a <- enc_in_msg m; do b <- enc_in_raw r; Ok (a ++ b)
    end.

  (* singleLines(returnStrings), the last statement before the debug block: every LF of every
     returned string becomes a space (repair of finding F8) *)
  Definition enc_in (ms : list InboundMessage) : res (list (list Z)) :=
    do ls <- enc_in_raw ms; Ok (one_lines ls).
End Enc.
