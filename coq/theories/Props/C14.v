(* C14 — Topology transformations preserve the panel's meaning.
   Only statements here; each closed by [exact] of a lemma from Proofs/.
   Model: Model/Topo.v (CleanSections, RandomizeTypes), Lib/JsonTree.v (encoding/json at the tree
   level over the schema REGENERATED from topology.go).  Specs: Spec/TopoTransform.v, Spec/TopoJson.v. *)
From RP Require Import Lib.Base Lib.Sexp Lib.Strings Lib.JsonTree Gen.TopoSchema Model.Topo
     Spec.Topo Spec.TopoTransform Spec.TopoJson
     Proofs.TopoLookup Proofs.TopoTransform Proofs.TopoJson Proofs.TopoSchemaWf.
From Coq Require Import Permutation String.

(* ---------------- CleanSections: any number and position of markers ---------------- *)
(* The index-collecting, reverse-order slices.Delete loop is exactly a filter: the marker
   components (type 250) go, all others stay in order, title and type index are untouched. *)
Theorem c14_clean_is_filter : forall t,
  clean_sections t = Topo (tpTitle t) (filter (fun h => negb (is_marker h)) (tpHWc t)) (tpIndex t).
Proof. exact clean_is_filter. Qed.
Print Assumptions c14_clean_is_filter.

(* id look-ups after CleanSections answer from the component list as it is THEN: the first NON-marker
   component with that id (a removed marker is no longer found); a component that was found before and
   is not a marker is found unchanged. *)
Theorem c14_lookups_after_clean : forall t id,
  find_hwc id (clean_sections t) = find (fun h => (hId h =? id) && negb (is_marker h)) (tpHWc t).
Proof. exact lookups_after_clean. Qed.
Print Assumptions c14_lookups_after_clean.

Theorem c14_lookup_kept_after_clean : forall t id h,
  find_hwc id t = Some h -> is_marker h = false -> find_hwc id (clean_sections t) = Some h.
Proof. exact lookup_kept_after_clean. Qed.
Print Assumptions c14_lookup_kept_after_clean.

Theorem c14_clean_meets_spec : forall t, clean_ok t (clean_sections t) = true.
Proof. exact clean_meets_spec. Qed.
Print Assumptions c14_clean_meets_spec.

Theorem c14_clean_spec_determines : forall t t', clean_ok t t' = true -> t' = clean_sections t.
Proof. exact clean_ok_unique. Qed.
Print Assumptions c14_clean_spec_determines.

(* ---------------- RandomizeTypes ---------------- *)
(* Tie, note on size: besides the cases judged by the extracted model and [renumber_ok], the harness
   runs random mode on topologies with 20000-40000 types (thorough: 200000), where collisions of
   the REDRAWN id occur; those are too large for the association-list model (quadratic), so for
   that scenario the relation (type count, resolved definition of every component, no two old ids
   on one new id) is computed by the Go harness - trusted glue - and only judged in Gallina
   (case c14big, tag c14-renumber-big). *)
(* what [renumber_ok] says, as propositions about the resolver of C13 *)
Theorem c14_renumber_ok_meaning : forall seqm t t',
  renumber_ok seqm t t' = true ->
  tpTitle t' = tpTitle t /\ List.length (tpIndex t') = List.length (tpIndex t) /\ NoDup (keys (tpIndex t')) /\
  map strip (tpHWc t') = map strip (tpHWc t) /\
  Forall2 (fun h h' => resolve1 t' h' = resolve1 t h) (tpHWc t) (tpHWc t') /\
  (seqm = true -> forall k, In k (keys (tpIndex t')) <-> 1 <= k <= zlen (tpIndex t)).
Proof. exact renumber_ok_meaning. Qed.
Print Assumptions c14_renumber_ok_meaning.

(* Both modes, EVERY iteration order of the Go map (any permutation of the keys), EVERY
   stream of Intn results, every fuel: whenever the collision loop ends, the number of types,
   the component list (type numbers apart) and every component's resolved definition are
   unchanged - provided the types are closed under the index (C14's quantifier) and no type
   was renumbered to the "disabled" id 0 (see the two corollaries and the observation below). *)
Theorem c14_renumber_preserves : forall seqm rnd order fuel t t',
  randomize seqm rnd order fuel t = Some t' ->
  Permutation order (keys (tpIndex t)) -> NoDup (keys (tpIndex t)) ->
  types_closed t = true -> ~ In 0 (keys (tpIndex t')) ->
  renumber_ok false t t' = true.
Proof. exact renumber_general. Qed.
Print Assumptions c14_renumber_preserves.

(* Sequential mode, all map orders: never runs out of fuel (2 iterations of the collision loop
   per key suffice, so fuel n+1 does for n >= 1), produces EXACTLY the ids 1..n in iteration
   order, and preserves the meaning.  Full strength. *)
Theorem c14_renumber_sequential : forall rnd order fuel t,
  (2 <= fuel)%nat -> Permutation order (keys (tpIndex t)) -> NoDup (keys (tpIndex t)) ->
  zlen (tpIndex t) < 4294967295 -> types_closed t = true ->
  exists t', randomize true rnd order fuel t = Some t' /\
             keys (tpIndex t') = iota1 (List.length (tpIndex t)) /\ renumber_ok true t t' = true.
Proof. exact renumber_seq. Qed.
Print Assumptions c14_renumber_sequential.

(* Random mode.  PARTIAL in two named respects:
   (1) termination of the collision loop is only almost sure; it is the hypothesis
       [randomize false ... = Some t'] (any fuel);
   (2) Intn(1000000) may return 0, the "disabled" type id: then a disabled component would
       resolve through TypeIndex[0] afterwards (c14_draw_zero_observation); the hypothesis
       excludes a draw of 0 (probability 1e-6 per draw). *)
Theorem c14_renumber_random_partial : forall rnd order fuel t t',
  randomize false rnd order fuel t = Some t' ->
  (forall i, wrap32 (rnd i) <> 0) ->
  Permutation order (keys (tpIndex t)) -> NoDup (keys (tpIndex t)) -> types_closed t = true ->
  renumber_ok false t t' = true.
Proof. exact renumber_random. Qed.
Print Assumptions c14_renumber_random_partial.

(* the corner excluded above, on a concrete topology: one type, one disabled component, first draw 0 *)
Example c14_draw_zero_observation :
  let d := TypeDef 100 50 [] [] [] [] 0 0 None [] [] in
  let t := Topo [] [HWc 1 0 0 [] 0 None 0 0] [(5, d)] in
  types_closed t = true /\
  exists t', randomize false (fun _ => 0) [5] 3 t = Some t' /\
             resolve1 t (HWc 1 0 0 [] 0 None 0 0) = zero_td /\ resolve1 t' (HWc 1 0 0 [] 0 None 0 0) = d.
Proof. split; [reflexivity|]. eexists. split; [vm_compute; reflexivity|]. split; reflexivity. Qed.

(* ---------------- JSON: generic over struct schemas ---------------- *)
(* For EVERY well-formed schema and every value of it: parsing the serialised tree gives the
   canonical form; serialising that gives the same tree again (fixpoint after one round - in
   fact the tree never changes); and the canonical form is the same topology (it differs at
   most in nil-vs-empty under omitempty, -0 vs +0 under omitempty, map entry order, mutexes). *)
Theorem c14_json_roundtrip : forall sch, wf_ty sch = true ->
  forall v, has_type sch v = true -> dec sch (enc sch v) = Some (canon sch v).
Proof. exact json_roundtrip_gen. Qed.
Print Assumptions c14_json_roundtrip.

Theorem c14_json_fixpoint : forall sch, wf_ty sch = true ->
  forall v, has_type sch v = true -> enc sch (canon sch v) = enc sch v.
Proof. exact json_fixpoint_gen. Qed.
Print Assumptions c14_json_fixpoint.

Theorem c14_json_same_topology : forall sch, wf_ty sch = true ->
  forall v, has_type sch v = true -> veq sch v (canon sch v) = true.
Proof. exact canon_same_gen. Qed.
Print Assumptions c14_json_same_topology.

(* ... and the schema REGENERATED from /repo/topology/topology.go on this run is well-formed
   (by computation): hiding a data field from JSON, a duplicate or invalid tag name, an
   unsupported field type break THIS obligation. *)
Theorem c14_topo_schema_wf : wf_ty topo_schema = true.
Proof. exact topo_schema_wf. Qed.
Print Assumptions c14_topo_schema_wf.

Theorem c14_topology_json_roundtrip : forall v, has_type topo_schema v = true ->
  dec topo_schema (enc topo_schema v) = Some (canon topo_schema v) /\
  enc topo_schema (canon topo_schema v) = enc topo_schema v /\
  veq topo_schema v (canon topo_schema v) = true.
Proof. exact topo_json_all. Qed.
Print Assumptions c14_topology_json_roundtrip.

(* Non-vacuity: a closed topology with two types, a disabled component and a section marker;
   sequential renumbering of it in the order [7;250;5]; cleaning it. *)
Example c14_nonvacuous :
  let d1 := TypeDef 100 50 (str "rgb"%string) (str "b4"%string) [] [] 0 0 None [] [] in
  let d2 := TypeDef 30 0 [] (str "av"%string) [] [] 0 0 None [] [] in
  let t := Topo [] [HWc 1 0 0 [] 7 None 0 0; HWc 2 0 0 [] 250 None 0 0; HWc 3 0 0 [] 0 None 0 0; HWc 4 9 9 [] 5 (Some d2) 0 0]
                [(5, d1); (7, d2); (250, zero_td)] in
  types_closed t = true /\ NoDup (keys (tpIndex t)) /\
  option_map (fun t' => (keys (tpIndex t'), map hType (tpHWc t'))) (randomize true (fun _ => 3) [7; 250; 5] 4 t)
    = Some ([1; 2; 3], [1; 2; 0; 3]) /\
  map hId (tpHWc (clean_sections t)) = [1; 3; 4].
Proof.
  split; [reflexivity|]. split; [repeat constructor; cbn; intuition discriminate|].
  split; vm_compute; reflexivity.
Qed.

(* Non-vacuity of the JSON theorems: a value of the regenerated schema exists and is typed. *)
Example c14_json_nonvacuous : has_type topo_schema (zero topo_schema) = true.
Proof. vm_compute. reflexivity. Qed.
