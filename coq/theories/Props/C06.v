(* C06 — Converters and streaming reader are total and re-entrant.
   PLACEHOLDER until the converter models of C01-C04 exist: the totality theorems of the
   models (dec_in_total, enc_in_total, dec_out_total, enc_out_total, parse_total) are
   assembled here from Proofs/InTotal.v and Proofs/OutTotal.v. What is stated now is only
   the meaning of the oracle. *)
From RP Require Import Lib.Base Spec.Total.

Theorem c06_oracle_ok_iff : forall o,
  judge_call o = TotOk <-> o_status o = StOk /\ o_nils o = 0 /\ o_conc o = true.
Proof.
  intros [st n nils conc]; unfold judge_call; simpl.
  destruct st; try (split; [discriminate | intros (H & _); discriminate]).
  destruct (Z.eqb_spec nils 0); destruct conc; simpl; split; intros H; try discriminate; try tauto;
    destruct H as (_ & H1 & H2); try congruence.
Qed.
Print Assumptions c06_oracle_ok_iff.
