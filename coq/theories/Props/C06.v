(* C06 — Converters and streaming reader are total and re-entrant.
   Only statements here; each closed by [exact] of a lemma from Proofs/.

   The models (Model/DecIn.v, EncIn.v, DecOut.v, EncOut.v, Gfx.v) carry every panic site of
   the Go source as an explicit [Panic n] result (nil dereference through direct field access,
   regex sub-match indexing, slice bounds); a result list has element type [InboundMessage] /
   [out_msg], i.e. it cannot hold a nil message.  Totality = the result is [Ok _]:
     - decoders and the streaming reader: for ALL lists of ALL byte strings (indeed all lists of
       integers), every behaviour of the encoding/json oracles;
     - encoders: for all messages of the shape proto.Unmarshal can produce - any presence
       pattern of optional sub-messages, enums and integers anywhere, any bytes in strings; the
       one hypothesis is "no nil element in a repeated message field", which the wire format
       cannot produce (and which IS a panic site: [c06_enc_in_nil_state_panics]).
   Hanging: every model function is structurally recursive on its input lists (accepted by
   Coq's guard checker without fuel) - that is the termination argument for the loops they
   mirror.
   PARTIAL (re-entrancy): the models are pure functions, so "concurrent = sequential" is
   trivial of the model; what it stands for in the code - no shared mutable state - is a
   runtime fact tied by execution (harness/total: every case from 16 goroutines), not proved.
   The models themselves are tied to the code by the C01-C04 correspondence checks, whose
   generators include the malformed stream and the presence-pattern sweeps. *)
From RP Require Import Lib.Base Model.MsgIn Model.DecIn Model.EncIn Model.MsgOut Model.DecOut Model.EncOut Model.Gfx
  Spec.Total Proofs.InTotal Proofs.OutTotal Proofs.TotalAll.

Theorem c06_dec_in_total : forall (json_state : list Z -> HWCState)
    (json_msgs : list Z -> list (option InboundMessage)) (nc_parse : list Z -> option (list Z))
    (ls : list (list Z)),
  exists ms : list InboundMessage, dec_in json_state json_msgs nc_parse ls = Ok ms.
Proof. exact dec_in_total. Qed.
Print Assumptions c06_dec_in_total.

Theorem c06_enc_in_total : forall (json_enc : HWCState -> list Z) (nc_print : list Z -> list Z)
    (ms : list InboundMessage),
  Forall InTotal.wire_reachable ms -> exists ls : list (list Z), enc_in json_enc nc_print ms = Ok ls.
Proof. exact enc_in_total. Qed.
Print Assumptions c06_enc_in_total.

Theorem c06_dec_out_total : forall (netparse : bytes -> option bytes) (ls : list bytes),
  exists ms : list out_msg, dec_out netparse ls = Ok ms.
Proof. exact dec_out_total. Qed.
Print Assumptions c06_dec_out_total.

Theorem c06_enc_out_total : forall (flat flat_svg : bytes -> bytes) (ms : list (option out_msg))
    (ords : list (list (Z * Z))),
  no_nil ms ->
  Forall (fun o : option out_msg => match o with Some m => OutTotal.wire_reachable m | None => True end) ms ->
  exists ls : list bytes, enc_out flat flat_svg ords ms = Ok ls.
Proof. exact enc_out_total. Qed.
Print Assumptions c06_enc_out_total.

(* the streaming reader, from ANY reader state, over any history of lines *)
Theorem c06_reader_total : forall (json_state : list Z -> HWCState)
    (json_msgs : list Z -> list (option InboundMessage)) (nc_parse : list Z -> option (list Z))
    (lines : list (list Z)) (st : reader),
  exists ms : list InboundMessage, reader_run json_state json_msgs nc_parse st lines = Ok ms.
Proof. exact reader_run_total. Qed.
Print Assumptions c06_reader_total.

(* the encoder hypothesis is necessary: a nil element of a repeated field is a panic site *)
Example c06_enc_in_nil_state_panics : forall je ncp,
  enc_in je ncp [MsgIn.mkMsg 0 None [None] []] = Panic 701.
Proof. exact enc_in_nil_state_panics. Qed.

(* meaning of the oracle applied to one observed call of the implementation *)
Theorem c06_oracle_ok_iff : forall o,
  judge_call o = TotOk <-> o_status o = StOk /\ o_nils o = 0 /\ o_conc o = true.
Proof.
  intros [st n nils conc]; unfold judge_call; simpl.
  destruct st; try (split; [discriminate | intros (H & _); discriminate]).
  destruct (Z.eqb_spec nils 0); destruct conc; simpl; split; intros H; try discriminate; try tauto;
    destruct H as (_ & H1 & H2); try congruence.
Qed.
Print Assumptions c06_oracle_ok_iff.

(* non-vacuity: a wire-reachable message with sub-messages present and absent *)
Example c06_nonvacuous : InTotal.wire_reachable (MsgIn.mkMsg 1 None [] []) /\ no_nil (@nil (option out_msg)).
Proof. split; [split; constructor | constructor]. Qed.
