(* C05 — Chunked graphics reassemble exactly; no corrupt image is ever delivered.
   Only statements; each closed by [exact] of a lemma from Proofs/.  Vocabulary: Spec/Transfer.v
   (valid_b / at_most_once_b / safe_b, clean_deliveries, clean_stream_out, unspace, ...),
   model: Model/Gfx.v (gfx_lines = the encoder, batch_gfx / batch_heap = the batch decoder in its
   value / pointer view, stream_from ser = ASCIIreader.Parse line by line, ser = with the
   encoding/json round trip of the reader between any two lines). *)
From RP Require Import Lib.Base Lib.Sexp Lib.Strings Lib.B64 Lib.TrimSpace Model.Gfx Spec.Transfer
  Proofs.GfxB64 Proofs.GfxClean Proofs.GfxStream Proofs.GfxCleanStream Proofs.GfxSpecLemmas
  Proofs.GfxSafety Proofs.GfxSafetyStream Proofs.GfxHeap.
From Coq Require Import String.
Open Scope Z_scope.
Open Scope list_scope.

(* ---------------------------------------------------------------- chunking *)
(* numbered lines of at most 170 payload bytes, ceil(len/170) of them, none for an empty image *)
Theorem c05_chunk_len_le_170 : forall data k, zlen (chunk_data data k) <= 170.
Proof. exact chunk_len_le_170. Qed.
Print Assumptions c05_chunk_len_le_170.

Theorem c05_chunk_count : forall g id, zlen (gfx_lines g id) = total_lines (zlen (g_data g)).
Proof. exact chunk_count. Qed.
Print Assumptions c05_chunk_count.

Theorem c05_empty_image_no_lines : forall g id, g_data g = [] -> gfx_lines g id = [].
Proof. exact gfx_lines_empty. Qed.
Print Assumptions c05_empty_image_no_lines.

(* encoding/base64 as modelled: DecodeString (EncodeToString x) = x for all byte strings *)
Theorem c05_base64_roundtrip : forall s, bytes_ok s = true -> b64_decode (b64_encode s) = s.
Proof. exact b64_roundtrip. Qed.
Print Assumptions c05_base64_roundtrip.

(* ---------------------------------------------------------------- clean runs
   every image length >= 1 (no bound), the three formats, offset on/off, any uint32 ids. *)
(* all at once: exactly one image per id, at the LAST line of its run, equal to what was sent
   (gfx_norm: X/Y only exist when XYoffset is set) *)
Theorem c05_clean_batch : forall g ids,
  gfx_ok g -> Forall id_ok ids -> 1 <= zlen (g_data g) ->
  batch_gfx (flat_map (gfx_lines g) ids) = clean_deliveries g (total_lines (zlen (g_data g))) 0 ids.
Proof. exact clean_batch. Qed.
Print Assumptions c05_clean_batch.

(* ... with any other lines in between *)
Theorem c05_clean_batch_interleaved : forall g ids ls,
  gfx_ok g -> Forall id_ok ids -> 1 <= zlen (g_data g) ->
  filter is_gfx_line ls = flat_map (gfx_lines g) ids ->
  map snd (batch_gfx ls) = map (fun i => ([i], gfx_norm g)) ids.
Proof. exact clean_batch_interleaved. Qed.
Print Assumptions c05_clean_batch_interleaved.

(* one line at a time through the streaming reader, from ANY reader state [st] *)
Theorem c05_clean_stream : forall g ids st,
  gfx_ok g -> 1 <= zlen (g_data g) -> Forall id_ok ids ->
  stream_from false st (flat_map (gfx_lines g) ids)
  = clean_stream_out g (Z.to_nat (total_lines (zlen (g_data g)))) ids (plain_sp (flat_map (gfx_lines g) ids)).
Proof. exact (clean_stream_plain false). Qed.
Print Assumptions c05_clean_stream.

(* what clean_stream_out says for a run without other lines: nothing, then the image *)
Theorem c05_clean_stream_shape : forall ls final, ls <> [] ->
  sp_outs (plain_sp ls) final = repeat [] (List.length ls - 1) ++ [final].
Proof. exact sp_outs_plain. Qed.
Print Assumptions c05_clean_stream_shape.

(* unrelated lines before any chunk line and after the last one, from any reader state *)
Theorem c05_clean_stream_interleaved : forall g ids sp tail st,
  gfx_ok g -> 1 <= zlen (g_data g) -> Forall id_ok ids ->
  map snd sp = flat_map (gfx_lines g) ids -> sp_others_ok sp -> Forall other_line tail ->
  stream_from false st (unspace sp ++ tail)
  = clean_stream_out g (Z.to_nat (total_lines (zlen (g_data g)))) ids sp ++ nones tail.
Proof. exact (clean_stream_general false). Qed.
Print Assumptions c05_clean_stream_interleaved.

(* the reader serialised with encoding/json and restored between ANY two lines (and from any
   state, in particular ASCIIreader{}), with or without unrelated lines *)
Theorem c05_clean_stream_serialised : forall g ids sp tail st,
  gfx_ok g -> 1 <= zlen (g_data g) -> Forall id_ok ids ->
  map snd sp = flat_map (gfx_lines g) ids -> sp_others_ok sp -> Forall other_line tail ->
  stream_from true st (unspace sp ++ tail)
  = clean_stream_out g (Z.to_nat (total_lines (zlen (g_data g)))) ids sp ++ nones tail.
Proof. exact (clean_stream_general true). Qed.
Print Assumptions c05_clean_stream_serialised.

(* the JSON image is the identity on every reader whose strings are ASCII (all states reachable
   from ASCII lines: c05_reader_ascii_kept), in particular on the zero value *)
Theorem c05_json_reader_ascii : forall st, reader_ascii st -> json_reader st = st.
Proof. exact json_reader_ascii. Qed.
Print Assumptions c05_json_reader_ascii.

Theorem c05_reader_ascii_kept : forall st l, reader_ascii st -> ascii l -> reader_ascii (fst (parse st l)).
Proof. exact parse_ascii. Qed.
Print Assumptions c05_reader_ascii_kept.

(* ---------------------------------------------------------------- every history
   [ls] is ANY list of byte strings.  classify reads each line with the protocol grammar. *)
(* batch: every delivered image is Valid (chunks 0..N in order of the transfer started by the
   most recent chunk 0 of its format and targets, with that chunk's dimensions/offset) and no
   started transfer is delivered twice *)
Theorem c05_safety_batch : forall ls,
  forallb (valid_b (map classify ls)) (to_ds (batch_gfx ls)) = true
  /\ at_most_once_b (map classify ls) (to_ds (batch_gfx ls)) = true.
Proof. exact safety_batch. Qed.
Print Assumptions c05_safety_batch.

(* batch, "never altered after delivery": the decoder keeps ONE *HWCGfx it appends to and hands
   that pointer out; resolved against the store at the END of the call every delivered
   pointer reads what it read when it was delivered; and feeding more lines only adds
   deliveries *)
Theorem c05_stable_batch : forall ls, batch_heap ls = batch_gfx ls.
Proof. exact batch_heap_stable. Qed.
Print Assumptions c05_stable_batch.

Theorem c05_stable_batch_prefix : forall ls more, exists extra, batch_gfx (ls ++ more) = batch_gfx ls ++ extra.
Proof. exact batch_prefix_stable. Qed.
Print Assumptions c05_stable_batch_prefix.

(* streaming, from ASCIIreader{} (every reachable state is the state after some history) *)
Theorem c05_safety_stream : forall ls,
  let h := map sline ls in
  let ds := stream_ds 0 (stream_from false reader0 ls) in
  forallb (valid_b h) ds = true /\ at_most_once_b h ds = true.
Proof.
  exact (fun ls => conj (Chain_valid _ _ _ (safety_stream_chain ls)) (Chain_once _ _ _ (safety_stream_chain ls))).
Qed.
Print Assumptions c05_safety_stream.

(* streaming with the JSON round trip between any two lines.  Hypothesis: the lines are ASCII
   (the property's alphabet of chunk and pass-through lines is; encoding/json replaces invalid
   UTF-8 in buffered lines by U+FFFD - modelled in json_string and tied, not covered here) *)
Theorem c05_safety_stream_serialised : forall ls, Forall ascii ls ->
  let h := map sline ls in
  let ds := stream_ds 0 (stream_from true reader0 ls) in
  forallb (valid_b h) ds = true /\ at_most_once_b h ds = true.
Proof.
  exact (fun ls H => conj (Chain_valid _ _ _ (safety_stream_ser_chain ls H)) (Chain_once _ _ _ (safety_stream_ser_chain ls H))).
Qed.
Print Assumptions c05_safety_stream_serialised.

(* ---------------------------------------------------------------- non-vacuity *)
Definition ex_g : gfx := mkGfx 1 8 8 true 3 4 (map (fun n => Z.of_nat n mod 256) (seq 0 341)).

(* 341 bytes = 170 + 170 + 1: three lines per id, two ids; hypotheses of the clean theorems hold *)
Example c05_nonvacuous_clean :
  gfx_ok ex_g /\ Forall id_ok [7; 4000000000] /\ 1 <= zlen (g_data ex_g)
  /\ map (fun l => zlen l) (gfx_lines ex_g 7) = [250; 240; 16]
  /\ batch_gfx (flat_map (gfx_lines ex_g) [7; 4000000000]) = [(2, ([7], ex_g)); (5, ([4000000000], ex_g))]
  /\ stream_from true reader0 (flat_map (gfx_lines ex_g) [7; 4000000000])
     = [[]; []; [([7], ex_g)]; []; []; [([4000000000], ex_g)]].
Proof.
  split; [unfold gfx_ok; vm_compute; intuition congruence|].
  split; [repeat constructor; unfold id_ok; lia|].
  split; [vm_compute; congruence|].
  split; [vm_compute; reflexivity|]. split; vm_compute; reflexivity.
Qed.

(* a history with a skipped chunk, a duplicate, a stray chunk after completion and a restart:
   only the clean transfer at the end is delivered, once (the three defects F1-F3 of the
   unrepaired code each delivered something else here) *)
Example c05_nonvacuous_history :
  let ls := map str ["HWCg#1=0/2,8x8:QUFB"; "HWCg#1=2:Q0ND"; "HWCg#1=2:RERE";
                     "HWCg#1=0/1,8x8:QUFB"; "HWCg#1=1:QkJC"; "HWCg#1=1:Q0ND"; "HWCg#1=2:RERE"]%string in
  batch_gfx ls = [(4, ([1], mkGfx 0 8 8 false 0 0 [65; 65; 65; 66; 66; 66]))]
  /\ batch_heap ls = batch_gfx ls
  /\ stream_from false reader0 ls = [[]; []; []; []; [([1], mkGfx 0 8 8 false 0 0 [65; 65; 65; 66; 66; 66])]; []; []]
  /\ safe_b (map classify ls) (to_ds (batch_gfx ls)) = true.
Proof.
  cbv zeta. split; [vm_compute; reflexivity|]. split; [vm_compute; reflexivity|].
  split; vm_compute; reflexivity.
Qed.
