(* C07 — Every produced ASCII string is exactly one line; flattening loses no content.
   Only statements; each closed by [exact] of a lemma from Proofs/FlattenProofs.v / FlattenBytes.v.
   Model: Model/Flatten.v (strip_lb = stripLineBreaks, strip_lb_svg = stripLineBreaksSvg,
   one_line / one_lines = the final singleLines pass of BOTH encoders).  Spec: Spec/OneLine.v
   (nonws = the non-white-space characters in order, frame / unframe = the wire). *)
From RP Require Import Lib.Base Lib.Strings Lib.TrimSpace Model.Flatten Spec.OneLine
  Proofs.FlattenUtf8 Proofs.FlattenProofs Proofs.FlattenBytes.
From RP Require Import Model.MsgIn Model.EncIn Model.MsgOut Model.EncOut Proofs.FlattenEncoders.
Open Scope Z_scope.
Open Scope list_scope.

(* ---- exactly one line ---- *)
(* the flatteners never leave a line feed, for ALL byte strings *)
Theorem c07_strip_lb_no_lf : forall s, no_lf (strip_lb s).
Proof. exact strip_lb_no_lf. Qed.
Print Assumptions c07_strip_lb_no_lf.

Theorem c07_strip_lb_svg_no_lf : forall s, no_lf (strip_lb_svg s).
Proof. exact strip_lb_svg_no_lf. Qed.
Print Assumptions c07_strip_lb_svg_no_lf.

(* generic: whatever strings an encoder has collected (any bytes in any field), what it returns
   after its final pass [one_lines] holds no line feed.  Instantiated by the full encoder
   models: enc_in ms = Ok (one_lines ls), enc_out ms = Ok (one_lines ls). *)
Theorem c07_no_lf_returned : forall ls, Forall no_lf (one_lines ls).
Proof. exact one_lines_no_lf. Qed.
Print Assumptions c07_no_lf_returned.

(* the final pass changes nothing that was a single line already (all grammatical output) *)
Theorem c07_one_line_id : forall s, no_lf s -> one_line s = s.
Proof. exact one_line_id. Qed.
Print Assumptions c07_one_line_id.

(* consequence: each string + LF, split at LF, gives back exactly the strings *)
Theorem c07_frame_split : forall ls, Forall no_lf ls -> unframe (frame ls) = ls ++ [[]].
Proof. exact frame_split. Qed.
Print Assumptions c07_frame_split.

Theorem c07_frame_split_returned : forall ls, unframe (frame (one_lines ls)) = one_lines ls ++ [[]].
Proof. exact frame_split_one_lines. Qed.
Print Assumptions c07_frame_split_returned.

(* whole-encoder form: EVERY string either encoder model returns - messages with arbitrary bytes
   in every string field (titles, labels, model/serial/name/version/platform, register ids,
   address lists, JSON/SVG payloads, messages), every behaviour of the json oracles and of the
   flattening functions - is free of line feeds; hence writing each string followed by one LF and
   splitting the stream at LF recovers exactly the produced strings.  (Model/EncIn.v and
   Model/EncOut.v are tied to the code by the C01 / C03 correspondence checks.) *)
Theorem c07_no_lf_in : forall (json_enc : HWCState -> list Z) (nc_print : list Z -> list Z)
    (ms : list InboundMessage) (ls : list (list Z)),
  enc_in json_enc nc_print ms = Ok ls -> Forall no_lf ls.
Proof. exact no_lf_in. Qed.
Print Assumptions c07_no_lf_in.

Theorem c07_no_lf_out : forall (flat flat_svg : bytes -> bytes) (ords : list (list (Z * Z)))
    (ms : list (option out_msg)) (ls : list bytes),
  enc_out flat flat_svg ords ms = Ok ls -> Forall no_lf ls.
Proof. exact no_lf_out. Qed.
Print Assumptions c07_no_lf_out.

Theorem c07_frame_split_in : forall je ncp ms ls,
  enc_in je ncp ms = Ok ls -> unframe (frame ls) = ls ++ [[]].
Proof. exact frame_split_in. Qed.
Print Assumptions c07_frame_split_in.

Theorem c07_frame_split_out : forall f fs ords ms ls,
  enc_out f fs ords ms = Ok ls -> unframe (frame ls) = ls ++ [[]].
Proof. exact frame_split_out. Qed.
Print Assumptions c07_frame_split_out.

(* ---- flattening loses no content ---- *)
(* TrimSpace removes only white-space characters (all byte strings) *)
Theorem c07_trim_space_keeps : forall s, nonws (trim_space s) = nonws s.
Proof. exact nonws_trim_space. Qed.
Print Assumptions c07_trim_space_keeps.

(* line by line, for ALL byte strings (no hypothesis): the non-white-space characters of the
   flattened pieces, in order, are those of the text *)
Theorem c07_flatten_keeps_lines : forall s,
  concat (map nonws (map trim_space (split_on 10 s))) = nonws s
  /\ concat (map nonws (map svg_part (split_on 10 s))) = nonws s.
Proof. exact (fun s => conj (strip_lb_keeps_lines s) (strip_lb_svg_keeps_lines s)). Qed.
Print Assumptions c07_flatten_keeps_lines.

(* the joined result, for every text that is a sequence of characters (well-formed UTF-8,
   arbitrary characters, line feeds anywhere).  For ill-formed UTF-8 the joined string can
   differ: a line ending in a truncated sequence glued to a line starting with continuation
   bytes forms a NEW character (c07_flatten_keeps_joins states the exact condition). *)
Theorem c07_flatten_keeps : forall s, utf8_valid s = true ->
  nonws (strip_lb s) = nonws s /\ nonws (strip_lb_svg s) = nonws s.
Proof. exact flatten_keeps. Qed.
Print Assumptions c07_flatten_keeps.

Theorem c07_flatten_keeps_joins : forall s,
  (joins_clean (map trim_space (split_on 10 s)) -> nonws (strip_lb s) = nonws s)
  /\ (joins_clean (map svg_part (split_on 10 s)) -> nonws (strip_lb_svg s) = nonws s).
Proof. exact (fun s => conj (strip_lb_keeps s) (strip_lb_svg_keeps s)). Qed.
Print Assumptions c07_flatten_keeps_joins.

(* for EVERY byte string, well-formed or not: no byte outside the encodings of white-space characters
   is lost, added, changed or reordered (the clause Run/C07.v judges on ill-formed input, where
   "character" has no unambiguous meaning) *)
Theorem c07_flatten_keeps_bytes : forall s,
  hard_bytes (one_line (strip_lb s)) = hard_bytes s /\ hard_bytes (one_line (strip_lb_svg s)) = hard_bytes s.
Proof. exact flatten_keeps_bytes. Qed.
Print Assumptions c07_flatten_keeps_bytes.

(* TrimSpace alone, likewise *)
Theorem c07_trim_space_keeps_bytes : forall s, hard_bytes (trim_space s) = hard_bytes s.
Proof. exact hard_trim_space. Qed.
Print Assumptions c07_trim_space_keeps_bytes.

(* the linear-time twins the driver executes (List.rev replaced by rev_append) are the functions
   the theorems above speak about *)
Theorem c07_execution_twins : forall s,
  strip_lb_fast s = strip_lb s /\ strip_lb_svg_fast s = strip_lb_svg s
  /\ trim_space_fast s = trim_space s /\ split_on_fast 10 s = split_on 10 s.
Proof.
  exact (fun s => conj (strip_lb_fast_eq s) (conj (strip_lb_svg_fast_eq s) (conj (trim_space_fast_eq s) (split_on_fast_eq 10 s)))).
Qed.
Print Assumptions c07_execution_twins.

(* ---- non-vacuity ---- *)
(* "<svg>\n <path d=\"M 1 2\n  L 3 4\"/>\n</svg>\n" with a U+00A0 before a line end *)
Example c07_nonvacuous :
  let s := [60;115;118;103;62;10; 32;60;112;97;116;104;32;100;61;34;77;32;49;32;50;194;160;10;
            32;32;76;32;51;32;52;34;47;62;10; 60;47;115;118;103;62;10] in
  utf8_valid s = true
  /\ strip_lb_svg s = [60;115;118;103;62; 60;112;97;116;104;32;100;61;34;77;32;49;32;50;32;
                       76;32;51;32;52;34;47;62; 60;47;115;118;103;62; 32]
  /\ nonws (strip_lb_svg s) = nonws s /\ no_lf_b (strip_lb_svg s) = true
  /\ one_lines [[95;109;111;100;101;108;61;97;10;98]] = [[95;109;111;100;101;108;61;97;32;98]].
Proof.
  cbv zeta. split; [vm_compute; reflexivity|]. split; [vm_compute; reflexivity|].
  split; [vm_compute; reflexivity|]. split; vm_compute; reflexivity.
Qed.
From RP Require Import Model.MsgIn Model.EncIn Model.MsgOut Model.EncOut Proofs.FlattenEncoders.
