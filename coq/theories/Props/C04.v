(* C04 - Panel ASCII lines decode to exactly the events and information they denote.
   Only statements here; each closed by [exact] of a lemma from Proofs/.

   Model: Model/DecOut.v (RawPanelASCIIstringsToOutboundMessages AFTER the repair b4c6fa4 of F6:
          Raw is part of the event regex and its value is read from that regex; TrimExplode).
   Spec:  Spec/GrammarOut.v: read_out_line classifies EVERY byte string as
            WF strict reports | Malformed | NonGrammar;
          line_judgeable l = "l is strictly well-formed, or its keyword / key name is not part of
          the grammar".  Strictly well-formed covers: flow words; all seven event words with and
          without edge suffix, ids < 2^32, edges < 2^31, signed / unsigned 32-bit values; map
          entries; all 29 key names (text values non-empty without LF; numbers < 2^32; booleans
          0/1; panel types / health names; capability lists in any order with unknown names
          ignored; address lists with non-empty elements without surrounding white space);
          SysStat with any subset, order and repetition of the 20 fields; registers.
          Float fields: canonical decimals with one decimal and at most 3 integer digits
          (temperatures, |x| < 1000.0) or two decimals and at most 2 integer digits (voltage,
          |x| < 100.00) - stated in the reader ([read_dec]) and proved by a finite sweep.
          (The search oracle is wider than these theorems: Spec/SysExactOut.v also judges
          numerals of any length at float32 precision.)
   Outside the theorems: the JSON value of _networkConfig (encoding/json oracle). *)
From RP Require Import Lib.Base Lib.Sexp Lib.Strings Lib.FloatFmt Model.MsgOut Model.EncOut Model.DecOut
  Spec.DenoteOut Spec.GrammarOut Proofs.OutDecSkel Proofs.OutDecEvent Proofs.OutFloatSweep Proofs.OutDecSys
  Proofs.OutDecSound Proofs.OutCorollary.
From Coq Require Import String.
Open Scope Z_scope.

(* The property, for line lists of any length with non-grammar lines interleaved anywhere: the
   decoder returns messages whose reports, in order, are exactly the reports the reference
   reader assigns to the lines, in line order. [np] is the JSON oracle of _networkConfig.
   Full over the reader's strict domain; the only bound inside that domain is the digit bound
   of the three float fields (see c04_float_*_partial below). *)
Theorem c04_dec_out_sound : forall (np : bytes -> option bytes) ls,
  Forall (fun l => line_judgeable l = true) ls ->
  exists ms, dec_out np ls = Ok ms /\ flat_map den_out ms = flat_map sem_out_line ls.
Proof. exact dec_out_sound. Qed.
Print Assumptions c04_dec_out_sound.

(* one line: at most one message, carrying exactly the line's reports *)
Theorem c04_dec_line_sound : forall (np : bytes -> option bytes) l,
  line_judgeable l = true ->
  exists om, dec_out_line np l = Ok om /\
             match om with Some m => den_out m | None => [] end = sem_out_line l.
Proof. exact dec_line_sound. Qed.
Print Assumptions c04_dec_line_sound.

(* a line whose keyword or key name is not part of the grammar never produces an event or a report
   (all byte strings) *)
Theorem c04_dec_out_ignores_nongrammar : forall (np : bytes -> option bytes) l,
  read_out_line l = NonGrammar ->
  exists om, dec_out_line np l = Ok om /\ match om with Some m => den_out m | None => [] end = [].
Proof. exact dec_out_ignores_nongrammar. Qed.
Print Assumptions c04_dec_out_ignores_nongrammar.

(* a Press is reported as a press followed by a release *)
Theorem c04_press_is_down_then_up : forall (np : bytes -> option bytes) l id e,
  read_out_line l = WF true [REvent id EDown e; REvent id EUp e] ->
  exists m, dec_out_line np l = Ok (Some m) /\ den_out m = [REvent id EDown e; REvent id EUp e].
Proof. exact press_is_down_then_up. Qed.
Print Assumptions c04_press_is_down_then_up.

(* event lines alone (all seven words incl. Raw, edge suffix, 32-bit values) *)
Theorem c04_event_lines : forall (np : bytes -> option bytes) r rs,
  has_lf (str "HWC#" ++ r) = false -> read_event r = WF true rs ->
  exists om, dec_rest np (str "HWC#" ++ r) = Ok om /\ den_om om = rs.
Proof. exact event_line_sound. Qed.
Print Assumptions c04_event_lines.

(* float fields: the stored float32 prints back (rounded half-even at the protocol's precision)
   to the numeral that was read - all canonical numerals within the digit bounds, both signs.
   _partial: the property text says "full numeric ranges"; missing are numerals with more integer
   digits, other spellings (no / more decimals, exponents) and the exact float32 value itself -
   those are judged by the search oracle only (Spec/SysExactOut.v: nearest-even float32 of the
   decimal numeral, any length), not by a theorem. *)
Theorem c04_float_tenths_partial : forall s x, read_dec 1 s = Some (true, x) -> f32_scaled 1 (parse_float32 s) = x.
Proof. exact tenths_exact. Qed.
Print Assumptions c04_float_tenths_partial.

Theorem c04_float_hundredths_partial : forall s x, read_dec 2 s = Some (true, x) -> f32_scaled 2 (parse_float32 s) = x.
Proof. exact hundredths_exact. Qed.
Print Assumptions c04_float_hundredths_partial.

(* SysStat: any subset / order / repetition of fields, optional final ':' *)
Theorem c04_sysstat_line : forall v rs,
  v <> [] -> read_sys v = WF true rs -> [den_sys (ss_scan (split_on 58 v) empty_sys)] = rs.
Proof. exact sys_line_sound. Qed.
Print Assumptions c04_sysstat_line.

(* corollary C03 o C04: decoding the encoder's lines, when they are all strictly readable *)
Theorem c04_dec_enc_out : forall (flat flat_svg : bytes -> bytes) (np : bytes -> option bytes) ms msgs ords,
  all_some_msgs ms = Some msgs ->
  Forall (fun m => representable_outb flat flat_svg m = true) msgs ->
  orders_ok ords msgs ->
  exists ls, enc_out flat flat_svg ords ms = Ok ls /\
    (Forall (fun l => line_judgeable l = true) ls ->
     exists ms', dec_out np ls = Ok ms' /\ reports_equiv (flat_map den_out ms') (map den_out msgs)).
Proof. exact dec_enc_out. Qed.
Print Assumptions c04_dec_enc_out.

(* Non-vacuity: a line list with a Press with edge, a Raw event at the 32-bit boundary, a map
   entry, a permuted capability list with an unknown name, an address list, a SysStat line with a
   repeated field, a flag register with leading zeros, a flow word, and three lines that are not
   part of the grammar (an inbound HWCx# line, free text, the empty line) is in the domain, and
   these are its reports. *)
Example c04_nonvacuous :
  forallb line_judgeable demo_lines = true /\
  flat_map sem_out_line demo_lines =
  [REvent 5 EDown 2; REvent 5 EUp 2; REvent 4294967295 ERaw 123; RMap 12 3;
   RCaps [true; false; false; false; false; false; false; false; false; true; false; false; false];
   RList KLockIP [str "1.2.3.4"; str "5.6.7.8"];
   RSys 0 567 0 125 [0; 0; 0; 0; 0; 0; 0; 0] [false; false; false; false; false; true; false; false];
   RReg 1 (str "7") 1; RFlow 3].
Proof. exact (conj demo_lines_judgeable demo_lines_reports). Qed.
