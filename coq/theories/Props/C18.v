(* C18 - placeholder while the model is being tied; theorems follow. *)
From RP Require Import Lib.Base Model.Mono Model.Tile Spec.Tile.
Example c18_placeholder : text_in_range (mkText 0 0 0 0 [] false [] [] 0 0 None None false None None) = true.
Proof. reflexivity. Qed.
