(* C18 - Tile rendering is total, deterministic, clipped and inversion-exact.
   Only statements here; each closed by [exact] of a lemma from Proofs/Tile*.v.

   [tile t W H shrink border] is the model of WriteDisplayTileNew (Model/Tile.v): it returns
   [Ok image] or [Panic site].  The statements are for EVERY text state [t] (all integers -
   also outside int32 -, all byte strings, every presence pattern of the optional
   sub-messages), every size 0 <= W, H and every shrink / border value, unless a hypothesis
   says otherwise.  The pixel view [px], the active area [active], and the boolean
   predicates [size_ok], [clip_ok], [inversion_ok], [colours_ok], [rgb_ok], [oneline_ok],
   [twoline_ok] are those of Spec/Clip.v and Spec/Tile.v - the same functions the check
   evaluates on the implementation's output. *)
From RP Require Import Lib.Base Lib.Sexp Lib.Utf8 Lib.FloatTile Gen.Tables Model.Mono Model.Tile Spec.Clip Spec.Tile
  Proofs.OpsProofs Proofs.TileBasic Proofs.TileFloat Proofs.TileBar Proofs.TileTop.
From Coq Require Import String.

(* ---- total: no panic for any state and geometry (index colours 0..31 and beyond included) ---- *)
Theorem c18_tile_total : forall t W H shrink border, exists i, tile t W H shrink border = Ok i.
Proof. exact top_total. Qed.
Print Assumptions c18_tile_total.

(* the tables the renderer indexes, as regenerated from /repo: colour table non-empty with 6-bit
   entries, seven icons, every font-table index DrawChar / GetCharWidth can form is in range *)
Theorem c18_tables_ok : tables_ok = true.
Proof. exact tables_ok_true. Qed.
Print Assumptions c18_tables_ok.

(* ---- size: Width, Height, buffer length ceil(W/8)*H, all bytes < 256 ---- *)
Theorem c18_tile_size : forall t W H shrink border i,
  0 <= W -> 0 <= H -> tile t W H shrink border = Ok i ->
  size_ok W H (gW (ig i)) (gH (ig i)) (idata i) = true.
Proof. exact top_size. Qed.
Print Assumptions c18_tile_size.

(* ---- depends only on its inputs: the model is a function; and the one way the call changes
   its argument (filling absent sub-messages, [fill_text]) does not change a second rendering ---- *)
Theorem c18_tile_deterministic : forall t W H shrink border i j,
  tile t W H shrink border = Ok i -> tile t W H shrink border = Ok j -> i = j.
Proof. exact top_deterministic. Qed.
Print Assumptions c18_tile_deterministic.

Theorem c18_tile_refill : forall t W H shrink border,
  tile (fill_text t) W H shrink border = tile t W H shrink border.
Proof. exact top_refill. Qed.
Print Assumptions c18_tile_refill.

(* ---- clipped: a non-inverted tile lights no pixel outside the active area left by shrink
   and border; the quantifier covers the padding bits of the last byte of each row ---- *)
Theorem c18_tile_clipped : forall t W H shrink border i,
  0 <= W -> 0 <= H -> x_inv t = false -> tile t W H shrink border = Ok i ->
  forall c r, 0 <= c < 8 * ((W + 7) / 8) -> 0 <= r < H ->
    px ((W + 7) / 8) (idata i) c r = true -> active W H shrink border c r = true.
Proof. exact top_clipped. Qed.
Print Assumptions c18_tile_clipped.

Theorem c18_tile_clip_ok : forall t W H shrink border i,
  0 <= W -> 0 <= H -> x_inv t = false -> tile t W H shrink border = Ok i ->
  clip_ok W H shrink border (idata i) = true.
Proof. exact top_clip_ok. Qed.
Print Assumptions c18_tile_clip_ok.

(* ---- inversion: the same state inverted gives exactly the complement over [0,W) x [0,H)
   (padding bits equal, same length) ---- *)
Theorem c18_tile_inversion : forall t W H shrink border i0 i1,
  0 <= W -> 0 <= H ->
  tile (set_inverted t false) W H shrink border = Ok i0 ->
  tile (set_inverted t true) W H shrink border = Ok i1 ->
  inversion_ok W H (idata i0) (idata i1) = true.
Proof. exact top_inversion. Qed.
Print Assumptions c18_tile_inversion.

(* ---- centring (formats 10 / 11; default proportional mode = not fixed width, no extra
   spacing; no LF in the text; reported width <= active width, line height(s) <= active
   height): every lit pixel of the line lies between the columns
   border + floor((aw - sw)/2) and border + ceil((aw - sw)/2) + sw + one size step, where sw,
   line height and size step are computed by the SPEC from the state alone (Spec.Tile.centre_tstate:
   text font, TextWidth/TextHeight or UnformattedFontSize; sw = sum of the glyph advances of the
   runes the string decodes to, minus one size step) - not taken from the renderer.
   Reading of "centred to within one pixel": it is the METRIC box [x0, x0 + sw) - what
   StrWidth reports and callers centre with - whose left and right margins differ by 0 or 1;
   the ink lies in that box extended by one size step (C20's ink box: glyphs of characters
   outside the font are drawn one column wider than their reported width; blank leading /
   trailing glyph columns make the ink narrower).  A string containing LF (also through rune
   truncation, e.g. U+010A) is not a one-line text: RenderText moves to column 0 (C20, F16).
   For format 11, line 1 is the ink above the middle row of the active area, line 2 the ink
   from it downwards. ---- *)
Theorem c18_oneline_centred : forall t W H shrink border i,
  0 <= W -> 0 <= H -> 0 <= border -> x_inv t = false -> tile t W H shrink border = Ok i ->
  oneline_ok t W H shrink border (idata i) = true.
Proof. exact top_oneline. Qed.
Print Assumptions c18_oneline_centred.

Theorem c18_twoline_centred : forall t W H shrink border i,
  0 <= W -> 0 <= H -> 0 <= border -> x_inv t = false -> tile t W H shrink border = Ok i ->
  twoline_ok t W H shrink border (idata i) = true.
Proof. exact top_twoline. Qed.
Print Assumptions c18_twoline_centred.

(* ---- strength bar: the float64 rounding is monotone, hence the bar width
   wbar(value - rangeLow, rangeHigh - rangeLow, activeWidth) never shrinks when the value
   grows (any active width, any integers); mirrored for a reversed range; no scale at all for
   a degenerate range; and wbar IS the width of the filled rectangle in the tile's op list ---- *)
Theorem c18_rnd53_monotone : forall n1 d1 n2 d2,
  0 < d1 -> 0 < d2 -> n1 * d2 <= n2 * d1 -> fle (rnd53 n1 d1) (rnd53 n2 d2).
Proof. exact rnd53_mono. Qed.
Print Assumptions c18_rnd53_monotone.

Theorem c18_bar_monotone : forall rl rh aw v v',
  rl < rh -> v <= v' -> wbar (v - rl) (rh - rl) aw <= wbar (v' - rl) (rh - rl) aw.
Proof. exact bar_monotone. Qed.
Print Assumptions c18_bar_monotone.

Theorem c18_bar_monotone_reversed : forall rl rh aw v v',
  rh < rl -> 0 <= aw -> v <= v' -> wbar (v' - rl) (rh - rl) aw <= wbar (v - rl) (rh - rl) aw.
Proof. exact bar_monotone_reversed. Qed.
Print Assumptions c18_bar_monotone_reversed.

Theorem c18_bar_degenerate : forall t p s,
  sc_rh (the_scale t) = sc_rl (the_scale t) -> body_scale t p s = s.
Proof. exact bar_degenerate. Qed.
Print Assumptions c18_bar_degenerate.

Theorem c18_bar_in_op_list : forall t p s,
  sc_type (the_scale t) = 1 -> sc_rh (the_scale t) <> sc_rl (the_scale t) ->
  let sc := the_scale t in
  let wb := wbar (x_int t - sc_rl sc) (sc_rh sc - sc_rl sc) (paw p) in
  snd (body_scale t p s) =
  snd s ++ DRoundRect 0 (pah p - 1) (pW p) 1 0 true
        :: (if wb >? 0 then [DFillRoundRect 0 (pah p - 3) wb 3 0 true] else []) ++ limit_marks t p.
Proof. exact body_scale_strength. Qed.
Print Assumptions c18_bar_in_op_list.

(* ---- colours: the colour registers of the returned image are the requested ones (2-bit
   quantised RGB / table entry / defaults, expanded to 5-6-5), for unsigned channel values and
   any index; and the RGB export is those two colours laid over the pixels ---- *)
Theorem c18_rgb_colours : forall t W H shrink border i,
  color_in_range (x_pix t) = true -> color_in_range (x_bg t) = true ->
  tile t W H shrink border = Ok i -> colours_ok t (ipixc i) (ibckg i) = true.
Proof. exact top_colours. Qed.
Print Assumptions c18_rgb_colours.

Theorem c18_rgb_export : forall t W H shrink border i,
  0 <= W -> 0 <= H -> tile t W H shrink border = Ok i ->
  rgb_ok W H (idata i) (ipixc i) (ibckg i) (rgb_slice i) = true.
Proof. exact top_rgb. Qed.
Print Assumptions c18_rgb_export.

(* ---- non-vacuity: concrete states meet the hypotheses and exercise the conclusions ---- *)
Definition ex_style (ufs : Z) := Some (mkStyle None (Some (mkFont 0 0 0)) false 0 0 ufs).
Definition ex10 := mkText 0 10 0 0 (str "MASTER") false [] [] 0 0 None (ex_style 1) false None None.
Definition ex11 := mkText 0 11 0 0 [] false (str "Cam 1") (str "PGM") 0 0 None (ex_style 1) false None None.
(* the F10 shape: label drawn at relative y = -3 with border 3 *)
Definition ex_f10 := mkText 0 7 0 0 [] false (str "AB") (str "C") 0 1 None
                            (Some (mkStyle None (Some (mkFont 0 2 0)) false 0 0 0)) false None None.
Definition ex_col := mkText 5 0 0 0 [] false [] [] 0 0 None None false
                            (Some (mkColor None (Some 25))) (Some (mkColor (Some (255, 128, 0)) None)).
Definition lit_any (r : res img) : bool :=
  match r with Ok i => existsb (fun b => negb (b =? 0)) (idata i) | Panic _ => false end.

Example c18_ex_in_range : text_in_range ex10 = true /\ text_in_range ex_f10 = true /\ text_in_range ex_col = true.
Proof. vm_compute. auto. Qed.

(* tiles with ink, one of them with a 3-pixel border and shrink: clip and size are not vacuous *)
Example c18_ex_lit : lit_any (tile ex10 64 32 1 2) = true /\ lit_any (tile ex_f10 64 32 0 3) = true.
Proof. vm_compute. auto. Qed.

(* the F10 input, on the repaired renderer: ink, and nothing outside the active area *)
Example c18_ex_f10_clipped :
  match tile ex_f10 64 32 0 3 with Ok i => clip_ok 64 32 0 3 (idata i) | Panic _ => false end = true.
Proof. vm_compute. reflexivity. Qed.

(* the centring hypotheses hold for ordinary states (so the conclusions say something) *)
Example c18_ex_oneline_applies :
  oneline_applies ex10 (active_w 64 1 2) (active_h 32 1 2) (line_width ex10 (x_title ex10)) (line_h ex10) = true
  /\ (line_width ex10 (x_title ex10), line_h ex10, size_step ex10) = (35, 8, 1).
Proof. vm_compute. auto. Qed.

Example c18_ex_twoline_applies :
  twoline_applies ex11 (active_w 64 0 0) (active_h 32 0 0) (line_width ex11 (x_l1 ex11)) (line_width ex11 (x_l2 ex11)) (line_h ex11) = true.
Proof. vm_compute. reflexivity. Qed.

(* a multi-byte UTF-8 string is measured by RUNES: "Gr\195\182\195\159e" (7 bytes) is 5 glyphs wide *)
Example c18_ex_runes :
  line_width ex10 [71; 114; 195; 182; 195; 159; 101] = line_width ex10 [71; 114; 246; 223; 101].
Proof. vm_compute. reflexivity. Qed.

(* bar widths: 25%, 50%, 1/3 of 112 (float rounding: 37), clamped below and above *)
Example c18_ex_bar : (wbar 25 100 64, wbar 50 100 64, wbar 1 3 112, wbar (-5) 100 64, wbar 500 100 64) = (16, 32, 37, 0, 64).
Proof. vm_compute. reflexivity. Qed.

(* index colour 25 (beyond the table: default entry, white) and RGB (255,128,0) -> red 31, green 21 *)
Example c18_ex_colours :
  match tile ex_col 8 8 0 0 with Ok i => (ipixc i, ibckg i) | Panic _ => (0, 0) end = (65535, 703)
  /\ color_in_range (x_pix ex_col) = true /\ color_in_range (x_bg ex_col) = true.
Proof. vm_compute. auto. Qed.
