From RP Require Import Lib.Base Model.Mono Spec.Clip.
Theorem placeholder : True. Proof. exact I. Qed.
Print Assumptions placeholder.
