(* C16 — Drawing never escapes the canvas or its clip region.
   Only statements here; each closed by [exact] of a lemma from Proofs/. *)
From RP Require Import Lib.Base Model.Mono Model.MonoConv Spec.Clip Proofs.PixelProofs Proofs.DrawProofs Proofs.OpsProofs Proofs.TailOps Proofs.EffColour.

(* A fresh canvas of any size >= 0 is well-formed: buffer length = ceil(W/8)*H, all bytes < 256. *)
Theorem c16_new_image_wf : forall w h, 0 <= w -> 0 <= h -> wf_img (new_image w h).
Proof. exact wfg_new_image. Qed.
Print Assumptions c16_new_image_wf.

(* DrawPixel, for all Z coordinates: well-formedness kept, and the pixel view changes exactly at
   (x+bx, y+by) when that lies in the clip rectangle - nowhere else (no other row, no padding bit). *)
Theorem c16_draw_pixel_frame : forall g x y col d,
  wfg g d ->
  wfg g (draw_pixel g x y col d) /\
  forall c r, 0 <= c < 8 * gwib g -> 0 <= r < gH g ->
    px (gwib g) (draw_pixel g x y col d) c r =
    if (c =? x + gbx g) && (r =? y + gby g) && in_clip g c r then xorb col (ginv g) else px (gwib g) d c r.
Proof. exact draw_pixel_px. Qed.
Print Assumptions c16_draw_pixel_frame.

Theorem c16_pixel_outside_dropped : forall g x y col d,
  in_clip g (x + gbx g) (y + gby g) = false -> draw_pixel g x y col d = d.
Proof. exact pixel_outside_dropped. Qed.
Print Assumptions c16_pixel_outside_dropped.

(* Every operation (all 19 kinds), any arguments: size kept, and any changed pixel of the
   buffer (padding columns included in the quantifier) lies in clip ∩ footprint. *)
Theorem c16_op_frame : forall (i : img) (o : op),
  wf_img i ->
  wf_img (run_op i o) /\
  gW (ig (run_op i o)) = gW (ig i) /\ gH (ig (run_op i o)) = gH (ig i) /\ gwib (ig (run_op i o)) = gwib (ig i) /\
  zlen (idata (run_op i o)) = zlen (idata i) /\
  forall c r, in_buffer (ig i) c r ->
    px (gwib (ig i)) (idata (run_op i o)) c r <> px (gwib (ig i)) (idata i) c r ->
    in_clip (ig i) c r = true /\ footprint (it i) o (c - gbx (ig i)) (r - gby (ig i)) = true.
Proof. exact op_frame. Qed.
Print Assumptions c16_op_frame.

Theorem c16_padding_untouched : forall (i : img) (o : op) c r,
  wf_img i -> gW (ig i) <= c < 8 * gwib (ig i) -> 0 <= r < gH (ig i) ->
  px (gwib (ig i)) (idata (run_op i o)) c r = px (gwib (ig i)) (idata i) c r.
Proof. exact op_padding. Qed.
Print Assumptions c16_padding_untouched.

(* Op lists of any length from any well-formed image (in particular from new_image). *)
Theorem c16_ops_frame : forall (ops : list op) (i : img),
  wf_img i ->
  wf_img (run_ops i ops) /\
  gW (ig (run_ops i ops)) = gW (ig i) /\ gH (ig (run_ops i ops)) = gH (ig i) /\ gwib (ig (run_ops i ops)) = gwib (ig i) /\
  zlen (idata (run_ops i ops)) = zlen (idata i) /\
  forall c r, in_buffer (ig i) c r ->
    px (gwib (ig i)) (idata (run_ops i ops)) c r <> px (gwib (ig i)) (idata i) c r ->
    exists pre o post, ops = pre ++ o :: post /\
      let j := run_ops i pre in
      in_clip (ig j) c r = true /\ footprint (it j) o (c - gbx (ig j)) (r - gby (ig j)) = true.
Proof. exact ops_frame. Qed.
Print Assumptions c16_ops_frame.

(* Canvases over caller buffers LONGER than the canvas needs (CreateFromBytes keeps the whole slice):
   "the pixel buffer keeps its size ... a pixel addressed outside the canvas is dropped" includes the
   bytes behind the last canvas row.  [with_tail i tl] = image [i] with [tl] appended to its buffer.
   Every operation list acts on it exactly as on [i] - so all statements above carry over to its
   pixel part - and the tail comes back byte for byte. *)
Theorem c16_ops_on_longer_buffer : forall (ops : list op) (i : img) (tl : list Z),
  wf_img i ->
  run_ops (with_tail i tl) ops = with_tail (run_ops i ops) tl.
Proof. exact ops_tail. Qed.
Print Assumptions c16_ops_on_longer_buffer.

Theorem c16_tail_untouched : forall (ops : list op) (i : img) (tl : list Z),
  wf_img i ->
  (idata (run_ops (with_tail i tl) ops) = (idata (run_ops i ops) ++ tl)%list) /\
  (skipn (length (idata (run_ops i ops))) (idata (run_ops (with_tail i tl) ops)) = tl).
Proof. exact ops_tail_bytes. Qed.
Print Assumptions c16_tail_untouched.

(* CreateFromBytes(w, h, data ++ tl), |data| = ceil(w/8)*h, is that image *)
Theorem c16_create_from_longer_bytes : forall w h data tl,
  0 <= w -> 0 <= h -> zlen data = ceil_div8 w * h ->
  (fst (create_from_bytes w h (data ++ tl)%list) = with_tail (fst (create_from_bytes w h data)) tl)
  /\ (snd (create_from_bytes w h (data ++ tl)%list) = true) /\ (snd (create_from_bytes w h data) = true).
Proof. exact create_from_bytes_tail. Qed.
Print Assumptions c16_create_from_longer_bytes.

(* Single pixels, straight lines and filled rectangles set EXACTLY the clipped footprint. *)
Theorem c16_exact : forall (i : img) (o : op) (col : bool),
  wf_img i -> exact_colour o = Some col ->
  forall c r, in_buffer (ig i) c r ->
    px (gwib (ig i)) (idata (run_op i o)) c r =
    if in_clip (ig i) c r && footprint (it i) o (c - gbx (ig i)) (r - gby (ig i))
    then xorb col (ginv (ig i)) else px (gwib (ig i)) (idata i) c r.
Proof. exact op_exact. Qed.
Print Assumptions c16_exact.

(* Requested colour and inversion flag act only through their exclusive-or - the EFFECTIVE colour: a
   history run on the canvas with the inversion flag (and the text colours) flipped, every colour
   argument and every InvertPixels / SetTextColor argument flipped, gives the same canvas state
   (flipped) and therefore the same pixels - for every operation, text included.  No operation can
   depend on the requested colour alone (seed C16-12 did: a "still blank" shortcut in FillRect). *)
Theorem c16_effective_colour : forall i ops,
  run_ops (flip_img i) (map flip_op ops) = flip_img (run_ops i ops)
  /\ idata (run_ops (flip_img i) (map flip_op ops)) = idata (run_ops i ops).
Proof. exact (fun i ops => conj (run_ops_flip ops i) (ops_flip_pixels i ops)). Qed.
Print Assumptions c16_effective_colour.

Example c16_nonvacuous_effective :
  let i := new_image 16 2 in
  idata (run_ops i [OInvert true; OPixel 3 1 false; OInvert false; OFillRect 0 0 16 1 true]) = [255; 255; 16; 0]
  /\ idata (run_ops (flip_img i) [OInvert false; OPixel 3 1 true; OInvert true; OFillRect 0 0 16 1 false]) = [255; 255; 16; 0].
Proof. vm_compute. split; reflexivity. Qed.

(* No panic: the only unchecked slice reads of the drawing code are the font tables; on the
   tables REGENERATED from /repo every index is in range (3 fonts x 2 modes x 256 chars). *)
Theorem c16_font_reads_in_range : font_reads_ok = true.
Proof. exact font_reads_ok_true. Qed.
Print Assumptions c16_font_reads_in_range.

(* Non-vacuity: a concrete well-formed image with a bounding box, an op that does change pixels. *)
Example c16_nonvacuous :
  let i := run_ops (new_image 12 5) [OSetBBox 2 1 7 3; OFillRect (-3) (-2) 30 30 true] in
  wf_img i /\ idata i = [255; 128; 255; 128; 255; 128; 255; 128; 0; 0] /\
  exact_colour (OFillRect (-3) (-2) 30 30 true) = Some true.
Proof.
  split; [|split; reflexivity].
  apply (proj1 (ops_frame _ _ (wfg_new_image 12 5 ltac:(lia) ltac:(lia)))).
Qed.

Example c16_nonvacuous_tail :
  let i := new_image 12 2 in
  idata (run_ops (with_tail i [18; 52]) [OSetBBox 0 0 12 9; OFillRect 0 0 12 9 true]) = [255; 240; 255; 240; 18; 52].
Proof. vm_compute. reflexivity. Qed.
