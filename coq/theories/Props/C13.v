(* C13 — Topology look-ups resolve type plus override correctly and never mutate.
   Only statements here; each closed by [exact] of a lemma from Proofs/TopoLookup.v.
   Model: Model/Topo.v (topology.go:73-232, 320-430).  Spec: Spec/Topo.v.
   The clause "no look-up changes the topology's serialised form" is a fact about Go memory:
   in the model the look-ups are pure functions that do not return a topology at all; for the
   code it is TIED on every run (the harness compares ToJSON() and a deep fingerprint before
   and after every single look-up; oracle tag c13-mutated), not proved. *)
From RP Require Import Lib.Base Lib.Sexp Lib.Strings Model.Topo Spec.Topo Proofs.TopoLookup.
From Coq Require Import String.

(* The indexed base type: the index entry of the component's type, the all-zero definition
   when the type is not indexed (Go's map look-up), for every index with distinct keys. *)
Theorem c13_base_is_indexed_type : forall t h,
  NoDup (keys (tpIndex t)) -> base_ok t h (base_of t h).
Proof. exact base_of_ok. Qed.
Print Assumptions c13_base_is_indexed_type.

(* GetTypeDefWithOverride, every topology and component: the result is the UNIQUE definition
   whose eleven attributes each follow the overlay rule (override value iff non-empty). *)
Theorem c13_resolve1_spec : forall t h r,
  resolved_ok (base_of t h) (hOv h) r = true <-> r = resolve1 t h.
Proof. exact resolve1_spec. Qed.
Print Assumptions c13_resolve1_spec.

(* the same, attribute by attribute, as equations *)
Theorem c13_resolve1_attributes : forall base o,
  let r := overlay1 base o in
  tW r = overlay ne_pos tW base o /\ tH r = overlay ne_pos tH base o /\
  tOut r = overlay ne_str tOut base o /\ tIn r = overlay ne_str tIn base o /\
  tDesc r = overlay ne_str tDesc base o /\ tExt r = overlay ne_str tExt base o /\
  tSubidx r = overlay ne_pos tSubidx base o /\ tRotate r = overlay ne_rot tRotate base o /\
  tDisp r = overlay ne_disp tDisp base o /\ tSub r = overlay ne_sub tSub base o /\
  tRender r = overlay ne_str tRender base o.
Proof. exact overlay1_spec. Qed.
Print Assumptions c13_resolve1_attributes.

Theorem c13_resolve1_with_override : forall t h o, hOv h = Some o -> resolve1 t h = overlay1 (base_of t h) o.
Proof. exact resolve1_some. Qed.
Print Assumptions c13_resolve1_with_override.

Theorem c13_resolve1_without_override : forall t h, hOv h = None -> resolve1 t h = base_of t h.
Proof. exact resolve1_none. Qed.
Print Assumptions c13_resolve1_without_override.

(* Unknown ids: (-1,-1), "", error "No HWC found for <id>", empty definition, empty component. *)
Theorem c13_unknown_id : forall t id,
  ~ In id (map hId (tpHWc t)) ->
  get_xy t id = notfound_xy /\ get_text t id = notfound_text /\ get_type t id = inr (notfound_msg id).
Proof. exact unknown_id_results. Qed.
Print Assumptions c13_unknown_id.

Theorem c13_unknown_id_reactor : forall t id,
  ~ In (wrap32 id) (map hId (tpHWc t)) ->
  resolve2_id t id = Ok zero_td /\ hwc_def_id t id = zero_hwc.
Proof. exact unknown_id_results2. Qed.
Print Assumptions c13_unknown_id_reactor.

(* Known ids (duplicates allowed): the answer is that of the FIRST component carrying the id. *)
Theorem c13_known_id : forall t id pre h post,
  tpHWc t = pre ++ h :: post -> hId h = id -> ~ In id (map hId pre) ->
  get_xy t id = (hX h, hY h) /\ get_text t id = hTxt h /\ get_type t id = inl (resolve1 t h).
Proof. exact known_id_results. Qed.
Print Assumptions c13_known_id.

Theorem c13_with_display : forall t id,
  In id (get_with_display t) <-> exists h, In h (tpHWc t) /\ hId h = id /\ tDisp (resolve1 t h) <> None.
Proof. exact get_with_display_spec. Qed.
Print Assumptions c13_with_display.

(* Both resolver entry points agree on the nine attributes they share, for every component
   whose type is indexed; the second keeps the base type's description and render hints. *)
Theorem c13_resolvers_agree : forall t pre h post base,
  tpHWc t = pre ++ h :: post ->
  idx_find (hType h) (tpIndex t) = Some base ->
  exists d2, resolve2_idx t (zlen pre) = Ok d2 /\ shared9 d2 (resolve1 t h) = true /\
             tDesc d2 = tDesc base /\ tRender d2 = tRender base.
Proof. exact resolvers_agree_idx. Qed.
Print Assumptions c13_resolvers_agree.

Theorem c13_resolvers_agree_by_id : forall t id pre h post base,
  0 <= id < 4294967296 ->
  tpHWc t = pre ++ h :: post -> hId h = id -> ~ In id (map hId pre) ->
  idx_find (hType h) (tpIndex t) = Some base ->
  exists d1 d2, get_type t id = inl d1 /\ resolve2_id t id = Ok d2 /\ shared9 d2 d1 = true.
Proof. exact resolvers_agree_id. Qed.
Print Assumptions c13_resolvers_agree_by_id.

(* Derived predicates depend only on the resolved definition - in fact only on its input,
   output and extended kinds, display and sub-elements - and the five kind predicates are
   functions of the first comma-separated token of the input kind. *)
Theorem c13_predicates_depend_on_resolved : forall d d',
  tIn d = tIn d' -> tOut d = tOut d' -> tExt d = tExt d' -> tDisp d = tDisp d' -> tSub d = tSub d' ->
  preds_of d = preds_of d'.
Proof. exact predicates_depend_on_view. Qed.
Print Assumptions c13_predicates_depend_on_resolved.

Theorem c13_predicates_first_token : forall d,
  is_button d = button_spec d /\ is_binary d = binary_spec d /\ is_pulsed d = pulsed_spec d /\
  is_absolute d = absolute_spec d /\ is_intensity d = intensity_spec d.
Proof. exact predicates_spec. Qed.
Print Assumptions c13_predicates_first_token.

(* Non-vacuity: a component with an override that replaces some attributes and leaves the
   others; both resolvers; "b4,x" is a button. *)
Example c13_nonvacuous :
  let base := TypeDef 100 50 (str "rgb"%string) (str "b4,x"%string) (str "Button"%string) [] 2 0 None [] (str "txt"%string) in
  let ov := TypeDef 0 70 [] [] (str "Other"%string) [] (-1) 2147483648 (Some (Disp 64 32 (-1) [] 0 0)) [] [] in
  let h := HWc 3 10 20 (str "A|B"%string) 5 (Some ov) 0 0 in
  let t := Topo [] [HWc 3 1 1 [] 0 None 0 0; h] [(5, base)] in
  resolve1 t h = TypeDef 100 70 (str "rgb"%string) (str "b4,x"%string) (str "Other"%string) [] 2 0 (Some (Disp 64 32 (-1) [] 0 0)) [] (str "txt"%string)
  /\ resolve2_idx t 1 = Ok (TypeDef 100 70 (str "rgb"%string) (str "b4,x"%string) (str "Button"%string) [] 2 0 (Some (Disp 64 32 (-1) [] 0 0)) [] (str "txt"%string))
  /\ get_xy t 3 = (1, 1) /\ get_xy t 4 = (-1, -1) /\ is_button (resolve1 t h) = true.
Proof. vm_compute. repeat split. Qed.
