(* C17 — Pixel-format conversions agree with each other and with the mono bitmap.
   Only statements here; each closed by [exact] of a lemma from Proofs/.

   Vocabulary: Model/MonoConv.v (rgb_slice = GetImgSliceRGB, gray_slice = GetImgSliceGray,
   oled_color = SetOLEDPixelColor/SetOLEDBckgColor, rgb16_to_gray = RGB16BitToGray,
   to_image_loop / from_image = ConvertToImage / CreateFromImage, *_loop = the Go loops over an
   abstract image.RGBA raster with CHECKED reads of the data slice (out of range = Panic);
   gfx = HWCGfx {type 0 MONO / 1 RGB16bit / 2 Gray4bit, W, H, data}), Spec/Conv.v (the documented
   formats in plain / and mod arithmetic: rgb_export_ok, gray_export_ok, rgb565_of_6bit,
   luma_nibble, visible_equal, covered, expansion, expansion_ok, agree_ok).
   image.RGBA and image/png are oracles: the raster contract (reads outside = zero colour,
   writes outside dropped) is assumed; the harness decodes the PNG bytes again before comparing. *)
From RP Require Import Lib.Base Model.Mono Model.MonoConv Spec.Clip Spec.TextBox Spec.Conv
  Proofs.ConvLoops Proofs.ConvSweeps Proofs.ConvExports Proofs.ConvRound Proofs.ConvAgree.

(* ---------- RGB565 export: all canvas sizes (0 and odd included), all bit patterns ---------- *)
Theorem c17_rgb_size_pixel : forall i,
  0 <= gW (ig i) -> 0 <= gH (ig i) -> colour16_ok (ipixc i) -> colour16_ok (ibckg i) ->
  zlen (rgb_slice i) = 2 * gW (ig i) * gH (ig i) /\
  forall x y, 0 <= x < gW (ig i) -> 0 <= y < gH (ig i) ->
    let c := pixel_colour (gwib (ig i)) (idata i) (ipixc i) (ibckg i) x y in
    let k := y * gW (ig i) + x in
    znth 0 (rgb_slice i) (2 * k) = c / 256 /\ znth 0 (rgb_slice i) (2 * k + 1) = c mod 256.
Proof. exact rgb_export. Qed.
Print Assumptions c17_rgb_size_pixel.

Theorem c17_rgb_export_ok : forall i,
  0 <= gW (ig i) -> 0 <= gH (ig i) -> colour16_ok (ipixc i) -> colour16_ok (ibckg i) ->
  rgb_export_ok (gW (ig i)) (gH (ig i)) (gwib (ig i)) (idata i) (ipixc i) (ibckg i) (rgb_slice i) = true.
Proof. exact rgb_export_ok_holds. Qed.
Print Assumptions c17_rgb_export_ok.

(* ---------- 4-bit grey export, even widths: W*H/2 bytes, high nibble = left pixel,
   nibble = luma of the configured colour ---------- *)
Theorem c17_gray_size_nibbles : forall i,
  0 <= gW (ig i) -> 0 <= gH (ig i) -> gW (ig i) mod 2 = 0 -> colour16_ok (ipixc i) -> colour16_ok (ibckg i) ->
  zlen (gray_slice i) = gW (ig i) * gH (ig i) / 2 /\
  forall x y, 0 <= x < gW (ig i) -> 0 <= y < gH (ig i) ->
    nibble_at (gray_slice i) (y * gW (ig i) + x) =
    luma_nibble (pixel_colour (gwib (ig i)) (idata i) (ipixc i) (ibckg i) x y).
Proof. exact gray_export. Qed.
Print Assumptions c17_gray_size_nibbles.

Theorem c17_gray_export_ok : forall i,
  0 <= gW (ig i) -> 0 <= gH (ig i) -> gW (ig i) mod 2 = 0 -> colour16_ok (ipixc i) -> colour16_ok (ibckg i) ->
  gray_export_ok (gW (ig i)) (gH (ig i)) (gwib (ig i)) (idata i) (ipixc i) (ibckg i) (gray_slice i) = true.
Proof. exact gray_export_ok_holds. Qed.
Print Assumptions c17_gray_export_ok.

(* every RGB565 colour (arithmetic proof: no uint16/uint32 wrap fires): RGB16BitToGray returns a byte whose high nibble is the luma *)
Theorem c17_gray_luma : forall c, colour16_ok c -> rgb16_to_gray c / 16 = luma_nibble c /\ 0 <= rgb16_to_gray c < 256.
Proof. exact gray_luma. Qed.
Print Assumptions c17_gray_luma.

(* ---------- all 64 six-bit colours, both setters (one model function: identical bodies) ---------- *)
Theorem c17_colour565 : forall c, 0 <= c < 64 -> oled_color c = rgb565_of_6bit c.
Proof. exact colour565. Qed.
Print Assumptions c17_colour565.

Theorem c17_colour_is_16bit : forall c, colour16_ok (oled_color c).
Proof. exact colour565_range. Qed.
Print Assumptions c17_colour_is_16bit.

(* ---------- image object round trip ----------
   any mono image whose buffer holds at least wib*H bytes: ConvertToImage(inv) does not panic,
   CreateFromImage of the result has the same W, H, wib, exactly wib*H bytes, every VISIBLE
   pixel = original xor inv (inv = false: reproduced; true: complemented); padding bits become 1 *)
Theorem c17_image_roundtrip : forall inv i, mono_ok i ->
  exists r, to_image_loop inv i = Ok r /\
    let i' := from_image r in
    let wib := gwib (ig i) in
    gW (ig i') = gW (ig i) /\ gH (ig i') = gH (ig i) /\ gwib (ig i') = wib /\ zlen (idata i') = wib * gH (ig i) /\
    (forall x y, 0 <= x < gW (ig i) -> 0 <= y < gH (ig i) ->
       px wib (idata i') x y = xorb inv (px wib (idata i) x y)) /\
    (forall x y, gW (ig i) <= x < 8 * wib -> 0 <= y < gH (ig i) -> px wib (idata i') x y = true).
Proof. exact image_roundtrip. Qed.
Print Assumptions c17_image_roundtrip.

Theorem c17_image_roundtrip_ok : forall inv i, mono_ok i ->
  exists r, to_image_loop inv i = Ok r /\
    visible_equal (gW (ig i)) (gH (ig i)) (gwib (ig i)) (idata i) (idata (from_image r)) inv = true.
Proof. exact image_roundtrip_ok. Qed.
Print Assumptions c17_image_roundtrip_ok.

(* ---------- graphics states: no panic for ANY data length, declared sizes ---------- *)
Theorem c17_short_data_total_direct : forall g width height, 0 <= gw g -> 0 <= gh g ->
  exists r, rwp_to_image_loop g width height = Ok r /\ rw r = width /\ rh r = height /\
    forall X Y, rat r X Y = rwp_at (zlen (gdata g)) (znth 0 (gdata g)) (gtype g) (gw g) (gh g) width height X Y.
Proof. exact rwp_to_image_ok. Qed.
Print Assumptions c17_short_data_total_direct.

Theorem c17_short_data_total_png : forall g, 0 <= gw g -> 0 <= gh g ->
  exists o, gfx_state_image_loop g = Ok o /\
    match o with
    | Some r => (gtype g = 0 \/ gtype g = 1 \/ gtype g = 2) /\ rw r = gw g /\ rh r = gh g /\ forall X Y, rat r X Y = gfx_state_at g X Y
    | None => gtype g <> 0 /\ gtype g <> 1 /\ gtype g <> 2
    end.
Proof. exact gfx_state_ok. Qed.
Print Assumptions c17_short_data_total_png.

Theorem c17_short_data_total_rgb : forall w h data, 0 <= w -> 0 <= h ->
  exists r, img_from_rgb_loop w h data = Ok r /\ rw r = w /\ rh r = h /\
    forall X Y, rat r X Y = img_from_at (zlen data) (znth 0 data) 1 w h X Y.
Proof. exact img_from_rgb_ok. Qed.
Print Assumptions c17_short_data_total_rgb.

Theorem c17_short_data_total_gray : forall w h data, 0 <= w -> 0 <= h ->
  exists r, img_from_gray_loop w h data = Ok r /\ rw r = w /\ rh r = h /\
    forall X Y, rat r X Y = img_from_at (zlen data) (znth 0 data) 2 w h X Y.
Proof. exact img_from_gray_ok. Qed.
Print Assumptions c17_short_data_total_gray.

(* ---------- documented expansion wherever the data covers the image ---------- *)
(* one statement for the three formats: a covered cell holds v*255/31, v*255/63 (RGB565 channels),
   n*255/15 (grey nibble, high nibble first), white/black (mono bit), opaque *)
Theorem c17_expansion_cell : forall ty W data x y,
  0 <= W -> 0 <= x < W -> 0 <= y -> data_ok data ->
  cell_at (zlen data) (znth 0 data) ty W x y =
  if covered ty W (zlen data) x y then Some (expansion ty W data x y) else None.
Proof. exact cell_expansion. Qed.
Print Assumptions c17_expansion_cell.

(* RwpImgToImage: any target canvas (smaller or larger), image centred with truncating /2 *)
Theorem c17_expansion_direct : forall g width height,
  0 <= gw g -> 0 <= gh g -> data_ok (gdata g) ->
  exists r, rwp_to_image_loop g width height = Ok r /\ rw r = width /\ rh r = height /\
    forall x y, 0 <= x < gw g -> 0 <= y < gh g ->
      covered (gtype g) (gw g) (zlen (gdata g)) x y = true ->
      r_in width height (x + centre_offset width (gw g)) (y + centre_offset height (gh g)) = true ->
      rat r (x + centre_offset width (gw g)) (y + centre_offset height (gh g)) = expansion (gtype g) (gw g) (gdata g) x y.
Proof. exact rwp_expansion. Qed.
Print Assumptions c17_expansion_direct.

(* ConvertGfxStateToPngBytes (the image handed to png.Encode): the three formats, ANY data length.
   On the tree as found this was false for MONO data shorter than ceil(W/8)*H (F15: the data were
   discarded and the PNG was black); repaired in /repo 645e4d4, the model follows the repair. *)
Theorem c17_expansion_png : forall g,
  0 <= gw g -> 0 <= gh g -> data_ok (gdata g) ->
  gtype g = 0 \/ gtype g = 1 \/ gtype g = 2 ->
  exists r, gfx_state_image_loop g = Ok (Some r) /\ rw r = gw g /\ rh r = gh g /\
    forall x y, 0 <= x < gw g -> 0 <= y < gh g ->
      covered (gtype g) (gw g) (zlen (gdata g)) x y = true ->
      rat r x y = expansion (gtype g) (gw g) (gdata g) x y.
Proof. exact gfx_state_expansion. Qed.
Print Assumptions c17_expansion_png.

Theorem c17_expansion_ok_png : forall g,
  0 <= gw g -> 0 <= gh g -> data_ok (gdata g) ->
  gtype g = 0 \/ gtype g = 1 \/ gtype g = 2 ->
  exists r, gfx_state_image_loop g = Ok (Some r) /\ rw r = gw g /\ rh r = gh g /\
    expansion_ok (gtype g) (gw g) (gh g) (gdata g) (rat r) = true.
Proof. exact expansion_ok_gfx. Qed.
Print Assumptions c17_expansion_ok_png.

(* ---------- the alternative routines agree on covered pixels (all formats, any data length,
   any target canvas; pixels that fall off a smaller canvas are not compared) ---------- *)
Theorem c17_routines_agree : forall g width height,
  0 <= gw g -> 0 <= gh g -> data_ok (gdata g) ->
  gtype g = 0 \/ gtype g = 1 \/ gtype g = 2 ->
  exists r1 r2, rwp_to_image_loop g width height = Ok r1 /\ gfx_state_image_loop g = Ok (Some r2) /\
    agree_ok (gtype g) (gw g) (gh g) (zlen (gdata g)) width height
             (centre_offset width (gw g)) (centre_offset height (gh g)) (rat r1) (rat r2) = true.
Proof. exact routines_agree. Qed.
Print Assumptions c17_routines_agree.

(* the input that failed before the repair *)
Example c17_f15_regression :
  exists r1 r2, rwp_to_image_loop f15_gfx 16 4 = Ok r1 /\ gfx_state_image_loop f15_gfx = Ok (Some r2) /\
    covered 0 16 3 0 0 = true /\ rat r1 0 0 = c_white /\ rat r2 0 0 = c_white /\ rat r2 8 1 = c_black.
Proof. exact f15_regression. Qed.

(* ---------- non-vacuity ---------- *)
Example c17_nonvacuous_export :
  let i := set_bckg_color (set_pixel_color (fst (create_from_bytes 10 2 [129; 64; 255; 128])) 48) 3 in
  mono_ok i /\ gW (ig i) mod 2 = 0 /\ colour16_ok (ipixc i) /\ colour16_ok (ibckg i) /\
  ipixc i = 31 /\ ibckg i = 63488 /\
  firstn 6 (rgb_slice i) = [0; 31; 248; 0; 248; 0] /\ firstn 5 (gray_slice i) = [65; 17; 17; 20; 20].
Proof. vm_compute. repeat split; try reflexivity; try lia; intros; discriminate. Qed.

Example c17_nonvacuous_gfx :
  let g := mkGfx 1 2 1 [255; 255; 0; 31] in
  data_ok (gdata g) /\ covered 1 2 4 1 0 = true /\
  expansion 1 2 (gdata g) 0 0 = (255, 255, 255, 255) /\ expansion 1 2 (gdata g) 1 0 = (255, 0, 0, 255) /\
  expansion 2 4 [240; 90] 1 0 = (0, 0, 0, 255) /\ expansion 2 4 [240; 90] 2 0 = (85, 85, 85, 255).
Proof. vm_compute. repeat split; try reflexivity; repeat constructor; try lia; intros; discriminate. Qed.
