(* C11 - Connection lifecycle is sound under cancellation and panel loss at any point.
   Two models, both tied to the implementation by harness/net (Run/C11.v):
   (b) Model/Lifecycle.v - the main goroutine and the per-connection writer goroutines of
       ConnectToPanel as a transition system over shared exit / quit / socket / wait-group /
       context state; a run is ANY list of scheduler and environment choices (who steps next;
       dial succeeds or fails; a read delivers or fails; which ready select case is taken; when
       the context is cancelled).  The theorems below hold for ALL such lists.
   (a) Model/Client.v run_conn / bin_loop on a timed peer stream with a close at ANY instant
       (the panel drops the connection at any byte offset).
   ENVIRONMENT ASSUMPTION (the API contract in ConnectToPanel's doc comment): the caller keeps
   receiving from msgsFromPanel; a blocked channel send is not modelled.
   PARTIAL (DESIGN section 5): Go scheduler, kernel TCP, timers exercised by the tie, not
   modelled.  Not proved (checked by the oracle on every scenario): WHICH frames are delivered
   when the cancellation falls in the middle of a frame - c11_complete_frames_once covers loss of
   the panel at every byte offset; for cancellation only the time bound c11_returns_after_cancel
   and the fact that every read ends by the local close (c11_cancel_ends_connection) are proved. *)
From RP Require Import Lib.Base Lib.Varint Model.Net Model.Client Model.Lifecycle Spec.NetSpec
     Proofs.NetProofs Proofs.NetFrameProofs Proofs.NetLifeProofs Proofs.NetTimedProofs
     Model.Teardown Proofs.TeardownProofs.
Open Scope Z_scope.

(* connect and disconnect callbacks strictly alternate, starting with connect *)
Theorem c11_callbacks_alternate : forall cs, alternate true (cbs (snd (run init cs))) = true.
Proof. exact callbacks_alternate. Qed.
Print Assumptions c11_callbacks_alternate.

(* ... and when the call has returned, every connect has been followed by its disconnect: the next callback
   the alternation allows is a connect (expect_after ... = Some true).  A return out of an established
   connection without the disconnect report (seed C11-14: a `return` from inside the ASCII read loop) is
   not a run of the system; Run/C11.v judges it as c11-unbalanced *)
Theorem c11_callbacks_balanced_at_return : forall cs,
  s_m (fst (run init cs)) = MReturned -> expect_after true (cbs (snd (run init cs))) = Some true.
Proof. exact callbacks_balanced_at_return. Qed.
Print Assumptions c11_callbacks_balanced_at_return.

(* a disconnect is reported as cancelled only after the cancellation, and is then the last callback *)
Theorem c11_cancelled_flag_sound : forall cs,
  cancelled_last (cbs (snd (run init cs))) = true /\
  forall h1 h2, snd (run init cs) = h1 ++ LbDisconnect true :: h2 -> has_cancel h1 = true.
Proof. exact cancelled_flag_sound. Qed.
Print Assumptions c11_cancelled_flag_sound.

(* when the call has returned, every socket it opened is closed *)
Theorem c11_sockets_closed : forall cs, s_m (fst (run init cs)) = MReturned ->
  Forall (fun c => c_open c = false) (s_cs (fst (run init cs))).
Proof. exact sockets_closed. Qed.
Print Assumptions c11_sockets_closed.

(* wait-group accounting: the counter is always the call itself plus the writer AND watcher
   goroutines (one of each per connection, c_w / c_x) that are registered and have not yet executed
   wg.Done(); it never goes negative; after the return it counts exactly those *)
Theorem c11_wg_accounting : forall cs,
  let s := fst (run init cs) in
  s_wg s = main_c (s_m s) + count_started (s_cs s) /\ 0 <= s_wg s /\
  (s_m s = MReturned -> s_wg s = count_started (s_cs s)).
Proof. exact wg_accounting. Qed.
Print Assumptions c11_wg_accounting.

(* "After cancellation ... every internal goroutine finished (the supplied wait group drains)":
   for ALL schedules, whenever the counter is 0 after the call has been entered - so that a
   Wait() of the caller returns - the call has returned and every writer goroutine it ever
   created has run to its end.  Holds for the code as repaired by /repo c935b5d (wg.Add(1) for
   the writer goroutine is executed by the main goroutine before the `go` statement). *)
Theorem c11_wg_drains : forall cs,
  let s := fst (run init cs) in
  s_wg s = 0 -> s_m s <> MStart ->
  s_m s = MReturned /\ Forall (fun c => c_w c = WDone /\ c_x c = WDone) (s_cs s).
Proof. exact wg_drains. Qed.
Print Assumptions c11_wg_drains.

(* The defect found in the code before that commit (wg.Add(1) executed INSIDE the writer
   goroutine, a documented sync.WaitGroup misuse), kept as an example about the legacy step
   relation: a schedule in which the call has returned, the counter is 0 and the writer goroutine
   of a lost connection has not yet run - it then Adds on the drained group.  Confirmed on the
   real code through the verif hook (/repo fd89801, scenario wg-writer-held: wg.Wait() returned
   at 1062 ms, the goroutine finished at 1602 ms).  In the repaired system the same schedule
   leaves the counter at 2 (writer and watcher registered, neither has run). *)
Example c11_legacy_wg_gap :
  let s := fst (run_legacy init wg_gap_schedule) in
  s_m s = MReturned /\ s_wg s = 0 /\ (exists c, In c (s_cs s) /\ c_w c = WNotStarted) /\
  s_wg (fst (run_legacy init (wg_gap_schedule ++ [CWriter 0 WNone]))) = 1 /\
  s_wg (fst (run init wg_gap_schedule)) = 2.
Proof. exact legacy_wg_gap. Qed.


(* ---- cancellation against an ADVERSARIAL panel (Model/Teardown.v): it sends nothing and reads nothing,
   so a blocked Read or Write of the client ends only when the client closes its own socket.  Three
   goroutines per connection since /repo 02bcd7d: read loop, writer, watcher. ---- *)

(* after the cancellation, in every reachable state, either the call has left the connection and all
   three goroutines have finished, or one of them can move by itself *)
Theorem c11_teardown_progress : forall s, Reachable true s -> t_ctx s = true ->
  all_done s = true \/ internal s <> [].
Proof. exact progress_after_cancel. Qed.
Print Assumptions c11_teardown_progress.

(* ... and they cannot move for long: every run of internal steps from such a state has at most
   rank s <= 17 steps, and where it cannot be continued everything has finished.  "After cancellation
   the call returns within a bounded time with every internal goroutine finished", for every state the
   connection can be in - the writer blocked inside conn.Write included *)
Theorem c11_teardown_terminates : forall l s e, Reachable true s -> t_ctx s = true -> IntRun s l e ->
  (length l <= rank s)%nat /\ (internal e = [] -> all_done e = true).
Proof. exact teardown_terminates. Qed.
Print Assumptions c11_teardown_terminates.

Theorem c11_teardown_rank_bound : forall w s, Reachable w s -> (rank s <= 17)%nat.
Proof. exact rank_bound. Qed.
Print Assumptions c11_teardown_rank_bound.

(* the wait group counts exactly the writer and the watcher that have not finished, in both code versions *)
Theorem c11_teardown_wg : forall w s, Reachable w s ->
  t_wg s = (live (t_w s) + live (t_x s))%nat /\ (t_wg s = 0%nat -> t_w s = GDone /\ t_x s = GDone).
Proof. exact (fun w s H => conj (wg_counts w s H) (wg_zero_all_finished w s H)). Qed.
Print Assumptions c11_teardown_wg.

(* FINDING F19, the code before 02bcd7d (no watcher): connection established, the writer takes a
   message and blocks in Write, the context is cancelled - a reachable state in which the context IS
   cancelled, nothing has finished, and neither the library nor the environment has a step left.
   Confirmed on the real code by harness scenario writer-blocked-cancel (c11-no-return), repaired, and
   the scenario stays in the check; Run/C11.v compares the observed outcome with
   blocked_cancel_outcome true. *)
Theorem c11_legacy_blocked_writer_refuted :
  let s := blocked_then_cancelled false in
  Reachable false s /\ t_ctx s = true /\ all_done s = false /\ internal s = [] /\ env s = [].
Proof. exact legacy_blocked_writer_stuck. Qed.
Print Assumptions c11_legacy_blocked_writer_refuted.

Example c11_blocked_writer_outcomes :
  blocked_cancel_outcome true = Some true /\ blocked_cancel_outcome false = None /\
  Reachable true (blocked_then_cancelled true).
Proof. exact (conj (proj1 repaired_blocked_writer_returns) (conj (proj2 repaired_blocked_writer_returns) (blocked_reachable true))). Qed.

(* the panel drops the connection at ANY instant after ANY prefix of its stream (every byte
   offset): exactly the frames completely received before the drop are delivered, each once,
   in order - the same as if the stream had simply stopped there - and the read loop ends *)
Theorem c11_complete_frames_once : forall (M : Type) (unmarshal : bytes -> M) fuel tb nw ct rst,
  tb_sorted nw tb = true -> nw <= ct -> Forall (fun x => fst x <= ct) tb -> (length tb < fuel)%nat ->
  deliveries M (fst (bin_loop M unmarshal fuel (C nw tb (Some (ct, rst))))) = deliveries M (fst (bin_loop M unmarshal fuel (C nw tb None))) /\
  deliveries M (fst (bin_loop M unmarshal fuel (C nw tb (Some (ct, rst))))) = map (fun g => (snd g, unmarshal (fst g))) (fst (walk_bin fuel tb)) /\
  exists t r, snd (bin_loop M unmarshal fuel (C nw tb (Some (ct, rst)))) = Dropped t r.
Proof. exact close_delivers_complete_frames. Qed.
Print Assumptions c11_complete_frames_once.

(* ASCII: every complete line before the drop, none after *)
Theorem c11_complete_lines_once : forall (M : Type) (decode : bytes -> M) fuel (tb : list (Z * Z)) nw c,
  close_after c nw tb -> (length tb < fuel)%nat ->
  asc_loop M decode fuel (C nw tb c) =
  (map (fun x => ODeliver (snd x) (decode (trim_space (fst x)))) (walk_lines nw tb),
   match c with Some (ct, rst) => Dropped ct (end_reason rst) | None => Waiting end).
Proof. exact asc_refines. Qed.
Print Assumptions c11_complete_lines_once.

(* ---------- timed retry loop (Model/Client.v run_life): all scripts, all cancellation instants ---------- *)
(* after panel loss (a non-cancelled disconnect at t) the very next action is the dial at exactly
   t + the configured/default reconnection period; a cancelled disconnect at t is followed by
   the return at t and by nothing else *)
Theorem c11_reconnects_after_loss : forall (M : Type) (unmarshal decode : bytes -> M)
    fuel cfuel cf lf scripts lats cT t,
  retry_ok M (reconn cf) (run_life M unmarshal decode fuel cfuel cf lf scripts lats cT t).
Proof. exact reconnects_after_loss. Qed.
Print Assumptions c11_reconnects_after_loss.

Example c11_default_and_configured_periods :
  reconn (cfg_of 0 0) = 1000 /\ noconn (cfg_of 0 0) = 3000 /\ reconn (cfg_of 0 2) = 2000 /\ noconn (cfg_of 1 0) = 1000.
Proof. repeat split; reflexivity. Qed.

(* under cancellation at [lc] (relative to the dial) one connection's negotiation ends within
   the 2 s probe window, its read loop ENDS (never stays blocked), and no later than the later
   of the two: the writer goroutine's conn.Close() interrupts whatever read is in progress *)
Theorem c11_cancel_ends_connection : forall (M : Type) (unmarshal decode : bytes -> M) fuel s lc,
  let cr := run_conn M unmarshal decode fuel s (Some lc) in
  cr_t0 M cr <= 2000 /\ cr_out M cr <> Waiting /\
  forall td why, cr_out M cr = Dropped td why -> td <= Z.max (cr_t0 M cr) lc.
Proof. exact run_conn_time. Qed.
Print Assumptions c11_cancel_ends_connection.

(* after cancellation at c the call returns within a bounded time: for every peer behaviour,
   every listener availability, every instant c, if the (re)dial under way started no later than
   c + reconnection period and dials take at most L, then EVERY return instant in the trace is
   <= c + reconnection period + L + 2000 (probe window) + 1000 (ASCII EOF sleep) - the bound
   names exactly the uninterruptible waits of the code *)
Theorem c11_returns_after_cancel : forall (M : Type) (unmarshal decode : bytes -> M)
    fuel cfuel cf lf scripts lats c t L,
  0 <= reconn cf -> 0 <= L -> Forall (fun x => x <= L) lats -> t <= c + reconn cf ->
  Forall (returned_by M (c + reconn cf + L + 3000)) (run_life M unmarshal decode fuel cfuel cf lf scripts lats (Some c) t).
Proof. exact returns_after_cancel. Qed.
Print Assumptions c11_returns_after_cancel.

Example c11_ex_life :
  run_life bytes (fun p => p) (fun p => p) 10 10 (cfg_of 0 0) 0
    [[Seg 10 (frame ack_payload); Seg 50 [1; 0; 0; 0; 7]; Close 300]; [Seg 5 (frame ack_payload)]] [1; 2] (Some 2500) 0
  = [LDial 0 true; LWrote 1 [2; 0; 0; 0; 8; 1]; LConnect 11 [] true; LAlloc 51 1; LDeliver 51 [7]; LDisconnect 301 false;
     LDial 1301 true; LWrote 1303 [2; 0; 0; 0; 8; 1]; LConnect 1308 [] true; LDisconnect 2500 true; LReturned 2500].
Proof. reflexivity. Qed.

(* non-vacuity: the lifecycle system does reach the interesting states *)
Example c11_ex_run :
  snd (run init [CMain ENone; CMain EDialOk; CMain ENone; CMain ENone; CMain ENone; CMain EReadOk; CWriter 0 WNone;
                 CCancel; CWriter 0 WCtx; CWriter 0 WNone; CWriter 0 WNone; CMain (EReadFail false); CMain ENone;
                 CMain ENone; CMain ENone; CMain ENone; CWriter 0 WNone; CMain ENone])
  = [LbTau; LbDial true; LbTau; LbTau; LbConnect; LbDeliver; LbTau; LbCancel; LbTau; LbTau; LbTau; LbTau; LbTau; LbTau; LbTau;
     LbDisconnect true; LbTau; LbReturned].
Proof. reflexivity. Qed.
Example c11_ex_crash_offset :
  deliveries bytes (fst (bin_loop bytes (fun p => p) 20 (C 0 [(1, 1); (1, 0); (1, 0); (1, 0); (2, 7); (3, 2); (3, 0)] (Some (50, false))))) = [(2, [7])].
Proof. reflexivity. Qed.
