(* C11 - Connection lifecycle is sound under cancellation and panel loss at any point.
   Two models, both tied to the implementation by harness/net (Run/C11.v):
   (b) Model/Lifecycle.v - the main goroutine and the per-connection writer goroutines of
       ConnectToPanel as a transition system over shared exit / quit / socket / wait-group /
       context state; a run is ANY list of scheduler and environment choices (who steps next;
       dial succeeds or fails; a read delivers or fails; which ready select case is taken; when
       the context is cancelled).  The theorems below hold for ALL such lists.
   (a) Model/Client.v run_conn / bin_loop on a timed peer stream with a close at ANY instant
       (the panel drops the connection at any byte offset).
   ENVIRONMENT ASSUMPTION (the API contract in ConnectToPanel's doc comment): the caller keeps
   receiving from msgsFromPanel; a blocked channel send is not modelled.
   PARTIAL (DESIGN section 5): Go scheduler, kernel TCP, timers exercised by the tie, not
   modelled.  See also c11_returns_after_cancel_partial below. *)
From RP Require Import Lib.Base Lib.Varint Model.Net Model.Client Model.Lifecycle Spec.NetSpec
     Proofs.NetProofs Proofs.NetFrameProofs Proofs.NetLifeProofs.

(* connect and disconnect callbacks strictly alternate, starting with connect *)
Theorem c11_callbacks_alternate : forall cs, alternate true (cbs (snd (run init cs))) = true.
Proof. exact callbacks_alternate. Qed.
Print Assumptions c11_callbacks_alternate.

(* a disconnect is reported as cancelled only after the cancellation, and is then the last callback *)
Theorem c11_cancelled_flag_sound : forall cs,
  cancelled_last (cbs (snd (run init cs))) = true /\
  forall h1 h2, snd (run init cs) = h1 ++ LbDisconnect true :: h2 -> has_cancel h1 = true.
Proof. exact cancelled_flag_sound. Qed.
Print Assumptions c11_cancelled_flag_sound.

(* when the call has returned, every socket it opened is closed *)
Theorem c11_sockets_closed : forall cs, s_m (fst (run init cs)) = MReturned ->
  Forall (fun c => c_open c = false) (s_cs (fst (run init cs))).
Proof. exact sockets_closed. Qed.
Print Assumptions c11_sockets_closed.

(* wait-group accounting: the counter is always the call itself plus the writer goroutines that
   have executed wg.Add(1) and not yet wg.Done(); it never goes negative; after the return it
   counts exactly the started, unfinished writers *)
Theorem c11_wg_accounting : forall cs,
  let s := fst (run init cs) in
  s_wg s = main_c (s_m s) + count_started (s_cs s) /\ 0 <= s_wg s /\
  (s_m s = MReturned -> s_wg s = count_started (s_cs s)).
Proof. exact wg_accounting. Qed.
Print Assumptions c11_wg_accounting.

(* "the supplied wait group drains with every internal goroutine finished" - as stated this is
   FALSE of the faithful model, because wg.Add(1) is executed INSIDE the writer goroutine
   (connecttopanel.go:137): there is a schedule in which the call has returned, the counter is
   0, and the writer goroutine of a lost connection has not yet run (and will then Add(1) on
   the drained group).  Witness: wg_gap_schedule (vm_compute). *)
Theorem c11_wg_drains_refuted :
  exists cs, let s := fst (run init cs) in
    s_m s = MReturned /\ s_wg s = 0 /\ exists c, In c (s_cs s) /\ c_w c = WNotStarted.
Proof. exact wg_drains_refuted. Qed.
Print Assumptions c11_wg_drains_refuted.

Theorem c11_wg_gap_then_add : s_wg (fst (run init (wg_gap_schedule ++ [CWriter 0 WNone]))) = 1.
Proof. exact wg_gap_then_add. Qed.
Print Assumptions c11_wg_gap_then_add.

(* ... what does hold: every such run contains the uninterruptible reconnection sleep
   (time.Sleep of >= 1 s, connecttopanel.go:238) between the creation of that goroutine and the
   return - it needs a goroutine to stay unscheduled for over a second, which is why the tie
   never observes it; and in every run WITHOUT that sleep all writer goroutines have started
   when the call returns, so that a drained wait group means all of them are finished. *)
Theorem c11_wg_gap_needs_retry_sleep : forall cs,
  let s := fst (run init cs) in
  s_m s = MReturned -> (exists c, In c (s_cs s) /\ c_w c = WNotStarted) -> has_retry (snd (run init cs)) = true.
Proof. exact wg_gap_needs_retry_sleep. Qed.
Print Assumptions c11_wg_gap_needs_retry_sleep.

Theorem c11_wg_drains_partial : forall cs,
  let s := fst (run init cs) in
  s_m s = MReturned -> has_retry (snd (run init cs)) = false ->
  Forall (fun c => c_w c <> WNotStarted) (s_cs s) /\
  (s_wg s = 0 -> Forall (fun c => started c = 0) (s_cs s)).
Proof. exact wg_drains_partial. Qed.
Print Assumptions c11_wg_drains_partial.

(* the panel drops the connection at ANY instant after ANY prefix of its stream (every byte
   offset): exactly the frames completely received before the drop are delivered, each once,
   in order - the same as if the stream had simply stopped there - and the read loop ends *)
Theorem c11_complete_frames_once : forall (M : Type) (unmarshal : bytes -> M) fuel tb nw ct rst,
  tb_sorted nw tb = true -> nw <= ct -> Forall (fun x => fst x <= ct) tb -> (length tb < fuel)%nat ->
  deliveries M (fst (bin_loop M unmarshal fuel (C nw tb (Some (ct, rst))))) = deliveries M (fst (bin_loop M unmarshal fuel (C nw tb None))) /\
  deliveries M (fst (bin_loop M unmarshal fuel (C nw tb (Some (ct, rst))))) = map (fun g => (snd g, unmarshal (fst g))) (fst (walk_bin fuel tb)) /\
  exists t r, snd (bin_loop M unmarshal fuel (C nw tb (Some (ct, rst)))) = Dropped t r.
Proof. exact close_delivers_complete_frames. Qed.
Print Assumptions c11_complete_frames_once.

(* ASCII: every complete line before the drop, none after *)
Theorem c11_complete_lines_once : forall (M : Type) (decode : bytes -> M) fuel (tb : list (Z * Z)) nw c,
  close_after c nw tb -> (length tb < fuel)%nat ->
  asc_loop M decode fuel (C nw tb c) =
  (map (fun x => ODeliver (snd x) (decode (trim_space (fst x)))) (walk_lines nw tb),
   match c with Some (ct, rst) => Dropped ct (end_reason rst) | None => Waiting end).
Proof. exact asc_refines. Qed.
Print Assumptions c11_complete_lines_once.

(* non-vacuity: the lifecycle system does reach the interesting states *)
Example c11_ex_run :
  snd (run init [CMain ENone; CMain EDialOk; CMain ENone; CMain ENone; CMain ENone; CMain EReadOk; CWriter 0 WNone;
                 CCancel; CWriter 0 WCtx; CWriter 0 WNone; CWriter 0 WNone; CMain (EReadFail false); CMain ENone;
                 CMain ENone; CMain ENone; CMain ENone; CWriter 0 WNone; CMain ENone])
  = [LbTau; LbDial true; LbTau; LbTau; LbConnect; LbDeliver; LbTau; LbCancel; LbTau; LbTau; LbTau; LbTau; LbTau; LbTau; LbTau;
     LbDisconnect true; LbTau; LbReturned].
Proof. reflexivity. Qed.
Example c11_ex_crash_offset :
  deliveries bytes (fst (bin_loop bytes (fun p => p) 20 (C 0 [(1, 1); (1, 0); (1, 0); (1, 0); (2, 7); (3, 2); (3, 0)] (Some (50, false))))) = [(2, [7])].
Proof. reflexivity. Qed.
