(* C02 - Inbound ASCII lines decode to exactly the panel state they denote.  (work in progress) *)
From RP Require Import Lib.Base Model.MsgIn Model.DecIn Proofs.InTotal.

Theorem c02_dec_total : forall json_state json_msgs nc_parse ls,
  exists ms, dec_in json_state json_msgs nc_parse ls = Ok ms.
Proof. exact dec_in_total. Qed.
Print Assumptions c02_dec_total.
