(* C02 - Inbound ASCII lines decode to exactly the panel state they denote.
   Only statements here; each closed by [exact] of a lemma from Proofs/.

   [dec_in] = model of RawPanelASCIIstringsToInboundMessages (Model/DecIn.v), its three
   encoding/json calls being oracle arguments [json_state], [json_msgs], [nc_parse];
   [in_read] / [sem_in_lines] = the independent reference reader (Spec/GrammarIn.v), which
   classifies EVERY byte string as Wf (well-formed, with its effects), Malformed (known key
   name, arguments outside the grammar: the property is silent) or NotGrammar;
   [run_msgs p ms] = the panel reached from p by what the decoded messages mean. *)
From RP Require Import Lib.Base Lib.Strings Model.Gfx Model.MsgIn Model.DecIn Spec.DenoteIn Spec.GrammarIn
  Proofs.InBits Proofs.InDec Proofs.InDecMain Proofs.InSeq Proofs.InGfx Proofs.InGfxSeq Proofs.InRound Proofs.InTotal Proofs.StringsProofs.

(* one well-formed line of ANY kind except a graphics chunk (flow words, all command
   keywords with all alternative spellings, HWC# / HWCc# / HWCx# / HWCt# / HWCrawADCValues#
   with id lists, all register forms, JSON lines through the oracle): the decoder appends
   messages that mean exactly the line's effects and leaves its graphics locals untouched.
   Alternative spellings covered by [in_read]: omitted trailing text fields, colour with /
   without bit 7, one / two-argument brightness, leading zeros. *)
Theorem c02_dec_line_sound_partial :
  forall json_state json_msgs nc_parse st l es,
    in_read json_state json_msgs nc_parse l = Wf (LEffs es) ->
    exists ms, dec_line json_state json_msgs nc_parse st l = Ok (st, ms) /\
               forall p, apply_effs p (den_msgs ms) = apply_effs p es.
Proof. exact dec_line_wf. Qed.
Print Assumptions c02_dec_line_sound_partial.

(* one well-formed graphics chunk line: the decoder's graphics locals and the reader's
   transfer tracker stay related ([R]), and the message delivered (if any) means exactly what
   the reader does to the panel - for ANY earlier history (interrupted, out-of-order,
   duplicated, mixed-target transfers) *)
Theorem c02_chunk_line_sound :
  forall json_state json_msgs nc_parse st x p l c,
    in_read json_state json_msgs nc_parse l = Wf (LChunk c) -> R st x ->
    exists st' ms, dec_line json_state json_msgs nc_parse st l = Ok (st', ms) /\
                   R st' (snd (step_chunk p x c)) /\
                   fst (step_chunk p x c) = apply_effs p (den_msgs ms).
Proof. exact dec_line_chunk. Qed.
Print Assumptions c02_chunk_line_sound.

(* MAIN THEOREM.  Every sequence of lines each of which is well-formed (ANY keyword, any
   alternative spelling, simple three-line and advanced graphics transfers in any order) or not
   of the grammar at all, of any length, from any start panel: the decoded messages reach the
   panel the reference reader reaches on the lines, effects in line order.
   Named _partial only for what goes through encoding/json: the meaning of a JSON state / array
   line and of the SetNetworkConfig argument is "the meaning of what the oracle returns"
   (arguments json_state, json_msgs, nc_parse, universally quantified). *)
Theorem c02_dec_in_sound_partial :
  forall json_state json_msgs nc_parse ls p,
    forallb (good_line json_state json_msgs nc_parse) ls = true ->
    exists ms, dec_in json_state json_msgs nc_parse ls = Ok ms /\
               run_msgs p ms = fst (sem_in_lines json_state json_msgs nc_parse (p, None) ls).
Proof. exact dec_in_sound. Qed.
Print Assumptions c02_dec_in_sound_partial.

(* JSON lines (partial by nature): a '{' line yields exactly one message holding exactly the
   state encoding/json returns; a '[' line yields exactly the non-null messages it returns *)
Theorem c02_dec_in_json_partial :
  forall json_state json_msgs nc_parse st r,
    dec_line json_state json_msgs nc_parse st (123 :: r) = Ok (st, [state_msg (json_state (123 :: r))]) /\
    dec_line json_state json_msgs nc_parse st (91 :: r) = Ok (st, filter_some (json_msgs (91 :: r))).
Proof. intros. split; [exact (dec_line_json_state _ _ _ _ _)|exact (dec_line_json_msgs _ _ _ _ _)]. Qed.
Print Assumptions c02_dec_in_json_partial.

(* FULL STRENGTH, all byte strings: a line whose keyword / key name is not part of the grammar
   is decoded into exactly one empty message - no state change, command or register write -
   whatever the graphics locals and the oracles are. *)
Theorem c02_nongrammar_no_effect :
  forall json_state json_msgs nc_parse st l,
    in_read json_state json_msgs nc_parse l = NotGrammar ->
    dec_line json_state json_msgs nc_parse st l = Ok (st, [empty_msg]).
Proof. exact dec_line_nongrammar. Qed.
Print Assumptions c02_nongrammar_no_effect.

Theorem c02_dec_in_ignores_nongrammar :
  forall json_state json_msgs nc_parse l p,
    nongrammar json_state json_msgs nc_parse l = true ->
    exists ms, dec_in json_state json_msgs nc_parse [l] = Ok ms /\ run_msgs p ms = p.
Proof. exact dec_in_ignores_nongrammar. Qed.
Print Assumptions c02_dec_in_ignores_nongrammar.

(* one effect per line: every line other than a JSON message array yields at most one
   message (all byte strings, graphics included) *)
Theorem c02_one_message_per_line :
  forall json_state json_msgs nc_parse st l r,
    (forall c t, l = c :: t -> c <> 91) ->
    dec_line json_state json_msgs nc_parse st l = Ok r -> (length (snd r) <= 1)%nat.
Proof. exact dec_line_one_msg. Qed.
Print Assumptions c02_one_message_per_line.

(* the HWCt# normalisation rules: decoding the fields and normalising = the reader's record *)
Theorem c02_text_fields : forall fs t, rd_text fs = Some t ->
  norm_text (dec_text fs) = t /\ text_is_empty (dec_text fs) = false.
Proof. exact dec_text_sound. Qed.
Print Assumptions c02_text_fields.

(* strconv.Atoi as modelled (Lib/Strings.v, incl. overflow-before-junk) reads the grammar's decimals *)
Theorem c02_decimal_agreement : forall s n, rd_nat s = Some n -> n < two63 -> atoi s = n.
Proof. exact rd_nat_atoi. Qed.
Print Assumptions c02_decimal_agreement.

From Coq Require Import String.
Open Scope string_scope.
Open Scope list_scope.
Open Scope Z_scope.
(* Non-vacuity: concrete lines (alternative spellings: trailing fields omitted, second label
   without pair mode, colour with readability bit, id list, leading zero, one-argument
   brightness, an unknown line in between) satisfy the hypothesis, and the decoded messages. *)
Definition c02_example_lines : list (list Z) :=
  map Sexp.str ["HWC#1,2=292"; "HWCc#7=196"; "FooBar=1"; "HWCt#3=|||Title||a|b"; "PanelBrightness=04"; "Flag#007=5";
               "HWCg#5=0:QUFB"; "HWC#9=4"; "HWCg#5=1:Q0ND"; "HWCg#5=2:RERE"].
Example c02_nonvacuous :
  forallb (good_line (fun _ => empty_state) (fun _ => []) (fun _ => None)) c02_example_lines = true /\
  nongrammar (fun _ => empty_state) (fun _ => []) (fun _ => None) (Sexp.str "FooBar=1") = true /\
  exists ms, dec_in (fun _ => empty_state) (fun _ => []) (fun _ => None) c02_example_lines = Ok ms /\
             List.length ms = 8%nat /\
             DenoteIn.sx_panel (run_msgs panel0 ms) =
             DenoteIn.sx_panel (fst (sem_in_lines (fun _ => empty_state) (fun _ => []) (fun _ => None) (panel0, None) c02_example_lines)).
Proof. split; [vm_compute; reflexivity|]. split; [vm_compute; reflexivity|]. eexists. split; [vm_compute; reflexivity|]. split; vm_compute; reflexivity. Qed.
