(* C19 — High-level client (gorwp) dispatches each event once, stays live, tracks panel state.
   Only statements here; each closed by [exact] of a lemma from Proofs/Gorwp*.v.

   The model (Model/Gorwp.v) follows the REPAIRED code (fix commits c766837, 8fd853f, a15c50b,
   755c97a: over-limit header ends the read loop; writer goroutine separated from the dispatcher;
   handler maps under a mutex; Connect fails when the connection is lost during initialisation).
   The decoders (proto.Unmarshal, the ASCII line decoder) are function parameters [unm], [dec].
   The claim is partial in the sense of DESIGN §4/§5: goroutines, channels, sockets, timers and the
   race detector are an explicit environment model here and the real thing only in the tie. *)
From RP Require Import Lib.Base Model.Gorwp Spec.Gorwp
  Proofs.GorwpDispatch Proofs.GorwpReader Proofs.GorwpSystem Proofs.GorwpLegacy.

(* ------------------------------------------------------------------ dispatch *)
(* One message, any maps, any handlers (including handlers that call Bind* themselves): the handler invocations
   are, for each event in order, for each binding kind in the order trigger, binary, pulsed, absolute,
   intensity, one invocation iff a handler of that kind is in force for the event's id and the event carries
   that payload - with (id, status, edge) / (id, value) / (id, event) as arguments (Spec.event_calls inside
   Spec.events_demands).  In force = the latest registration per (kind, id) among those made before the message
   and those made by the handlers of the EARLIER events of the message. *)
Theorem c19_dispatch_exactly_once : forall b st m,
  calls_of (fst (fst (dispatch b st m))) = fst (fst (events_demands (rev b) (m_events m))).
Proof. exact dispatch_exactly_once. Qed.
Print Assumptions c19_dispatch_exactly_once.

(* handlers that register nothing themselves: one fixed set of maps for the whole message *)
Theorem c19_dispatch_exactly_once_static : forall b st m, no_rebind (in_force (rev b)) ->
  calls_of (fst (fst (dispatch b st m))) = flat_map (fun e => map fst (event_calls (in_force (rev b)) e)) (m_events m).
Proof. exact dispatch_exactly_once_static. Qed.
Print Assumptions c19_dispatch_exactly_once_static.

(* "exactly one": per event and kind the number of invocations is 1 if registered and matching, else 0 *)
Theorem c19_one_call_per_kind : forall who e k,
  length (filter (fun ch => kind_eqb (call_kind (fst ch)) k) (event_calls who e)) =
  match who k (e_id e) with
  | Some _ => if has_payload k e then 1%nat else 0%nat
  | None => 0%nat
  end.
Proof. exact event_calls_count. Qed.
Print Assumptions c19_one_call_per_kind.

(* invocations, what is sent to the panel (ack first, then each handler's feedback in invocation order), the maps
   afterwards and the panel state *)
Theorem c19_dispatch_meets_demands : forall b st m,
  calls_of (fst (fst (dispatch b st m))) = fst (fst (msg_demands (rev b) m)) /\
  sends_of (fst (fst (dispatch b st m))) = snd (fst (msg_demands (rev b) m)) /\
  rev (snd (dispatch b st m)) = snd (msg_demands (rev b) m) /\
  snd (fst (dispatch b st m)) = upd_state st m.
Proof. exact dispatch_meets_demands. Qed.
Print Assumptions c19_dispatch_meets_demands.

(* a panel ping is answered with exactly one acknowledge, whatever the handlers send and register *)
Theorem c19_ping_one_ack : forall b ms st,
  count_acks (sends_of (fst (fst (dispatch_all b st ms)))) = count_pings ms.
Proof. exact ping_one_ack. Qed.
Print Assumptions c19_ping_one_ack.

(* ------------------------------------------------------------------ state *)
(* after any history: every identity / topology getter holds the last non-empty value received (the old one
   if none), the availability map the last value received per key *)
Theorem c19_state_latest : forall ms st,
  let st' := fold_left upd_state ms st in
  g_model st' = latest f_model (g_model st) ms /\
  g_serial st' = latest f_serial (g_serial st) ms /\
  g_name st' = latest f_name (g_name st) ms /\
  g_json st' = latest f_json (g_json st) ms /\
  g_svg st' = latest f_svg (g_svg st) ms /\
  forall k, avail_get k (g_avail st') = avail_latest (fun k => avail_get k (g_avail st)) ms k.
Proof. exact state_latest. Qed.
Print Assumptions c19_state_latest.

Theorem c19_state_is_fold : forall b ms st, snd (fst (dispatch_all b st ms)) = fold_left upd_state ms st.
Proof. exact dispatch_all_state. Qed.
Print Assumptions c19_state_is_fold.

(* Connect succeeds exactly when model, serial, topology JSON and SVG have all arrived (non-empty) within the
   2000 ms window and before the connection is lost *)
Theorem c19_init_iff : forall b evs, connect_ok b st0 evs = connect_expected evs.
Proof. exact init_iff. Qed.
Print Assumptions c19_init_iff.

(* ------------------------------------------------------------------ framing *)
(* all segmentations: the reader's result depends on the byte / deadline-expiry / close sequence only *)
Theorem c19_framing_segmentation : forall unm dec ins ins' st,
  bevs_of ins = bevs_of ins' -> reader_run unm dec st ins = reader_run unm dec st ins'.
Proof. exact framing_segmentation. Qed.
Print Assumptions c19_framing_segmentation.

(* every history of legal frames / lines, pauses of more than 2 s anywhere, over-limit headers, truncated
   frames and closes, in either mode, however segmented: the reader hands over exactly the messages that
   precede the first fault (acks dropped), and has stopped iff there is a fault *)
Theorem c19_framing : forall unm dec binary items ins,
  forallb (citem_wf binary) items = true ->
  bevs_of ins = bevs_of (flat_map wire_of items) ->
  snd (reader_run unm dec (rinit binary) ins) = fst (to_dispatch unm dec items) /\
  (fst (reader_run unm dec (rinit binary) ins) = RDead <-> snd (to_dispatch unm dec items) = true).
Proof. exact framing. Qed.
Print Assumptions c19_framing.

(* after an over-limit or broken frame nothing further from that connection is handed to the dispatcher *)
Theorem c19_nothing_after_fault : forall unm dec binary a b ins,
  forallb (citem_wf binary) (a ++ b) = true ->
  snd (to_dispatch unm dec a) = true ->
  bevs_of ins = bevs_of (flat_map wire_of (a ++ b)) ->
  snd (reader_run unm dec (rinit binary) ins) = fst (to_dispatch unm dec a) /\
  fst (reader_run unm dec (rinit binary) ins) = RDead.
Proof. exact nothing_after_fault. Qed.
Print Assumptions c19_nothing_after_fault.

(* ------------------------------------------------------------------ the running system, all schedules *)
(* Any script, any initial maps, ANY schedule of the goroutines, the ticker, Bind* / Set* / Close() from other
   goroutines: the events looked up so far, those of the deliveries in progress and those still to come are
   the script's events in panel order (each once); the invocations made plus those already decided are exactly
   the ones of the look-ups, each against the maps it saw. *)
Theorem c19_exactly_once_all_schedules : forall unm dec binary b ins sched,
  let s := run unm dec (sys0 binary b ins) sched in
  looked_up s ++ pend_events (s_ops s) ++ evs_of_ds (future_ds unm dec s) = all_events unm dec binary ins /\
  s_trace s ++ pend_calls (s_ops s) = calls_logged s.
Proof. exact exactly_once_all_schedules. Qed.
Print Assumptions c19_exactly_once_all_schedules.

(* handlers registered while events flow - by other goroutines or by handlers from inside their callback -:
   each look-up saw the initial maps plus a prefix of the registrations made so far (never one half-done,
   lost, or not yet made); s_blog is the log of registrations in the order they were made *)
Theorem c19_lookups_see_bind_prefixes : forall unm dec binary b ins sched,
  let s := run unm dec (sys0 binary b ins) sched in
  s_b s = rev (s_blog s) ++ b /\
  Forall (fun eb => exists n, snd eb = rev (firstn n (s_blog s)) ++ b) (s_evlog s).
Proof. exact lookups_see_bind_prefixes. Qed.
Print Assumptions c19_lookups_see_bind_prefixes.

(* Every schedule in which no OTHER goroutine calls Bind* (handlers may, for their own id or others): the
   invocations made so far plus those the rest of the run will make are exactly what the spec demands for the
   script's deliveries - a prefix in panel order at every moment ... *)
Theorem c19_calls_all_schedules : forall unm dec binary b ins sched,
  forallb nobind_choice sched = true ->
  let s := run unm dec (sys0 binary b ins) sched in
  s_trace s ++ fst (fst (sim (s_b s) (rest_of unm dec s))) =
  fst (fst (demands (rev b) (map HDeliver (all_ds unm dec binary ins)))).
Proof. exact calls_all_schedules. Qed.
Print Assumptions c19_calls_all_schedules.

(* ... and all of it once the input is consumed and the goroutines have come to rest *)
Theorem c19_complete_run_calls : forall unm dec binary b ins sched,
  forallb nobind_choice sched = true ->
  let s := run unm dec (sys0 binary b ins) sched in
  quiescent s -> s_in s = [] ->
  s_trace s = fst (fst (demands (rev b) (map HDeliver (all_ds unm dec binary ins)))).
Proof. exact complete_run_calls. Qed.
Print Assumptions c19_complete_run_calls.

(* What the panel receives from the dispatcher (acks, handler feedback), in order.
   _partial: stated for schedules in which no other goroutine calls Bind* or sends acks / feedback at the same
   time (with those, the interleaving on the wire is not determined by the panel's history; the ack count
   per ping is c19_ping_one_ack). *)
Theorem c19_wire_all_schedules_partial : forall unm dec binary b ins sched,
  forallb quiet_choice sched = true ->
  let s := run unm dec (sys0 binary b ins) sched in
  fd (s_wire s) ++ fd (s_to s) ++ fd (snd (fst (sim (s_b s) (rest_of unm dec s)))) =
  fd (snd (fst (demands (rev b) (map HDeliver (all_ds unm dec binary ins))))).
Proof. exact wire_all_schedules. Qed.
Print Assumptions c19_wire_all_schedules_partial.

Theorem c19_complete_run_wire_partial : forall unm dec binary b ins sched,
  forallb quiet_choice sched = true ->
  let s := run unm dec (sys0 binary b ins) sched in
  quiescent s -> s_in s = [] ->
  fd (s_wire s) = fd (snd (fst (demands (rev b) (map HDeliver (all_ds unm dec binary ins))))).
Proof. exact complete_run_wire. Qed.
Print Assumptions c19_complete_run_wire_partial.

(* ------------------------------------------------------------------ liveness *)
(* No reachable state, under any schedule, has work pending (a queued write, a dispatch in progress - e.g. a
   handler blocked on the full toPanel queue -, a queued or parsed delivery) and no goroutine able to move,
   as long as the context is not cancelled.  (False of the code before 8fd853f: one message with 11 events
   whose handlers each send feedback, or a ticker ping into a full queue, blocked the only goroutine that
   drained the queue; reproduced through the harness, corpus/C19/f12-*.) *)
Theorem c19_no_deadlock : forall unm dec binary b ins sched,
  let s := run unm dec (sys0 binary b ins) sched in
  s_cancel s = false -> work_pending s -> exists c s', In c internal /\ step unm dec s c = Some s'.
Proof. exact no_deadlock. Qed.
Print Assumptions c19_no_deadlock.

(* Historical (finding F12, code before 8fd853f): in the one-goroutine loop - handlers and the ticker's ping
   sending into the queue that only the same goroutine drains - a stuck state IS reachable: one frame with 11
   events for a handler sending one state each; 11 invocations made, 10 items queued, nothing enabled.
   Witness schedule by vm_compute; the same history through the harness is corpus/C19/f12-*. *)
Theorem c19_legacy_loop_deadlock_refuted :
  exists sched,
    let s := legacy_run legacy_unm (fun _ => []) (sys0 true legacy_b [RBytes ([11; 0; 0; 0] ++ repeat 7 11)]) sched in
    stuck legacy_unm (fun _ => []) s /\ length (s_trace s) = 11%nat /\ length (s_to s) = 10%nat.
Proof. exact legacy_loop_deadlock. Qed.
Print Assumptions c19_legacy_loop_deadlock_refuted.

(* every step of the reader-push / dispatcher / writer goroutines strictly decreases a measure of the pending work *)
Theorem c19_internal_step_decreases : forall unm dec s c s',
  In c internal -> step unm dec s c = Some s' -> (measure s' < measure s)%nat.
Proof. exact internal_step_decreases. Qed.
Print Assumptions c19_internal_step_decreases.

Theorem c19_internal_steps_bounded : forall unm dec sched s, Forall (fun c => In c internal) sched ->
  (steps_taken unm dec s sched + measure (run unm dec s sched) <= measure s)%nat.
Proof. exact internal_steps_bounded. Qed.
Print Assumptions c19_internal_steps_bounded.

(* hence, whatever order the goroutines are run in, after at most [measure s] of their steps every delivery
   received so far - bursts of any size, every handler sending any amount of feedback - is completely
   dispatched and every send written.
   liveness is _partial in one respect only: the writer's connection.Write is assumed to return (the panel
   keeps reading) and scheduling is the Go runtime's (the tie's 3 s watchdog). *)
Theorem c19_liveness_partial : forall unm dec prio,
  (forall c, In c internal -> In c prio) -> (forall c, In c prio -> In c internal) ->
  forall fuel s, s_cancel s = false -> Inv_alive s -> (measure s <= fuel)%nat ->
  quiescent (drain unm dec prio fuel s).
Proof. exact drain_reaches_quiescence. Qed.
Print Assumptions c19_liveness_partial.

(* once the reader has stopped and what it delivered is dispatched, no handler is ever invoked again *)
Theorem c19_after_break_nothing : forall unm dec sched s, drained_dead s ->
  s_trace (run unm dec s sched) = s_trace s /\ s_evlog (run unm dec s sched) = s_evlog s.
Proof. exact after_break_nothing. Qed.
Print Assumptions c19_after_break_nothing.

(* ------------------------------------------------------------------ non-vacuity *)
Definition ex_unm (p : bytes) : omsg :=
  match p with
  | [1] => mkMsg 1 None [] None []                                                  (* a ping *)
  | [2] => mkMsg 2 None [] None []                                                  (* an ack *)
  | 3 :: ids => mkMsg 0 None [] None (map (fun id => mkEvent id (Some (true, 4)) None None None) ids)
  | _ => mkMsg 0 (Some (mkInfo [77] [] [])) [(5, 1)] None []
  end.
Definition ex_dec (l : bytes) : list omsg := [].
Definition ex_b : bindings := [(KBinary, 7, mkHandler 1 [(7, 1); (7, 2)] []); (KTrigger, 7, mkHandler 2 [(7, 3)] [])].

(* a well-formed binary history with a harmless pause inside a header, a breaking pause inside a payload
   and frames after it; the reader delivers the two messages before the fault and stops *)
Example c19_ex_framing :
  let items := [IFrame [1] (Some 2); IFrame [2] None; IFrame [3; 7; 8] None; IFrame [9; 9] (Some 5); IFrame [3; 7] None; IOver 500000] in
  forallb (citem_wf true) items = true /\
  to_dispatch ex_unm ex_dec items = ([[ex_unm [1]]; [ex_unm [3; 7; 8]]], true) /\
  reader_run ex_unm ex_dec (rinit true) (flat_map wire_of items) = (RDead, [[ex_unm [1]]; [ex_unm [3; 7; 8]]]).
Proof. vm_compute. repeat split; reflexivity. Qed.

(* the F12 history on the repaired design: ONE message with 12 events for a handler pair sending 3 feedback
   items per event (36 > 10 sends inside one dispatch) and a ping; dispatcher-first scheduling fills toPanel,
   the writer drains it, the run comes to rest with all 24 invocations made and 1 + 36 items written *)
Example c19_ex_burst_is_live :
  let p := 3 :: repeat 7 12 in
  let s := drain ex_unm ex_dec [CPush; CTake; CDisp; CWrite] 1000
             (run ex_unm ex_dec (sys0 true ex_b [RBytes (wire_bytes (IFrame [1] None)); RBytes (wire_bytes (IFrame p None))]) [CRead; CPush; CRead; CPush]) in
  quiescent s /\ s_in s = [] /\ length (s_trace s) = 24%nat /\ length (s_wire s) = 37%nat /\
  count_acks (s_wire s) = 1%nat /\
  s_trace s = fst (fst (demands (rev ex_b) (map HDeliver [[ex_unm [1]]; [ex_unm p]]))).
Proof. vm_compute. repeat split; reflexivity. Qed.

(* a look-up that really sees a Bind* made by another goroutine while events flow, and one that does not yet *)
Example c19_ex_bind_while_flowing :
  let sched := [CRead; CPush; CTake; CDisp; CDisp; CBind KPulsed 7 (mkHandler 9 [] []); CDisp; CDisp; CDisp; CDisp; CDisp; CDisp] in
  let s := run ex_unm ex_dec (sys0 true ex_b [RBytes (wire_bytes (IFrame [3; 7; 7] None))]) sched in
  map (fun eb => length (snd eb)) (s_evlog s) = [2%nat; 3%nat] /\ s_blog s = [(KPulsed, 7, mkHandler 9 [] [])].
Proof. vm_compute. split; reflexivity. Qed.

(* a handler that registers handlers from inside its callback: a one-shot binary handler for id 7 replacing itself
   (tag 1 -> tag 2 -> tag 3) and arming a trigger handler for id 8; one frame with the events 7 7 8 7: the second
   7 already sees tag 2, the 8 is seen by the handler armed during the first 7, the last 7 sees tag 3; the run
   comes to rest with exactly the demanded invocations, under two different schedules *)
Definition ex_h3 : handler := mkHandler 3 [(7, 3)] [].
Definition ex_h2 : handler := mkHandler 2 [] [(KBinary, 7, ex_h3)].
Definition ex_h1 : handler := mkHandler 1 [(7, 1)] [(KBinary, 7, ex_h2); (KTrigger, 8, mkHandler 4 [] [])].
Example c19_ex_handler_binds :
  let ins := [RBytes (wire_bytes (IFrame [3; 7; 7; 8; 7] None))] in
  let s1 := drain ex_unm ex_dec [CPush; CTake; CDisp; CWrite] 1000 (run ex_unm ex_dec (sys0 true [(KBinary, 7, ex_h1)] ins) [CRead]) in
  let s2 := drain ex_unm ex_dec [CWrite; CDisp; CTake; CPush] 1000 (run ex_unm ex_dec (sys0 true [(KBinary, 7, ex_h1)] ins) [CRead]) in
  quiescent s1 /\ s_in s1 = [] /\
  map (fun c => match c with CBinary _ t _ _ => t | CTrigger _ t _ => t | CValue _ _ t _ => t end) (s_trace s1) = [1; 2; 4; 3] /\
  s_trace s1 = fst (fst (demands [(KBinary, 7, ex_h1)] (map HDeliver [[ex_unm [3; 7; 7; 8; 7]]]))) /\
  s_trace s2 = s_trace s1 /\ s_wire s2 = s_wire s1 /\
  length (s_blog s1) = 3%nat.
Proof. vm_compute. repeat split; reflexivity. Qed.

(* state and init: three of four pieces do not initialise, the fourth does; a late fourth piece does not *)
Example c19_ex_init :
  let i1 := mkMsg 0 (Some (mkInfo [77] [83] [])) [] None [] in
  let t1 := mkMsg 0 None [] (Some (mkTopo [123; 125] [])) [] in
  let t2 := mkMsg 0 None [] (Some (mkTopo [] [60])) [] in
  connect_expected [(0, IDeliver [i1]); (10, IDeliver [t1])] = false /\
  connect_expected [(0, IDeliver [i1]); (10, IDeliver [t1]); (1500, IDeliver [t2])] = true /\
  connect_expected [(0, IDeliver [i1]); (10, IDeliver [t1]); (2000, IDeliver [t2])] = false /\
  connect_expected [(0, IDeliver [i1]); (10, IDeliver [t1]); (100, ILost); (200, IDeliver [t2])] = false /\
  connect_ok [] st0 [(0, IDeliver [i1]); (10, IDeliver [t1]); (1500, IDeliver [t2])] = true.
Proof. vm_compute. repeat split; reflexivity. Qed.
