(* C12 - Protocol auto-detection classifies binary and ASCII panels correctly.
   Only statements; each closed by [exact] of a lemma from Proofs/NetProbeProofs.v.
   Model: Model/Client.v (classify_client = connecttopanel.go:90-130, classify_detector =
   rawpanelhelpers.go AutoDetectIfPanelEncodingIsBinary, probe_bytes = the probe both write),
   environment Model/Net.v (probe_read = the single conn.Read under the 2000 ms deadline).
   Spec: Spec/NetSpec.v (reply classes, c12_judge - also the oracle run on the implementation).
   proto.Unmarshal does not occur: neither classification looks at its result.
   PARTIAL only in the sense of DESIGN section 5: the timing clause is about the environment
   model (a reply arriving at t < 2000 ms is what Read returns, later is a timeout); the Go
   runtime, kernel and timers are exercised by the tie (harness/net), not modelled. *)
From RP Require Import Lib.Base Lib.Varint Lib.Strings Model.Net Model.Client Spec.NetSpec Proofs.NetProbeProofs.

(* "The probe written to a new connection is exactly one length-prefixed ping message":
   the bytes both entry points write first are le32(2) ++ [field 1 = varint 1], they parse as
   exactly one frame holding the ping, and negotiation adds nothing (binary) or one LF (ASCII). *)
Theorem c12_probe_is_one_ping :
  probe_bytes = lenprefix ping_msg /\ parse_frames 2 probe_bytes = ([ping_msg], []) /\
  ping_msg = pb_varint_field 1 1 /\ negotiation_bytes true = probe_bytes /\ negotiation_bytes false = probe_bytes ++ [10].
Proof. exact probe_is_one_ping. Qed.
Print Assumptions c12_probe_is_one_ping.

(* Any single well-formed frame (payload 1..996 bytes, so the acknowledge frame in particular),
   whatever its payload: both classifiers say binary and write nothing further. *)
Theorem c12_frame_binary : forall p, 0 < zlen p -> zlen p <= 996 ->
  classify_client (PData (frame p)) = (true, []) /\
  classify_detector (PData (frame p)) = true /\
  negotiation_bytes true = probe_bytes.
Proof. exact frame_binary. Qed.
Print Assumptions c12_frame_binary.

Example c12_ack_is_such_a_frame :
  frame ack_payload = [2; 0; 0; 0; 8; 2] /\ classify_client (PData (frame ack_payload)) = (true, []) /\
  classify_detector (PData (frame ack_payload)) = true.
Proof. repeat split; reflexivity. Qed.

(* Silence for the probe window (or a read error): ASCII for both, exactly one LF is written. *)
Theorem c12_silence_ascii :
  classify_client PErr = (false, []) /\ classify_detector PErr = false /\
  negotiation_bytes false = probe_bytes ++ [10].
Proof. exact silence_ascii. Qed.
Print Assumptions c12_silence_ascii.

(* THE MAIN STATEMENT, reconnecting client, for ALL replies (any bytes, up to the 1000-byte probe
   buffer, any arrival time, or no reply at all): the model's flag, error text and written bytes
   satisfy every clause of the spec predicate - acknowledge frame -> binary and nothing further;
   silence, "RDY\n..." and "map=..." -> ASCII and exactly one bare LF; any other text that is
   not one well-formed frame -> ASCII, with the text after "ErrorMsg=" up to the first LF handed
   to onconnect. *)
Theorem c12_client_meets_spec : forall reply,
  (forall t r, reply = Some (t, r) -> bytes_ok r = true /\ zlen r <= 1000) ->
  let bin := fst (classify_client (probe_result reply)) in
  let err := snd (classify_client (probe_result reply)) in
  c12_judge true (classify_reply reply) bin err (negotiation_bytes bin) = [].
Proof. exact client_meets_spec. Qed.
Print Assumptions c12_client_meets_spec.

(* ... and the stand-alone detector, for all replies of any length. *)
Theorem c12_detector_meets_spec : forall reply,
  let bin := classify_detector (probe_result reply) in
  c12_judge false (classify_reply reply) bin [] (negotiation_bytes bin) = [].
Proof. exact detector_meets_spec. Qed.
Print Assumptions c12_detector_meets_spec.

(* The error message handed to onconnect *)
Theorem c12_errormsg_extracted : forall e rest, forallb (fun c => negb (c =? 10)) e = true ->
  errmsg_of (errormsg_prefix ++ e ++ 10 :: rest) = e /\ errmsg_of (errormsg_prefix ++ e) = e.
Proof. exact errmsg_extracted. Qed.
Print Assumptions c12_errormsg_extracted.

(* The client is binary exactly when the reply is one frame whose header matches the byte count
   (all header values, uint32 wrap-around of "length + 4" included). *)
Theorem c12_client_binary_iff : forall r, bytes_ok r = true -> zlen r <= 1000 ->
  fst (classify_client (PData r)) = ((4 <? zlen r) && (u32le r =? zlen r - 4)).
Proof. exact client_binary_iff. Qed.
Print Assumptions c12_client_binary_iff.

(* "map=" / "RDY\n" can never be mistaken for a length header that matches a <= 1000-byte read *)
Theorem c12_text_words_are_not_lengths : le32_dec map_word = 1030775149 /\ le32_dec rdy_word = 173622354.
Proof. exact text_words_are_not_lengths. Qed.
Print Assumptions c12_text_words_are_not_lengths.

(* Timing (environment model): a reply at delay t < 2000 ms is what the probe read returns,
   however long below 2 s it takes; at or after 2000 ms, or never, the read times out at 2000. *)
Theorem c12_reply_in_window : forall t r rest, r <> [] -> t < 2000 -> zlen r <= 1000 ->
  fst (probe_read (Seg t r :: rest)) = PData r.
Proof. exact probe_read_in_window. Qed.
Print Assumptions c12_reply_in_window.

Theorem c12_reply_late : forall t r rest, r <> [] -> 2000 <= t ->
  fst (probe_read (Seg t r :: rest)) = PErr /\ now (snd (probe_read (Seg t r :: rest))) = 2000.
Proof. exact probe_read_late. Qed.
Print Assumptions c12_reply_late.

Theorem c12_no_reply : fst (probe_read []) = PErr /\ now (snd (probe_read [])) = 2000.
Proof. exact probe_read_silent. Qed.
Print Assumptions c12_no_reply.

(* non-vacuity: concrete replies of each class *)
Example c12_ex_rdy : classify_reply (Some (300, [82; 68; 89; 10; 109; 97; 112; 61; 49; 58; 50; 10])) = RcRdy /\
  classify_client (PData [82; 68; 89; 10; 109; 97; 112; 61; 49; 58; 50; 10]) = (false, []).
Proof. split; reflexivity. Qed.
Example c12_ex_errormsg :
  classify_client (PData (errormsg_prefix ++ [98; 117; 115; 121; 10; 82; 68; 89; 10])) = (false, [98; 117; 115; 121]).
Proof. reflexivity. Qed.
Example c12_ex_late_ack : probe_result (Some (2100, frame ack_payload)) = PErr.
Proof. reflexivity. Qed.
