(* C09 - Submitted messages reach the panel intact, in order, in the negotiated encoding.
   Model: Model/Client.v written / write_one (writer goroutine, connecttopanel.go:140-169) as a
   function of the sequence [subs] in which the goroutine RECEIVES submissions from the
   channel.  proto.Marshal and InboundMessagesToRawPanelASCIIstrings are arbitrary functions
   [marshal], [enc_in].  Incoming traffic does not occur in the writer at all (reader and
   writer share only the socket) - the formal content of "whatever traffic arrives".
   With several submitting goroutines the receive sequence is an interleaving of their
   sequences that keeps each one's order: that is the channel's semantics (trusted, DESIGN
   section 4), exercised by the tie with 4 goroutines and judged by Spec.NetSpec.merge_ok.
   PARTIAL (DESIGN section 5): conn.Write atomicity/completeness and channel behaviour are the
   runtime's; c09_spec_accepts_single_partial: the proof that the spec predicate accepts the
   model's output is given for one submitter only (for several, acceptance of every
   interleaving by the backtracking matcher is validated by the tie, not proved). *)
From RP Require Import Lib.Base Lib.Varint Lib.Strings Model.Net Model.Client Spec.NetSpec
     Proofs.NetWriterProofs.

(* binary: exactly one length-prefixed frame per message, payload = marshal(message), all
   messages of all received lists, in order; nothing else on the wire *)
Theorem c09_wire_bin : forall (Msg : Type) (marshal : Msg -> bytes) (enc_in : list Msg -> list bytes)
    (subs : list (list Msg)) fuel,
  Forall (fun m => zlen (marshal m) < 4294967296) (concat subs) ->
  (length (concat subs) < fuel)%nat ->
  parse_frames fuel (written Msg marshal enc_in true subs) = (map marshal (concat subs), []).
Proof. exact wire_bin. Qed.
Print Assumptions c09_wire_bin.

(* ASCII: the converter's lines, each followed by exactly one line feed, in order *)
Theorem c09_wire_ascii : forall (Msg : Type) (marshal : Msg -> bytes) (enc_in : list Msg -> list bytes)
    (subs : list (list Msg)),
  written Msg marshal enc_in false subs = concat (map (fun l => l ++ [10]) (concat (map enc_in subs))).
Proof. exact wire_ascii. Qed.
Print Assumptions c09_wire_ascii.

Theorem c09_wire_ascii_lines : forall (Msg : Type) (marshal : Msg -> bytes) (enc_in : list Msg -> list bytes)
    (subs : list (list Msg)),
  Forall (fun l => no_lf l = true) (concat (map enc_in subs)) ->
  split_lf (written Msg marshal enc_in false subs) = concat (map enc_in subs) ++ [[]].
Proof. exact wire_ascii_lines. Qed.
Print Assumptions c09_wire_ascii_lines.

(* bytes of different submissions are never interleaved: each submission is one contiguous
   block, placed after all submissions received before it and before all received after it *)
Theorem c09_merge_atomic : forall (Msg : Type) (marshal : Msg -> bytes) (enc_in : list Msg -> list bytes)
    b (before after : list (list Msg)) sub,
  written Msg marshal enc_in b (before ++ sub :: after) =
  written Msg marshal enc_in b before ++ write_one Msg marshal enc_in b sub ++ written Msg marshal enc_in b after.
Proof. exact written_blocks. Qed.
Print Assumptions c09_merge_atomic.

Theorem c09_empty_list_binary : forall (Msg : Type) (marshal : Msg -> bytes) (enc_in : list Msg -> list bytes),
  write_one Msg marshal enc_in true [] = [].
Proof. exact empty_submission_bin. Qed.
Print Assumptions c09_empty_list_binary.

(* the oracle (merge_ok) accepts the unit sequence of a single submitter's submissions,
   empty submissions included *)
Theorem c09_spec_accepts_single_partial : forall fuel (s : list (list bytes)), (length (drop_empty s) < fuel)%nat ->
  merge_ok fuel (concat s) [s] = true.
Proof. exact merge_ok_single. Qed.
Print Assumptions c09_spec_accepts_single_partial.

(* non-vacuity *)
Example c09_ex_bin :
  written Z (fun m => [8; m]) (fun _ => []) true [[1; 2]; []; [3]] = [2;0;0;0;8;1; 2;0;0;0;8;2; 2;0;0;0;8;3] /\
  parse_frames 5 (written Z (fun m => [8; m]) (fun _ => []) true [[1; 2]; []; [3]]) = ([[8;1]; [8;2]; [8;3]], []).
Proof. split; reflexivity. Qed.
Example c09_ex_merge : merge_ok 5 [[1]; [2]; [9]; [3]] [[[[1]; [2]]; [[3]]]; [[[9]]]] = true /\
                       merge_ok 5 [[1]; [9]; [2]; [3]] [[[[1]; [2]]; [[3]]]; [[[9]]]] = false.
Proof. split; reflexivity. Qed.
