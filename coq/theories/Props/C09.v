(* C09 - stub, theorems follow *)
From RP Require Import Lib.Base Lib.Varint Model.Net Model.Client Spec.NetSpec Proofs.NetProofs.
Theorem stub_probe_bytes : probe_bytes = [2; 0; 0; 0; 8; 1].
Proof. exact probe_bytes_eq. Qed.
Print Assumptions stub_probe_bytes.
