(* C20 — Text metrics bound the ink; rendering is translation- and scale-consistent.
   Only statements here; each closed by [exact] of a lemma from Proofs/.

   Vocabulary (Spec/TextBox.v, Proofs/TextRender.v):
     render_at g t cx cy s d   = buffer after SetCursor(cx,cy); RenderText(s) on canvas g, buffer d
                                 (s: ANY byte string; enters through Lib/Utf8.range_bytes, i.e. Go's
                                 range-over-string + byte(rune) truncation)
     str_width t s, line_height t = StrWidth(s), LineHeight()
     g0 W H, d0 W H            = geometry / zeroed buffer of NewImage(W,H), any 0 <= W, H
     sizes_ok t                = 1 <= textsizeH, 1 <= textsizeV, 0 <= charSpacing (a byte)
     lh t                      = textsizeV * fontBBHeight (= LineHeight() when it fits uint32)
     box_law / translation_law / scale_law / glyph_law = the executable predicates the search
                                 oracle evaluates on the IMPLEMENTATION's buffers (Run/C20.v).
   All statements: every font (tfont: any Z, normalised as SetFont does), both modes, every
   spacing >= 0, all sizes >= 1, every cursor, every string; no bound on string length. *)
From RP Require Import Lib.Base Lib.Utf8 Model.Mono Spec.Clip Spec.TextBox
  Proofs.PixelProofs Proofs.OpsProofs Proofs.TextGlyph Proofs.TextVal Proofs.TextRender Proofs.TextLaws Proofs.TextOracle.
From RP Require Run.C20.

(* ---------- (1) the metric box bounds the ink ----------
   For ANY canvas, bounding box, start buffer and cursor (no "large enough" needed: clipping only
   removes pixels), wrapping off: every pixel RenderText changes lies in
   [cx, cx + StrWidth + sizeH) x [cy, cy + LineHeight) (bounding-box-relative) and in the clip
   rectangle.  _partial: strings whose truncated runes contain no byte 10 (F16, refuted below).
   Byte 13 is allowed: StrWidth counts it, writeChar skips it - the box only gets wider. *)
Theorem c20_ink_in_box_partial : forall g t cx cy s d,
  twrap t = false -> sizes_ok t -> lh t < 4294967296 -> wfg g d ->
  has_lf (range_bytes s) = false ->
  wfg g (render_at g t cx cy s d) /\
  forall c r, 0 <= c < 8 * gwib g -> 0 <= r < gH g ->
    px (gwib g) (render_at g t cx cy s d) c r <> px (gwib g) d c r ->
    in_box cx cy (str_width t s) (tsh t) (line_height t) (c - gbx g) (r - gby g) = true /\ in_clip g c r = true.
Proof. exact ink_in_box. Qed.
Print Assumptions c20_ink_in_box_partial.

(* the same as the oracle evaluates it, on NewImage canvases *)
Theorem c20_box_law_partial : forall W H t cx cy s d,
  0 <= W -> 0 <= H -> twrap t = false -> sizes_ok t -> lh t < 4294967296 ->
  wfg (g0 W H) d -> has_lf (range_bytes s) = false ->
  box_law W H ((W + 7) / 8) d (render_at (g0 W H) t cx cy s d) cx cy (str_width t s) (tsh t) (line_height t) = true.
Proof. exact box_law_holds. Qed.
Print Assumptions c20_box_law_partial.

(* stateful use (one image object, any history): for ANY well-formed image i reached by any
   sequence of setters, measurements and drawings, a RenderText step changes pixels only inside the
   box that StrWidth / LineHeight report for the state in force at that moment (they are
   functions of that state alone - no memo, no history) *)
Theorem c20_ink_in_box_step_partial : forall (i : img) (s : list Z),
  wf_img i -> twrap (it i) = false -> sizes_ok (it i) -> lh (it i) < 4294967296 ->
  has_lf (range_bytes s) = false ->
  let i' := run_op i (OText s) in
  wf_img i' /\
  forall c r, 0 <= c < 8 * gwib (ig i) -> 0 <= r < gH (ig i) ->
    px (gwib (ig i)) (idata i') c r <> px (gwib (ig i)) (idata i) c r ->
    in_box (tcx (it i)) (tcy (it i)) (str_width (it i) s) (tsh (it i)) (line_height (it i))
           (c - gbx (ig i)) (r - gby (ig i)) = true.
Proof. exact ink_in_box_step. Qed.
Print Assumptions c20_ink_in_box_step_partial.

(* F16: with a byte 10 the cursor goes to column 0 of the next line; the literal claim is false *)
Theorem c20_ink_in_box_refuted :
  let t := t_demo 0 1 1 in let s := [65; 10; 66] in
  twrap t = false /\ sizes_ok t /\ box_fits 40 24 10 5 (str_width t s) (tsh t) (line_height t) = true /\
  box_law 40 24 5 (d0 40 24) (render_at (g0 40 24) t 10 5 s (d0 40 24)) 10 5 (str_width t s) (tsh t) (line_height t) = false.
Proof. exact ink_in_box_lf_witness. Qed.
Print Assumptions c20_ink_in_box_refuted.

(* ---------- (2) translation ----------
   Canvas large enough for the box at both cursors (any geometry: cell_fits = the box passes
   DrawChar's clip tests and lies in DrawPixel's clip rectangle), blank canvases.
   pxr = visible pixel in bounding-box-relative coordinates, false outside the canvas.
   _partial: no byte 10 (F16). *)
Theorem c20_translation_partial : forall g t cx cy dx dy s dA dB,
  twrap t = false -> sizes_ok t -> blank g dA -> blank g dB -> has_lf (range_bytes s) = false ->
  cell_fits g cx cy (str_width t s + tsh t) (lh t) = true ->
  cell_fits g (cx + dx) (cy + dy) (str_width t s + tsh t) (lh t) = true ->
  forall a b, pxr g (render_at g t (cx + dx) (cy + dy) s dB) (a + dx) (b + dy) = pxr g (render_at g t cx cy s dA) a b.
Proof. exact translation. Qed.
Print Assumptions c20_translation_partial.

Theorem c20_translation_law_partial : forall W H t cx cy dx dy s,
  0 <= W -> 0 <= H -> twrap t = false -> sizes_ok t -> lh t < 4294967296 ->
  has_lf (range_bytes s) = false ->
  box_fits W H cx cy (str_width t s) (tsh t) (line_height t) = true ->
  box_fits W H (cx + dx) (cy + dy) (str_width t s) (tsh t) (line_height t) = true ->
  translation_law W H ((W + 7) / 8)
    (render_at (g0 W H) t cx cy s (d0 W H)) (render_at (g0 W H) t (cx + dx) (cy + dy) s (d0 W H)) dx dy = true.
Proof. exact translation_law_holds. Qed.
Print Assumptions c20_translation_law_partial.

Theorem c20_translation_refuted :
  let t := t_demo 0 1 1 in let s := [65; 10; 66] in
  box_fits 40 24 10 5 (str_width t s) (tsh t) (line_height t) = true /\
  box_fits 40 24 13 6 (str_width t s) (tsh t) (line_height t) = true /\
  translation_law 40 24 5 (render_at (g0 40 24) t 10 5 s (d0 40 24)) (render_at (g0 40 24) t 13 6 s (d0 40 24)) 3 1 = false.
Proof. exact translation_lf_witness. Qed.
Print Assumptions c20_translation_refuted.

(* ---------- (3) scaling ----------
   (3a) glyph-wise, FULL: for ALL strings (byte 10 and 13 included), any spacing: pixel (a,b) of
   the size-(h,v) rendering from (x,y) equals the pixel of the size-1 rendering from (x1,y1)
   that [src_pixel] names - glyph k's pixel (i,j) enlarged to the block
   [x_k + i*h, +h) x [y_k + j*v, +v), glyph origins advancing by h*width_k + spacing - and is
   unlit outside all glyph cells.  With h = v = 1 this is also the translation law for strings
   WITH line feeds (first line moves with the cursor, later lines start at column 0). *)
Theorem c20_scale_glyph : forall g t x y x1 y1 s dA dC,
  twrap t = false -> sizes_ok t -> blank g dA -> blank g dC ->
  cells_fit g t (range_bytes s) x y = true ->
  cells_fit g (with_size t 1 1) (range_bytes s) x1 y1 = true ->
  forall a b,
    pxr g (render_at g t x y s dA) a b =
    match src_pixel (range_bytes s) (map (char_width t) (range_bytes s)) (tspacing t) (tsh t) (tsv t) (font_bbh (tfont t)) x y x1 y1 a b with
    | Some (a1, b1) => pxr g (render_at g (with_size t 1 1) x1 y1 s dC) a1 b1
    | None => false
    end.
Proof. exact scale_glyph. Qed.
Print Assumptions c20_scale_glyph.

Theorem c20_glyph_law : forall W H t x y x1 y1 s,
  0 <= W -> 0 <= H -> twrap t = false -> sizes_ok t ->
  let cs := range_bytes s in
  let ws := map (char_width t) cs in
  layout_fits W H cs ws (tspacing t) (tsh t) (lh t) x y = true ->
  layout_fits W H cs ws (tspacing t) 1 (font_bbh (tfont t)) x1 y1 = true ->
  glyph_law W H ((W + 7) / 8)
    (render_at (g0 W H) t x y s (d0 W H)) (render_at (g0 W H) (with_size t 1 1) x1 y1 s (d0 W H))
    cs ws (tspacing t) (tsh t) (tsv t) (font_bbh (tfont t)) x y x1 y1 = true.
Proof. exact glyph_law_holds. Qed.
Print Assumptions c20_glyph_law.

(* (3b) whole string: rendering at (h,v) = the size-1 rendering with every pixel enlarged h x v
   about the cursor.  _partial: character spacing 0 or at most one drawn character (F17), and
   no byte 10 (F16); both refuted below. *)
Theorem c20_scale_string_partial : forall g t cx cy s dA dC,
  twrap t = false -> sizes_ok t -> blank g dA -> blank g dC -> has_lf (range_bytes s) = false ->
  scale_string_scope (range_bytes s) (tspacing t) = true ->
  cell_fits g cx cy (str_width t s + tsh t) (lh t) = true ->
  forall a b,
    pxr g (render_at g t cx cy s dA) a b =
    (cx <=? a) && (cy <=? b) &&
    let '(a1, b1) := scale_src cx cy (tsh t) (tsv t) a b in pxr g (render_at g (with_size t 1 1) cx cy s dC) a1 b1.
Proof. exact scale_string. Qed.
Print Assumptions c20_scale_string_partial.

Theorem c20_scale_law_partial : forall W H t cx cy s,
  0 <= W -> 0 <= H -> twrap t = false -> sizes_ok t -> lh t < 4294967296 ->
  has_lf (range_bytes s) = false ->
  scale_string_scope (range_bytes s) (tspacing t) = true ->
  box_fits W H cx cy (str_width t s) (tsh t) (line_height t) = true ->
  scale_law W H ((W + 7) / 8)
    (render_at (g0 W H) t cx cy s (d0 W H)) (render_at (g0 W H) (with_size t 1 1) cx cy s (d0 W H))
    cx cy (tsh t) (tsv t) = true.
Proof. exact scale_law_holds. Qed.
Print Assumptions c20_scale_law_partial.

(* F17: "AB", spacing 2, size (2,2): the gap between glyphs stays 2, not 4 *)
Theorem c20_scale_string_refuted :
  let t := t_demo 2 2 2 in let s := [65; 66] in
  has_lf (range_bytes s) = false /\
  box_fits 40 24 3 2 (str_width t s) (tsh t) (line_height t) = true /\
  scale_law 40 24 5 (render_at (g0 40 24) t 3 2 s (d0 40 24)) (render_at (g0 40 24) (with_size t 1 1) 3 2 s (d0 40 24)) 3 2 2 2 = false.
Proof. exact scale_spacing_witness. Qed.
Print Assumptions c20_scale_string_refuted.

Theorem c20_scale_string_lf_refuted :
  let t := t_demo 0 2 2 in let s := [65; 10; 66] in
  box_fits 40 40 3 2 (str_width t s) (tsh t) (line_height t) = true /\
  scale_law 40 40 5 (render_at (g0 40 40) t 3 2 s (d0 40 40)) (render_at (g0 40 40) (with_size t 1 1) 3 2 s (d0 40 40)) 3 2 2 2 = false.
Proof. exact scale_lf_witness. Qed.
Print Assumptions c20_scale_string_lf_refuted.

(* ---------- metrics ---------- *)
Theorem c20_line_height : forall t, 0 <= tsv t -> lh t < 4294967296 -> line_height t = tsv t * font_bbh (tfont t).
Proof. exact line_height_lh. Qed.
Print Assumptions c20_line_height.

(* StrWidth + one size step = the sum of the per-character advances (CR and LF counted) *)
Theorem c20_str_width_sum : forall t s, str_width t s + tsh t = adv_sum t (range_bytes s).
Proof. exact str_width_box. Qed.
Print Assumptions c20_str_width_sum.

(* per-font obligations, re-proved on the font tables REGENERATED from /repo on every run
   (3 fonts x 2 modes x 256 characters): table length 96*fMemW, 1 <= width <= bbW+1, every
   index DrawChar / GetCharWidth / GetCharStart reads is inside the table *)
Theorem c20_font_tables_ok : font_reads_ok = true.
Proof. exact font_reads_ok_true. Qed.
Print Assumptions c20_font_tables_ok.

(* ---------- the oracle evaluates these very predicates ----------
   Run/C20.v reads the implementation's buffers through an indexed view (rows); it returns the
   same pixels as the list view of the theorems, so its verdicts are box_law / translation_law /
   scale_law / glyph_law on the observed buffers. *)
Theorem c20_oracle_pixel_view : forall wib d c r, 0 < wib -> 0 <= c < 8 * wib -> 0 <= r ->
  Run.C20.fpx (Run.C20.rows_of wib d) c r = px wib d c r.
Proof. exact fpx_px. Qed.
Print Assumptions c20_oracle_pixel_view.

Theorem c20_oracle_box : forall W H d0 d1 cx cy strw sh lineh, 0 < W ->
  let wib := (W + 7) / 8 in
  box_law_p (8 * wib) H (Run.C20.fpx (Run.C20.rows_of wib d0)) (Run.C20.fpx (Run.C20.rows_of wib d1)) cx cy strw sh lineh
  = box_law W H wib d0 d1 cx cy strw sh lineh.
Proof. exact oracle_box. Qed.
Print Assumptions c20_oracle_box.

Theorem c20_oracle_scale : forall W H dA dC cx cy h v, 0 <= W ->
  let wib := (W + 7) / 8 in
  scale_law_p W H (Run.C20.fpx (Run.C20.rows_of wib dA)) (Run.C20.fpx (Run.C20.rows_of wib dC)) cx cy h v
  = scale_law W H wib dA dC cx cy h v.
Proof. exact oracle_scale. Qed.
Print Assumptions c20_oracle_scale.

(* ---------- non-vacuity ---------- *)
(* a string with CR, >127 and an invalid UTF-8 byte satisfies every hypothesis of (1)-(3b) at
   size (3,2), spacing 0, and does light pixels *)
Example c20_nonvacuous :
  let t := t_demo 0 3 2 in let s := [72; 13; 105; 200; 33] in
  twrap t = false /\ sizes_ok t /\ lh t < 4294967296 /\ has_lf (range_bytes s) = false /\
  scale_string_scope (range_bytes s) (tspacing t) = true /\
  box_fits 90 30 4 3 (str_width t s) (tsh t) (line_height t) = true /\
  box_fits 90 30 (4 + 2) (3 + 5) (str_width t s) (tsh t) (line_height t) = true /\
  str_width t s = 69 /\ line_height t = 16 /\
  render_at (g0 90 30) t 4 3 s (d0 90 30) <> d0 90 30.
Proof. vm_compute. repeat split; try reflexivity; try lia; discriminate. Qed.

(* the CR observation *)
Example c20_cr_harmless :
  let t := t_demo 1 2 1 in
  str_width t [65; 13; 66] = str_width t [65; 66] + (6 * 2 + 1) /\
  render_at (g0 40 10) t 1 1 [65; 13; 66] (d0 40 10) = render_at (g0 40 10) t 1 1 [65; 66] (d0 40 10).
Proof. exact cr_example. Qed.
