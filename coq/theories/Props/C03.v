(* placeholder while the tie is being validated; theorems follow *)
From RP Require Import Lib.Base.
Example placeholder_C03 : True.
Proof. exact I. Qed.
