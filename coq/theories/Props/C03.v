(* C03 - Panel messages keep their meaning when written as ASCII lines.
   Only statements here; each closed by [exact] of a lemma from Proofs/.

   Model: Model/EncOut.v (OutboundMessagesToRawPanelASCIIstrings incl. the final singleLines pass).
   Spec:  Spec/GrammarOut.v (independent reader, representable domain), Spec/DenoteOut.v (den_out,
          reports_equiv).  wf_line l = "l is a line of the reference grammar".
   Domain (representable_outb): flow words 0-5,100; ids/values in their 32-bit ranges; edges
   0..2^31-1 (the quantifier's 0,1,2,4,8,16 included); panel types 0-5, health 0-2; all 2^13
   capability sets; text without LF; address-list elements non-empty, without ';' and
   surrounding white space; payloads (topology, profiles, messages) that the flattening of
   C07 leaves unchanged (one trimmed line - see c03_payload_fixed_point); finite floats
   (no bound on their magnitude); register ids [A-Z0-9]*, flag ids canonical decimals with value 0/1.
   The NetworkConfig JSON text is produced by encoding/json (oracle, carried as text). *)
From RP Require Import Lib.Base Lib.Sexp Lib.Strings Lib.TrimSpace Lib.FloatFmt Model.MsgOut Model.Flatten Model.EncOut
  Spec.DenoteOut Spec.GrammarOut Proofs.OutEncLines Proofs.OutEncSys Proofs.OutEncSound.
From Coq Require Import Permutation.
Open Scope Z_scope.

(* The property: for every list of representable messages and every iteration order of each
   availability map, the encoder returns lines; every line is a line of the grammar; and the
   reports read from the lines, in order, are the reports of the messages in message order -
   the map entries of ONE message may come in any order inside that message's block. *)
Theorem c03_enc_out_sound : forall (flat flat_svg : bytes -> bytes) ms msgs ords,
  all_some_msgs ms = Some msgs ->
  Forall (fun m => representable_outb flat flat_svg m = true) msgs ->
  orders_ok ords msgs ->
  exists ls, enc_out flat flat_svg ords ms = Ok ls /\
    Forall wf_line ls /\ reports_equiv (flat_map sem_out_line ls) (map den_out msgs).
Proof. exact enc_out_sound. Qed.
Print Assumptions c03_enc_out_sound.

(* the same for the encoder with the library's own flattening helpers (Model/Flatten.v) *)
Theorem c03_enc_out_go_sound : forall ms msgs ords,
  all_some_msgs ms = Some msgs ->
  Forall (fun m => representable_outb strip_lb strip_lb_svg m = true) msgs ->
  orders_ok ords msgs ->
  exists ls, enc_out_go ords ms = Ok ls /\
    Forall wf_line ls /\ reports_equiv (flat_map sem_out_line ls) (map den_out msgs).
Proof. exact (enc_out_sound strip_lb strip_lb_svg). Qed.
Print Assumptions c03_enc_out_go_sound.

(* one message: its lines are its pre-map items, its map entries in iteration order, the rest *)
Theorem c03_enc_msg_sound : forall (flat flat_svg : bytes -> bytes) ord m,
  representable_outb flat flat_svg m = true -> Permutation ord (om_map m) ->
  exists ls, enc_msg flat flat_svg ord m = Ok ls /\
    Forall wf_line ls /\ block_equiv (flat_map sem_out_line ls) (den_out m).
Proof. exact enc_msg_sound. Qed.
Print Assumptions c03_enc_msg_sound.

(* events: every kind, the edge suffix rule (".e" iff edge > 0), signed / unsigned 32-bit values *)
Theorem c03_event_lines : forall e, rep_event (Some e) = true ->
  Forall wf_line (enc_event e) /\ flat_map sem_out_line (enc_event e) = den_event e.
Proof. exact good_event. Qed.
Print Assumptions c03_event_lines.

(* all subsets of the 13 capability flags (finite sweep over the 8192 lists, lifted) *)
Theorem c03_capability_list : forall c : list bool, length c = 13%nat ->
  exists st, read_out_line (enc_support c) = WF st [RCaps c].
Proof. exact sem_support. Qed.
Print Assumptions c03_capability_list.

(* the printed digits of a finite float32, any magnitude: %.1f / %.2f read back as the value
   rounded half-even to that precision *)
Theorem c03_float_digits : forall k b, k = 1 \/ k = 2 -> f32_finite b = true ->
  read_dec (Z.to_nat k) (fmt_f32 k b) = Some (fmt_strict k b, f32_scaled k b).
Proof. exact read_dec_fmt. Qed.
Print Assumptions c03_float_digits.

(* all 20 system-statistics fields *)
Theorem c03_sysstat_line : forall s, rep_sys s = true ->
  exists st, read_out_line (enc_sys s) = WF st [den_sys s].
Proof. exact sem_sys_line. Qed.
Print Assumptions c03_sysstat_line.

(* what "the flattening leaves the payload unchanged" means for stripLineBreaks *)
Theorem c03_payload_fixed_point : forall s,
  text_ok s = true -> trim_space s = s -> payload_ok strip_lb s = true.
Proof. exact payload_fixed_point. Qed.
Print Assumptions c03_payload_fixed_point.

(* Non-vacuity: a message using every section (flow, identity, 6 of 13 capabilities, topology,
   timers, connections, statistics with negative zero and extreme integers, a 3-entry map, all
   five event kinds at the 32-bit boundaries, three registers) is in the domain. *)
Example c03_nonvacuous : representable_outb strip_lb strip_lb_svg demo_msg = true.
Proof. exact demo_msg_representable. Qed.
