(* C10 - Malformed or stalled panel streams are contained.
   Model: Model/Client.v bin_loop as repaired by /repo commit 30d366e (finding F14: the 2 s
   deadline is armed once the first header byte has arrived), environment Model/Net.v.
   Spec: Spec.NetSpec.next_frame / walk_bin (reference reading with the three fault kinds),
   which is also the oracle evaluated on the implementation's trace (Run/C10.v).
   The lifecycle consequences (non-cancelled disconnect, reconnect after the retry period) are
   theorems of C11 (Props/C11.v: c11_reconnects_after_loss); "never panics" is by construction
   of the model (no partial operation occurs in the loop) and is observed by the tie.
   PARTIAL (DESIGN section 5): runtime, kernel, timers exercised by the tie, not modelled. *)
From RP Require Import Lib.Base Lib.Varint Lib.Strings Model.Net Model.Client Spec.NetSpec
     Proofs.NetProofs Proofs.NetFrameProofs.

(* Never reserves memory of attacker-chosen size: for EVERY connection state, stream and
   header value (all 2^32 of them and beyond), every allocation is below 500000. *)
Theorem c10_alloc_bounded : forall (M : Type) (unmarshal : bytes -> M) fuel c,
  Forall (fun n => n < 500000) (allocs M (fst (bin_loop M unmarshal fuel c))).
Proof. exact alloc_bounded_any. Qed.
Print Assumptions c10_alloc_bounded.

(* A fault of any of the three kinds at ANY position of an otherwise valid stream (after any
   number of good frames, whatever follows it): every good frame before it is delivered,
   nothing of the broken frame or of the bytes after it, and the connection is dropped at the
   instant the reference reading names - t = header completion for a length >= 500000 (k = 2),
   first header byte + 2 s for a stall inside the header (k = 1), header + 2 s for a stall
   inside the payload (k = 3). *)
Theorem c10_fault_contained : forall (M : Type) (unmarshal : bytes -> M) ps good bad nw fuel t k,
  Forall (fun p => zlen p < limit) ps ->
  map snd good = concat (map frame ps) -> frames_timely good ps = true ->
  next_frame bad = FFault t k ->
  tb_sorted nw (good ++ bad) = true ->
  (length (good ++ bad) < fuel)%nat -> (length ps < fuel)%nat ->
  map snd (deliveries M (fst (bin_loop M unmarshal fuel (C nw (good ++ bad) None)))) = map unmarshal ps /\
  snd (bin_loop M unmarshal fuel (C nw (good ++ bad) None)) = (if k =? 2 then Dropped t RLimit else Dropped t RTimeout).
Proof. exact fault_contained. Qed.
Print Assumptions c10_fault_contained.

(* the fault kinds, for all header values and all timings *)
Theorem c10_over_limit_is_fault : forall t1 b1 h' rest,
  let h := (t1, b1) :: h' in
  zlen h = 4 -> limit <= u32le (map snd h) -> tmax h t1 < t1 + inframe ->
  next_frame (h ++ rest) = FFault (tmax h t1) 2.
Proof. exact over_limit_shape. Qed.
Print Assumptions c10_over_limit_is_fault.

Theorem c10_header_stall_is_fault_short : forall t1 b1 r, zlen ((t1, b1) :: r) < 4 ->
  next_frame ((t1, b1) :: r) = FFault (t1 + inframe) 1.
Proof. exact header_stall_short. Qed.
Print Assumptions c10_header_stall_is_fault_short.

Theorem c10_header_stall_is_fault_late : forall t1 b1 h' rest,
  let h := (t1, b1) :: h' in
  zlen h = 4 -> t1 + inframe <= tmax h t1 -> next_frame (h ++ rest) = FFault (t1 + inframe) 1.
Proof. exact header_stall_late. Qed.
Print Assumptions c10_header_stall_is_fault_late.

Theorem c10_payload_stall_is_fault : forall t1 b1 h' rest,
  let h := (t1, b1) :: h' in
  let v := u32le (map snd h) in
  zlen h = 4 -> v < limit -> tmax h t1 < t1 + inframe ->
  (zlen rest < v \/ exists pl r', rest = pl ++ r' /\ zlen pl = v /\ 0 < v /\ tmax h t1 + inframe <= tmax pl (tmax h t1)) ->
  next_frame (h ++ rest) = FFault (tmax h t1 + inframe) 3.
Proof. exact payload_stall_shape. Qed.
Print Assumptions c10_payload_stall_is_fault.

(* A frame of correct length whose payload is empty or not a valid protobuf never
   desynchronises the stream: [unmarshal] is an arbitrary function the framing cannot inspect,
   and the payloads [ps] are arbitrary byte strings - every following frame is delivered. *)
Theorem c10_junk_payload_keeps_sync : forall (M : Type) (unmarshal : bytes -> M) ps tb nw fuel,
  Forall (fun p => zlen p < limit) ps ->
  map snd tb = concat (map frame ps) ->
  tb_sorted nw tb = true -> frames_timely tb ps = true ->
  (length tb < fuel)%nat -> (length ps < fuel)%nat ->
  map snd (deliveries M (fst (bin_loop M unmarshal fuel (C nw tb None)))) = map unmarshal ps /\
  snd (bin_loop M unmarshal fuel (C nw tb None)) = Waiting.
Proof. exact bin_framing. Qed.
Print Assumptions c10_junk_payload_keeps_sync.

(* boundaries: 499999 accepted (then the missing payload stalls), 500000 / 2^31 / 2^32-1 refused
   at once; a stall after 2 of 4 header bytes (finding F14) drops at first byte + 2 s and the
   rest of the frame, arriving later, is not delivered *)
Example c10_ex_boundaries :
  next_frame [(5, 31); (5, 161); (5, 7); (5, 0)] = FFault 2005 3 /\
  next_frame [(5, 32); (5, 161); (5, 7); (5, 0); (6, 1)] = FFault 5 2 /\
  next_frame [(5, 0); (5, 0); (5, 0); (5, 128)] = FFault 5 2 /\
  next_frame [(5, 255); (5, 255); (5, 255); (5, 255)] = FFault 5 2.
Proof. repeat split; reflexivity. Qed.
Example c10_ex_f14 :
  bin_loop bytes (fun p => p) 20 (C 0 [(10, 1); (10, 0); (4000, 0); (4000, 0); (4000, 9)] None) = ([], Dropped 2010 RTimeout).
Proof. reflexivity. Qed.
Example c10_ex_junk :
  map snd (deliveries bytes (fst (bin_loop bytes (fun p => p) 20 (C 0 [(1, 0); (1, 0); (1, 0); (1, 0); (2, 2); (2, 0); (2, 0); (2, 0); (2, 255); (2, 255); (3, 1); (3, 0); (3, 0); (3, 0); (3, 8)] None))))
  = [[]; [255; 255]; [8]].
Proof. reflexivity. Qed.
