(* C08 - Receive framing is independent of TCP segmentation and timing.
   Model: Model/Client.v bin_loop / asc_loop (connecttopanel.go:178-223) over the environment
   Model/Net.v; a connection after negotiation is [C now tb close] where [tb] is the list of
   (arrival time, byte) still to come.  "Every way the byte stream is cut into TCP segments and
   spaced in time" = every assignment of non-decreasing arrival times to the bytes: the
   hypotheses below mention only the byte VALUES (the concatenation) and, for binary frames,
   the in-frame timing the property text itself excludes ("the 2 s in-frame timeout"): a
   frame's header is complete < 2 s after its first byte and its payload < 2 s after its header
   (Spec.NetSpec.frames_timely).  Gaps BETWEEN frames are unconstrained.
   proto.Unmarshal and the ASCII converter are arbitrary functions [unmarshal], [decode].
   PARTIAL (DESIGN section 5): Go scheduler, kernel TCP and timers are exercised by the tie
   (harness/net: real sockets, all single and double cut points, dribble, idle gaps), not modelled. *)
From RP Require Import Lib.Base Lib.Varint Lib.Strings Model.Net Model.Client Spec.NetSpec
     Proofs.NetProofs Proofs.NetFrameProofs.

(* Binary: for every sequence of payloads (any bytes, any sizes below the limit, empty
   included) and every timing of the resulting byte stream that keeps each frame timely, the
   client delivers exactly unmarshal(payload) for each frame, once, in order, nothing else,
   and stays connected. *)
Theorem c08_bin_framing : forall (M : Type) (unmarshal : bytes -> M) ps tb nw fuel,
  Forall (fun p => zlen p < limit) ps ->
  map snd tb = concat (map frame ps) ->
  tb_sorted nw tb = true ->
  frames_timely tb ps = true ->
  (length tb < fuel)%nat -> (length ps < fuel)%nat ->
  map snd (deliveries M (fst (bin_loop M unmarshal fuel (C nw tb None)))) = map unmarshal ps /\
  snd (bin_loop M unmarshal fuel (C nw tb None)) = Waiting.
Proof. exact bin_framing. Qed.
Print Assumptions c08_bin_framing.

(* the same for a peer script cut into segments in any way: only its concatenation matters *)
Theorem c08_bin_framing_script : forall (M : Type) (unmarshal : bytes -> M) ps (s : script) nw fuel,
  Forall (fun p => zlen p < limit) ps ->
  bytes_of s = concat (map frame ps) ->
  tb_sorted nw (tbytes s) = true ->
  frames_timely (tbytes s) ps = true ->
  (length (tbytes s) < fuel)%nat -> (length ps < fuel)%nat ->
  map snd (deliveries M (fst (bin_loop M unmarshal fuel (C nw (tbytes s) None)))) = map unmarshal ps.
Proof. intros M u ps s nw fuel H1 H2 H3 H4 H5 H6. exact (proj1 (bin_framing M u ps (tbytes s) nw fuel H1 H2 H3 H4 H5 H6)). Qed.
Print Assumptions c08_bin_framing_script.

(* idle periods between messages, however long, and any two timings of the same stream:
   the deliveries do not depend on the timing at all (both equal the frames sent) *)
Theorem c08_timing_independent : forall (M : Type) (unmarshal : bytes -> M) ps tb tb' nw nw' fuel,
  Forall (fun p => zlen p < limit) ps ->
  map snd tb = concat (map frame ps) -> map snd tb' = concat (map frame ps) ->
  tb_sorted nw tb = true -> tb_sorted nw' tb' = true ->
  frames_timely tb ps = true -> frames_timely tb' ps = true ->
  (length tb < fuel)%nat -> (length tb' < fuel)%nat -> (length ps < fuel)%nat ->
  map snd (deliveries M (fst (bin_loop M unmarshal fuel (C nw tb None)))) =
  map snd (deliveries M (fst (bin_loop M unmarshal fuel (C nw' tb' None)))).
Proof.
  intros M u ps tb tb' nw nw' fuel H1 H2 H2' H3 H3' H4 H4' H5 H5' H6.
  rewrite (proj1 (bin_framing M u ps tb nw fuel H1 H2 H3 H4 H5 H6)).
  rewrite (proj1 (bin_framing M u ps tb' nw' fuel H1 H2' H3' H4' H5' H6)). reflexivity.
Qed.
Print Assumptions c08_timing_independent.

(* The general statement behind it: on EVERY timed stream (sorted arrival times, with or without
   a close after it) the loop delivers exactly what the reference reading of the stream
   (Spec.NetSpec.walk_bin, the oracle run on the implementation) yields, at the completion
   times, and ends as it says. *)
Theorem c08_bin_refines_reference : forall (M : Type) (unmarshal : bytes -> M) fuel tb nw c,
  tb_sorted nw tb = true -> close_after c nw tb -> (length tb < fuel)%nat ->
  deliveries M (fst (bin_loop M unmarshal fuel (C nw tb c))) = map (fun g => (snd g, unmarshal (fst g))) (fst (walk_bin fuel tb)) /\
  Forall (fun n => n < limit) (allocs M (fst (bin_loop M unmarshal fuel (C nw tb c)))) /\
  snd (bin_loop M unmarshal fuel (C nw tb c)) = spec_outcome (snd (walk_bin fuel tb)) c.
Proof. exact bin_refines. Qed.
Print Assumptions c08_bin_refines_reference.

(* ASCII: lines free of LF, each terminated by LF or CRLF, any timing and cutting whatsoever
   (no deadline exists in ASCII mode): exactly decode(TrimSpace(line)) per line, in order;
   in particular no CR is left on a line (trim_space (l ++ CRLF) = trim_space l). *)
Theorem c08_ascii_framing : forall (M : Type) (decode : bytes -> M) (ls : list (bytes * bool)) (tb : list (Z * Z)) nw fuel,
  Forall (fun le => no_lf (fst le) = true) ls ->
  map snd tb = concat (map (fun le => fst le ++ eol (snd le)) ls) ->
  (length tb < fuel)%nat ->
  map snd (deliveries M (fst (asc_loop M decode fuel (C nw tb None)))) = map (fun le => decode (trim_space (fst le))) ls /\
  snd (asc_loop M decode fuel (C nw tb None)) = Waiting.
Proof. exact ascii_framing. Qed.
Print Assumptions c08_ascii_framing.

Theorem c08_terminator_trimmed : forall l e, trim_space (l ++ eol e) = trim_space l.
Proof. exact trim_space_eol. Qed.
Print Assumptions c08_terminator_trimmed.

(* non-vacuity: two frames, the second one an hour after the first, header split 1.5 s *)
Example c08_ex_idle_hour :
  let tb := [(10, 2); (10, 0); (10, 0); (10, 0); (10, 8); (10, 2);
             (3600000, 1); (3600000, 0); (3601500, 0); (3601500, 0); (3603000, 7)] in
  frames_timely tb [[8; 2]; [7]] = true /\ tb_sorted 5 tb = true /\
  map snd (deliveries bytes (fst (bin_loop bytes (fun p => p) 20 (C 5 tb None)))) = [[8; 2]; [7]].
Proof. repeat split; reflexivity. Qed.
Example c08_ex_crlf :
  map snd (deliveries bytes (fst (asc_loop bytes (fun l => l) 20 (C 0 [(1, 97); (1, 13); (9, 10); (9, 32); (20, 98); (30, 10)] None)))) = [[97]; [98]].
Proof. reflexivity. Qed.
