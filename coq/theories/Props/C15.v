(* C15 — Composite panel SVG contains exactly the visible components, correctly placed.
   Only statements here; each closed by [exact] of a lemma from Proofs/TopoSvg.v.
   Model: Model/TopoSvg.v = the list of nodes GenerateCompositeSVGdoc APPENDS to the root of the
   parsed base document (svgicon.go:57-214), from C13's resolved definitions; the float32
   behaviour (compare with 0, "%03f", += 90) is the explicit argument [fe], and the theorems hold
   for every [fe] whose zero test is the float32 one.  Spec: Spec/TopoSvg.v.
   PARTIAL by design (DESIGN section 5 C15): XML parsing of the base document and serialisation are
   go-xmldom's; "the output is well-formed XML", "the base document's content is kept" and
   "an unparsable base yields an empty result rather than a panic" are TIED on every run (the
   harness re-parses the output with encoding/xml and compares the base subtree; oracle tags
   c15-wellformed, c15-base-kept, c15-bad-base), not proved. *)
From RP Require Import Lib.Base Lib.Sexp Lib.Strings Model.Topo Model.TopoSvg Spec.Topo Spec.TopoSvg
     Proofs.TopoSvg.
From Coq Require Import String.

(* The appended nodes are the concatenation, in component order, of the nodes of the components
   that are not masked out (no map, or a non-zero map entry). *)
Theorem c15_nodes_in_component_order : forall fe o t m,
  svg_nodes fe o t m = flat_map (comp_nodes fe o t) (filter (fun h => avail m (hId h)) (tpHWc t)).
Proof. exact nodes_in_component_order. Qed.
Print Assumptions c15_nodes_in_component_order.

Theorem c15_provenance_non_decreasing : forall fe o t m pre x y post,
  svg_nodes_tagged fe o t m = pre ++ x :: y :: post -> (fst x <= fst y)%nat.
Proof. exact svg_tagged_sorted. Qed.
Print Assumptions c15_provenance_non_decreasing.

(* Masked components contribute nothing (provenance-tagged node list). *)
Theorem c15_masked_contribute_nothing : forall fe o t m i h n,
  nth_error (tpHWc t) i = Some h -> avail m (hId h) = false -> ~ In (i, n) (svg_nodes_tagged fe o t m).
Proof. exact masked_contribute_nothing. Qed.
Print Assumptions c15_masked_contribute_nothing.

(* Each visible component: exactly one node carries an id attribute; it is the first node, it
   is id="HWc<id>", and it meets the spec of the main shape. *)
Theorem c15_one_main_shape : forall fe o t h,
  (forall b, f_nonzero fe b = ne_rot b) ->
  let d := resolve1 t h in
  exists rest,
    comp_nodes fe o t h = main_node fe h d :: rest /\
    node_meets (want_main h d) (main_node fe h d) = true /\
    get_attr "id"%string (main_node fe h d) = Some (str "HWc"%string ++ itoa (hId h)) /\
    Forall (fun n => has_attr "id"%string n = false) rest.
Proof. exact one_main_shape. Qed.
Print Assumptions c15_one_main_shape.

(* ... counted with multiplicity over the whole document, duplicates of an id included *)
Theorem c15_main_shapes_per_id : forall fe o t m i,
  (forall b, f_nonzero fe b = ne_rot b) -> 0 <= i -> (forall h, In h (tpHWc t) -> 0 <= hId h) ->
  List.length (filter (is_main_of i) (svg_nodes fe o t m))
  = List.length (filter (fun h => avail m (hId h) && (hId h =? i)) (tpHWc t)).
Proof. exact main_count. Qed.
Print Assumptions c15_main_shapes_per_id.

(* Rectangle centred on the coordinates (x - W/2, y - H/2, Go's truncating division) iff the
   resolved type has a height, otherwise a circle of half the width. *)
Theorem c15_main_shape_geometry : forall fe h d,
  (0 < tH d ->
     nName (main_node fe h d) = str "rect"%string /\
     get_attr "x"%string (main_node fe h d) = Some (itoa (hX h - Z.quot (tW d) 2)) /\
     get_attr "y"%string (main_node fe h d) = Some (itoa (hY h - Z.quot (tH d) 2)) /\
     get_attr "width"%string (main_node fe h d) = Some (itoa (tW d)) /\
     get_attr "height"%string (main_node fe h d) = Some (itoa (tH d))) /\
  (tH d <= 0 ->
     nName (main_node fe h d) = str "circle"%string /\
     get_attr "cx"%string (main_node fe h d) = Some (itoa (hX h)) /\
     get_attr "cy"%string (main_node fe h d) = Some (itoa (hY h)) /\
     get_attr "r"%string (main_node fe h d) = Some (itoa (Z.quot (tW d) 2))).
Proof. exact main_shape_geometry. Qed.
Print Assumptions c15_main_shape_geometry.

(* Sub-shapes and labels: one node per sub-element of kind r / c; one label line, or two when
   the part after the first "|" is not empty. *)
Theorem c15_sub_shape_count : forall fe h d,
  List.length (flat_map (sub_nodes fe h d) (tSub d))
  = List.length (filter (fun s => bytes_eqb (sObj s) (str "r"%string) || bytes_eqb (sObj s) (str "c"%string)) (tSub d)).
Proof. exact sub_shape_count. Qed.
Print Assumptions c15_sub_shape_count.

Theorem c15_label_count : forall fe o ropts h d,
  List.length (label_nodes fe o ropts h d)
  = if oLabels o || isin "txt"%string ropts then List.length (label_parts (hTxt h)) else 0%nat.
Proof. exact label_count. Qed.
Print Assumptions c15_label_count.

Theorem c15_label_one_or_two_lines : forall txt,
  List.length (label_parts txt) = 1%nat \/ List.length (label_parts txt) = 2%nat.
Proof. exact label_parts_one_or_two. Qed.
Print Assumptions c15_label_one_or_two_lines.

(* The whole statement at once: the appended node list meets the spec written from the property
   text (Spec/TopoSvg.svg_ok: per visible component, in order, the main shape with identity /
   kind / geometry / rotation flag, its sub-shapes with their coordinates, the label lines with
   their texts, the optional development texts, the id text; nothing else, nothing for masked
   components) - for every topology, map with distinct keys, switches and float environment. *)
Theorem c15_generated_nodes_meet_spec : forall fe o t m,
  (forall b, f_nonzero fe b = ne_rot b) ->
  match m with Some l => NoDup (map fst l) | None => True end ->
  svg_ok o t m (svg_nodes fe o t m) = true.
Proof. exact svg_model_meets_spec. Qed.
Print Assumptions c15_generated_nodes_meet_spec.

(* Non-vacuity: two components (one masked), a two-line label, a rotated rectangle. *)
Example c15_nonvacuous :
  let fe := FEnv f32_nonzero (fun _ => str "90.000000"%string) (fun b => b) in
  let d := TypeDef 100 60 [] [] [] [] 0 1119092736 None [SubEl (str "c"%string) 3 4 0 0 9 0 0 [] 0] [] in
  let t := Topo [] [HWc 1 500 300 (str "A|B"%string) 5 None 0 0; HWc 2 10 10 [] 5 None 0 0] [(5, d)] in
  let m := Some [(1, 1); (2, 0)] in
  map nName (svg_nodes fe default_opts t m) = [str "rect"%string; str "circle"%string; str "text"%string; str "text"%string; str "text"%string]
  /\ get_attr "x"%string (hd (Node [] [] []) (svg_nodes fe default_opts t m)) = Some (str "450"%string)
  /\ svg_ok default_opts t m (svg_nodes fe default_opts t m) = true.
Proof. vm_compute. repeat split. Qed.
