(* C01 - Inbound messages keep their meaning when written as ASCII lines.  (work in progress) *)
From RP Require Import Lib.Base Model.MsgIn Model.EncIn Proofs.InTotal.

Theorem c01_enc_total : forall json_enc nc_print ms,
  Forall wire_reachable ms -> exists ls, enc_in json_enc nc_print ms = Ok ls.
Proof. exact enc_in_total. Qed.
Print Assumptions c01_enc_total.
