(* C01 - Inbound messages keep their meaning when written as ASCII lines.
   Only statements here; each closed by [exact] of a lemma from Proofs/.

   Vocabulary: [enc_in] = model of InboundMessagesToRawPanelASCIIstrings (Model/EncIn.v);
   [sem_in_lines] = the independent reference reader of the ASCII grammar folded over lines
   (Spec/GrammarIn.v), acting on an abstract panel and its own graphics-transfer tracker;
   [run_msgs p ms] = the panel the messages themselves describe (Spec/DenoteIn.v);
   [rep_msg] = the ASCII-representable domain (Spec/DenoteIn.v, end of file).
   The two encoding/json calls of the encoder (NetworkConfig, Processors state) are oracles:
   Section-style arguments [json_enc], [nc_print] with the reader-side parser [nc_parse];
   the hypotheses say what is assumed of them. *)
From RP Require Import Lib.Base Lib.Strings Model.Gfx Model.MsgIn Model.EncIn Model.DecIn Spec.DenoteIn Spec.GrammarIn
  Proofs.InBits Proofs.InEncLines Proofs.InEncText Proofs.InEncGfx Proofs.InEnc Proofs.InRound Proofs.InTotal Proofs.StringsProofs Proofs.InOrder.

(* MAIN THEOREM.  For every list of ASCII-representable messages ([rep_msg]: flow words, all 29
   command fields, mode / colour (index and RGB, quantised) / extended value / the 21 text
   fields with the normal form / images of any length >= 1 in the three formats with and
   without offset / raw ADC, registers; any number of ids per state (fan-out), any number of
   states, registers and messages (submission order)): the encoder does not panic, every line
   it writes is accepted by the independent reference reader, and reading the lines from ANY
   start panel and ANY tracker state gives exactly the panel the messages describe.
   Named _partial only for what goes through encoding/json (oracle arguments with the two
   stated hypotheses): the NetworkConfig argument of SetNetworkConfig is identified with what
   the JSON oracle pair prints / parses, and states carrying Processors (JSON-only, no ASCII
   form) are outside [rep_msg], as DESIGN C01 fixes it. *)
Theorem c01_enc_in_sound_partial :
  forall (json_state : list Z -> HWCState) (json_msgs : list Z -> list (option InboundMessage))
         (nc_parse : list Z -> option (list Z)) (json_enc : HWCState -> list Z) (nc_print : list Z -> list Z)
         (one_line_trimmed netcfg_ok : list Z -> bool),
    (forall j, one_line_trimmed j = true -> strip_line_breaks j = j /\ single_line j = true) ->
    (forall n, netcfg_ok n = true -> nc_parse (nc_print n) = Some n /\ single_line (nc_print n) = true) ->
    forall ms p x,
      forallb (rep_msg one_line_trimmed netcfg_ok) ms = true ->
      exists ls, enc_in json_enc nc_print ms = Ok ls /\
                 Forall (fun l => wf_in_line json_state json_msgs nc_parse l = true) ls /\
                 fst (sem_in_lines json_state json_msgs nc_parse (p, x) ls) = run_msgs p ms.
Proof. exact enc_in_sound. Qed.
Print Assumptions c01_enc_in_sound_partial.

(* graphics: the lines written for one image and one target id, read from any panel and any
   tracker state (a transfer in progress is dropped), show exactly that image there and leave
   the tracker idle - every image length >= 1 (every residue modulo 170), three formats,
   with / without offset (offset 0,0 is an offset) *)
Theorem c01_graphics_lines :
  forall json_state json_msgs nc_parse g id, rep_gfx g = true -> is_u32 id = true -> forall p x,
    sem_in_lines json_state json_msgs nc_parse (p, x) (gfx_lines (to_gfx g) id)
    = (apply_eff p (EState [id] (UGfx (den_image g))), None).
Proof. exact gfx_run. Qed.
Print Assumptions c01_graphics_lines.

(* per-field packing, bounds stated: all 8 x 2 x 16 modes, all 16 x 4096 extended values *)
Theorem c01_pack_mode : forall m, rep_mode m = true ->
  let v := pack_mode m in
  0 <= v < 4096 /\ bits v 0 4 = m_state m /\ (bits v 5 1 =? 1) = m_output m /\ bits v 8 4 = m_blink m.
Proof. exact pack_mode_bits. Qed.
Print Assumptions c01_pack_mode.

Theorem c01_pack_ext : forall x, rep_ext x = true ->
  let p := pack_ext x in 0 <= p < 65536 /\ bits p 12 4 = x_interp x /\ bits p 0 12 = x_value x.
Proof. exact pack_ext_bits. Qed.
Print Assumptions c01_pack_ext.

(* every RGB triple of uint32 channels: the encoder's quantisation is the spec's *)
Theorem c01_quantisation : forall c, 0 <= c -> quant2 c = q2 c /\ 0 <= q2 c <= 3.
Proof. exact quant2_q2. Qed.
Print Assumptions c01_quantisation.

(* the 21-slot text line: trailing-trim lemma, and the reader on the slots = normal form *)
Theorem c01_trailing_trim : forall l, forallb no_bar l = true ->
  (forall k, fld (fields 124 (implode_trim l)) k = fld l k) /\
  (length (fields 124 (implode_trim l)) <= Nat.max 1 (length l))%nat.
Proof. exact implode_fields. Qed.
Print Assumptions c01_trailing_trim.

Theorem c01_text_fields : forall t, rep_text t = true -> rd_text (text_slots t) = Some (norm_text t).
Proof. exact text_read. Qed.
Print Assumptions c01_text_fields.

(* round trip through the library's own decoder (C01 o C02), graphics included *)
Theorem c01_dec_enc_partial :
  forall (json_state : list Z -> HWCState) (json_msgs : list Z -> list (option InboundMessage))
         (nc_parse : list Z -> option (list Z)) (json_enc : HWCState -> list Z) (nc_print : list Z -> list Z)
         (one_line_trimmed netcfg_ok : list Z -> bool),
    (forall j, one_line_trimmed j = true -> strip_line_breaks j = j /\ single_line j = true) ->
    (forall n, netcfg_ok n = true -> nc_parse (nc_print n) = Some n /\ single_line (nc_print n) = true) ->
    forall ms p,
      forallb (rep_msg one_line_trimmed netcfg_ok) ms = true ->
      exists ls ms', enc_in json_enc nc_print ms = Ok ls /\ dec_in json_state json_msgs nc_parse ls = Ok ms' /\
                     run_msgs p ms' = run_msgs p ms.
Proof. exact dec_enc_in. Qed.
Print Assumptions c01_dec_enc_partial.

(* "effects of successive messages appear in submission order": the main theorem is an equality of
   final PANELS, and the panel observes order - the clearing commands act on what the components
   show when they arrive, so a write before a Clear is gone and a write after it stays; an encoder
   that moved or coalesced the lines of one target across a Clear would reach a different panel. *)
Theorem c01_order_is_observable : forall id st p,
  apply_effs p [w_mode id st; e_clear] <> apply_effs p [e_clear; w_mode id st].
Proof. exact order_observable. Qed.
Print Assumptions c01_order_is_observable.

Theorem c01_coalescing_across_clear_is_unsound : forall id a b p,
  apply_effs p [w_mode id a; e_clear; w_mode id b] <> apply_effs p [w_mode id b; e_clear].
Proof. exact coalescing_is_unsound. Qed.
Print Assumptions c01_coalescing_across_clear_is_unsound.

From Coq Require Import String.
Open Scope string_scope.
Open Scope list_scope.
Open Scope Z_scope.
(* Non-vacuity: a concrete representable message with a command, two ids, mode + RGB colour +
   text with label, pair mode defaulting, and a flag register; its lines; the panel reached. *)
Definition c01_example_msg : InboundMessage :=
  mkMsg 2
    (Some (mkCmd false true false false false false false false false false false false false false false false
                 (Some (5, 7)) None None None None None None None (Some 3000) None None None None))
    [Some (mkState [4; 9] (Some (mkMode 4 true 3)) (Some (mkColor (Some (mkRGB 255 100 0)) None)) None
             (Some (mkText 42 1 2 0 (Sexp.str "Vol") true (Sexp.str "dB") [] 7 0 None None false None None false))
             None None None);
     Some (mkState [7] None None None None (Some (mkHGfx 2 8 2 true 0 0 [1; 2; 3] false)) None None)]
    [Some (mkReg 1 (Sexp.str "12") 9)].
Example c01_nonvacuous :
  forallb (rep_msg (fun _ => true) (fun _ => true)) [c01_example_msg] = true /\
  enc_in (fun _ => []) (fun n => n) [c01_example_msg] =
    Ok (map Sexp.str ["ack"; "list"; "PanelBrightness=5,7"; "HeartBeatTimer=3000";
                      "HWC#4=804"; "HWCc#4=244"; "HWCt#4=42|1|2|Vol||dB||7";
                      "HWC#9=804"; "HWCc#9=244"; "HWCt#9=42|1|2|Vol||dB||7";
                      "HWCgGray#7=0/0,8x2,0,0:AQID"; "Flag#12=9"]).
Proof. vm_compute. repeat split; reflexivity. Qed.
