(* encoding/json at the TREE level, driven by a struct schema.
   - [ty]   : the shape of a Go type as far as encoding/json cares (regenerated from
              /repo/topology/topology.go into Gen/TopoSchema.v on every run);
   - [val]  : a Go value of such a type (nil and empty slices/maps are distinct, floats are
              bit patterns, maps are association lists);
   - [json] : a JSON document tree.  The TEXT layer (tokens, string escaping, number
              printing/parsing) is encoding/json's own and is trusted.
   [enc] = json.Marshal, [dec] = json.Unmarshal into a fresh zero value, [canon] = the value
   one gets back.  Definitions only; the round-trip theorems live in Proofs/TopoJson.v. *)
From RP Require Import Lib.Base Lib.Sexp Lib.Strings.
From Coq Require Import String.
Local Open Scope string_scope.
Open Scope Z_scope.

(* per-field facts, exactly what gen/ reads off the struct declaration *)
Record finfo : Type := FI {
  goname : list Z;      (* Go field name (type name for embedded fields) *)
  gotype : list Z;      (* Go type as written, for information *)
  jname : list Z;       (* effective JSON name (tag name if present and valid, else goname) *)
  omit : bool;          (* ,omitempty *)
  quoted : bool;        (* ,string option: not supported by the model *)
  embedded : bool;
  exported : bool;
  skip : bool           (* json:"-" *)
}.

Inductive ty : Type :=
| TInt (lo hi : Z)                 (* any integer kind with its range *)
| TBool
| TStr
| TFloat (sz : Z)                  (* 32 or 64; values are bit patterns *)
| TOpaque (name : list Z)          (* a type that holds no data of the model (sync.RWMutex) *)
| TUnsupported (name : list Z)     (* anything the tree model does not cover: wf_ty = false *)
| TPtr (t : ty)
| TSlice (t : ty)
| TMap (lo hi : Z) (t : ty)        (* map with an integer key kind *)
| TStruct (name : list Z) (fs : list (finfo * ty)).

Inductive val : Type :=
| VInt (z : Z)
| VBool (b : bool)
| VStr (s : list Z)
| VFloat (bits : Z)
| VOpaque
| VNil                              (* nil pointer / slice / map *)
| VPtr (v : val)
| VSlice (l : list val)
| VMap (l : list (Z * val))
| VStruct (l : list val).          (* one value per field of the schema, in order *)

Inductive json : Type :=
| JNull
| JBool (b : bool)
| JInt (z : Z)
| JFloat (bits : Z)
| JStr (s : list Z)
| JArr (l : list json)
| JObj (l : list (list Z * json)).

(* a field takes part in JSON iff exported, not json:"-", not embedded *)
Definition visible (i : finfo) : bool := exported i && negb (skip i) && negb (embedded i).

(* ---- float bit patterns ---- *)
Definition fzero (sz bits : Z) : bool := bits mod 2 ^ (sz - 1) =? 0.          (* +0 or -0 *)
Definition fexp_bits (sz : Z) : Z := if sz =? 32 then 8 else 11.
Definition ffinite (sz bits : Z) : bool :=
  let e := (bits / 2 ^ (sz - 1 - fexp_bits sz)) mod 2 ^ fexp_bits sz in
  (0 <=? bits) && (bits <? 2 ^ sz) && negb (e =? 2 ^ fexp_bits sz - 1).

(* ---- Go's isEmptyValue (omitempty) ---- *)
Definition is_empty (t : ty) (v : val) : bool :=
  match v with
  | VInt z => z =? 0
  | VBool b => negb b
  | VStr s => match s with [] => true | _ => false end
  | VFloat b => match t with TFloat sz => fzero sz b | _ => false end
  | VNil => true
  | VSlice l => match l with [] => true | _ => false end
  | VMap l => match l with [] => true | _ => false end
  | VOpaque | VPtr _ | VStruct _ => false
  end.

(* ---- zero value ---- *)
Fixpoint zero (t : ty) : val :=
  match t with
  | TInt _ _ => VInt 0
  | TBool => VBool false
  | TStr => VStr []
  | TFloat _ => VFloat 0
  | TOpaque _ | TUnsupported _ => VOpaque
  | TPtr _ | TSlice _ | TMap _ _ _ => VNil
  | TStruct _ fs => VStruct (map (fun p => zero (snd p)) fs)
  end.

(* ---- map entries are emitted sorted by the key's decimal STRING (byte-wise) ---- *)
Fixpoint bytes_leb (a b : list Z) : bool :=
  match a, b with
  | [], _ => true
  | _ :: _, [] => false
  | x :: a', y :: b' => if x <? y then true else if y <? x then false else bytes_leb a' b'
  end.
Definition key_leb (a b : Z) : bool := bytes_leb (itoa a) (itoa b).

Fixpoint insert_entry {A} (e : Z * A) (l : list (Z * A)) : list (Z * A) :=
  match l with
  | [] => [e]
  | h :: r => if key_leb (fst e) (fst h) then e :: l else h :: insert_entry e r
  end.
Fixpoint sort_entries {A} (l : list (Z * A)) : list (Z * A) :=
  match l with
  | [] => []
  | e :: r => insert_entry e (sort_entries r)
  end.

(* ---- json.Marshal ---- *)
Fixpoint enc (t : ty) (v : val) {struct t} : json :=
  match t with
  | TInt _ _ => match v with VInt z => JInt z | _ => JNull end
  | TBool => match v with VBool b => JBool b | _ => JNull end
  | TStr => match v with VStr s => JStr s | _ => JNull end
  | TFloat _ => match v with VFloat b => JFloat b | _ => JNull end
  | TOpaque _ | TUnsupported _ => JNull
  | TPtr t' => match v with VPtr x => enc t' x | _ => JNull end
  | TSlice t' => match v with VSlice l => JArr (map (enc t') l) | _ => JNull end
  | TMap _ _ t' =>
    match v with
    | VMap l => JObj (map (fun kv => (itoa (fst kv), enc t' (snd kv))) (sort_entries l))
    | _ => JNull
    end
  | TStruct _ fs =>
    match v with
    | VStruct l =>
      JObj ((fix ef (fs : list (finfo * ty)) (l : list val) {struct fs} : list (list Z * json) :=
               match fs, l with
               | (i, ft) :: fs', x :: l' =>
                 if visible i then
                   if omit i && is_empty ft x then ef fs' l' else (jname i, enc ft x) :: ef fs' l'
                 else ef fs' l'
               | _, _ => []
               end) fs l)
    | _ => JNull
    end
  end.

(* the struct-field part of [enc], as a stand-alone function (same definition) *)
Fixpoint enc_fields (fs : list (finfo * ty)) (l : list val) : list (list Z * json) :=
  match fs, l with
  | (i, ft) :: fs', x :: l' =>
    if visible i then
      if omit i && is_empty ft x then enc_fields fs' l' else (jname i, enc ft x) :: enc_fields fs' l'
    else enc_fields fs' l'
  | _, _ => []
  end.

(* ---- map keys: decimal digits (strconv.ParseUint base 10), defined here so that the round
   trip does not depend on the shared atoi model ---- *)
Fixpoint key_all_digits (s : list Z) : bool :=
  match s with [] => true | c :: r => (48 <=? c) && (c <=? 57) && key_all_digits r end.
Fixpoint key_value (s : list Z) (acc : Z) : Z :=
  match s with [] => acc | c :: r => key_value r (acc * 10 + (c - 48)) end.
Definition parse_key (s : list Z) : option Z :=
  match s with
  | [] => None
  | _ => if key_all_digits s then Some (key_value s 0) else None
  end.

(* ---- json.Unmarshal into a fresh zero value ---- *)
Definition lower (c : Z) : Z := if (65 <=? c) && (c <=? 90) then c + 32 else c.
Definition fold_name (s : list Z) : list Z := map lower s.
(* member look-up: encoding/json matches keys case-insensitively (exact match preferred; the
   two coincide when the names of a struct are unique under folding, see wf_ty) *)
Fixpoint lookup_fold (k : list Z) (ms : list (list Z * json)) : option json :=
  match ms with
  | [] => None
  | (k', j) :: r => if bytes_eqb (fold_name k') (fold_name k) then Some j else lookup_fold k r
  end.

Fixpoint omapM {A B} (f : A -> option B) (l : list A) : option (list B) :=
  match l with
  | [] => Some []
  | x :: r => match f x, omapM f r with Some y, Some ys => Some (y :: ys) | _, _ => None end
  end.

Fixpoint dec (t : ty) (j : json) {struct t} : option val :=
  match t with
  | TInt lo hi =>
    match j with
    | JInt z => if (lo <=? z) && (z <=? hi) then Some (VInt z) else None
    | JNull => Some (VInt 0)
    | _ => None
    end
  | TBool => match j with JBool b => Some (VBool b) | JNull => Some (VBool false) | _ => None end
  | TStr => match j with JStr s => Some (VStr s) | JNull => Some (VStr []) | _ => None end
  | TFloat _ => match j with JFloat b => Some (VFloat b) | JNull => Some (VFloat 0) | _ => None end
  | TOpaque _ | TUnsupported _ => Some VOpaque
  | TPtr t' =>
    match j with
    | JNull => Some VNil
    | _ => match dec t' j with Some x => Some (VPtr x) | None => None end
    end
  | TSlice t' =>
    match j with
    | JNull => Some VNil
    | JArr l => match omapM (dec t') l with Some xs => Some (VSlice xs) | None => None end
    | _ => None
    end
  | TMap lo hi t' =>
    match j with
    | JNull => Some VNil
    | JObj ms =>
      match omapM (fun m : list Z * json =>
                     match parse_key (fst m) with
                     | Some k =>
                       if (lo <=? k) && (k <=? hi) then
                         match dec t' (snd m) with Some x => Some (k, x) | None => None end
                       else None
                     | None => None
                     end) ms with
      | Some es => Some (VMap es)
      | None => None
      end
    | _ => None
    end
  | TStruct _ fs =>
    match j with
    | JNull => Some (VStruct (map (fun p => zero (snd p)) fs))
    | JObj ms =>
      match (fix df (fs : list (finfo * ty)) {struct fs} : option (list val) :=
               match fs with
               | [] => Some []
               | (i, ft) :: fs' =>
                 let x := if visible i then
                            match lookup_fold (jname i) ms with
                            | Some j' => dec ft j'
                            | None => Some (zero ft)
                            end
                          else Some (zero ft) in
                 match x, df fs' with Some x, Some xs => Some (x :: xs) | _, _ => None end
               end) fs with
      | Some xs => Some (VStruct xs)
      | None => None
      end
    | _ => None
    end
  end.

Fixpoint dec_fields (ms : list (list Z * json)) (fs : list (finfo * ty)) : option (list val) :=
  match fs with
  | [] => Some []
  | (i, ft) :: fs' =>
    let x := if visible i then
               match lookup_fold (jname i) ms with
               | Some j' => dec ft j'
               | None => Some (zero ft)
               end
             else Some (zero ft) in
    match x, dec_fields ms fs' with Some x, Some xs => Some (x :: xs) | _, _ => None end
  end.

(* ---- the value one gets back: the only information a round trip drops ----
   - a field with omitempty whose value is empty comes back as the ZERO value (nil for an
     empty slice/map, +0 for -0);
   - map entries come back in key-string order (a Go map has no order);
   - fields that JSON does not see come back zero (wf_ty makes sure they are opaque). *)
Fixpoint canon (t : ty) (v : val) {struct t} : val :=
  match t with
  | TInt _ _ | TBool | TStr | TFloat _ => v
  | TOpaque _ | TUnsupported _ => VOpaque
  | TPtr t' => match v with VPtr x => VPtr (canon t' x) | _ => VNil end
  | TSlice t' => match v with VSlice l => VSlice (map (canon t') l) | _ => VNil end
  | TMap _ _ t' =>
    match v with
    | VMap l => VMap (map (fun kv => (fst kv, canon t' (snd kv))) (sort_entries l))
    | _ => VNil
    end
  | TStruct _ fs =>
    match v with
    | VStruct l =>
      VStruct ((fix cf (fs : list (finfo * ty)) (l : list val) {struct fs} : list val :=
                  match fs, l with
                  | (i, ft) :: fs', x :: l' =>
                    (if visible i then if omit i && is_empty ft x then zero ft else canon ft x
                     else zero ft) :: cf fs' l'
                  | _, _ => []
                  end) fs l)
    | _ => v
    end
  end.

Fixpoint canon_fields (fs : list (finfo * ty)) (l : list val) : list val :=
  match fs, l with
  | (i, ft) :: fs', x :: l' =>
    (if visible i then if omit i && is_empty ft x then zero ft else canon ft x else zero ft)
    :: canon_fields fs' l'
  | _, _ => []
  end.

(* ---- which values belong to a type ---- *)
(* strings: Marshal replaces invalid UTF-8 by U+FFFD, so only valid UTF-8 survives the TEXT
   layer; that is a fact about the trusted layer and is NOT part of has_type (the tree model
   carries any byte string); the harness only produces valid UTF-8. *)
Fixpoint has_type (t : ty) (v : val) {struct t} : bool :=
  match t with
  | TInt lo hi => match v with VInt z => (lo <=? z) && (z <=? hi) | _ => false end
  | TBool => match v with VBool _ => true | _ => false end
  | TStr => match v with VStr _ => true | _ => false end
  | TFloat sz => match v with VFloat b => ffinite sz b | _ => false end   (* NaN/Inf: Marshal fails *)
  | TOpaque _ | TUnsupported _ => match v with VOpaque => true | _ => false end
  | TPtr t' => match v with VNil => true | VPtr x => has_type t' x | _ => false end
  | TSlice t' => match v with VNil => true | VSlice l => forallb (has_type t') l | _ => false end
  | TMap lo hi t' =>
    match v with
    | VNil => true
    | VMap l => forallb (fun kv => (lo <=? fst kv) && (fst kv <=? hi) && has_type t' (snd kv)) l
    | _ => false
    end
  | TStruct _ fs =>
    match v with
    | VStruct l =>
      (fix ht (fs : list (finfo * ty)) (l : list val) {struct fs} : bool :=
         match fs, l with
         | [], [] => true
         | (_, ft) :: fs', x :: l' => has_type ft x && ht fs' l'
         | _, _ => false
         end) fs l
    | _ => false
    end
  end.

Fixpoint has_type_fields (fs : list (finfo * ty)) (l : list val) : bool :=
  match fs, l with
  | [], [] => true
  | (_, ft) :: fs', x :: l' => has_type ft x && has_type_fields fs' l'
  | _, _ => false
  end.

(* ---- well-formed schema: what the round trip needs from the struct declarations ---- *)
(* characters encoding/json accepts in a tag name (isValidTag), ASCII part *)
Definition tag_char_ok (c : Z) : bool :=
  ((48 <=? c) && (c <=? 57)) || ((65 <=? c) && (c <=? 90)) || ((97 <=? c) && (c <=? 122))
  || existsb (Z.eqb c) [33; 35; 36; 37; 38; 40; 41; 42; 43; 45; 46; 47; 58; 59; 60; 61; 62; 63; 64; 91; 93; 94; 95; 123; 124; 125; 126; 32].
Definition name_ok (s : list Z) : bool :=
  match s with [] => false | _ => forallb tag_char_ok s end.

Fixpoint nodup_names (l : list (list Z)) : bool :=
  match l with
  | [] => true
  | x :: r => negb (existsb (bytes_eqb x) r) && nodup_names r
  end.

Definition opaque_ok (n : list Z) : bool :=
  bytes_eqb n (str "sync.RWMutex") || bytes_eqb n (str "sync.Mutex").

Definition is_struct (t : ty) : bool := match t with TStruct _ _ => true | _ => false end.
Definition is_opaque (t : ty) : bool := match t with TOpaque _ | TUnsupported _ => true | _ => false end.

Definition visible_folded (fs : list (finfo * ty)) : list (list Z) :=
  map (fun p => fold_name (jname (fst p))) (filter (fun p => visible (fst p)) fs).

Fixpoint wf_ty (t : ty) {struct t} : bool :=
  match t with
  | TInt lo hi => (lo <=? 0) && (0 <=? hi)
  | TBool | TStr => true
  | TFloat sz => (sz =? 32) || (sz =? 64)
  | TOpaque n => opaque_ok n
  | TUnsupported _ => false
  | TPtr t' => is_struct t' && wf_ty t'          (* a non-nil pointer never encodes as null *)
  | TSlice t' => negb (is_opaque t') && wf_ty t'
  | TMap lo hi t' => (0 <=? lo) && negb (is_opaque t') && wf_ty t'
  | TStruct _ fs =>
    nodup_names (visible_folded fs) &&
    (fix wf (fs : list (finfo * ty)) {struct fs} : bool :=
       match fs with
       | [] => true
       | (i, ft) :: fs' =>
         (if visible i then name_ok (jname i) && negb (quoted i) && negb (is_opaque ft) && wf_ty ft
          else match ft with TOpaque n => opaque_ok n | _ => false end)   (* hidden fields carry no data *)
         && wf fs'
       end) fs
  end.

Fixpoint wf_fields (fs : list (finfo * ty)) : bool :=
  match fs with
  | [] => true
  | (i, ft) :: fs' =>
    (if visible i then name_ok (jname i) && negb (quoted i) && negb (is_opaque ft) && wf_ty ft
     else match ft with TOpaque n => opaque_ok n | _ => false end)
    && wf_fields fs'
  end.

(* ---- field access by Go name (used to view a generic value as a model record) ---- *)
Fixpoint field_by_name (n : list Z) (fs : list (finfo * ty)) (l : list val) : option (ty * val) :=
  match fs, l with
  | (i, ft) :: fs', x :: l' => if bytes_eqb (goname i) n then Some (ft, x) else field_by_name n fs' l'
  | _, _ => None
  end.

(* ---- wire format of generic values (printed by the Go harness by reflection) ----
   int kinds, bool (0/1) and float bit patterns: integers; strings: #hex; opaque: symbol o;
   nil pointer/slice/map: symbol nil; pointer: (p v); slice: (v1 v2 ...); map: ((k v) ...);
   struct: (f1 f2 ...) one entry per Go field in declaration order. *)
Fixpoint val_of_sexp (t : ty) (s : sexp) {struct t} : option val :=
  match t with
  | TInt _ _ => match s with I z => Some (VInt z) | _ => None end
  | TBool => match s with I z => Some (VBool (negb (z =? 0))) | _ => None end
  | TStr => match s with B b => Some (VStr b) | _ => None end
  | TFloat _ => match s with I z => Some (VFloat z) | _ => None end
  | TOpaque _ | TUnsupported _ => match s with S _ => Some VOpaque | _ => None end
  | TPtr t' =>
    match s with
    | S _ => Some VNil
    | L [S _; x] => match val_of_sexp t' x with Some v => Some (VPtr v) | None => None end
    | _ => None
    end
  | TSlice t' =>
    match s with
    | S _ => Some VNil
    | L xs => match omapM (val_of_sexp t') xs with Some vs => Some (VSlice vs) | None => None end
    | _ => None
    end
  | TMap _ _ t' =>
    match s with
    | S _ => Some VNil
    | L xs =>
      match omapM (fun e => match e with
                            | L [I k; x] => match val_of_sexp t' x with Some v => Some (k, v) | None => None end
                            | _ => None
                            end) xs with
      | Some es => Some (VMap es)
      | None => None
      end
    | _ => None
    end
  | TStruct _ fs =>
    match s with
    | L xs =>
      match (fix go (fs : list (finfo * ty)) (xs : list sexp) {struct fs} : option (list val) :=
               match fs, xs with
               | [], [] => Some []
               | (_, ft) :: fs', x :: xs' =>
                 match val_of_sexp ft x, go fs' xs' with Some v, Some vs => Some (v :: vs) | _, _ => None end
               | _, _ => None
               end) fs xs with
      | Some vs => Some (VStruct vs)
      | None => None
      end
    | _ => None
    end
  end.

(* ---- structural equality of values (exact: nil <> empty, bit patterns) ---- *)
Fixpoint val_eqb (a b : val) {struct a} : bool :=
  match a, b with
  | VInt x, VInt y => x =? y
  | VBool x, VBool y => Bool.eqb x y
  | VStr x, VStr y => bytes_eqb x y
  | VFloat x, VFloat y => x =? y
  | VOpaque, VOpaque => true
  | VNil, VNil => true
  | VPtr x, VPtr y => val_eqb x y
  | VSlice la, VSlice lb =>
    (fix go (la lb : list val) {struct la} : bool :=
       match la, lb with
       | [], [] => true
       | x :: la', y :: lb' => val_eqb x y && go la' lb'
       | _, _ => false
       end) la lb
  | VMap la, VMap lb =>
    (fix go (la lb : list (Z * val)) {struct la} : bool :=
       match la, lb with
       | [], [] => true
       | (k, x) :: la', (k', y) :: lb' => (k =? k') && val_eqb x y && go la' lb'
       | _, _ => false
       end) la lb
  | VStruct la, VStruct lb =>
    (fix go (la lb : list val) {struct la} : bool :=
       match la, lb with
       | [], [] => true
       | x :: la', y :: lb' => val_eqb x y && go la' lb'
       | _, _ => false
       end) la lb
  | _, _ => false
  end.

(* ---- an observed JSON document (Go's output re-read token by token by the harness) ----
   null | (b 0/1) | (n <int or x> <float32 bits> <float64 bits>) | (s #bytes) | (a item ...)
   | (o (#key item) ...), members in document order. *)
Fixpoint json_matches (j : json) (o : sexp) {struct j} : bool :=
  match j, o with
  | JNull, S n => bytes_eqb n (str "null")
  | JBool b, L [S n; I v] => bytes_eqb n (str "b") && Bool.eqb b (negb (v =? 0))
  | JInt z, L [S n; I v; _; _] => bytes_eqb n (str "n") && (z =? v)
  | JFloat bits, L [S n; _; I b32; I b64] => bytes_eqb n (str "n") && ((bits =? b32) || (bits =? b64))
  | JStr s, L [S n; B s'] => bytes_eqb n (str "s") && bytes_eqb s s'
  | JArr l, L (S n :: items) =>
    bytes_eqb n (str "a") &&
    (fix go (l : list json) (items : list sexp) {struct l} : bool :=
       match l, items with
       | [], [] => true
       | x :: l', y :: items' => json_matches x y && go l' items'
       | _, _ => false
       end) l items
  | JObj ms, L (S n :: items) =>
    bytes_eqb n (str "o") &&
    (fix go (ms : list (list Z * json)) (items : list sexp) {struct ms} : bool :=
       match ms, items with
       | [], [] => true
       | (k, x) :: ms', L [B k'; y] :: items' => bytes_eqb k k' && json_matches x y && go ms' items'
       | _, _ => false
       end) ms items
  | _, _ => false
  end.
