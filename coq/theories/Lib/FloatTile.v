(* The float64 arithmetic of the tile renderer (rawpanelhelpers.go), exactly, over Z.

   Only three shapes occur and all operands are small integers (|x| < 2^53, so the
   int -> float64 conversions are exact):
     float64(v)/1000, /100, /10           printed with %1.2f / %1.3f / %1.1f
     int(float64(a)/float64(b)*float64(w))  for the scale bar
   An IEEE double is carried as an exact fraction (n, d), d > 0.  The result of a
   division or multiplication is the exact rational rounded to the nearest value with a
   53-bit significand, ties to even ([rnd53]); exponents stay far away from the subnormal
   and overflow ranges for these operands (|quotient| is 0 or in [2^-33, 2^34]).
   Definitions only; lemmas (monotonicity of rnd53) live in Proofs/TileFloat.v. *)
From RP Require Import Lib.Base Lib.Sexp.

(* round-half-even of a/b to an integer, a >= 0, b > 0 *)
Definition rhe (a b : Z) : Z :=
  let q := a / b in
  let r := a mod b in
  if 2 * r <? b then q
  else if 2 * r >? b then q + 1
  else if Z.even q then q else q + 1.

Definition fr := (Z * Z)%type.   (* numerator, denominator > 0 *)

(* the exponent e with 2^52 <= a/d / 2^e < 2^53, for a > 0, d > 0 *)
Definition ge52 (a d e : Z) : bool :=
  if e <? 0 then 2 ^ 52 * d <=? a * 2 ^ (- e) else 2 ^ 52 * d * 2 ^ e <=? a.
Definition expo (a d : Z) : Z :=
  let e0 := Z.log2 a - Z.log2 d - 52 in
  if ge52 a d e0 then e0 else e0 - 1.

(* significand: a/d / 2^e rounded half-even to an integer *)
Definition signif (a d e : Z) : Z :=
  if e <? 0 then rhe (a * 2 ^ (- e)) d else rhe a (d * 2 ^ e).

(* m * 2^e as a fraction *)
Definition dyadic (m e : Z) : fr := if e <? 0 then (m, 2 ^ (- e)) else (m * 2 ^ e, 1).

Definition rnd53_pos (a d : Z) : fr := let e := expo a d in dyadic (signif a d e) e.

(* n/d (d > 0) rounded to float64 *)
Definition rnd53 (n d : Z) : fr :=
  if n =? 0 then (0, 1)
  else if n <? 0 then let '(m, dd) := rnd53_pos (- n) d in (- m, dd)
  else rnd53_pos n d.

(* float64(a) / float64(b), b <> 0 *)
Definition fdiv (a b : Z) : fr := if b <? 0 then rnd53 (- a) (- b) else rnd53 a b.
(* x * float64(w) *)
Definition fmul (x : fr) (w : Z) : fr := let '(n, d) := x in rnd53 (n * w) d.
(* int(x): truncation toward zero *)
Definition ftrunc (x : fr) : Z := let '(n, d) := x in Z.quot n d.

(* int(float64(num)/float64(den)*float64(w)) *)
Definition scale_pos (num den w : Z) : Z := ftrunc (fmul (fdiv num den) w).

(* ---- %1.kf : exact decimal rounding (half-even on the binary value), as strconv does ---- *)
Definition pad_zeros (k : nat) (s : list Z) : list Z := repeat 48 (k - length s)%nat ++ s.

Definition fmt_fixed (k : Z) (x : fr) : list Z :=
  let '(n, d) := x in
  let p := 10 ^ k in
  let N := rhe (Z.abs n * p) d in
  (if n <? 0 then [45] else []) ++ itoa (N / p) ++ [46] ++ pad_zeros (Z.to_nat k) (itoa (N mod p)).
