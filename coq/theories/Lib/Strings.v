(* Go string helpers shared by the codec models (strings are list Z of bytes).
   Definitions only; lemmas live in Proofs/. *)
From RP Require Import Lib.Base Lib.Sexp.

(* ---- strconv.Atoi, value returned when the error is ignored (su.Intval etc.) ----
   syntax: optional single '+'/'-', then one or more ASCII digits, nothing else;
   syntax error -> 0; out of int64 range -> clamped to the nearest bound (exact definition:
   [atoi] below; [atoi_syntax_ok] / [digits_value] are kept as auxiliary notions). *)
Definition max_int64 : Z := 9223372036854775807.
Definition min_int64 : Z := -9223372036854775808.

Fixpoint all_digits (s : list Z) : bool :=
  match s with [] => true | c :: r => is_digit c && all_digits r end.

Fixpoint digits_value (s : list Z) (acc : Z) : Z :=
  match s with [] => acc | c :: r => digits_value r (acc * 10 + (c - 48)) end.

Definition atoi_syntax_ok (s : list Z) : bool :=
  match s with
  | [] => false
  | c :: r => if (c =? 43) || (c =? 45) then negb (match r with [] => true | _ => false end) && all_digits r
              else all_digits s
  end.

(* ParseUint's digit loop on a uint64 accumulator: None = syntax error (a non-digit met
   before any overflow); Some max_uint64 = range error, returned AS SOON AS the accumulator
   overflows - later characters are not examined (strconv/atoi.go, cutoff = maxUint64/10+1). *)
Definition max_uint64 : Z := 18446744073709551615.
Fixpoint parse_uint (s : list Z) (n : Z) : option Z :=
  match s with
  | [] => Some n
  | c :: r =>
    if is_digit c then
      if n >=? 1844674407370955162 then Some max_uint64
      else let n1 := n * 10 + (c - 48) in
           if n1 >? max_uint64 then Some max_uint64 else parse_uint r n1
    else None
  end.

(* strconv.Atoi, value returned when the error is ignored: optional single sign, digits;
   syntax error -> 0; range error -> clamped to the nearest int64 bound.  ">= 20 digits followed
   by junk" is a range error (clamp), not a syntax error. *)
Definition atoi (s : list Z) : Z :=
  match s with
  | [] => 0
  | c :: r =>
    let neg := c =? 45 in
    let body := if neg || (c =? 43) then r else s in
    match body with
    | [] => 0
    | _ =>
      match parse_uint body 0 with
      | None => 0
      | Some un => if neg then (if un >? 9223372036854775808 then min_int64 else - un)
                   else (if un >=? 9223372036854775808 then max_int64 else un)
      end
    end
  end.

(* strconv.Itoa / %d is Sexp.itoa *)

(* ---- strings.Split(s, sep) for a one-byte separator: always >= 1 piece ---- *)
Fixpoint split_on_aux (sep : Z) (s : list Z) (cur : list Z) : list (list Z) :=
  match s with
  | [] => [rev cur]
  | c :: r => if c =? sep then rev cur :: split_on_aux sep r [] else split_on_aux sep r (c :: cur)
  end.
Definition split_on (sep : Z) (s : list Z) : list (list Z) := split_on_aux sep s [].

(* strings.Join *)
Fixpoint join (sep : list Z) (l : list (list Z)) : list Z :=
  match l with
  | [] => []
  | [x] => x
  | x :: r => x ++ sep ++ join sep r
  end.

Fixpoint has_prefix (p s : list Z) : bool :=
  match p, s with
  | [], _ => true
  | a :: p', b :: s' => (a =? b) && has_prefix p' s'
  | _, [] => false
  end.
Definition has_suffix (p s : list Z) : bool := has_prefix (rev p) (rev s).

Fixpoint drop_prefix (p s : list Z) : option (list Z) :=
  match p, s with
  | [], _ => Some s
  | a :: p', b :: s' => if a =? b then drop_prefix p' s' else None
  | _, [] => None
  end.

(* strings.Contains for a byte *)
Definition contains_byte (c : Z) (s : list Z) : bool := existsb (Z.eqb c) s.

(* strings.Index(s, sub) >= 0 *)
Fixpoint contains_sub (sub s : list Z) : bool :=
  has_prefix sub s || match s with [] => false | _ :: r => contains_sub sub r end.

(* strings.Cut(s, sep) for a one-byte separator: (before, after, found) *)
Fixpoint cut_on_aux (sep : Z) (s : list Z) (cur : list Z) : list Z * list Z * bool :=
  match s with
  | [] => (rev cur, [], false)
  | c :: r => if c =? sep then (rev cur, r, true) else cut_on_aux sep r (c :: cur)
  end.
Definition cut_on (sep : Z) (s : list Z) := cut_on_aux sep s [].

(* longest prefix satisfying p, and the rest *)
Fixpoint span (p : Z -> bool) (s : list Z) : list Z * list Z :=
  match s with
  | [] => ([], [])
  | c :: r => if p c then let '(a, b) := span p r in (c :: a, b) else ([], s)
  end.

(* ASCII upper-case A-Z / digit classes used by the regexes *)
Definition is_upper (c : Z) := (65 <=? c) && (c <=? 90).
Definition is_lower (c : Z) := (97 <=? c) && (c <=? 122).
Definition is_alpha (c : Z) := is_upper c || is_lower c.
