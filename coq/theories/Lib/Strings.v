(* Go string helpers shared by the codec models (strings are list Z of bytes).
   Definitions only; lemmas live in Proofs/. *)
From RP Require Import Lib.Base Lib.Sexp.

(* ---- strconv.Atoi, value returned when the error is ignored (su.Intval etc.) ----
   syntax: optional single '+'/'-', then one or more ASCII digits, nothing else;
   syntax error -> 0; out of int64 range -> clamped to the nearest bound. *)
Definition max_int64 : Z := 9223372036854775807.
Definition min_int64 : Z := -9223372036854775808.

Fixpoint all_digits (s : list Z) : bool :=
  match s with [] => true | c :: r => is_digit c && all_digits r end.

Fixpoint digits_value (s : list Z) (acc : Z) : Z :=
  match s with [] => acc | c :: r => digits_value r (acc * 10 + (c - 48)) end.

Definition atoi_syntax_ok (s : list Z) : bool :=
  match s with
  | [] => false
  | c :: r => if (c =? 43) || (c =? 45) then negb (match r with [] => true | _ => false end) && all_digits r
              else all_digits s
  end.

Definition atoi (s : list Z) : Z :=
  if atoi_syntax_ok s then
    match s with
    | c :: r =>
      let v := if c =? 45 then - digits_value r 0 else if c =? 43 then digits_value r 0 else digits_value s 0 in
      if v >? max_int64 then max_int64 else if v <? min_int64 then min_int64 else v
    | [] => 0
    end
  else 0.

(* strconv.Itoa / %d is Sexp.itoa *)

(* ---- strings.Split(s, sep) for a one-byte separator: always >= 1 piece ---- *)
Fixpoint split_on_aux (sep : Z) (s : list Z) (cur : list Z) : list (list Z) :=
  match s with
  | [] => [rev cur]
  | c :: r => if c =? sep then rev cur :: split_on_aux sep r [] else split_on_aux sep r (c :: cur)
  end.
Definition split_on (sep : Z) (s : list Z) : list (list Z) := split_on_aux sep s [].

(* strings.Join *)
Fixpoint join (sep : list Z) (l : list (list Z)) : list Z :=
  match l with
  | [] => []
  | [x] => x
  | x :: r => x ++ sep ++ join sep r
  end.

Fixpoint has_prefix (p s : list Z) : bool :=
  match p, s with
  | [], _ => true
  | a :: p', b :: s' => (a =? b) && has_prefix p' s'
  | _, [] => false
  end.
Definition has_suffix (p s : list Z) : bool := has_prefix (rev p) (rev s).

Fixpoint drop_prefix (p s : list Z) : option (list Z) :=
  match p, s with
  | [], _ => Some s
  | a :: p', b :: s' => if a =? b then drop_prefix p' s' else None
  | _, [] => None
  end.

(* strings.Contains for a byte *)
Definition contains_byte (c : Z) (s : list Z) : bool := existsb (Z.eqb c) s.

(* strings.Index(s, sub) >= 0 *)
Fixpoint contains_sub (sub s : list Z) : bool :=
  has_prefix sub s || match s with [] => false | _ :: r => contains_sub sub r end.

(* strings.Cut(s, sep) for a one-byte separator: (before, after, found) *)
Fixpoint cut_on_aux (sep : Z) (s : list Z) (cur : list Z) : list Z * list Z * bool :=
  match s with
  | [] => (rev cur, [], false)
  | c :: r => if c =? sep then (rev cur, r, true) else cut_on_aux sep r (c :: cur)
  end.
Definition cut_on (sep : Z) (s : list Z) := cut_on_aux sep s [].

(* longest prefix satisfying p, and the rest *)
Fixpoint span (p : Z -> bool) (s : list Z) : list Z * list Z :=
  match s with
  | [] => ([], [])
  | c :: r => if p c then let '(a, b) := span p r in (c :: a, b) else ([], s)
  end.

(* ASCII upper-case A-Z / digit classes used by the regexes *)
Definition is_upper (c : Z) := (65 <=? c) && (c <=? 90).
Definition is_lower (c : Z) := (97 <=? c) && (c <=? 122).
Definition is_alpha (c : Z) := is_upper c || is_lower c.
