(* Base conventions shared by all models: Go integer semantics over Z, byte strings as
   list Z, result type with explicit panic sites, list helpers. No proofs here beyond
   trivial facts; lemmas live in Proofs/. *)
From Coq Require Export ZArith List Bool Lia.
Export ListNotations.
Open Scope Z_scope.

(* A Go function that may panic returns [res A]. [site] numbers the source location. *)
Inductive res (A : Type) : Type :=
| Ok (a : A)
| Panic (site : Z).
Arguments Ok {A} a.
Arguments Panic {A} site.

Definition bind {A B} (r : res A) (f : A -> res B) : res B :=
  match r with Ok a => f a | Panic s => Panic s end.
Notation "'do' x <- r ; k" := (bind r (fun x => k)) (at level 200, x pattern, r at level 100, k at level 200).

Definition is_ok {A} (r : res A) : bool := match r with Ok _ => true | Panic _ => false end.

(* Bytes are Z in [0,256). *)
Definition byte := Z.
Definition bytes := list Z.
Definition byte_ok (b : Z) : bool := (0 <=? b) && (b <? 256).
Definition bytes_ok (bs : bytes) : bool := forallb byte_ok bs.

(* Go fixed-width wraps *)
Definition wrap8 (x : Z) : Z := x mod 256.
Definition wrap16 (x : Z) : Z := x mod 65536.
Definition wrap32 (x : Z) : Z := x mod 4294967296.
Definition sint32 (x : Z) : Z := let y := x mod 4294967296 in if y <? 2147483648 then y else y - 4294967296.
Definition sint64 (x : Z) : Z :=
  let y := x mod 18446744073709551616 in if y <? 9223372036854775808 then y else y - 18446744073709551616.

(* Go / and % on ints truncate toward zero. *)
Definition gdiv (a b : Z) : Z := Z.quot a b.
Definition gmod (a b : Z) : Z := Z.rem a b.

(* su.Qint *)
Definition qint (c : bool) (a b : Z) : Z := if c then a else b.
(* su.ConstrainValue *)
Definition constrain (v lo hi : Z) : Z := if v <? lo then lo else if v >? hi then hi else v.
(* su.MapValue (panics on in_max = in_min: only used with constants) *)
Definition map_value (x imin imax omin omax : Z) : Z := gdiv ((x - imin) * (omax - omin)) (imax - imin) + omin.

(* list helpers *)
Definition zlen {A} (l : list A) : Z := Z.of_nat (length l).

Definition znth {A} (d : A) (l : list A) (i : Z) : A :=
  if i <? 0 then d else nth (Z.to_nat i) l d.

Fixpoint upd_nat {A} (l : list A) (n : nat) (v : A) : list A :=
  match l, n with
  | [], _ => []
  | _ :: t, O => v :: t
  | h :: t, S n' => h :: upd_nat t n' v
  end.
Definition zupd {A} (l : list A) (i : Z) (v : A) : list A :=
  if i <? 0 then l else upd_nat l (Z.to_nat i) v.

(* for k := 0; k < n; k++ { st = f (start+k) st } *)
Fixpoint iter_up {S} (n : nat) (start : Z) (f : Z -> S -> S) (st : S) : S :=
  match n with
  | O => st
  | Datatypes.S n' => iter_up n' (start + 1) f (f start st)
  end.
Definition for_range {S} (start count : Z) (f : Z -> S -> S) (st : S) : S :=
  iter_up (Z.to_nat count) start f st.

Definition zrepeat {A} (a : A) (n : Z) : list A := repeat a (Z.to_nat n).

(* ceil(a/8) for a >= 0, as int(math.Ceil(float64(a)/8)) computes it (exact for |a| < 2^53);
   for negative a, Ceil of a negative quotient truncates toward zero. *)
Definition ceil_div8 (a : Z) : Z := if a <? 0 then - ((- a) / 8) else (a + 7) / 8.

Fixpoint list_eqb {A} (eqb : A -> A -> bool) (a b : list A) : bool :=
  match a, b with
  | [], [] => true
  | x :: a', y :: b' => eqb x y && list_eqb eqb a' b'
  | _, _ => false
  end.
Definition bytes_eqb := list_eqb Z.eqb.
