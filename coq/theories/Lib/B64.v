(* encoding/base64.StdEncoding exactly as the library's call sites use it (Go 1.23):
     EncodeToString(src)                       = b64_encode src
     decoded, _ := DecodeString(s)             = b64_decode s      (the error is IGNORED at
   converterFunctions.go:352, so what matters is the byte slice dbuf[:n] that DecodeString
   returns next to the error: every quantum decoded before the corrupt position, nothing of
   the corrupt quantum; '\r' and '\n' are skipped anywhere; after a padded final quantum
   decoding stops and trailing garbage only sets the error, the bytes stay).
   The 8- and 4-character fast paths of Decode are semantically the quantum loop.
   Definitions only; the round trip is proved in Proofs/GfxB64.v. *)
From RP Require Import Lib.Base.

Definition b64_char (v : Z) : Z :=
  if v <? 26 then 65 + v else if v <? 52 then 71 + v else if v <? 62 then v - 4
  else if v =? 62 then 43 else 47.

(* decodeMap: None = 0xff *)
Definition b64_val (c : Z) : option Z :=
  if (65 <=? c) && (c <=? 90) then Some (c - 65)
  else if (97 <=? c) && (c <=? 122) then Some (c - 71)
  else if (48 <=? c) && (c <=? 57) then Some (c + 4)
  else if c =? 43 then Some 62 else if c =? 47 then Some 63 else None.

Fixpoint b64_encode (s : list Z) : list Z :=
  match s with
  | a :: b :: c :: r =>
    b64_char (a / 4) :: b64_char ((a mod 4) * 16 + b / 16) :: b64_char ((b mod 16) * 4 + c / 64)
    :: b64_char (c mod 64) :: b64_encode r
  | [a; b] => [b64_char (a / 4); b64_char ((a mod 4) * 16 + b / 16); b64_char ((b mod 16) * 4); 61]
  | [a] => [b64_char (a / 4); b64_char ((a mod 4) * 16); 61; 61]
  | [] => []
  end.

Fixpoint skip_nl (s : list Z) : list Z :=
  match s with
  | c :: r => if (c =? 10) || (c =? 13) then skip_nl r else s
  | [] => []
  end.

Definition quantum_bytes (d0 d1 d2 d3 : Z) : list Z :=
  [d0 * 4 + d1 / 16; (d1 mod 16) * 16 + d2 / 4; (d2 mod 4) * 64 + d3].

(* [q] = sextets of the quantum in progress, most recent first (length < 4). *)
Fixpoint b64_dec (s : list Z) (q : list Z) : list Z :=
  match s with
  | [] => []  (* j = 0: finished; j >= 1: CorruptInputError, the partial quantum yields nothing *)
  | c :: r =>
    match b64_val c with
    | Some v =>
      match q with
      | [d2; d1; d0] => quantum_bytes d0 d1 d2 v ++ b64_dec r []
      | _ => b64_dec r (v :: q)
      end
    | None =>
      if (c =? 10) || (c =? 13) then b64_dec r q
      else if c =? 61 then
        match q with
        | [d1; d0] =>
          match skip_nl r with
          | c2 :: _ => if c2 =? 61 then [d0 * 4 + d1 / 16] else []
          | [] => []
          end
        | [d2; d1; d0] => [d0 * 4 + d1 / 16; (d1 mod 16) * 16 + d2 / 4]
        | _ => []
        end
      else []
    end
  end.

Definition b64_decode (s : list Z) : list Z := b64_dec s [].
