(* strings.TrimSpace exactly (Go 1.23): leading and trailing Unicode white space removed,
   runes decoded from the front with utf8.DecodeRuneInString and from the back with
   utf8.DecodeLastRuneInString (invalid bytes decode to U+FFFD, width 1, which is not a
   space, so trimming stops there).  The ASCII fast paths of the library function are
   semantically TrimRightFunc(TrimLeftFunc(s, IsSpace), IsSpace), which is what is
   written here.  Definitions only. *)
From RP Require Import Lib.Base Lib.Utf8.

(* unicode.IsSpace: Latin-1 cases + White_Space table *)
Definition is_space_rune (r : Z) : bool :=
  ((9 <=? r) && (r <=? 13)) || (r =? 32) || (r =? 133) || (r =? 160) || (r =? 5760)
  || ((8192 <=? r) && (r <=? 8202)) || (r =? 8232) || (r =? 8233) || (r =? 8239)
  || (r =? 8287) || (r =? 12288).

(* utf8.RuneStart: b & 0xC0 != 0x80 *)
Definition rune_start (b : Z) : bool := negb (is_cont b).

(* TrimLeftFunc(s, IsSpace) *)
Fixpoint trim_left_fuel (fuel : nat) (s : list Z) : list Z :=
  match fuel with
  | O => s
  | S f =>
    match s with
    | [] => []
    | _ => let '(r, n) := decode_rune s in
           if is_space_rune r then trim_left_fuel f (skipn n s) else s
    end
  end.
Definition trim_left (s : list Z) : list Z := trim_left_fuel (length s) s.

(* utf8.DecodeLastRuneInString on the REVERSED string (last byte first): looks back over at
   most UTFMax = 4 bytes for a start byte, decodes forward from it, and accepts only if the
   decoded rune ends exactly at the end of the string. *)
Definition try_last (bs : list Z) (k : nat) : Z * nat :=
  let '(r, n) := decode_rune bs in if Nat.eqb n k then (r, k) else (rune_error, 1%nat).

Definition decode_last_rune_rev (rs : list Z) : Z * nat :=
  match rs with
  | [] => (rune_error, 0%nat)
  | b0 :: r1 =>
    if b0 <? 128 then (b0, 1%nat)
    else
      match r1 with
      | b1 :: r2 =>
        if rune_start b1 then try_last [b1; b0] 2
        else
          match r2 with
          | b2 :: r3 =>
            if rune_start b2 then try_last [b2; b1; b0] 3
            else
              match r3 with
              | b3 :: _ => if rune_start b3 then try_last [b3; b2; b1; b0] 4 else (rune_error, 1%nat)
              | [] => (rune_error, 1%nat)
              end
          | [] => (rune_error, 1%nat)
          end
      | [] => (rune_error, 1%nat)
      end
  end.

(* TrimRightFunc(s, IsSpace) on the reversed string *)
Fixpoint trim_right_rev_fuel (fuel : nat) (rs : list Z) : list Z :=
  match fuel with
  | O => rs
  | S f =>
    match rs with
    | [] => []
    | _ => let '(r, n) := decode_last_rune_rev rs in
           if is_space_rune r then trim_right_rev_fuel f (skipn n rs) else rs
    end
  end.
Definition trim_right (s : list Z) : list Z := rev (trim_right_rev_fuel (length s) (rev s)).

Definition trim_space (s : list Z) : list Z := trim_right (trim_left s).
