(* float32 printing and parsing as Go does it, executable over Z, axiom-free.

   A float32 is carried as its 32-bit pattern (Z in [0,2^32)).
   * [fmt_f32 k bits]     = fmt.Sprintf("%.<k>f", float32)  (k >= 1): the exact binary value rounded
                            half-even to k decimals (strconv formats exact values; the tie is
                            the midpoint of two decimals only when the binary value IS that midpoint),
                            sign printed from the sign bit ("-0.0"), "NaN", "+Inf", "-Inf".
   * [parse_float32 s]    = float32(f) for f, _ := strconv.ParseFloat(s, 32): the nearest-even
                            float32 of the exact decimal (or hexadecimal) rational denoted by s,
                            overflow -> +-Inf, syntax error -> 0; full strconv syntax (sign, digits
                            with '.', e/E exponent, 0x hex mantissa with mandatory p exponent,
                            underscores under the underscoreOK rule, inf / infinity / nan
                            case-insensitively).
   * [f32_scaled k bits]  = the exact value times 10^k rounded half-even to an integer (what the
                            printed digits denote).
   Validated against the Go runtime by the C03/C04 correspondence runs (float sweeps and the
   malformed number stream).  No proofs here. *)
From RP Require Import Lib.Base Lib.Sexp Lib.Strings.
From Coq Require Import String.
Open Scope Z_scope.

(* ---------------------------------------------------------------- bit fields *)
Definition f32_neg (b : Z) : bool := 2147483648 <=? b.
Definition f32_expf (b : Z) : Z := (b / 8388608) mod 256.
Definition f32_manf (b : Z) : Z := b mod 8388608.
Definition f32_is_nan (b : Z) : bool := (f32_expf b =? 255) && negb (f32_manf b =? 0).
Definition f32_is_inf (b : Z) : bool := (f32_expf b =? 255) && (f32_manf b =? 0).
Definition f32_finite (b : Z) : bool := negb (f32_expf b =? 255).
(* |value| = f32_m * 2^f32_e for finite patterns *)
Definition f32_m (b : Z) : Z := if f32_expf b =? 0 then f32_manf b else 8388608 + f32_manf b.
Definition f32_e (b : Z) : Z := if f32_expf b =? 0 then -149 else f32_expf b - 150.

(* round-half-even of n/d for n >= 0, d > 0 *)
Definition rhe_div (n d : Z) : Z :=
  let q := n / d in
  let r := n mod d in
  if 2 * r <? d then q else if d <? 2 * r then q + 1 else if Z.even q then q else q + 1.

Definition f32_scaled_abs (k b : Z) : Z :=
  let m := f32_m b in
  let e := f32_e b in
  if 0 <=? e then m * 2 ^ e * 10 ^ k else rhe_div (m * 10 ^ k) (2 ^ (- e)).
Definition f32_scaled (k b : Z) : Z := if f32_neg b then - f32_scaled_abs k b else f32_scaled_abs k b.

(* ---------------------------------------------------------------- %.kf *)
Definition pad0 (w : Z) (s : list Z) : list Z := repeat 48 (Z.to_nat (w - zlen s)) ++ s.

Definition fmt_f32 (k b : Z) : list Z :=
  if f32_is_nan b then str "NaN"
  else if f32_is_inf b then (if f32_neg b then str "-Inf" else str "+Inf")
  else
    let r := f32_scaled_abs k b in
    (if f32_neg b then [45] else []) ++ itoa (r / 10 ^ k) ++ [46] ++ pad0 k (itoa (r mod 10 ^ k)).

(* ---------------------------------------------------------------- nearest-even float32 of n/d *)
Definition inf_bits : Z := 2139095040.   (* 0x7F800000 *)
Definition nan_bits : Z := 2143289344.   (* 0x7FC00000: float32(math.NaN()) on amd64/arm64 *)
Definition sign_bit : Z := 2147483648.

(* n > 0, d > 0 *)
Definition q_to_f32_abs (n d : Z) : Z :=
  let l := Z.log2 n - Z.log2 d in
  let ge := if 0 <=? l then d * 2 ^ l <=? n else d <=? n * 2 ^ (- l) in
  let t := if ge then l else l - 1 in             (* floor(log2(n/d)) *)
  let e := Z.max (t - 23) (-149) in
  let m := if 0 <=? e then rhe_div n (d * 2 ^ e) else rhe_div (n * 2 ^ (- e)) d in
  let bits := (e + 149) * 8388608 + m in
  if inf_bits <=? bits then inf_bits else bits.

(* value = mant * 10^x10 * 2^x2 (one of x10, x2 is 0) *)
Definition scaled_to_f32_abs (mant x10 x2 : Z) : Z :=
  if mant =? 0 then 0
  else if (60 <? x10) || (300 <? x2) then inf_bits
  else if (Z.log2 mant + 1 + 3 * x10 <? -170) && (x10 <? 0) then 0
  else if (Z.log2 mant + 1 + x2 <? -170) then 0
  else
    let n := mant * (if 0 <=? x10 then 10 ^ x10 else 1) * (if 0 <=? x2 then 2 ^ x2 else 1) in
    let d := (if 0 <=? x10 then 1 else 10 ^ (- x10)) * (if 0 <=? x2 then 1 else 2 ^ (- x2)) in
    q_to_f32_abs n d.

(* ---------------------------------------------------------------- strconv syntax *)
Fixpoint common_prefix_ci (s p : list Z) : Z :=
  match s, p with
  | c :: s', d :: p' => if (if is_upper c then c + 32 else c) =? d then 1 + common_prefix_ci s' p' else 0
  | _, _ => 0
  end.

(* special(): (bits, consumed) *)
Definition special_inf (neg : bool) (nsign : Z) (t : list Z) : option (Z * Z) :=
  let n := common_prefix_ci t (str "infinity") in
  let n := if (3 <? n) && (n <? 8) then 3 else n in
  if (n =? 3) || (n =? 8) then Some (if neg then inf_bits + sign_bit else inf_bits, nsign + n) else None.

Definition special (s : list Z) : option (Z * Z) :=
  match s with
  | [] => None
  | c :: r =>
    if (c =? 43) || (c =? 45) then special_inf (c =? 45) 1 r
    else if (c =? 105) || (c =? 73) then special_inf false 0 s
    else if (c =? 110) || (c =? 78) then
      if common_prefix_ci s (str "nan") =? 3 then Some (nan_bits, 3) else None
    else None
  end.

Definition hexletter_val (c : Z) : option Z :=
  if (97 <=? c) && (c <=? 102) then Some (c - 87)
  else if (65 <=? c) && (c <=? 70) then Some (c - 55) else None.

(* underscoreOK, written as the source's state machine; saw: 0 = '^', 1 = '0', 2 = '_', 3 = '!' *)
Fixpoint uok_loop (hex : bool) (saw : Z) (s : list Z) : bool :=
  match s with
  | [] => negb (saw =? 2)
  | c :: r =>
    if is_digit c || (hex && match hexletter_val c with Some _ => true | None => false end) then uok_loop hex 1 r
    else if c =? 95 then (if saw =? 1 then uok_loop hex 2 r else false)
    else if saw =? 2 then false
    else uok_loop hex 3 r
  end.
Definition underscore_ok (s : list Z) : bool :=
  let s := match s with c :: r => if (c =? 45) || (c =? 43) then r else s | [] => s end in
  match s with
  | 48 :: c :: r =>
    if (c =? 98) || (c =? 66) || (c =? 111) || (c =? 79) then uok_loop false 1 r
    else if (c =? 120) || (c =? 88) then uok_loop true 1 r
    else uok_loop false 0 s
  | _ => uok_loop false 0 s
  end.

(* mantissa loop: returns (mant, fracdigits, sawdigits, underscores, rest) *)
Fixpoint mant_loop (hex : bool) (s : list Z) (mant frac : Z) (sawdot sawdig und : bool)
  : Z * Z * bool * bool * list Z :=
  match s with
  | [] => (mant, frac, sawdig, und, [])
  | c :: r =>
    if c =? 95 then mant_loop hex r mant frac sawdot sawdig true
    else if c =? 46 then
      (if sawdot then (mant, frac, sawdig, und, s) else mant_loop hex r mant frac true sawdig und)
    else if is_digit c then
      mant_loop hex r (mant * (if hex then 16 else 10) + (c - 48)) (if sawdot then frac + 1 else frac) sawdot true und
    else
      match (if hex then hexletter_val c else None) with
      | Some v => mant_loop hex r (mant * 16 + v) (if sawdot then frac + 1 else frac) sawdot true und
      | None => (mant, frac, sawdig, und, s)
      end
  end.

(* exponent digits (and underscores): e capped as in the source *)
Fixpoint exp_loop (s : list Z) (e : Z) (und : bool) : Z * bool * list Z :=
  match s with
  | [] => (e, und, [])
  | c :: r =>
    if c =? 95 then exp_loop r e true
    else if is_digit c then exp_loop r (if e <? 10000 then e * 10 + (c - 48) else e) und
    else (e, und, s)
  end.

(* readFloat: Some (neg, hex, mant, frac, exp, rest) when ok *)
Definition read_float (s : list Z) : option (bool * bool * Z * Z * Z * list Z) :=
  match s with
  | [] => None
  | c0 :: r0 =>
    let neg := c0 =? 45 in
    let s1 := if (c0 =? 43) || (c0 =? 45) then r0 else s in
    let hex := match s1 with
               | 48 :: x :: _ :: _ => (x =? 120) || (x =? 88)
               | _ => false
               end in
    let s2 := if hex then skipn 2 s1 else s1 in
    match mant_loop hex s2 0 0 false false false with
    | (mant, frac, sawdig, und, s3) =>
      if negb sawdig then None
      else
        let is_expchar := match s3 with
                          | c :: _ => if hex then (c =? 112) || (c =? 80) else (c =? 101) || (c =? 69)
                          | [] => false
                          end in
        let fin (e : Z) (und' : bool) (rest : list Z) :=
          if und' && negb (underscore_ok (firstn (List.length s - List.length rest) s)) then None
          else Some (neg, hex, mant, frac, e, rest) in
        if is_expchar then
          match skipn 1 s3 with
          | [] => None
          | c :: r =>
            let esign := if c =? 45 then -1 else 1 in
            let s4 := if (c =? 43) || (c =? 45) then r else c :: r in
            match s4 with
            | d :: _ =>
              if is_digit d then
                match exp_loop s4 0 und with
                | (e, und', rest) => fin (e * esign) und' rest
                end
              else None
            | [] => None
            end
          end
        else if hex then None
        else fin 0 und s3
    end
  end.

(* float32(f) where f, _ := strconv.ParseFloat(s, 32) *)
Definition parse_float32 (s : list Z) : Z :=
  match special s with
  | Some (bits, n) => if n =? zlen s then bits else 0
  | None =>
    match read_float s with
    | Some (neg, hex, mant, frac, e, rest) =>
      match rest with
      | [] =>
        let a := if hex then scaled_to_f32_abs mant 0 (e - 4 * frac) else scaled_to_f32_abs mant (e - frac) 0 in
        if neg then a + sign_bit else a
      | _ => 0
      end
    | None => 0
    end
  end.
