(* Go's `for _, r := range s` over a string: UTF-8 decoding exactly as
   unicode/utf8.DecodeRuneInString does it (invalid or truncated sequences yield U+FFFD
   and consume ONE byte; surrogates and overlong forms are invalid). *)
From RP Require Import Lib.Base.

Definition rune_error : Z := 65533.

Definition is_cont (c : Z) : bool := (128 <=? c) && (c <=? 191).

(* decode one rune at the head of [s]; returns (rune, number of bytes consumed) *)
Definition decode_rune (s : list Z) : Z * nat :=
  match s with
  | [] => (rune_error, 0%nat)
  | c0 :: r =>
    if c0 <? 128 then (c0, 1%nat)
    else if (c0 <? 194) || (244 <? c0) then (rune_error, 1%nat)
    else if c0 <? 224 then
      match r with
      | c1 :: _ => if is_cont c1 then ((c0 - 192) * 64 + (c1 - 128), 2%nat) else (rune_error, 1%nat)
      | _ => (rune_error, 1%nat)
      end
    else if c0 <? 240 then
      let lo := if c0 =? 224 then 160 else 128 in
      let hi := if c0 =? 237 then 159 else 191 in
      match r with
      | c1 :: c2 :: _ =>
        if (lo <=? c1) && (c1 <=? hi) && is_cont c2
        then ((c0 - 224) * 4096 + (c1 - 128) * 64 + (c2 - 128), 3%nat) else (rune_error, 1%nat)
      | _ => (rune_error, 1%nat)
      end
    else
      let lo := if c0 =? 240 then 144 else 128 in
      let hi := if c0 =? 244 then 143 else 191 in
      match r with
      | c1 :: c2 :: c3 :: _ =>
        if (lo <=? c1) && (c1 <=? hi) && is_cont c2 && is_cont c3
        then ((c0 - 240) * 262144 + (c1 - 128) * 4096 + (c2 - 128) * 64 + (c3 - 128), 4%nat)
        else (rune_error, 1%nat)
      | _ => (rune_error, 1%nat)
      end
  end.

(* all runes of a string, in order; fuel = length s suffices since every step consumes >= 1 *)
Fixpoint runes_fuel (fuel : nat) (s : list Z) : list Z :=
  match fuel with
  | O => []
  | S f =>
    match s with
    | [] => []
    | _ => let '(r, n) := decode_rune s in r :: runes_fuel f (skipn n s)
    end
  end.
Definition runes (s : list Z) : list Z := runes_fuel (length s) s.

(* `byte(rune)` for each rune: what RenderText / StrWidth feed to the glyph code *)
Definition range_bytes (s : list Z) : list Z := map (fun r => r mod 256) (runes s).
