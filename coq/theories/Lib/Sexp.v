(* S-expressions: the wire format between the Go harness and the extracted model.
   Text syntax: ( ... ) lists; -?[0-9]+ integers; #<hex> byte strings (may be empty: "#");
   [A-Za-z_][A-Za-z0-9_.-]* symbols.  Parser and printer are Gallina so that only
   line I/O is hand-written OCaml. *)
From RP Require Import Lib.Base.
From Coq Require Import String Ascii.

Inductive sexp : Type :=
| I (z : Z)
| B (bs : list Z)
| S (name : list Z)
| L (xs : list sexp).

(* string literal -> byte list *)
Fixpoint str (s : string) : list Z :=
  match s with
  | EmptyString => []
  | String a r => Z.of_N (N_of_ascii a) :: str r   (* = Z.of_nat (nat_of_ascii a), built from the 8 bits directly *)
  end.

Definition sym (s : string) : sexp := S (str s).

(* ---------- printer ---------- *)
Fixpoint digits_aux (fuel : nat) (n : Z) (acc : list Z) : list Z :=
  match fuel with
  | O => acc
  | Datatypes.S f => if n <? 10 then (48 + n) :: acc else digits_aux f (n / 10) ((48 + n mod 10) :: acc)
  end.
Definition digits_of_nonneg (n : Z) : list Z := digits_aux (Datatypes.S (Z.to_nat (Z.log2 n + 1))) n [].
(* strconv.Itoa *)
Definition itoa (z : Z) : list Z :=
  if z <? 0 then 45 :: digits_of_nonneg (- z) else digits_of_nonneg z.

Definition hexdig (n : Z) : Z := if n <? 10 then 48 + n else 87 + n.
Fixpoint hex_of (bs : list Z) : list Z :=
  match bs with
  | [] => []
  | x :: r => hexdig (x / 16) :: hexdig (x mod 16) :: hex_of r
  end.

Fixpoint print_sexp (s : sexp) : list Z :=
  match s with
  | I z => itoa z
  | B bs => 35 :: hex_of bs
  | S n => n
  | L xs =>
    40 :: (fix go (l : list sexp) : list Z :=
             match l with
             | [] => [41]
             | [x] => print_sexp x ++ [41]
             | x :: r => print_sexp x ++ 32 :: go r
             end) xs
  end.

(* linear-time, tail-recursive reverse (List.rev is quadratic and not tail-recursive once extracted) *)
Definition frev {A} (l : list A) : list A := rev_append l [].

(* ---------- parser ---------- *)
Inductive tok := TNone | TInt (neg : bool) (v : Z) (seen : bool) | THex (acc : list Z) (hi : option Z) | TSym (acc : list Z).

Definition is_digit (c : Z) := (48 <=? c) && (c <=? 57).
Definition hexval (c : Z) : option Z :=
  if (48 <=? c) && (c <=? 57) then Some (c - 48)
  else if (97 <=? c) && (c <=? 102) then Some (c - 87)
  else if (65 <=? c) && (c <=? 70) then Some (c - 55) else None.
Definition is_symch (c : Z) :=
  ((65 <=? c) && (c <=? 90)) || ((97 <=? c) && (c <=? 122)) || is_digit c
  || (c =? 95) || (c =? 45) || (c =? 46) || (c =? 63) || (c =? 33).

Definition flush (t : tok) (cur : list sexp) : option (list sexp) :=
  match t with
  | TNone => Some cur
  | TInt neg v seen => if seen then Some (I (if neg then - v else v) :: cur) else None
  | THex acc None => Some (B (frev acc) :: cur)
  | THex _ (Some _) => None
  | TSym acc => Some (S (frev acc) :: cur)
  end.

(* cur and stack hold reversed lists *)
Fixpoint parse_go (inp : list Z) (t : tok) (cur : list sexp) (stack : list (list sexp)) : option (list sexp) :=
  match inp with
  | [] => match stack with
          | [] => match flush t cur with Some c => Some (frev c) | None => None end
          | _ => None
          end
  | c :: r =>
    if (c =? 32) || (c =? 9) || (c =? 10) || (c =? 13) then
      match flush t cur with Some cur' => parse_go r TNone cur' stack | None => None end
    else if c =? 40 then
      match flush t cur with Some cur' => parse_go r TNone [] (cur' :: stack) | None => None end
    else if c =? 41 then
      match flush t cur, stack with
      | Some cur', up :: stack' => parse_go r TNone (L (frev cur') :: up) stack'
      | _, _ => None
      end
    else
      match t with
      | TNone =>
        if c =? 45 then parse_go r (TInt true 0 false) cur stack
        else if is_digit c then parse_go r (TInt false (c - 48) true) cur stack
        else if c =? 35 then parse_go r (THex [] None) cur stack
        else if is_symch c then parse_go r (TSym [c]) cur stack
        else None
      | TInt neg v seen =>
        if is_digit c then parse_go r (TInt neg (v * 10 + (c - 48)) true) cur stack else None
      | THex acc hi =>
        match hexval c, hi with
        | Some d, None => parse_go r (THex acc (Some d)) cur stack
        | Some d, Some h => parse_go r (THex ((h * 16 + d) :: acc) None) cur stack
        | None, _ => None
        end
      | TSym acc => if is_symch c then parse_go r (TSym (c :: acc)) cur stack else None
      end
  end.

(* a line holds exactly one s-expression *)
Definition parse_sexp (inp : list Z) : option sexp :=
  match parse_go inp TNone [] [] with
  | Some [x] => Some x
  | _ => None
  end.

(* ---------- decoding helpers ---------- *)
Definition sym_eqb (s : sexp) (name : string) : bool :=
  match s with S n => bytes_eqb n (str name) | _ => false end.

Definition get_int (s : sexp) : option Z := match s with I z => Some z | _ => None end.
Definition get_bytes (s : sexp) : option (list Z) := match s with B x => Some x | _ => None end.
Definition get_list (s : sexp) : option (list sexp) := match s with L x => Some x | _ => None end.
Definition get_bool (s : sexp) : option bool := match s with I z => Some (negb (z =? 0)) | _ => None end.
Definition of_bool (x : bool) : sexp := I (if x then 1 else 0).

Fixpoint get_ints (l : list sexp) : option (list Z) :=
  match l with
  | [] => Some []
  | I z :: r => match get_ints r with Some zs => Some (z :: zs) | None => None end
  | _ => None
  end.

Definition obind {A B} (o : option A) (f : A -> option B) : option B :=
  match o with Some a => f a | None => None end.
Notation "'let?' x := o 'in' k" := (obind o (fun x => k)) (at level 200, x pattern, o at level 100, k at level 200).

(* verdict constructors used by every Run/Cnn.v *)
Definition v_ok (nontrivial : bool) : sexp := L [sym "ok"; of_bool nontrivial].
Definition v_mismatch (model_out : sexp) : sexp := L [sym "mismatch"; model_out].
Definition v_specfail (tag : string) (detail : sexp) : sexp := L [sym "specfail"; sym tag; detail].
Definition v_badcase : sexp := L [sym "badcase"].
