(* Little-endian 32-bit length prefix and the fragment of the protobuf wire format needed
   for the one-field ping probe (C12) and for frame building (C08-C10).  No proofs. *)
From RP Require Import Lib.Base.

(* binary.LittleEndian.PutUint32(header, uint32(n)) *)
Definition le32 (n : Z) : bytes :=
  let m := wrap32 n in
  [m mod 256; (m / 256) mod 256; (m / 65536) mod 256; (m / 16777216) mod 256].

(* binary.LittleEndian.Uint32(h[0:4]) *)
Definition le32_dec (h : bytes) : Z :=
  match h with
  | a :: b :: c :: d :: _ => a + 256 * b + 65536 * c + 16777216 * d
  | _ => 0
  end.

(* protobuf base-128 varint of a non-negative integer (at most 10 groups, as for uint64) *)
Fixpoint varint_fuel (fuel : nat) (n : Z) : bytes :=
  match fuel with
  | O => [n mod 128]
  | S f => if n <? 128 then [n] else (128 + n mod 128) :: varint_fuel f (n / 128)
  end.
Definition varint (n : Z) : bytes := varint_fuel 9 n.

(* field key: (field_number << 3) | wire_type *)
Definition pb_key (field wire : Z) : bytes := varint (field * 8 + wire).

(* proto3 scalar varint field: the zero value is not emitted *)
Definition pb_varint_field (field v : Z) : bytes :=
  if v =? 0 then [] else pb_key field 0 ++ varint v.

(* rwp.InboundMessage{FlowMessage: PING}: field 1 (FlowMessage, enum = varint), PING = 1 *)
Definition ping_payload : bytes := pb_varint_field 1 1.
(* rwp.OutboundMessage{FlowMessage: ACK}: field 1, ACK = 2 *)
Definition ack_payload : bytes := pb_varint_field 1 2.

(* one length-prefixed frame *)
Definition frame (p : bytes) : bytes := le32 (zlen p) ++ p.

Definition probe_bytes : bytes := frame ping_payload.
