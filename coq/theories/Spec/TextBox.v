(* C20 specification: what "the metric box bounds the ink", "moving the cursor translates the
   pixels" and "size (h,v) is the size-1 rendering with every pixel enlarged" mean for
   canvases (row-major MSB-first buffers, Spec.Clip.px).  Everything is boolean/executable:
   the same predicates are the statements of the theorems (Props/C20.v) and the search
   oracle that judges the implementation's buffers and reported metrics (Run/C20.v).
   Nothing here follows the structure of the drawing code. *)
From RP Require Import Lib.Base Model.Mono Spec.Clip.

(* visible pixel (c, r) of a W x H canvas; false outside the canvas *)
Definition pxv (W H wib : Z) (d : list Z) (c r : Z) : bool :=
  (0 <=? c) && (c <? W) && (0 <=? r) && (r <? H) && px wib d c r.

(* every integer point of the rectangle [x0, x0+w) x [y0, y0+h) *)
Fixpoint all_from (n : nat) (z : Z) (f : Z -> bool) : bool :=
  match n with O => true | S n' => f z && all_from n' (z + 1) f end.
Definition all_rect (x0 y0 w h : Z) (f : Z -> Z -> bool) : bool :=
  all_from (Z.to_nat h) y0 (fun r => all_from (Z.to_nat w) x0 (fun c => f c r)).

(* the box callers centre and right-align with: starts at the cursor, spans the reported
   string width plus one horizontal size step, and the reported line height *)
Definition in_box (cx cy strw sh lineh a b : Z) : bool := in_rect cx cy (strw + sh) lineh a b.

(* The laws are written over pixel accessors (column, row -> bool) so that the theorems can
   instantiate them with the list view [px wib d] and the oracle with an indexed view of the
   same buffer (Run/C20.v); [vis] cuts an accessor to the canvas. *)
Definition pix := Z -> Z -> bool.
Definition vis (W H : Z) (p : pix) : pix :=
  fun c r => (0 <=? c) && (c <? W) && (0 <=? r) && (r <? H) && p c r.

(* (1) ink inside the box: every pixel of the buffer (padding columns included, nc = 8*wib)
   that differs between before/after lies in the box *)
Definition box_law_p (nc H : Z) (p0 p1 : pix) (cx cy strw sh lineh : Z) : bool :=
  all_rect 0 0 nc H (fun c r => Bool.eqb (p1 c r) (p0 c r) || in_box cx cy strw sh lineh c r).
Definition box_law (W H wib : Z) (d0 d1 : list Z) (cx cy strw sh lineh : Z) : bool :=
  box_law_p (8 * wib) H (px wib d0) (px wib d1) cx cy strw sh lineh.

(* (2) translation: rendering B (cursor moved by (dx,dy)) is rendering A shifted by (dx,dy) *)
Definition translation_law_p (W H : Z) (pA pB : pix) (dx dy : Z) : bool :=
  all_rect (- Z.abs dx) (- Z.abs dy) (W + 2 * Z.abs dx) (H + 2 * Z.abs dy)
    (fun c r => Bool.eqb (vis W H pB (c + dx) (r + dy)) (vis W H pA c r)).
Definition translation_law (W H wib : Z) (dA dB : list Z) (dx dy : Z) : bool :=
  translation_law_p W H (px wib dA) (px wib dB) dx dy.

(* (3) whole-string scaling about the cursor: pixel (c,r) of the size-(h,v) rendering A is
   pixel (cx + (c-cx)/h, cy + (r-cy)/v) of the size-1 rendering C; nothing left of / above the cursor *)
Definition scale_src (cx cy h v c r : Z) : Z * Z := (cx + (c - cx) / h, cy + (r - cy) / v).
Definition scale_law_p (W H : Z) (pA pC : pix) (cx cy h v : Z) : bool :=
  all_rect 0 0 W H (fun c r =>
    Bool.eqb (vis W H pA c r)
             ((cx <=? c) && (cy <=? r) && let '(c1, r1) := scale_src cx cy h v c r in vis W H pC c1 r1)).
Definition scale_law (W H wib : Z) (dA dC : list Z) (cx cy h v : Z) : bool :=
  scale_law_p W H (px wib dA) (px wib dC) cx cy h v.

(* (4) glyph-wise law, following the documented cursor rules (advance h*width + spacing per
   drawn character, byte 13 skipped, byte 10 = column 0 of the next text line): where pixel
   (a,b) of a rendering at size (h,v) from cursor (x,y) comes from in the rendering at size 1
   from cursor (x1,y1).  [ws] = the reported width of each character, [bbh] = size-1 line height. *)
Fixpoint src_pixel (cs ws : list Z) (s h v bbh : Z) (x y x1 y1 : Z) (a b : Z) : option (Z * Z) :=
  match cs, ws with
  | c :: cs', w :: ws' =>
    if c =? 10 then src_pixel cs' ws' s h v bbh 0 (y + v * bbh) 0 (y1 + bbh) a b
    else if c =? 13 then src_pixel cs' ws' s h v bbh x y x1 y1 a b
    else match src_pixel cs' ws' s h v bbh (x + h * w + s) y (x1 + w + s) y1 a b with
         | Some p => Some p
         | None => if in_rect x y (w * h) (bbh * v) a b then Some (x1 + (a - x) / h, y1 + (b - y) / v) else None
         end
  | _, _ => None
  end.

Definition glyph_law_p (W H : Z) (pA pC : pix) (cs ws : list Z) (s h v bbh x y x1 y1 : Z) : bool :=
  all_rect 0 0 W H (fun a b =>
    Bool.eqb (vis W H pA a b)
             (match src_pixel cs ws s h v bbh x y x1 y1 a b with
              | Some (a1, b1) => vis W H pC a1 b1
              | None => false
              end)).
Definition glyph_law (W H wib : Z) (dA dC : list Z) (cs ws : list Z) (s h v bbh x y x1 y1 : Z) : bool :=
  glyph_law_p W H (px wib dA) (px wib dC) cs ws s h v bbh x y x1 y1.

(* "canvas large enough not to clip" for a one-line box (default bounding box) *)
Definition box_fits (W H cx cy strw sh lineh : Z) : bool :=
  (0 <=? cx) && (0 <=? cy) && (cx + strw + sh <=? W) && (cy + lineh <=? H).

(* every glyph cell of the documented layout lies on the canvas *)
Fixpoint layout_fits (W H : Z) (cs ws : list Z) (s h lineh x y : Z) : bool :=
  match cs, ws with
  | c :: cs', w :: ws' =>
    if c =? 10 then layout_fits W H cs' ws' s h lineh 0 (y + lineh)
    else if c =? 13 then layout_fits W H cs' ws' s h lineh x y
    else (0 <=? x) && (0 <=? y) && (x + w * h <=? W) && (y + lineh <=? H)
         && layout_fits W H cs' ws' s h lineh (x + h * w + s) y
  | _, _ => true
  end.

Definition has_lf (cs : list Z) : bool := existsb (Z.eqb 10) cs.
(* characters that are drawn: everything except CR and LF *)
Definition drawn (cs : list Z) : list Z := filter (fun c => negb ((c =? 13) || (c =? 10))) cs.

(* hypothesis under which the whole-string scaling law is claimed by the design (F17) *)
Definition scale_string_scope (cs : list Z) (s : Z) : bool := (s =? 0) || (zlen (drawn cs) <=? 1).
