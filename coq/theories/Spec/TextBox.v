(* C20 specification: what "the metric box bounds the ink", "moving the cursor translates the
   pixels" and "size (h,v) is the size-1 rendering with every pixel enlarged" mean for
   canvases (row-major MSB-first buffers, Spec.Clip.px).  Everything is boolean/executable:
   the same predicates are the statements of the theorems (Props/C20.v) and the search
   oracle that judges the implementation's buffers and reported metrics (Run/C20.v).
   Nothing here follows the structure of the drawing code. *)
From RP Require Import Lib.Base Model.Mono Spec.Clip.

(* visible pixel (c, r) of a W x H canvas; false outside the canvas *)
Definition pxv (W H wib : Z) (d : list Z) (c r : Z) : bool :=
  (0 <=? c) && (c <? W) && (0 <=? r) && (r <? H) && px wib d c r.

(* every integer point of the rectangle [x0, x0+w) x [y0, y0+h) *)
Definition all_rect (x0 y0 w h : Z) (f : Z -> Z -> bool) : bool :=
  forallb (fun r => forallb (fun c => f (x0 + Z.of_nat c) (y0 + Z.of_nat r)) (seq 0 (Z.to_nat w))) (seq 0 (Z.to_nat h)).

(* the box callers centre and right-align with: starts at the cursor, spans the reported
   string width plus one horizontal size step, and the reported line height *)
Definition in_box (cx cy strw sh lineh a b : Z) : bool := in_rect cx cy (strw + sh) lineh a b.

(* (1) ink inside the box: every pixel that differs between the buffers lies in the box *)
Definition box_law (W H wib : Z) (d0 d1 : list Z) (cx cy strw sh lineh : Z) : bool :=
  all_rect 0 0 (8 * wib) H (fun c r => Bool.eqb (px wib d1 c r) (px wib d0 c r) || in_box cx cy strw sh lineh c r).

(* (2) translation: rendering B (cursor moved by (dx,dy)) is rendering A shifted by (dx,dy) *)
Definition translation_law (W H wib : Z) (dA dB : list Z) (dx dy : Z) : bool :=
  all_rect (- Z.abs dx) (- Z.abs dy) (W + 2 * Z.abs dx) (H + 2 * Z.abs dy)
    (fun c r => Bool.eqb (pxv W H wib dB (c + dx) (r + dy)) (pxv W H wib dA c r)).

(* (3) whole-string scaling about the cursor: pixel (c,r) of the size-(h,v) rendering A is
   pixel (cx + (c-cx)/h, cy + (r-cy)/v) of the size-1 rendering C; nothing left of / above the cursor *)
Definition scale_src (cx cy h v c r : Z) : Z * Z := (cx + (c - cx) / h, cy + (r - cy) / v).
Definition scale_law (W H wib : Z) (dA dC : list Z) (cx cy h v : Z) : bool :=
  all_rect 0 0 W H (fun c r =>
    Bool.eqb (pxv W H wib dA c r)
             ((cx <=? c) && (cy <=? r) && let '(c1, r1) := scale_src cx cy h v c r in pxv W H wib dC c1 r1)).

(* (4) glyph-wise law, following the documented cursor rules (advance h*width + spacing per
   drawn character, byte 13 skipped, byte 10 = column 0 of the next text line): where pixel
   (a,b) of a rendering at size (h,v) from cursor (x,y) comes from in the rendering at size 1
   from cursor (x1,y1).  [ws] = the reported width of each character, [bbh] = size-1 line height. *)
Fixpoint src_pixel (cs ws : list Z) (s h v bbh : Z) (x y x1 y1 : Z) (a b : Z) : option (Z * Z) :=
  match cs, ws with
  | c :: cs', w :: ws' =>
    if c =? 10 then src_pixel cs' ws' s h v bbh 0 (y + v * bbh) 0 (y1 + bbh) a b
    else if c =? 13 then src_pixel cs' ws' s h v bbh x y x1 y1 a b
    else match src_pixel cs' ws' s h v bbh (x + h * w + s) y (x1 + w + s) y1 a b with
         | Some p => Some p
         | None => if in_rect x y (w * h) (bbh * v) a b then Some (x1 + (a - x) / h, y1 + (b - y) / v) else None
         end
  | _, _ => None
  end.

Definition glyph_law (W H wib : Z) (dA dC : list Z) (cs ws : list Z) (s h v bbh x y x1 y1 : Z) : bool :=
  all_rect 0 0 W H (fun a b =>
    Bool.eqb (pxv W H wib dA a b)
             (match src_pixel cs ws s h v bbh x y x1 y1 a b with
              | Some (a1, b1) => pxv W H wib dC a1 b1
              | None => false
              end)).

(* "canvas large enough not to clip" for a one-line box (default bounding box) *)
Definition box_fits (W H cx cy strw sh lineh : Z) : bool :=
  (0 <=? cx) && (0 <=? cy) && (cx + strw + sh <=? W) && (cy + lineh <=? H).

(* every glyph cell of the documented layout lies on the canvas *)
Fixpoint layout_fits (W H : Z) (cs ws : list Z) (s h lineh x y : Z) : bool :=
  match cs, ws with
  | c :: cs', w :: ws' =>
    if c =? 10 then layout_fits W H cs' ws' s h lineh 0 (y + lineh)
    else if c =? 13 then layout_fits W H cs' ws' s h lineh x y
    else (0 <=? x) && (0 <=? y) && (x + w * h <=? W) && (y + lineh <=? H)
         && layout_fits W H cs' ws' s h lineh (x + h * w + s) y
  | _, _ => true
  end.

Definition has_lf (cs : list Z) : bool := existsb (Z.eqb 10) cs.
(* characters that are drawn: everything except CR and LF *)
Definition drawn (cs : list Z) : list Z := filter (fun c => negb ((c =? 13) || (c =? 10))) cs.

(* hypothesis under which the whole-string scaling law is claimed by the design (F17) *)
Definition scale_string_scope (cs : list Z) (s : Z) : bool := (s =? 0) || (zlen (drawn cs) <=? 1).
