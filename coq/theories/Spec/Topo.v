(* What C13 means, written from the property text (not from the code's structure).
   Boolean where possible: the same definitions are the theorems' statements and the oracle
   that Run/C13.v evaluates on the IMPLEMENTATION's observed results.  No proofs. *)
From RP Require Import Lib.Base Lib.Sexp Lib.Strings Model.Topo.
From Coq Require Import String.
Local Open Scope string_scope.
Open Scope Z_scope.

(* ---- "supplies a non-empty value", per kind of attribute ---- *)
Definition ne_pos (z : Z) : bool := 0 <? z.                         (* sizes, handle index *)
Definition ne_str (s : list Z) : bool := negb (zlen s =? 0).        (* kinds, description, render hints *)
Definition ne_rot (bits : Z) : bool :=                              (* rotation <> 0 as float32: *)
  negb (bits =? 0) && negb (bits =? 2147483648).                    (*   +0 and -0 are zero, NaN is not *)
Definition ne_disp (d : option disp) : bool := match d with Some _ => true | None => false end.
Definition ne_sub (l : list subel) : bool := negb (zlen l =? 0).

(* the overlay rule for one attribute [a] *)
Definition overlay {A} (ne : A -> bool) (a : typedef -> A) (base ov : typedef) : A :=
  if ne (a ov) then a ov else a base.

(* ---- the indexed base type of a component: the index entry of its type, else all-zero ---- *)
Definition base_ok (t : topology) (h : hwc) (base : typedef) : Prop :=
  (forall d, In (hType h, d) (tpIndex t) -> base = d) /\
  (~ In (hType h) (keys (tpIndex t)) -> base = zero_td).

(* boolean reading used by the oracle (index keys are distinct in a Go map) *)
Definition base_of (t : topology) (h : hwc) : typedef :=
  match find (fun e => fst e =? hType h) (tpIndex t) with Some e => snd e | None => zero_td end.

(* ---- the resolved definition: all eleven attributes, each by the overlay rule ---- *)
Definition resolved_ok (base : typedef) (ov : option typedef) (r : typedef) : bool :=
  match ov with
  | None => typedef_eqb r base
  | Some o =>
    (tW r =? overlay ne_pos tW base o) &&
    (tH r =? overlay ne_pos tH base o) &&
    bytes_eqb (tOut r) (overlay ne_str tOut base o) &&
    bytes_eqb (tIn r) (overlay ne_str tIn base o) &&
    bytes_eqb (tDesc r) (overlay ne_str tDesc base o) &&
    bytes_eqb (tExt r) (overlay ne_str tExt base o) &&
    (tSubidx r =? overlay ne_pos tSubidx base o) &&
    (tRotate r =? overlay ne_rot tRotate base o) &&
    opt_eqb disp_eqb (tDisp r) (overlay ne_disp tDisp base o) &&
    list_eqb subel_eqb (tSub r) (overlay ne_sub tSub base o) &&
    bytes_eqb (tRender r) (overlay ne_str tRender base o)
  end.

(* the attributes both resolver entry points overlay *)
Definition shared9 (a b : typedef) : bool :=
  (tW a =? tW b) && (tH a =? tH b) && bytes_eqb (tOut a) (tOut b) && bytes_eqb (tIn a) (tIn b)
  && bytes_eqb (tExt a) (tExt b) && (tSubidx a =? tSubidx b) && opt_eqb disp_eqb (tDisp a) (tDisp b)
  && list_eqb subel_eqb (tSub a) (tSub b) && (tRotate a =? tRotate b).

(* ---- ids: a look-up by id answers for the FIRST component carrying the id ---- *)
Definition first_with_id (t : topology) (id : Z) : option hwc :=
  find (fun h => hId h =? id) (tpHWc t).
Definition id_present (t : topology) (id : Z) : bool := existsb (fun h => hId h =? id) (tpHWc t).
Definition indexed (t : topology) (ty : Z) : bool := existsb (fun e => fst e =? ty) (tpIndex t).

(* documented not-found results *)
Definition notfound_xy : Z * Z := (-1, -1).
Definition notfound_text : list Z := [].
Definition notfound_msg (id : Z) : list Z := (str "No HWC found for " ++ itoa id)%list.

(* ---- derived predicates: functions of the first comma-separated token of the input kind ---- *)
Definition first_token (s : list Z) : list Z := hd [] (split_on 44 s).
Definition token_in (s : list Z) (alts : list string) : bool := existsb (fun a => bytes_eqb s (str a)) alts.
Definition button_spec (d : typedef) : bool := token_in (first_token (tIn d)) ["b"; "b4"; "b2h"; "b2v"; "pb"].
Definition binary_spec (d : typedef) : bool := token_in (first_token (tIn d)) ["b"; "b4"; "b2h"; "b2v"; "pb"; "gpi"].
Definition pulsed_spec (d : typedef) : bool := token_in (first_token (tIn d)) ["pb"; "p"].
Definition absolute_spec (d : typedef) : bool := token_in (first_token (tIn d)) ["av"; "ah"; "ar"; "a"].
Definition intensity_spec (d : typedef) : bool := token_in (first_token (tIn d)) ["iv"; "ih"; "ir"; "i"].

(* the part of a definition the predicates may look at *)
Definition pred_view_eqb (a b : typedef) : bool :=
  bytes_eqb (tIn a) (tIn b) && bytes_eqb (tOut a) (tOut b) && bytes_eqb (tExt a) (tExt b)
  && opt_eqb disp_eqb (tDisp a) (tDisp b) && list_eqb subel_eqb (tSub a) (tSub b).

(* functional form of [resolved_ok]: the definition the property text describes *)
Definition resolve_spec (base : typedef) (ov : option typedef) : typedef :=
  match ov with
  | None => base
  | Some o =>
    TypeDef (overlay ne_pos tW base o) (overlay ne_pos tH base o) (overlay ne_str tOut base o)
            (overlay ne_str tIn base o) (overlay ne_str tDesc base o) (overlay ne_str tExt base o)
            (overlay ne_pos tSubidx base o) (overlay ne_rot tRotate base o) (overlay ne_disp tDisp base o)
            (overlay ne_sub tSub base o) (overlay ne_str tRender base o)
  end.
