(* What C14 says about CleanSections and RandomizeTypes, written from the property text.
   Boolean: the same predicates are the theorems' conclusions and the oracle evaluated on
   the IMPLEMENTATION's topology before/after the call.  No proofs. *)
From RP Require Import Lib.Base Lib.Sexp Lib.Strings Model.Topo Spec.Topo.
Open Scope Z_scope.

Definition index_eqb (a b : list (Z * typedef)) : bool := list_eqb entry_eqb a b.

(* "removing section markers deletes exactly the marker components (type 250) while keeping
   all others in order" - and touches nothing else *)
Definition is_marker (h : hwc) : bool := hType h =? 250.
Definition clean_ok (t t' : topology) : bool :=
  bytes_eqb (tpTitle t') (tpTitle t) &&
  index_eqb (tpIndex t') (tpIndex t) &&
  list_eqb hwc_eqb (tpHWc t') (filter (fun h => negb (is_marker h)) (tpHWc t)).

(* the quantifier of C14: every component's type is 0 (disabled) or indexed; 0 is not a type *)
Definition types_closed (t : topology) : bool :=
  negb (indexed t 0) && forallb (fun h => (hType h =? 0) || indexed t (hType h)) (tpHWc t).

(* a component with its type number blanked: "the component list" apart from the renumbering *)
Definition strip (h : hwc) : hwc := set_type h 0.

Fixpoint forallb2 {A B} (f : A -> B -> bool) (a : list A) (b : list B) : bool :=
  match a, b with
  | [], [] => true
  | x :: a', y :: b' => f x y && forallb2 f a' b'
  | _, _ => false
  end.

Fixpoint nodup_z (l : list Z) : bool :=
  match l with [] => true | x :: r => negb (existsb (Z.eqb x) r) && nodup_z r end.

(* ids 1..n, each exactly once (in any order) *)
Definition is_1_to_n (ks : list Z) : bool :=
  nodup_z ks && forallb (fun k => (1 <=? k) && (k <=? zlen ks)) ks.

(* "renumbering leaves every component's resolved definition, the component list and the
   number of types unchanged (sequential mode produces exactly the ids 1..n)" *)
Definition renumber_ok (seqm : bool) (t t' : topology) : bool :=
  bytes_eqb (tpTitle t') (tpTitle t) &&
  (zlen (tpIndex t') =? zlen (tpIndex t)) &&
  nodup_z (keys (tpIndex t')) &&
  list_eqb hwc_eqb (map strip (tpHWc t')) (map strip (tpHWc t)) &&
  forallb2 (fun h h' => typedef_eqb (resolve_spec (base_of t' h') (hOv h')) (resolve_spec (base_of t h) (hOv h)))
           (tpHWc t) (tpHWc t') &&
  (if seqm then is_1_to_n (keys (tpIndex t')) else true).
