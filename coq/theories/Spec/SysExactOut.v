(* Finer reading of the three float fields of a SysStat line (search oracle of C04 only):
   a plain decimal numeral of ANY length denotes the float32 nearest to it (ties to even) -
   the value a correct strconv.ParseFloat(s, 32) stores.  The oracle compares these bit
   patterns with the decoded SystemStat, so a decoder that is one ulp off on long numerals
   (e.g. by rounding twice, through float64) is flagged on a concrete line, although such
   numerals are outside the domain of the theorems of Props/C04.v (which speak about the
   printed precision of canonical numerals).  No proofs. *)
From RP Require Import Lib.Base Lib.Sexp Lib.Strings Lib.FloatFmt Model.MsgOut Spec.DenoteOut Spec.GrammarOut.
From Coq Require Import String.
Open Scope Z_scope.

(* -?D+(.D+)?  ->  (negative, all digits as an integer, number of fraction digits) *)
Definition read_decimal (s : bytes) : option (bool * Z * Z) :=
  let neg := match s with 45 :: _ => true | _ => false end in
  let s := if neg then tl s else s in
  match cut_on 46 s with
  | (ip, fp, true) =>
    if digits_nonempty ip && digits_nonempty fp then Some (neg, dec_val (ip ++ fp) 0, zlen fp) else None
  | (ip, _, false) => if digits_nonempty ip then Some (neg, dec_val ip 0, 0) else None
  end.

(* nearest-even float32 bit pattern of the numeral *)
Definition decimal_f32 (s : bytes) : option Z :=
  match read_decimal s with
  | Some (neg, n, f) => let a := scaled_to_f32_abs n (- f) 0 in Some (if neg then a + sign_bit else a)
  | None => None
  end.

Definition numeric_start (v : bytes) : bool :=
  match v with c :: _ => (c =? 45) || is_digit c | [] => false end.

(* (CPUTemp, ExtTemp, CPUVoltage) bit patterns after reading Field:value pairs left to right *)
Fixpoint exact_pairs (parts : list bytes) (a : Z * Z * Z) : option (Z * Z * Z) :=
  match parts with
  | [] => Some a
  | name :: v :: rest =>
    match index_in name ss_names 0 with
    | None => None
    | Some i =>
      if negb (numeric_start v) then None
      else if (i =? 1)%nat || (i =? 2)%nat || (i =? 3)%nat then
        match decimal_f32 v with
        | None => None
        | Some b =>
          match a with
          | (t, e, vo) => exact_pairs rest (if (i =? 1)%nat then (b, e, vo) else if (i =? 2)%nat then (t, b, vo) else (t, e, b))
          end
        end
      else exact_pairs rest a
    end
  | [_] => None
  end.

Definition sys_exact_floats (v : bytes) : option (Z * Z * Z) :=
  match v with
  | [] => None
  | _ => exact_pairs (drop_last_empty (split_on 58 v)) (0, 0, 0)
  end.

(* per input line: None = not a SysStat line (contributes no SystemStat message);
   Some None = a SysStat line the finer reader does not judge; Some (Some bits) = expected bits *)
Definition line_exact_floats (l : bytes) : option (option (Z * Z * Z)) :=
  match cut_on 61 l with
  | (key, v, true) =>
    if bytes_eqb key (str "SysStat") && negb (has_lf v) && match v with [] => false | _ => true end
    then Some (sys_exact_floats v) else None
  | _ => None
  end.

Fixpoint somes_of {A} (l : list (option A)) : list A :=
  match l with [] => [] | Some a :: r => a :: somes_of r | None :: r => somes_of r end.

(* expected vs observed float bit patterns, aligned SysStat line by SysStat message *)
Fixpoint floats_agree (want : list (option (Z * Z * Z))) (got : list (Z * Z * Z)) : bool :=
  match want, got with
  | [], [] => true
  | None :: w, _ :: g => floats_agree w g
  | Some (a, b, c) :: w, (a', b', c') :: g => (a =? a') && (b =? b') && (c =? c') && floats_agree w g
  | _, _ => true   (* different counts: alignment unknown, no judgement here *)
  end.

Definition exact_floats_ok (ls : list bytes) (ms : list out_msg) : bool :=
  let want := somes_of (map line_exact_floats ls) in
  let got := somes_of (map (fun m => match om_sys m with Some s => Some (ss_temp s, ss_ext s, ss_volt s) | None => None end) ms) in
  if (List.length want =? List.length got)%nat then floats_agree want got else true.
