(* C17 specification: what the documented pixel formats mean, written with plain integer
   arithmetic (/, mod, tables), independently of the bit operations and loops of the code.
   Executable: the same predicates are theorem statements (Props/C17.v) and the oracle
   that judges the implementation's byte slices and images (Run/C17.v).
   Images are seen through accessors (x, y -> colour) so that the predicates apply both to
   the model's abstract rasters and to the pixel lists observed on the implementation. *)
From RP Require Import Lib.Base Model.Mono Model.MonoConv Spec.Clip Spec.TextBox.

Definition rgba_eqb (a b : rgba) : bool :=
  let '(r1, g1, b1, a1) := a in let '(r2, g2, b2, a2) := b in
  (r1 =? r2) && (g1 =? g2) && (b1 =? b2) && (a1 =? a2).

(* ---------- 6-bit rrggbb -> RGB565 (bbbbbggg gggrrrrr), full-scale two-bit maps ---------- *)
Definition scale2_5 (v : Z) : Z := nth (Z.to_nat v) [0; 10; 20; 31] 0.
Definition scale2_6 (v : Z) : Z := nth (Z.to_nat v) [0; 21; 42; 63] 0.
Definition rgb565_of_6bit (c : Z) : Z :=
  scale2_5 (c mod 4) * 2048 + scale2_6 ((c / 4) mod 4) * 32 + scale2_5 ((c / 16) mod 4).

(* ---------- luma of an RGB565 colour (ITU-R 601 weights, channels scaled to 16 bit) ---------- *)
Definition luma16 (c : Z) : Z :=
  let r := (c mod 32) * 2114 in let g := ((c / 32) mod 64) * 1040 in let b := ((c / 2048) mod 32) * 2114 in
  (19595 * r + 38470 * g + 7471 * b + 32768) / 65536.
Definition luma_nibble (c : Z) : Z := luma16 c / 4096.

(* ---------- exports of a mono image ----------
   Byte lists are seen through (length, index -> byte) so that the theorems can use the list
   view [znth 0 l] and the oracle an indexed view of the same list (Run/C17.v). *)
Definition pixel_colour (wib : Z) (d : list Z) (pixc bgc : Z) (x y : Z) : Z := if px wib d x y then pixc else bgc.

(* RGB565 export: exactly 2*W*H bytes, pixel k = y*W+x in bytes 2k (high) and 2k+1 (low) *)
Definition rgb_export_ok_p (W H : Z) (p : pix) (pixc bgc : Z) (len : Z) (get : Z -> Z) : bool :=
  (len =? 2 * W * H) &&
  all_rect 0 0 W H (fun x y =>
    let c := if p x y then pixc else bgc in
    let k := y * W + x in
    (get (2 * k) =? c / 256) && (get (2 * k + 1) =? c mod 256)).
Definition rgb_export_ok (W H wib : Z) (d : list Z) (pixc bgc : Z) (out : list Z) : bool :=
  rgb_export_ok_p W H (px wib d) pixc bgc (zlen out) (znth 0 out).

(* 4-bit grey export (even W): exactly W*H/2 bytes, pixel k in byte k/2, high nibble first *)
Definition nibble_get (get : Z -> Z) (k : Z) : Z :=
  let b := get (k / 2) in if k mod 2 =? 0 then b / 16 else b mod 16.
Definition nibble_at (out : list Z) (k : Z) : Z := nibble_get (znth 0 out) k.
Definition gray_export_ok_p (W H : Z) (p : pix) (pixc bgc : Z) (len : Z) (get : Z -> Z) : bool :=
  (len =? W * H / 2) &&
  all_rect 0 0 W H (fun x y => nibble_get get (y * W + x) =? luma_nibble (if p x y then pixc else bgc)).
Definition gray_export_ok (W H wib : Z) (d : list Z) (pixc bgc : Z) (out : list Z) : bool :=
  gray_export_ok_p W H (px wib d) pixc bgc (zlen out) (znth 0 out).

(* image object round trip: every visible pixel reproduced / complemented *)
Definition visible_equal_p (W H : Z) (p p' : pix) (compl : bool) : bool :=
  all_rect 0 0 W H (fun x y => Bool.eqb (p' x y) (xorb compl (p x y))).
Definition visible_equal (W H wib : Z) (d d' : list Z) (compl : bool) : bool :=
  visible_equal_p W H (px wib d) (px wib d') compl.

(* ---------- graphics states ---------- *)
Definition exp_scale (v vmax : Z) : Z := v * 255 / vmax.

(* does the data reach pixel (x,y) of a declared W-wide image? *)
Definition covered (ty W : Z) (len : Z) (x y : Z) : bool :=
  if ty =? 1 then 2 * (y * W + x) + 1 <? len
  else if ty =? 2 then (y * W + x) / 2 <? len
  else if ty =? 0 then y * ((W + 7) / 8) + x / 8 <? len
  else false.

(* the documented expansion of the stored value at a covered pixel *)
Definition expansion_p (ty W : Z) (get : Z -> Z) (x y : Z) : rgba :=
  let k := y * W + x in
  if ty =? 1 then
    let v := get (2 * k) * 256 + get (2 * k + 1) in
    (exp_scale (v mod 32) 31, exp_scale ((v / 32) mod 64) 63, exp_scale ((v / 2048) mod 32) 31, 255)
  else if ty =? 2 then
    let n := nibble_get get k in (exp_scale n 15, exp_scale n 15, exp_scale n 15, 255)
  else if Z.testbit (get (y * ((W + 7) / 8) + x / 8)) (7 - x mod 8) then c_white else c_black.
Definition expansion (ty W : Z) (data : list Z) (x y : Z) : rgba := expansion_p ty W (znth 0 data) x y.

Definition accessor := Z -> Z -> rgba.

(* an image of the declared size whose covered pixels are the documented expansion *)
Definition expansion_ok_p (ty W H : Z) (len : Z) (get : Z -> Z) (at_ : accessor) : bool :=
  all_rect 0 0 W H (fun x y => negb (covered ty W len x y) || rgba_eqb (at_ x y) (expansion_p ty W get x y)).
Definition expansion_ok (ty W H : Z) (data : list Z) (at_ : accessor) : bool :=
  expansion_ok_p ty W H (zlen data) (znth 0 data) at_.

(* two renderings agree wherever the data covers the image: [a1] shows image pixel (x,y) at
   (x+ox, y+oy) on a width x height canvas (pixels falling off the canvas are not compared),
   [a2] shows it at (x,y) *)
Definition agree_ok (ty W H : Z) (len : Z) (width height ox oy : Z) (a1 a2 : accessor) : bool :=
  all_rect 0 0 W H (fun x y =>
    negb (covered ty W len x y && r_in width height (x + ox) (y + oy)) || rgba_eqb (a1 (x + ox) (y + oy)) (a2 x y)).

(* centring offsets of a W x H image on a width x height canvas *)
Definition centre_offset (canvas img : Z) : Z := Z.quot (canvas - img) 2.
