(* Independent reference reader of the Raw Panel ASCII grammar, panel -> system direction.
   Written from the protocol description as a recursive-descent reader over bytes; it does
   NOT follow the library's regular expressions.  No proofs.

   read_out_line l =
     WF strict rs : l is a line of the grammar and reports rs.  [strict] = false marks lines
                    the reader accepts leniently but which are outside the domain of the
                    decoding property C04: an empty value after `key=`, a temperature with
                    more than 3 or a voltage with more than 2 integer digits.
     Malformed    : the keyword / key name is part of the grammar but the rest is not
                    well-formed (no claim is made about such lines);
     NonGrammar   : the keyword or key name is not part of the grammar.

   Grammar (numbers are decimal digit strings; u32 = value < 2^32; i32 = optional '-', value in
   [-2^31, 2^31); bool = a number equal to 0 or 1):
     ping ack nack BSY RDY list                        flow words;  the empty line reports nothing
     HWC#<u32>[.<edge u31>]=Down|Up|Press              binary event (Press = Down then Up)
     HWC#<u32>=Enc:<i32> | Speed:<i32> | Abs:<u32> | Raw:<u32>
     map=<u32>:<u32>
     <key>=<value>   for the 29 key names below; value: text (no LF) | u32 | bool | name | list
     _support=<name>,<name>,...                        unknown names are ignored
     _serverModeLockToIP= / _connections= <elem>;<elem>;...   elements non-empty, no surrounding space
     SysStat=<Field>:<value>:...                       any subset and order of the 20 fields,
                                                       a later occurrence overrides; optional final ':'
     Mem<ID>=<u32> Shift<ID>=<u32> State<ID>=<u32>     ID in [A-Z0-9]*
     Flag#<n u32>=<u32>                                flag number n, value > 0 means set
   Items whose value is the proto3 default inside PanelInfo / PanelTopology / RunTimeStats
   (empty text, 0) report nothing (see DenoteOut.v). *)
From RP Require Import Lib.Base Lib.Sexp Lib.Strings Lib.TrimSpace Model.MsgOut Spec.DenoteOut.
From Coq Require Import String Permutation.
Open Scope Z_scope.

Inductive line_class :=
| WF (strict : bool) (rs : list report)
| Malformed
| NonGrammar.

(* ---------------------------------------------------------------- numbers *)
Fixpoint dec_val (s : bytes) (acc : Z) : Z :=
  match s with [] => acc | c :: r => dec_val r (acc * 10 + (c - 48)) end.

Definition digits_nonempty (s : bytes) : bool :=
  match s with [] => false | _ => forallb is_digit s end.

Definition read_nat (s : bytes) : option Z := if digits_nonempty s then Some (dec_val s 0) else None.

Definition read_u32 (s : bytes) : option Z :=
  match read_nat s with Some v => if v <? 4294967296 then Some v else None | None => None end.
Definition read_u31 (s : bytes) : option Z :=
  match read_nat s with Some v => if v <? 2147483648 then Some v else None | None => None end.
Definition read_i32 (s : bytes) : option Z :=
  match s with
  | 45 :: r => match read_nat r with Some v => if v <=? 2147483648 then Some (- v) else None | None => None end
  | _ => read_u31 s
  end.
Definition read_bool (s : bytes) : option bool :=
  match read_nat s with Some v => if v =? 0 then Some false else if v =? 1 then Some true else None | None => None end.

(* fixed-point decimal with exactly k fraction digits: (strict, value * 10^k);
   strict = at most 3 integer digits for tenths (|x| < 1000.0), 2 for hundredths (|x| < 100.00) *)
Definition read_dec (k : nat) (s : bytes) : option (bool * Z) :=
  let neg := match s with 45 :: _ => true | _ => false end in
  let s := if neg then tl s else s in
  match cut_on 46 s with
  | (ip, fp, true) =>
    if digits_nonempty ip && digits_nonempty fp && (List.length fp =? k)%nat then
      let v := dec_val ip 0 * 10 ^ Z.of_nat k + dec_val fp 0 in
      Some ((List.length ip <=? (if (k =? 1)%nat then 3 else 2))%nat, if neg then - v else v)
    else None
  | _ => None
  end.

(* ---------------------------------------------------------------- tables *)
Fixpoint lookup {A} (k : bytes) (t : list (bytes * A)) : option A :=
  match t with
  | [] => None
  | (n, a) :: r => if bytes_eqb k n then Some a else lookup k r
  end.

Definition tbl {A} (l : list (string * A)) : list (bytes * A) := map (fun p => (str (fst p), snd p)) l.

Definition flow_words : list (bytes * Z) :=
  tbl [("ping", 1); ("ack", 2); ("nack", 3); ("BSY", 4); ("RDY", 5); ("list", 100)]%string.

Inductive evword := WDown | WUp | WPress | WEnc | WAbs | WSpeed | WRaw.
Definition event_words : list (bytes * evword) :=
  tbl [("Down", WDown); ("Up", WUp); ("Press", WPress); ("Enc", WEnc); ("Abs", WAbs); ("Speed", WSpeed); ("Raw", WRaw)]%string.

Inductive vkind :=
| VText (k : okey) (default_absent : bool)   (* free text *)
| VU32 (k : okey) (default_absent : bool)
| VBool (k : okey) (default_absent : bool)
| VName (k : okey) (names : list (bytes * Z))
| VElems (k : okey) (default_absent : bool)
| VJson (k : okey)                            (* _networkConfig: JSON, read by the JSON library (oracle) *)
| VCaps
| VSys.

Definition panel_types : list (bytes * Z) :=
  tbl [("BPI", 1); ("Physical", 2); ("Emulation", 3); ("Touch", 4); ("Composite", 5)]%string.
Definition health_modes : list (bytes * Z) := tbl [("Normal", 0); ("Safemode", 1); ("Blocked", 2)]%string.

Definition key_table : list (bytes * vkind) :=
  tbl [("_model", VText KModel true); ("_serial", VText KSerial true); ("_version", VText KVersion true);
       ("_platform", VText KPlatform true); ("_name", VText KName true);
       ("_bluePillReady", VBool KBluePill true);
       ("_panelType", VName KPanelType panel_types);
       ("_support", VCaps);
       ("_isSleeping", VBool KSleeping false);
       ("_sleepTimer", VU32 KSleepTimer false);
       ("_panelTopology_svgbase", VText KTopoSvg true); ("_panelTopology_HWC", VText KTopoJson true);
       ("_burninProfile", VText KBurnin false);
       ("_networkConfig", VJson KNetCfg);
       ("_calibrationProfile", VText KCalib false); ("_defaultCalibrationProfile", VText KDefCalib false);
       ("_serverModeLockToIP", VElems KLockIP true);
       ("_serverModeMaxClients", VU32 KMaxClients true);
       ("_heartBeatTimer", VU32 KHeartBeat false);
       ("DimmedGain", VU32 KDimmed false);
       ("_connections", VElems KConnections false);
       ("_bootsCount", VU32 KBoots true); ("_totalUptimeMin", VU32 KTotalUp true);
       ("_sessionUptimeMin", VU32 KSessionUp true); ("_screenSaverOnMin", VU32 KScreenSaver true);
       ("ErrorMsg", VText KErrorMsg false); ("Msg", VText KMsg false);
       ("EnvironmentalHealth", VName KHealth health_modes);
       ("SysStat", VSys)]%string.

Fixpoint index_in (x : bytes) (l : list bytes) (i : nat) : option nat :=
  match l with
  | [] => None
  | y :: r => if bytes_eqb x y then Some i else index_in x r (Datatypes.S i)
  end.

(* ---------------------------------------------------------------- events *)
Definition has_lf (s : bytes) : bool := contains_byte 10 s.

(* after "HWC#" *)
Definition read_event (r : bytes) : line_class :=
  match span is_digit r with
  | (ids, r1) =>
    match read_u32 ids with
    | None => Malformed
    | Some id =>
      (* optional .edge *)
      let after_edge (edge : option Z) (r2 : bytes) : line_class :=
        match r2 with
        | 61 :: r3 =>
          match span is_alpha r3 with
          | (w, r4) =>
            match lookup w event_words with
            | None =>
              (* HWC#id[.edge]=Word[:...] with an unknown event word: not part of the grammar;
                 anything else after the '=' is just malformed *)
              match w, r4 with
              | _ :: _, [] => NonGrammar
              | _ :: _, 58 :: _ => NonGrammar
              | _, _ => Malformed
              end
            | Some word =>
              let binary (rs : list report) :=
                match r4 with [] => WF true rs | _ => Malformed end in
              let e := match edge with Some x => x | None => 0 end in
              let analog (k : evkind) (rd : bytes -> option Z) :=
                match edge, r4 with
                | None, 58 :: v => match rd v with Some x => WF true [REvent id k x] | None => Malformed end
                | _, _ => Malformed
                end in
              match word with
              | WDown => binary [REvent id EDown e]
              | WUp => binary [REvent id EUp e]
              | WPress => binary [REvent id EDown e; REvent id EUp e]
              | WEnc => analog EEnc read_i32
              | WSpeed => analog ESpeed read_i32
              | WAbs => analog EAbs read_u32
              | WRaw => analog ERaw read_u32
              end
            end
          end
        | _ => Malformed
        end in
      match r1 with
      | 46 :: r2 =>
        match span is_digit r2 with
        | (es, r3) => match read_u31 es with Some e => after_edge (Some e) r3 | None => Malformed end
        end
      | _ => after_edge None r1
      end
    end
  end.

(* ---------------------------------------------------------------- SysStat *)
Definition set_nth {A} (l : list A) (i : nat) (v : A) : list A := firstn i l ++ v :: skipn (Datatypes.S i) l.

(* (strict, cpu, t10, e10, v100, ints, flags) *)
Definition sys_acc := (bool * Z * Z * Z * Z * list Z * list bool)%type.
Definition sys_zero : sys_acc := (true, 0, 0, 0, 0, repeat 0 8, repeat false 8).

Definition sys_field (name v : bytes) (a : sys_acc) : option sys_acc :=
  match a with
  | (st, cpu, t, e, vo, ints, fl) =>
    match index_in name ss_names 0 with
    | None => None
    | Some i =>
      if (i =? 0)%nat then match read_u32 v with Some x => Some (st, x, t, e, vo, ints, fl) | None => None end
      else if (i =? 1)%nat then match read_dec 1 v with Some (s, x) => Some (st && s, cpu, x, e, vo, ints, fl) | None => None end
      else if (i =? 2)%nat then match read_dec 1 v with Some (s, x) => Some (st && s, cpu, t, x, vo, ints, fl) | None => None end
      else if (i =? 3)%nat then match read_dec 2 v with Some (s, x) => Some (st && s, cpu, t, e, x, ints, fl) | None => None end
      else if (i <? 12)%nat then
        match read_i32 v with Some x => Some (st, cpu, t, e, vo, set_nth ints (i - 4) x, fl) | None => None end
      else
        match read_bool v with Some x => Some (st, cpu, t, e, vo, ints, set_nth fl (i - 12) x) | None => None end
    end
  end.

Fixpoint sys_pairs (parts : list bytes) (a : sys_acc) : option sys_acc :=
  match parts with
  | [] => Some a
  | name :: v :: rest => match sys_field name v a with Some a' => sys_pairs rest a' | None => None end
  | [_] => None
  end.

Definition drop_last_empty (l : list bytes) : list bytes :=
  match rev l with [] :: r => rev r | _ => l end.

Definition read_sys (v : bytes) : line_class :=
  match v with
  | [] => WF false [RSys 0 0 0 0 (repeat 0 8) (repeat false 8)]
  | _ =>
    match sys_pairs (drop_last_empty (split_on 58 v)) sys_zero with
    | Some (st, cpu, t, e, vo, ints, fl) => WF st [RSys cpu t e vo ints fl]
    | None => Malformed
    end
  end.

(* ---------------------------------------------------------------- key=value *)
Definition read_caps (v : bytes) : list bool :=
  fold_left (fun acc name => match index_in name cap_names 0 with Some i => set_nth acc i true | None => acc end)
            (split_on 44 v) (repeat false 13).

Definition canonical_elem (e : bytes) : bool :=
  match e with [] => false | _ => bytes_eqb (trim_space e) e end.

Definition read_value (vk : vkind) (v : bytes) : line_class :=
  let strict := match v with [] => false | _ => true end in
  if has_lf v then Malformed
  else
    match vk with
    | VText k dflt =>
      match v with [] => WF false (if dflt then [] else [RStr k []]) | _ => WF true [RStr k v] end
    | VU32 k dflt =>
      match read_u32 v with
      | Some x => WF true (if dflt && (x =? 0) then [] else [RNum k x])
      | None => Malformed
      end
    | VBool k dflt =>
      match read_bool v with
      | Some x => WF true (if dflt && negb x then [] else [RNum k (if x then 1 else 0)])
      | None => Malformed
      end
    | VName k names =>
      match lookup v names with
      | Some x => WF true [RNum k x]
      | None => Malformed
      end
    | VElems k dflt =>
      match v with
      | [] => WF false (if dflt then [] else [RList k []])
      | _ =>
        let es := split_on 59 v in
        if forallb canonical_elem es then WF true [RList k es]
        else
          (* alternative spelling: blanks around an item and empty items (a doubled or trailing ';') are
             not part of the list - "a; b;;" lists a and b; a list that names nothing is no list *)
          let es' := filter (fun e => match e with [] => false | _ => true end) (map trim_space es) in
          WF true (match es' with [] => if dflt then [] else [RList k []] | _ => [RList k es'] end)
      end
    | VJson k => match v with [] => Malformed | _ => WF false [RStr k v] end
    | VCaps => WF strict [RCaps (read_caps v)]
    | VSys => read_sys v
    end.

(* ---------------------------------------------------------------- registers *)
Definition is_regid_ch (c : Z) : bool := is_upper c || is_digit c.

(* one register keyword: None = this keyword does not head the line *)
Definition try_register (l : bytes) (kw : string) (k : Z) : option line_class :=
  match drop_prefix (str kw) l with
  | None => None
  | Some r =>
    match cut_on 61 r with
    | (id, v, true) =>
      if forallb is_regid_ch id then
        Some (match read_u32 v with
              | None => Malformed
              | Some x =>
                if k =? 1 then
                  match read_u32 id with
                  | Some n => WF true [RReg 1 (itoa n) (if x >? 0 then 1 else 0)]
                  | None => Malformed
                  end
                else WF true [RReg k id x]
              end)
      else None
    | _ => None
    end
  end.

Definition read_register (l : bytes) : line_class :=
  match try_register l "Flag#" 1 with
  | Some c => c
  | None =>
    match try_register l "Mem" 0 with
    | Some c => c
    | None =>
      match try_register l "Shift" 2 with
      | Some c => c
      | None => match try_register l "State" 3 with Some c => c | None => NonGrammar end
      end
    end
  end.

(* ---------------------------------------------------------------- the reader *)
Definition read_out_line (l : bytes) : line_class :=
  match l with
  | [] => WF true []
  | _ =>
    match lookup l flow_words with
    | Some w => WF true [RFlow w]
    | None =>
      match drop_prefix (str "HWC#") l with
      | Some r => if has_lf l then Malformed else read_event r
      | None =>
        match drop_prefix (str "map=") l with
        | Some r =>
          match cut_on 58 r with
          | (a, b, true) =>
            match read_u32 a, read_u32 b with
            | Some k, Some v => WF true [RMap k v]
            | _, _ => Malformed
            end
          | _ => Malformed
          end
        | None =>
          match cut_on 61 l with
          | (key, v, true) =>
            match lookup key key_table with
            | Some vk => read_value vk v
            | None => read_register l
            end
          | _ => NonGrammar
          end
        end
      end
    end
  end.

Definition sem_out_line (l : bytes) : list report :=
  match read_out_line l with WF _ rs => rs | _ => [] end.

(* domain of the decoding property: every line is either strictly well-formed or not part of
   the grammar at all *)
Definition line_judgeable (l : bytes) : bool :=
  match read_out_line l with WF st _ => st | Malformed => false | NonGrammar => true end.

(* ---------------------------------------------------------------- the ASCII-representable domain (C03)
   [flat], [flat_svg] = the library's payload flattening (C07): a payload is representable
   when flattening leaves it unchanged (already one trimmed line). *)
Definition u32b (v : Z) : bool := (0 <=? v) && (v <? 4294967296).
Definition i32b (v : Z) : bool := (-2147483648 <=? v) && (v <? 2147483648).
Definition u31b (v : Z) : bool := (0 <=? v) && (v <? 2147483648).

Definition text_ok (s : bytes) : bool := negb (has_lf s).
Definition elem_ok (e : bytes) : bool := canonical_elem e && negb (contains_byte 59 e) && negb (has_lf e).

Fixpoint keys_distinct (l : list (Z * Z)) : bool :=
  match l with
  | [] => true
  | (k, _) :: r => negb (existsb (fun kv => fst kv =? k) r) && keys_distinct r
  end.

Definition canonical_nat (s : bytes) : bool :=
  match read_u32 s with Some n => bytes_eqb (itoa n) s | None => false end.

Section Representable.
Variables flat flat_svg : bytes -> bytes.

Definition payload_ok (s : bytes) : bool := bytes_eqb (flat s) s && text_ok s.

Definition rep_pinfo (p : panel_info) : bool :=
  pinfo_shape_ok p &&
  text_ok (pi_model p) && text_ok (pi_serial p) && text_ok (pi_name p) && text_ok (pi_version p) && text_ok (pi_platform p) &&
  u32b (pi_maxclients p) && forallb elem_ok (pi_locked p) && (0 <=? pi_type p) && (pi_type p <=? 5).

Definition rep_sys (s : sys_stat) : bool :=
  sys_shape_ok s && u32b (ss_cpu s) &&
  u32b (ss_temp s) && u32b (ss_ext s) && u32b (ss_volt s) &&
  FloatFmt.f32_finite (ss_temp s) && FloatFmt.f32_finite (ss_ext s) && FloatFmt.f32_finite (ss_volt s) &&
  forallb i32b (ss_ints s).

Definition rep_event (e : option hwc_event) : bool :=
  match e with
  | None => false
  | Some e =>
    u32b (ev_id e) &&
    match ev_bin e with Some b => u31b (be_edge b) | None => true end &&
    match ev_pulsed e with Some v => i32b v | None => true end &&
    match ev_abs e with Some (v, _) => u32b v | None => true end &&
    match ev_speed e with Some (v, _) => i32b v | None => true end &&
    match ev_raw e with Some v => u32b v | None => true end
  end.

Definition rep_reg (r : option register) : bool :=
  match r with
  | None => false
  | Some r =>
    (0 <=? rg_kind r) && (rg_kind r <=? 3) && forallb is_regid_ch (rg_id r) && u32b (rg_val r) &&
    (if rg_kind r =? 1 then canonical_nat (rg_id r) && (rg_val r <=? 1) else true)
  end.

Definition opt_ok {A} (o : option A) (f : A -> bool) : bool := match o with Some a => f a | None => true end.

Definition representable_outb (m : out_msg) : bool :=
  ((om_flow m =? 0) || (om_flow m =? 1) || (om_flow m =? 2) || (om_flow m =? 3) || (om_flow m =? 4) ||
   (om_flow m =? 5) || (om_flow m =? 100)) &&
  forallb (fun kv => u32b (fst kv) && u32b (snd kv)) (om_map m) && keys_distinct (om_map m) &&
  opt_ok (om_pinfo m) rep_pinfo &&
  opt_ok (om_topo m) (fun t => bytes_eqb (flat_svg (fst t)) (fst t) && text_ok (fst t) && payload_ok (snd t)) &&
  opt_ok (om_burnin m) payload_ok &&
  opt_ok (om_netcfg m) (fun j => text_ok j && match j with [] => false | _ => true end) &&
  opt_ok (om_calib m) payload_ok && opt_ok (om_defcalib m) payload_ok &&
  opt_ok (om_sleept m) u32b && opt_ok (om_hb m) u32b && opt_ok (om_dim m) u32b &&
  opt_ok (om_conn m) (forallb elem_ok) &&
  opt_ok (om_rts m) (fun r => match r with (a, b, c, d) => u32b a && u32b b && u32b c && u32b d end) &&
  opt_ok (om_err m) payload_ok && opt_ok (om_msg m) payload_ok &&
  opt_ok (om_health m) (fun r => (0 <=? r) && (r <=? 2)) &&
  opt_ok (om_sys m) rep_sys &&
  forallb rep_event (om_events m) && forallb rep_reg (om_regs m).
End Representable.

(* ---------------------------------------------------------------- vocabulary of the C03 / C04 statements *)
(* a line of the grammar (strictly or leniently read) *)
Definition wf_line (l : bytes) : Prop := exists st rs, read_out_line l = WF st rs.

(* a message list without nil pointers *)
Fixpoint all_some_msgs (ms : list (option out_msg)) : option (list out_msg) :=
  match ms with
  | [] => Some []
  | Some m :: r => match all_some_msgs r with Some l => Some (m :: l) | None => None end
  | None :: _ => None
  end.

(* the map iteration orders handed to the encoder model: one per message, each a permutation
   of that message's availability map (Go leaves the order of `range` over a map unspecified) *)
Inductive orders_ok : list (list (Z * Z)) -> list out_msg -> Prop :=
| oo_nil : orders_ok [] []
| oo_cons o os m ms : Permutation o (om_map m) -> orders_ok os ms -> orders_ok (o :: os) (m :: ms).
