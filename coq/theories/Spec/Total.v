(* C06 specification: what "total and re-entrant" means of ONE observed call.
   An observation is (status, number of results, number of nil results, concurrent-agrees). *)
From RP Require Import Lib.Base.

Inductive call_status := StOk | StPanic | StHang | StCrash.
(* StCrash: the call killed its process with an unrecoverable runtime error (out of memory on an
   input-chosen allocation size, stack exhaustion, concurrent map access) *)

Record call_obs := mkObs { o_status : call_status; o_n : Z; o_nils : Z; o_conc : bool }.

Inductive total_verdict := TotOk | TotPanic | TotHang | TotNil | TotConc | TotCrash.

(* returned, without panicking or hanging, no nil message among the results, and the
   16 concurrent calls each gave the sequential result *)
Definition judge_call (o : call_obs) : total_verdict :=
  match o_status o with
  | StPanic => TotPanic
  | StHang => TotHang
  | StCrash => TotCrash
  | StOk => if negb (o_nils o =? 0) then TotNil else if negb (o_conc o) then TotConc else TotOk
  end.
