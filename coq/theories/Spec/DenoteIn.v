(* What an inbound message MEANS for a panel, written from the protocol description and
   independently of the converters' structure (DESIGN section 5, "Common vocabulary").

   The abstract panel remembers, per component id, the last mode / colour / extended value /
   text / image / raw-ADC setting written, plus the ordered log of flow words and commands
   received and the ordered list of register writes.  An [effect] is one primitive change;
   [den_in m] is the list of effects message [m] describes, [apply_effs] runs them.
   The reference reader of the ASCII grammar (Spec/GrammarIn.v) produces effects of the same
   vocabulary from LINES; C01 / C02 state that both roads lead to the same panel.

   Text records are stored in NORMAL FORM (the displayed state): see [norm_text].
   No proofs here. *)
From RP Require Import Lib.Base Lib.Sexp Model.MsgIn.
From Coq Require Import String.
Open Scope Z_scope.

(* ---------------------------------------------------------------- abstract values *)
(* a colour is an index 0-31 or 2 bits per channel *)
Inductive colour := CIndex (i : Z) | CRgb (r g b : Z).

Record ntext := mkNT {
  n_fmt : Z;                 (* format number; 7 = hidden *)
  n_value : option Z;        (* None with formats 7, 10, 11 *)
  n_fsize : option Z;        (* font size, only with formats 10, 11 *)
  n_sicon : Z; n_micon : Z;
  n_title : list Z;
  n_solid : bool;            (* solid header bar: needs a title, never with formats 10, 11 *)
  n_l1 : list Z; n_l2 : list Z;
  n_value2 : Z;
  n_pair : Z;                (* 0 with formats 10, 11; at least 1 when a second label / value is there *)
  n_scale : option (Z * Z * Z * Z * Z);   (* type > 0, range low/high, limit low/high *)
  n_tface : Z; n_tw : Z; n_th : Z;        (* text font face, width, height *)
  n_hface : Z; n_hw : Z; n_hh : Z;        (* title font face, width, height *)
  n_fixed : bool; n_pad : Z; n_spc : Z;
  n_inv : bool;
  n_pix : option colour; n_bg : option colour   (* None = default (index 0 / not set) *) }.

Record image := mkImg { i_type : Z; i_w : Z; i_h : Z; i_off : option (Z * Z); i_data : list Z }.

Inductive upd :=
| UMode (st : Z) (out : bool) (blink : Z)
| UColour (c : colour)
| UExt (interp value : Z)
| UText (t : ntext)
| UGfx (i : image)
| UAdc (on : bool).

(* command words without argument, in protocol order; with numeric argument *)
Inductive bare := KActivePanel | KList | KMap | KTopology | KBurnin | KCalibration | KNetworkConfig
                | KRegisters | KConnections | KRunTimeStats | KClear | KClearLEDs | KClearDisplays
                | KGetSleepTimer | KWakeUp | KReboot.
Inductive numkw := NSleepTimer | NSleepMode | NSleepScreenSaver | NDimmedGain | NHeartBeatTimer
                 | NPublishSystemStat | NLoadCPU | NWebserver | NJSONonOutbound.

Inductive cmd :=
| CFlow (w : Z)                       (* 1 ping, 2 ack, 3 nack *)
| CBare (k : bare)
| CNum (k : numkw) (n : Z)
| CBright (leds oleds : Z)
| CSetCal (json : list Z)
| CSetNet (cfg : list Z)              (* opaque configuration (encoding/json oracle) *)
| CSimEnv (mode : Z).                 (* 0 normal, 1 safemode, 2 blocked *)

Inductive effect :=
| EState (ids : list Z) (u : upd)     (* u written to every id, in order *)
| ECmd (c : cmd)
| EReg (kind : Z) (id : list Z) (v : Z).   (* 0 Mem, 1 Flag, 2 Shift, 3 State *)

Record compstate := mkCS {
  cs_mode : option (Z * bool * Z); cs_colour : option colour; cs_ext : option (Z * Z);
  cs_text : option ntext; cs_gfx : option image; cs_adc : option bool }.
Definition cs_empty : compstate := mkCS None None None None None None.

Record panel := mkPanel {
  p_comp : list (Z * compstate);      (* sorted by id, ids distinct *)
  p_log : list cmd;
  p_regs : list (Z * list Z * Z) }.
Definition panel0 : panel := mkPanel [] [] [].

Definition cs_apply (u : upd) (c : compstate) : compstate :=
  match u with
  | UMode s o b => mkCS (Some (s, o, b)) (cs_colour c) (cs_ext c) (cs_text c) (cs_gfx c) (cs_adc c)
  | UColour x => mkCS (cs_mode c) (Some x) (cs_ext c) (cs_text c) (cs_gfx c) (cs_adc c)
  | UExt i v => mkCS (cs_mode c) (cs_colour c) (Some (i, v)) (cs_text c) (cs_gfx c) (cs_adc c)
  | UText t => mkCS (cs_mode c) (cs_colour c) (cs_ext c) (Some t) (cs_gfx c) (cs_adc c)
  | UGfx i => mkCS (cs_mode c) (cs_colour c) (cs_ext c) (cs_text c) (Some i) (cs_adc c)
  | UAdc b => mkCS (cs_mode c) (cs_colour c) (cs_ext c) (cs_text c) (cs_gfx c) (Some b)
  end.

Fixpoint comp_update (id : Z) (u : upd) (l : list (Z * compstate)) : list (Z * compstate) :=
  match l with
  | [] => [(id, cs_apply u cs_empty)]
  | (k, c) :: r =>
    if id <? k then (id, cs_apply u cs_empty) :: l
    else if id =? k then (k, cs_apply u c) :: r
    else (k, c) :: comp_update id u r
  end.

(* The three clearing commands act on what the components show at the moment they are received:
   "Clear" forgets every component setting, "ClearLEDs" the modes and colours, "ClearDisplays" the
   texts and images.  This is what makes the ORDER between state writes and commands observable in
   the panel (a state written before a Clear is gone, one written after it stays). *)
Definition cs_clear_leds (c : compstate) : compstate :=
  mkCS None None (cs_ext c) (cs_text c) (cs_gfx c) (cs_adc c).
Definition cs_clear_displays (c : compstate) : compstate :=
  mkCS (cs_mode c) (cs_colour c) (cs_ext c) None None (cs_adc c).
Definition comps_after_cmd (c : cmd) (l : list (Z * compstate)) : list (Z * compstate) :=
  match c with
  | CBare KClear => []
  | CBare KClearLEDs => map (fun kc => (fst kc, cs_clear_leds (snd kc))) l
  | CBare KClearDisplays => map (fun kc => (fst kc, cs_clear_displays (snd kc))) l
  | _ => l
  end.

Definition apply_eff (p : panel) (e : effect) : panel :=
  match e with
  | EState ids u => mkPanel (fold_left (fun l id => comp_update id u l) ids (p_comp p)) (p_log p) (p_regs p)
  (* the register history also records WHERE the commands fall (kind -1, value = number of commands before):
     a register query / a reboot between two register writes is between them for the panel too, so the order of
     register lines relative to command lines is an observable (seed C02-18: register writes of one call
     collected into the message of the first register line) *)
  | ECmd c => mkPanel (comps_after_cmd c (p_comp p)) (p_log p ++ [c]) (p_regs p ++ [(-1, [], zlen (p_log p))])
  | EReg k id v => mkPanel (p_comp p) (p_log p) (p_regs p ++ [(k, id, v)])
  end.
Definition apply_effs (p : panel) (es : list effect) : panel := fold_left apply_eff es p.

(* ---------------------------------------------------------------- meaning of the message parts *)
(* 8-bit (or larger) channel value -> 2 bits: 0-84, 85-169, 170-254, 255 and above *)
Definition q2 (c : Z) : Z := Z.min c 255 / 85.

Definition den_rgb (c : ColorRGB) : colour := CRgb (q2 (cr_red c)) (q2 (cr_green c)) (q2 (cr_blue c)).

(* component colour: an RGB value or one of the 32 index colours (0 included) *)
Definition den_hwccolor (c : Color) : option colour :=
  match c_rgb c, c_index c with
  | Some rgb, _ => Some (den_rgb rgb)
  | None, Some i => Some (CIndex i)
  | None, None => None
  end.
(* text pixel / background colour: "index 0" and "absent" both mean the default *)
Definition den_textcolor (o : option Color) : option colour :=
  match o with
  | None => None
  | Some c =>
    match c_rgb c, c_index c with
    | Some rgb, _ => Some (den_rgb rgb)
    | None, Some i => if i =? 0 then None else Some (CIndex i)
    | None, None => None
    end
  end.

Definition fmt_is_size (f : Z) : bool := (f =? 10) || (f =? 11).

Definition font_or_zero (o : option Font) : Font := match o with Some f => f | None => mkFont 0 0 0 end.

(* the displayed state a text sub-message describes *)
Definition norm_text (t : HWCText) : ntext :=
  let f := t_fmt t in
  let sty := t_style t in
  let tf := font_or_zero (match sty with Some s => ts_textfont s | None => None end) in
  let hf := font_or_zero (match sty with Some s => ts_titlefont s | None => None end) in
  let second := negb (nilb (t_l2 t)) || negb (t_int2 t =? 0) in
  mkNT f
       (if (f =? 7) || fmt_is_size f then None else Some (t_int t))
       (if fmt_is_size f then Some (match sty with Some s => ts_ufs s | None => 0 end) else None)
       (t_sicon t) (t_micon t) (t_title t)
       (t_solid t && negb (nilb (t_title t)) && negb (fmt_is_size f))
       (t_l1 t) (t_l2 t) (t_int2 t)
       (if fmt_is_size f then 0 else if second && (t_pair t <=? 0) then 1 else t_pair t)
       (match t_scale t with
        | Some s => if sc_type s >? 0 then Some (sc_type s, sc_rlo s, sc_rhi s, sc_llo s, sc_lhi s) else None
        | None => None end)
       (f_face tf) (f_width tf) (f_height tf) (f_face hf) (f_width hf) (f_height hf)
       (match sty with Some s => ts_fixed s | None => false end)
       (match sty with Some s => ts_padding s | None => 0 end)
       (match sty with Some s => ts_spacing s | None => 0 end)
       (t_inv t) (den_textcolor (t_pix t)) (den_textcolor (t_bg t)).

Definition den_image (g : HWCGfx) : image :=
  mkImg (hg_type g) (hg_w g) (hg_h g) (if hg_xy g then Some (hg_x g, hg_y g) else None) (hg_data g).

(* the updates a state record describes for ONE component, in protocol order.
   A text / graphics sub-message without any content says nothing (the library's convention,
   DESIGN C01 "Bounds"). *)
Definition state_upds (s : HWCState) : list upd :=
  (match s_mode s with Some m => [UMode (m_state m) (m_output m) (m_blink m)] | None => [] end) ++
  (match s_color s with
   | Some c => match den_hwccolor c with Some x => [UColour x] | None => [] end
   | None => [] end) ++
  (match s_ext s with Some x => [UExt (x_interp x) (x_value x)] | None => [] end) ++
  (match s_text s with Some t => if text_is_empty t then [] else [UText (norm_text t)] | None => [] end) ++
  (match s_gfx s with
   | Some g => if gfx_is_empty g then [] else [UGfx (den_image g)]
   | None => [] end) ++
  (match s_adc s with Some b => [UAdc b] | None => [] end).

(* "a state addressed to several components has that effect on each of them" *)
Definition den_state (s : HWCState) : list effect :=
  flat_map (fun id => map (EState [id]) (state_upds s)) (s_ids s).

Definition den_flow (f : Z) : list effect :=
  if (f =? 1) || (f =? 2) || (f =? 3) then [ECmd (CFlow f)] else [].

Definition flag_eff (b : bool) (k : bare) : list effect := if b then [ECmd (CBare k)] else [].
Definition num_eff {A} (o : option A) (k : numkw) (f : A -> Z) : list effect :=
  match o with Some a => [ECmd (CNum k (f a))] | None => [] end.
Definition bz (b : bool) : Z := if b then 1 else 0.

Definition den_cmd (c : Command) : list effect :=
  flag_eff (c_activate c) KActivePanel ++ flag_eff (c_info c) KList ++ flag_eff (c_map c) KMap ++
  flag_eff (c_topology c) KTopology ++ flag_eff (c_burnin c) KBurnin ++ flag_eff (c_calib c) KCalibration ++
  flag_eff (c_netcfg c) KNetworkConfig ++ flag_eff (c_registers c) KRegisters ++
  flag_eff (c_connections c) KConnections ++ flag_eff (c_stats c) KRunTimeStats ++
  flag_eff (c_clear c) KClear ++ flag_eff (c_clearleds c) KClearLEDs ++ flag_eff (c_cleardisp c) KClearDisplays ++
  flag_eff (c_getsleep c) KGetSleepTimer ++ flag_eff (c_wakeup c) KWakeUp ++ flag_eff (c_reboot c) KReboot ++
  (match c_bright c with Some (leds, oleds) => [ECmd (CBright leds oleds)] | None => [] end) ++
  (match c_setcal c with Some j => [ECmd (CSetCal j)] | None => [] end) ++
  (match c_setnet c with Some n => [ECmd (CSetNet n)] | None => [] end) ++
  (match c_simenv c with
   | Some m => if (m =? 0) || (m =? 1) || (m =? 2) then [ECmd (CSimEnv m)] else []
   | None => [] end) ++
  num_eff (c_sleeptimeout c) NSleepTimer id ++ num_eff (c_sleepmode c) NSleepMode id ++
  num_eff (c_screensaver c) NSleepScreenSaver id ++ num_eff (c_dimmed c) NDimmedGain id ++
  num_eff (c_heartbeat c) NHeartBeatTimer id ++ num_eff (c_pubstat c) NPublishSystemStat id ++
  num_eff (c_loadcpu c) NLoadCPU id ++ num_eff (c_web c) NWebserver bz ++
  num_eff (c_jsoncfg c) NJSONonOutbound bz.

(* a flag register holds one bit *)
Definition den_reg (r : Register) : list effect :=
  let k := r_kind r in
  if k =? 1 then [EReg 1 (r_id r) (if r_value r >? 0 then 1 else 0)]
  else if (k =? 0) || (k =? 2) || (k =? 3) then [EReg k (r_id r) (r_value r)]
  else [].

Definition opt_effs {A} (f : A -> list effect) (o : option A) : list effect :=
  match o with Some a => f a | None => [] end.

(* flow word, commands, states, registers *)
Definition den_in (m : InboundMessage) : list effect :=
  den_flow (im_flow m) ++ opt_effs den_cmd (im_cmd m) ++
  flat_map (opt_effs den_state) (im_states m) ++
  flat_map (opt_effs den_reg) (im_regs m).
Definition den_msgs (ms : list InboundMessage) : list effect := flat_map den_in ms.
Definition run_msgs (p : panel) (ms : list InboundMessage) : panel := apply_effs p (den_msgs ms).

(* ---------------------------------------------------------------- printable / comparable image *)
Open Scope string_scope.
Open Scope list_scope.
Definition sx_o {A} (f : A -> sexp) (o : option A) : sexp := match o with Some a => f a | None => sym "nil" end.
Definition sx_colour (c : colour) : sexp :=
  match c with CIndex i => L [sym "ix"; I i] | CRgb r g b => L [sym "rgb"; I r; I g; I b] end.
Definition sx_ntext (t : ntext) : sexp :=
  L [I (n_fmt t); sx_o I (n_value t); sx_o I (n_fsize t); I (n_sicon t); I (n_micon t); B (n_title t);
     of_bool (n_solid t); B (n_l1 t); B (n_l2 t); I (n_value2 t); I (n_pair t);
     sx_o (fun '(a, b, c, d, e) => L [I a; I b; I c; I d; I e]) (n_scale t);
     L [I (n_tface t); I (n_tw t); I (n_th t); I (n_hface t); I (n_hw t); I (n_hh t)];
     of_bool (n_fixed t); I (n_pad t); I (n_spc t); of_bool (n_inv t);
     sx_o sx_colour (n_pix t); sx_o sx_colour (n_bg t)].
Definition sx_image (i : image) : sexp :=
  L [I (i_type i); I (i_w i); I (i_h i); sx_o (fun '(x, y) => L [I x; I y]) (i_off i); B (i_data i)].
Definition sx_cs (c : compstate) : sexp :=
  L [sx_o (fun '(s, o, b) => L [I s; of_bool o; I b]) (cs_mode c); sx_o sx_colour (cs_colour c);
     sx_o (fun '(i, v) => L [I i; I v]) (cs_ext c); sx_o sx_ntext (cs_text c); sx_o sx_image (cs_gfx c);
     sx_o of_bool (cs_adc c)].
Definition bare_idx (k : bare) : Z :=
  match k with
  | KActivePanel => 0 | KList => 1 | KMap => 2 | KTopology => 3 | KBurnin => 4 | KCalibration => 5
  | KNetworkConfig => 6 | KRegisters => 7 | KConnections => 8 | KRunTimeStats => 9 | KClear => 10
  | KClearLEDs => 11 | KClearDisplays => 12 | KGetSleepTimer => 13 | KWakeUp => 14 | KReboot => 15
  end.
Definition numkw_idx (k : numkw) : Z :=
  match k with
  | NSleepTimer => 0 | NSleepMode => 1 | NSleepScreenSaver => 2 | NDimmedGain => 3 | NHeartBeatTimer => 4
  | NPublishSystemStat => 5 | NLoadCPU => 6 | NWebserver => 7 | NJSONonOutbound => 8
  end.
Definition sx_cmdv (c : cmd) : sexp :=
  match c with
  | CFlow w => L [sym "flow"; I w]
  | CBare k => L [sym "bare"; I (bare_idx k)]
  | CNum k n => L [sym "num"; I (numkw_idx k); I n]
  | CBright a b => L [sym "bright"; I a; I b]
  | CSetCal j => L [sym "setcal"; B j]
  | CSetNet n => L [sym "setnet"; B n]
  | CSimEnv m => L [sym "simenv"; I m]
  end.
Definition sx_panel (p : panel) : sexp :=
  L [L (map (fun '(k, c) => L [I k; sx_cs c]) (p_comp p)); L (map sx_cmdv (p_log p));
     L (map (fun '(k, id, v) => L [I k; B id; I v]) (p_regs p))].
Definition panel_eqb (a b : panel) : bool := bytes_eqb (print_sexp (sx_panel a)) (print_sexp (sx_panel b)).

(* ---------------------------------------------------------------- the ASCII-representable domain
   (C01's quantifier): every numeric field inside the width the line format gives it, text
   strings without the field separator '|' and without line feed, register ids as the
   grammar spells them, no Processors (JSON only), images with at least one byte. *)
Open Scope Z_scope.
Definition in_range (lo hi v : Z) : bool := (lo <=? v) && (v <=? hi).
Definition is_u32 (v : Z) : bool := in_range 0 4294967295 v.
Definition is_i32 (v : Z) : bool := in_range (-2147483648) 2147483647 v.
Definition is_n31 (v : Z) : bool := in_range 0 2147483647 v.
Definition clean_text (s : list Z) : bool :=
  forallb (fun c => byte_ok c && negb (c =? 124) && negb (c =? 10)) s.
Definition single_line (s : list Z) : bool := forallb (fun c => byte_ok c && negb (c =? 10)) s.

Definition rep_rgb (c : ColorRGB) : bool := is_u32 (cr_red c) && is_u32 (cr_green c) && is_u32 (cr_blue c).
Definition rep_color (c : Color) : bool :=
  match c_rgb c, c_index c with
  | Some rgb, None => rep_rgb rgb
  | None, Some i => in_range 0 31 i
  | None, None => true
  | Some _, Some _ => false
  end.
Definition rep_opt {A} (f : A -> bool) (o : option A) : bool := match o with Some a => f a | None => true end.
Definition rep_mode (m : HWCMode) : bool := in_range 0 7 (m_state m) && in_range 0 15 (m_blink m).
Definition rep_ext (x : HWCExtended) : bool := in_range 0 15 (x_interp x) && in_range 0 4095 (x_value x).
Definition rep_font (f : Font) : bool :=
  in_range 0 7 (f_face f) && in_range 0 3 (f_height f) && in_range 0 3 (f_width f).
Definition rep_style (s : TextStyle) : bool :=
  rep_opt rep_font (ts_titlefont s) && rep_opt rep_font (ts_textfont s) &&
  in_range 0 3 (ts_padding s) && in_range 0 7 (ts_spacing s) && is_u32 (ts_ufs s).
Definition rep_scale (s : ScaleM) : bool :=
  is_i32 (sc_type s) && is_i32 (sc_rlo s) && is_i32 (sc_rhi s) && is_i32 (sc_llo s) && is_i32 (sc_lhi s).
Definition rep_text (t : HWCText) : bool :=
  is_i32 (t_int t) && is_n31 (t_fmt t) && in_range 0 3 (t_sicon t) && in_range 0 7 (t_micon t) &&
  clean_text (t_title t) && clean_text (t_l1 t) && clean_text (t_l2 t) && is_i32 (t_int2 t) &&
  is_n31 (t_pair t) && rep_opt rep_scale (t_scale t) && rep_opt rep_style (t_style t) &&
  rep_opt rep_color (t_pix t) && rep_opt rep_color (t_bg t).
Definition rep_gfx (g : HWCGfx) : bool :=
  in_range 0 2 (hg_type g) && is_u32 (hg_w g) && is_u32 (hg_h g) && is_u32 (hg_x g) && is_u32 (hg_y g) &&
  negb (nilb (hg_data g)) && forallb byte_ok (hg_data g) &&
  (Z.of_nat (List.length (hg_data g)) <? 9007199254740992).   (* a Go slice; ceil(len/170) exact below 2^53 *)
Definition rep_state (s : HWCState) : bool :=
  forallb is_u32 (s_ids s) && rep_opt rep_mode (s_mode s) && rep_opt rep_color (s_color s) &&
  rep_opt rep_ext (s_ext s) && rep_opt rep_text (s_text s) && rep_opt rep_gfx (s_gfx s) &&
  match s_proc s with None => true | Some _ => false end.

Definition is_regid_ch (c : Z) : bool := ((65 <=? c) && (c <=? 90)) || ((48 <=? c) && (c <=? 57)).
(* canonical decimal of at most 18 digits: no leading zero except "0" itself *)
Definition canonical_dec (s : list Z) : bool :=
  match s with
  | [] => false
  | [48] => true
  | 48 :: _ => false
  | _ => forallb (fun c => (48 <=? c) && (c <=? 57)) s && (Z.of_nat (List.length s) <=? 18)
  end.
Definition rep_reg (r : Register) : bool :=
  in_range 0 3 (r_kind r) && is_u32 (r_value r) &&
  (if r_kind r =? 1 then canonical_dec (r_id r) else forallb is_regid_ch (r_id r)).

Section Representable.
  (* [one_line_trimmed j]: the calibration JSON is a single line without surrounding white
     space (what stripLineBreaks leaves untouched); supplied by the caller because
     strings.TrimSpace is modelled in Lib/TrimSpace.v, outside the spec. *)
  Variable one_line_trimmed : list Z -> bool.
  Variable netcfg_ok : list Z -> bool.
  Definition rep_cmd (c : Command) : bool :=
    rep_opt (fun p => is_u32 (fst p) && is_u32 (snd p)) (c_bright c) &&
    rep_opt one_line_trimmed (c_setcal c) && rep_opt netcfg_ok (c_setnet c) &&
    rep_opt is_u32 (c_sleeptimeout c) && rep_opt is_n31 (c_sleepmode c) && rep_opt is_n31 (c_screensaver c) &&
    rep_opt is_u32 (c_dimmed c) && rep_opt is_u32 (c_heartbeat c) && rep_opt is_u32 (c_pubstat c) &&
    rep_opt is_n31 (c_loadcpu c).
  Definition rep_some {A} (f : A -> bool) (o : option A) : bool := match o with Some a => f a | None => false end.
  Definition rep_msg (m : InboundMessage) : bool :=
    rep_opt rep_cmd (im_cmd m) && forallb (rep_some rep_state) (im_states m) &&
    forallb (rep_some rep_reg) (im_regs m).
End Representable.
