(* C05 specification: what "a delivered image" must be, in terms of the HISTORY of lines that
   were fed - independent of how the decoders keep their state.  Everything is boolean so the
   same definitions are the theorems' statements and the oracle run on the implementation's
   deliveries.  No proofs.

   A history is a list of [line]: a graphics chunk line (as the protocol grammar reads it)
   or any other line.  A TRANSFER is identified by its pixel format and target-id list; it is
   started by a chunk with index 0, whose header says the final index N, the dimensions and
   the optional offset (a chunk 0 WITHOUT header is the V1 "simple" form: N = 2, 64x32, no
   offset).  Chunks 1..N of the same format and targets that follow belong to the most recent
   such start. *)
From RP Require Import Lib.Base Lib.Strings Lib.B64 Lib.TrimSpace Model.Gfx.  (* Model.Gfx: record [gfx] and, at the end, the wire reader *)

Record chunk := mkC {
  c_type : Z;                                      (* 0 MONO, 1 RGB16bit, 2 Gray4bit *)
  c_ids : list Z;                                  (* target ids *)
  c_index : Z;
  c_hdr : option (Z * Z * Z * option (Z * Z));     (* N, W, H, (X, Y) *)
  c_data : list Z }.                               (* decoded payload *)

Inductive line := G (c : chunk) | O.

Record delivery := mkD { d_pos : Z; d_ids : list Z; d_img : gfx }.

Definition ids_eqb (a b : list Z) : bool := list_eqb Z.eqb a b.

Definition gfx_eqb (a b : gfx) : bool :=
  (g_type a =? g_type b) && (g_w a =? g_w b) && (g_h a =? g_h b) && Bool.eqb (g_xy a) (g_xy b)
  && (g_x a =? g_x b) && (g_y a =? g_y b) && bytes_eqb (g_data a) (g_data b).

Definition delivery_eqb (a b : delivery) : bool :=
  (d_pos a =? d_pos b) && ids_eqb (d_ids a) (d_ids b) && gfx_eqb (d_img a) (d_img b).

Definition same_key (t : Z) (ids : list Z) (c : chunk) : bool := (c_type c =? t) && ids_eqb (c_ids c) ids.

Definition is_start (t : Z) (ids : list Z) (l : line) : bool :=
  match l with G c => same_key t ids c && (c_index c =? 0) | O => false end.

Definition hdr_of (c : chunk) : Z * Z * Z * option (Z * Z) :=
  match c_hdr c with Some h => h | None => (2, 64, 32, None) end.

(* position of the last start of transfer (t, ids) at or before position e *)
Fixpoint last_start (t : Z) (ids : list Z) (h : list line) (pos e : Z) (acc : option Z) : option Z :=
  match h with
  | [] => acc
  | l :: r => if pos >? e then acc
              else last_start t ids r (pos + 1) e (if is_start t ids l then Some pos else acc)
  end.

(* [asm t ids N i seg want]: chunks i, i+1, ..., N of transfer (t, ids) can be picked, in this
   order, from the lines [seg], chunk N being the LAST line of seg, their payloads
   concatenating to [want]. *)
Fixpoint asm (t : Z) (ids : list Z) (N i : Z) (seg : list line) (want : list Z) : bool :=
  match seg with
  | [] => false
  | l :: r =>
    (match l with
     | G c =>
       same_key t ids c && (c_index c =? i)
       && (if i =? N then is_nil r && bytes_eqb (c_data c) want
           else match drop_prefix (c_data c) want with
                | Some w' => asm t ids N (i + 1) r w'
                | None => false
                end)
     | O => false
     end)
    || asm t ids N i r want
  end.

(* the lines at positions s+1 .. e *)
Definition segment (h : list line) (s e : Z) : list line :=
  firstn (Z.to_nat (e - s)) (skipn (Z.to_nat (s + 1)) h).

(* Valid: the delivered image consists of exactly the chunks 0..N, in order, of the transfer
   started by the most recent chunk 0 of its format and targets, completed at the delivery's
   position, with the dimensions / offset that chunk 0 announced. *)
Definition valid_b (h : list line) (d : delivery) : bool :=
  let t := g_type (d_img d) in
  let e := d_pos d in
  (0 <=? e) && (e <? zlen h) &&
  match last_start t (d_ids d) h 0 e None with
  | None => false
  | Some s =>
    match nth_error h (Z.to_nat s) with
    | Some (G c0) =>
      let '(N, W, H, off) := hdr_of c0 in
      (g_w (d_img d) =? W) && (g_h (d_img d) =? H)
      && Bool.eqb (g_xy (d_img d)) (match off with Some _ => true | None => false end)
      && (g_x (d_img d) =? match off with Some (x, _) => x | None => 0 end)
      && (g_y (d_img d) =? match off with Some (_, y) => y | None => 0 end)
      && (if N =? 0 then (s =? e) && bytes_eqb (c_data c0) (g_data (d_img d))
          else match drop_prefix (c_data c0) (g_data (d_img d)) with
               | Some want => asm t (d_ids d) N 1 (segment h s e) want
               | None => false
               end)
    | _ => false
    end
  end.

(* AtMostOnce: no two deliveries come from the same started transfer. *)
Definition transfer_id (h : list line) (d : delivery) : Z * list Z * option Z :=
  (g_type (d_img d), d_ids d, last_start (g_type (d_img d)) (d_ids d) h 0 (d_pos d) None).

Definition tid_eqb (a b : Z * list Z * option Z) : bool :=
  let '(t1, i1, s1) := a in let '(t2, i2, s2) := b in
  (t1 =? t2) && ids_eqb i1 i2 &&
  match s1, s2 with Some x, Some y => x =? y | None, None => true | _, _ => false end.

Fixpoint distinct_b {A} (eqb : A -> A -> bool) (l : list A) : bool :=
  match l with
  | [] => true
  | x :: r => negb (existsb (eqb x) r) && distinct_b eqb r
  end.

Definition at_most_once_b (h : list line) (ds : list delivery) : bool :=
  distinct_b tid_eqb (map (transfer_id h) ds).

(* Stable: [snaps] = for every step, the list of ALL deliveries made so far, re-read after
   that step.  Each snapshot must extend the previous one without changing it. *)
Fixpoint prefix_b {A} (eqb : A -> A -> bool) (a b : list A) : bool :=
  match a, b with
  | [], _ => true
  | x :: a', y :: b' => eqb x y && prefix_b eqb a' b'
  | _ :: _, [] => false
  end.

Fixpoint stable_from {A} (eqb : A -> A -> bool) (prev : list A) (snaps : list (list A)) : bool :=
  match snaps with
  | [] => true
  | s :: r => prefix_b eqb prev s && stable_from eqb s r
  end.
Definition stable_b {A} (eqb : A -> A -> bool) (snaps : list (list A)) : bool := stable_from eqb [] snaps.

Definition safe_b (h : list line) (ds : list delivery) : bool :=
  forallb (valid_b h) ds && at_most_once_b h ds.

(* ---- clean runs: what was sent ---- *)
(* the offset only exists when XYoffset is set *)
Definition gfx_norm (g : gfx) : gfx :=
  if g_xy g then g else mkGfx (g_type g) (g_w g) (g_h g) false 0 0 (g_data g).

(* the deliveries a clean run must produce: ids sent one after the other, [per] lines each,
   [gpos] = positions of the graphics lines inside the (possibly interleaved) history *)
Definition clean_expected (g : gfx) (ids : list Z) (per : Z) (gpos : list Z) : list delivery :=
  map (fun '(k, i) => mkD (znth (-1) gpos ((Z.of_nat k + 1) * per - 1)) [i] (gfx_norm g))
      (combine (seq 0 (length ids)) ids).

(* ---- reading a wire line (the protocol grammar = the library's regex, Model.Gfx.gfx_match) ---- *)
Definition chunk_of_sm (sm : gfx_sm) : chunk :=
  mkC (type_of_cmd (sm_cmd sm)) (int_explode (sm_list sm)) (sm_index sm)
      (match sm_adv sm with
       | Some (mx, w, h, off) =>
         Some (atoi mx, wrap32 (atoi w), wrap32 (atoi h),
               match off with Some (x, y) => Some (wrap32 (atoi x), wrap32 (atoi y)) | None => None end)
       | None => None
       end)
      (b64_decode (sm_payload sm)).

Definition classify (l : list Z) : line :=
  match gfx_match l with Some sm => G (chunk_of_sm sm) | None => O end.

(* ---- vocabulary of the theorems in Props/C05.v ---- *)
(* what can be sent: the three formats, uint32 fields, bytes *)
Definition gfx_ok (g : gfx) : Prop :=
  0 <= g_type g <= 2 /\ 0 <= g_w g < 4294967296 /\ 0 <= g_h g < 4294967296
  /\ 0 <= g_x g < 4294967296 /\ 0 <= g_y g < 4294967296 /\ bytes_ok (g_data g) = true
  /\ zlen (g_data g) < 2 ^ 53.   (* a Go slice; math.Ceil(float64(len)/170) is exact below 2^53 *)
Definition id_ok (i : Z) : Prop := 0 <= i < 4294967296.

Fixpoint clean_deliveries (g : gfx) (T pos : Z) (ids : list Z) : list (Z * (list Z * gfx)) :=
  match ids with
  | [] => []
  | i :: r => (pos + T - 1, ([i], gfx_norm g)) :: clean_deliveries g T (pos + T) r
  end.

Definition to_ds (l : list (Z * (list Z * gfx))) : list delivery :=
  map (fun x => mkD (fst x) (fst (snd x)) (snd (snd x))) l.

Definition ascii (s : list Z) : Prop := Forall (fun c => 0 <= c < 128) s.

Definition reader_ascii (st : reader) : Prop :=
  ascii (r_type st) /\ ascii (r_list st) /\ Forall ascii (r_buf st).

Definition other_line (l : list Z) : Prop := gfx_match (trim_space l) = None.

Definition nones {A} (os : list A) : list (list (list Z * gfx)) := map (fun _ => []) os.

(* a history with unrelated lines: every chunk line comes with the other lines fed before it *)
Definition unspace (sp : list (list (list Z) * list Z)) : list (list Z) :=
  flat_map (fun p => fst p ++ [snd p]) sp.

(* outputs of a spaced run: nothing, except [final] at its last chunk line *)
Fixpoint sp_outs (sp : list (list (list Z) * list Z)) (final : list (list Z * gfx)) : list (list (list Z * gfx)) :=
  match sp with
  | [] => []
  | [p] => nones (fst p) ++ [final]
  | p :: r => nones (fst p) ++ [[]] ++ sp_outs r final
  end.

Definition sp_others_ok (sp : list (list (list Z) * list Z)) : Prop := Forall (fun p => Forall other_line (fst p)) sp.

(* expected outputs: per id, nothing until the last chunk line of its run, the image there *)
Fixpoint clean_stream_out (g : gfx) (T : nat) (ids : list Z) (sp : list (list (list Z) * list Z)) : list (list (list Z * gfx)) :=
  match ids with
  | [] => []
  | i :: r => sp_outs (firstn T sp) [([i], gfx_norm g)] ++ clean_stream_out g T r (skipn T sp)
  end.

Definition sline (l : list Z) : line := classify (trim_space l).

(* deliveries of a stream run, with positions *)
Fixpoint stream_ds (pos : Z) (outs : list (list (list Z * gfx))) : list delivery :=
  match outs with
  | [] => []
  | o :: r => map (fun x => mkD pos (fst x) (snd x)) o ++ stream_ds (pos + 1) r
  end.
