(* C16 specification: the property's own reading of "canvas", "padding bits",
   "clip rectangle" and "geometric footprint", independent of how the code draws.
   Everything is boolean/executable so that the same definitions serve the theorems and
   the search oracle that judges the implementation's buffers. *)
From RP Require Import Lib.Base Model.Mono.

(* pixel (column c, row r) of a row-major MSB-first buffer with [wib] bytes per row *)
Definition px (wib : Z) (d : list Z) (c r : Z) : bool :=
  Z.testbit (znth 0 d (r * wib + c / 8)) (7 - c mod 8).

(* the clip rectangle: canvas cut by the right/bottom edge of the bounding box *)
Definition in_clip (g : geom) (c r : Z) : bool :=
  (0 <=? c) && (c <? Z.min (gW g) (gbx g + gbw g)) && (0 <=? r) && (r <? Z.min (gH g) (gby g + gbh g)).

Definition in_rect (x y w h a b : Z) : bool :=
  (x <=? a) && (a <? x + w) && (y <=? b) && (b <? y + h).

(* quadrant square of a corner helper: corner bits 1 = top-left, 2 = top-right,
   4 = bottom-right, 8 = bottom-left, centre (x0,y0), radius r *)
Definition in_quadrants (x0 y0 r corner a b : Z) : bool :=
  let left := (x0 - r <=? a) && (a <=? x0) in
  let right := (x0 <=? a) && (a <=? x0 + r) in
  let top := (y0 - r <=? b) && (b <=? y0) in
  let bot := (y0 <=? b) && (b <=? y0 + r) in
  ((Z.land corner 1 >? 0) && left && top) || ((Z.land corner 2 >? 0) && right && top)
  || ((Z.land corner 4 >? 0) && right && bot) || ((Z.land corner 8 >? 0) && left && bot).

(* filled corner helper: corner bit 1 = columns right of x0, 2 = columns left of x0;
   rows from y0-r down to y0+r+delta *)
Definition in_fill_helper (x0 y0 r corner delta a b : Z) : bool :=
  (((Z.land corner 1 >? 0) && (x0 <=? a) && (a <=? x0 + r)) || ((Z.land corner 2 >? 0) && (x0 - r <=? a) && (a <=? x0)))
  && (y0 - r <=? b) && (b <=? y0 + r + delta).

(* geometric footprint of an operation, in bounding-box-relative coordinates *)
Definition footprint (t : tstate) (o : op) (a b : Z) : bool :=
  match o with
  | OPixel x y _ => (a =? x) && (b =? y)
  | OHLine x y w _ => in_rect x y w 1 a b
  | OVLine x y h _ => in_rect x y 1 h a b
  | OFillRect x y w h _ => in_rect x y w h a b
  | ORoundRect x y w h r _ =>
    in_rect (x + r) y (w - 2 * r) 1 a b || in_rect (x + r) (y + h - 1) (w - 2 * r) 1 a b
    || in_rect x (y + r) 1 (h - 2 * r) a b || in_rect (x + w - 1) (y + r) 1 (h - 2 * r) a b
    || in_quadrants (x + r) (y + r) r 1 a b || in_quadrants (x + w - r - 1) (y + r) r 2 a b
    || in_quadrants (x + w - r - 1) (y + h - r - 1) r 4 a b || in_quadrants (x + r) (y + h - r - 1) r 8 a b
  | OFillRoundRect x y w h r _ =>
    in_rect (x + r) y (w - 2 * r) h a b
    || in_fill_helper (x + w - r - 1) (y + r) r 1 (h - 2 * r - 1) a b
    || in_fill_helper (x + r) (y + r) r 2 (h - 2 * r - 1) a b
  | OCircleHelper x0 y0 r k _ => in_quadrants x0 y0 r k a b
  | OFillCircleHelper x0 y0 r k dl _ => in_fill_helper x0 y0 r k dl a b
  | OBitmap x y _ w h _ _ _ => in_rect x y w h a b
  | OChar x y ch _ _ sh sv => in_rect x y (char_width t ch * sh) (font_bbh (tfont t) * sv) a b
  | OText _ => true
  | _ => false
  end.

(* operations whose result is claimed exactly: (footprint, colour) *)
Definition exact_colour (o : op) : option bool :=
  match o with
  | OPixel _ _ c | OHLine _ _ _ c | OVLine _ _ _ c | OFillRect _ _ _ _ c => Some c
  | _ => None
  end.

(* ---- executable judgement of one step: buffers before / after ---- *)
Definition all_cells (wib h : Z) (f : Z -> Z -> bool) : bool :=
  forallb (fun r => forallb (fun c => f (Z.of_nat c) (Z.of_nat r)) (seq 0 (Z.to_nat (8 * wib)))) (seq 0 (Z.to_nat h)).

Inductive step_verdict := StepOk (changed : bool) | StepBad (what : Z).
(* what: 1 = buffer length changed, 2 = pixel changed outside clip (incl. padding bits / other row),
         3 = pixel changed outside the footprint, 4 = exact op: wrong pixel value, 5 = byte out of range *)
Definition judge_step (g : geom) (t : tstate) (o : op) (d d' : list Z) : step_verdict :=
  if negb (zlen d' =? zlen d) then StepBad 1
  else if negb (bytes_ok d') then StepBad 5
  else
    let wib := gwib g in
    let inside c r := in_clip g c r in
    if negb (all_cells wib (gH g) (fun c r => Bool.eqb (px wib d' c r) (px wib d c r) || inside c r)) then StepBad 2
    else if negb (all_cells wib (gH g) (fun c r =>
              Bool.eqb (px wib d' c r) (px wib d c r) || footprint t o (c - gbx g) (r - gby g))) then StepBad 3
    else
      match exact_colour o with
      | Some col =>
        if all_cells wib (gH g) (fun c r =>
             Bool.eqb (px wib d' c r)
                      (if inside c r && footprint t o (c - gbx g) (r - gby g) then xorb col (ginv g) else px wib d c r))
        then StepOk (negb (bytes_eqb d d')) else StepBad 4
      | None => StepOk (negb (bytes_eqb d d'))
      end.
