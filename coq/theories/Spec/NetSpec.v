(* What C08-C12 mean, written from the property texts and the Raw Panel wire format, NOT from
   the structure of connecttopanel.go: a reference frame walker over a whole byte string,
   line splitting, reply classes of the negotiation, and boolean predicates over an
   observed trace.  The same definitions are used in the theorem statements (Props/) and as
   the search oracle on the implementation's output (Run/).  No proofs. *)
From RP Require Import Lib.Base Lib.Strings.

(* ---------- wire format ---------- *)
Definition u32le (h : bytes) : Z :=
  match h with a :: b :: c :: d :: _ => a + 256 * (b + 256 * (c + 256 * d)) | _ => 0 end.

(* split k bytes off (tail recursive; None when fewer are left) *)
Fixpoint split_tr {A} (k : Z) (l : list A) (acc : list A) : option (list A * list A) :=
  match l with
  | [] => if k <=? 0 then Some (rev_append acc [], []) else None
  | x :: r => if k <=? 0 then Some (rev_append acc [], l) else split_tr (k - 1) r (x :: acc)
  end.

(* walk a byte string as length-prefixed frames: payloads found, and what is left over
   (a proper prefix of a frame, or empty).  [fuel] >= number of frames + 1. *)
Fixpoint parse_frames (fuel : nat) (s : bytes) : list bytes * bytes :=
  match fuel with
  | O => ([], s)
  | S f =>
    match split_tr 4 s [] with
    | None => ([], s)
    | Some (h, r) =>
      match split_tr (u32le h) r [] with
      | None => ([], s)
      | Some (p, r') => let (ps, rest) := parse_frames f r' in (p :: ps, rest)
      end
    end
  end.

(* the ping a system sends: InboundMessage with field 1 (FlowMessage) = 1, i.e. key 0x08, value 1 *)
Definition ping_msg : bytes := [8; 1].
Definition ack_msg : bytes := [8; 2].
Definition lenprefix (p : bytes) : bytes :=
  let n := zlen p in [n mod 256; (n / 256) mod 256; (n / 65536) mod 256; (n / 16777216) mod 256] ++ p.

(* ---------- C12: negotiation ---------- *)
Inductive reply_class : Type :=
| RcAck            (* exactly one acknowledge frame *)
| RcOtherFrame     (* exactly one other well-formed frame (<= 1000 bytes in all) *)
| RcSilence        (* nothing within the probe window *)
| RcRdy            (* starts with "RDY\n" *)
| RcMap            (* starts with "map=" *)
| RcErrorMsg (e : bytes)  (* starts with "ErrorMsg=": the text up to the first LF *)
| RcOtherText.     (* anything else that is not one well-formed frame *)

Definition window : Z := 2000.

Fixpoint first_line (s : bytes) : bytes :=
  match s with [] => [] | b :: r => if b =? 10 then [] else b :: first_line r end.

Definition str_rdy : bytes := [82; 68; 89; 10].
Definition str_map : bytes := [109; 97; 112; 61].
Definition str_errormsg : bytes := [69; 114; 114; 111; 114; 77; 115; 103; 61].

(* [reply]: what the panel sends first, [t]: when (ms after accept); None = nothing at all *)
Definition classify_reply (reply : option (Z * bytes)) : reply_class :=
  match reply with
  | None => RcSilence
  | Some (t, r) =>
    if window <=? t then RcSilence
    else if bytes_eqb r (lenprefix ack_msg) then RcAck
    else if has_prefix str_rdy r then RcRdy
    else if has_prefix str_map r then RcMap
    else if (4 <? zlen r) && (zlen r <=? 1000) && (u32le r =? zlen r - 4) then RcOtherFrame
    else if has_prefix str_errormsg r then RcErrorMsg (skipn 9 (first_line r))
    else RcOtherText
  end.

(* What the property demands of one negotiation.  [is_client]: reconnecting client (else the
   stand-alone detector).  Observed: the binary flag (callback argument / return value), the
   error text given to onconnect (client), the bytes the panel received on that socket before
   any submitted traffic.  The result is a list of the clauses that fail. *)
Definition probe_expected : bytes := lenprefix ping_msg.

Definition c12_judge (is_client : bool) (rc : reply_class) (bin : bool) (err : bytes) (received : bytes) : list Z :=
  let ascii_ok := negb bin && bytes_eqb received (probe_expected ++ [10]) in
  let binary_ok := bin && bytes_eqb received probe_expected in
  (* clause 1: the probe is exactly one length-prefixed ping *)
  (if bytes_eqb (firstn 6 received) probe_expected then [] else [1]) ++
  match rc with
  | RcAck => if binary_ok then [] else [2]                         (* binary, nothing further *)
  | RcSilence => if ascii_ok then [] else [3]                      (* ASCII, exactly one LF *)
  | RcRdy => if ascii_ok then [] else [4]
  | RcMap => if ascii_ok then [] else [5]
  | RcErrorMsg e => if is_client then (if ascii_ok && bytes_eqb err e then [] else [6]) else []
  | RcOtherText => if is_client then (if ascii_ok then [] else [7]) else []
  | RcOtherFrame => []                                             (* the text leaves it open *)
  end.

(* ---------- C08/C10: what a stream of frames / lines must produce ---------- *)
Definition limit : Z := 500000.
Definition inframe : Z := 2000.

(* ASCII white space as trimmed from a line *)
Definition ws (c : Z) : bool := (c =? 32) || ((9 <=? c) && (c <=? 13)).
