(* What C08-C12 mean, written from the property texts and the Raw Panel wire format, NOT from
   the structure of connecttopanel.go: a reference frame walker over a whole byte string,
   line splitting, reply classes of the negotiation, and boolean predicates over an
   observed trace.  The same definitions are used in the theorem statements (Props/) and as
   the search oracle on the implementation's output (Run/).  No proofs. *)
From RP Require Import Lib.Base Lib.Strings.

(* ---------- wire format ---------- *)
Definition u32le (h : bytes) : Z :=
  match h with a :: b :: c :: d :: _ => a + 256 * (b + 256 * (c + 256 * d)) | _ => 0 end.

(* split k bytes off (tail recursive; None when fewer are left) *)
Fixpoint split_tr {A} (k : Z) (l : list A) (acc : list A) : option (list A * list A) :=
  match l with
  | [] => if k <=? 0 then Some (rev_append acc [], []) else None
  | x :: r => if k <=? 0 then Some (rev_append acc [], l) else split_tr (k - 1) r (x :: acc)
  end.

(* walk a byte string as length-prefixed frames: payloads found, and what is left over
   (a proper prefix of a frame, or empty).  [fuel] >= number of frames + 1. *)
Fixpoint parse_frames (fuel : nat) (s : bytes) : list bytes * bytes :=
  match fuel with
  | O => ([], s)
  | S f =>
    match split_tr 4 s [] with
    | None => ([], s)
    | Some (h, r) =>
      match split_tr (u32le h) r [] with
      | None => ([], s)
      | Some (p, r') => let (ps, rest) := parse_frames f r' in (p :: ps, rest)
      end
    end
  end.

(* the ping a system sends: InboundMessage with field 1 (FlowMessage) = 1, i.e. key 0x08, value 1 *)
Definition ping_msg : bytes := [8; 1].
Definition ack_msg : bytes := [8; 2].
Definition lenprefix (p : bytes) : bytes :=
  let n := zlen p in [n mod 256; (n / 256) mod 256; (n / 65536) mod 256; (n / 16777216) mod 256] ++ p.

(* ---------- C12: negotiation ---------- *)
Inductive reply_class : Type :=
| RcAck            (* exactly one acknowledge frame *)
| RcOtherFrame     (* exactly one other well-formed frame (<= 1000 bytes in all) *)
| RcSilence        (* nothing within the probe window *)
| RcRdy            (* starts with "RDY\n" *)
| RcMap            (* starts with "map=" *)
| RcErrorMsg (e : bytes)  (* starts with "ErrorMsg=": the text up to the first LF *)
| RcOtherText.     (* anything else that is not one well-formed frame *)

Definition window : Z := 2000.

Fixpoint first_line (s : bytes) : bytes :=
  match s with [] => [] | b :: r => if b =? 10 then [] else b :: first_line r end.

Definition str_rdy : bytes := [82; 68; 89; 10].
Definition str_map : bytes := [109; 97; 112; 61].
Definition str_errormsg : bytes := [69; 114; 114; 111; 114; 77; 115; 103; 61].

(* [reply]: what the panel sends first, [t]: when (ms after accept); None = nothing at all *)
Definition classify_reply (reply : option (Z * bytes)) : reply_class :=
  match reply with
  | None => RcSilence
  | Some (t, r) =>
    if window <=? t then RcSilence
    else if bytes_eqb r (lenprefix ack_msg) then RcAck
    else if has_prefix str_rdy r then RcRdy
    else if has_prefix str_map r then RcMap
    else if (4 <? zlen r) && (zlen r <=? 1000) && (u32le r =? zlen r - 4) then RcOtherFrame
    else if has_prefix str_errormsg r then RcErrorMsg (skipn 9 (first_line r))
    else RcOtherText
  end.

(* What the property demands of one negotiation.  [is_client]: reconnecting client (else the
   stand-alone detector).  Observed: the binary flag (callback argument / return value), the
   error text given to onconnect (client), the bytes the panel received on that socket before
   any submitted traffic.  The result is a list of the clauses that fail. *)
Definition probe_expected : bytes := lenprefix ping_msg.

Definition c12_judge (is_client : bool) (rc : reply_class) (bin : bool) (err : bytes) (received : bytes) : list Z :=
  let ascii_ok := negb bin && bytes_eqb received (probe_expected ++ [10]) in
  let binary_ok := bin && bytes_eqb received probe_expected in
  (* clause 1: the probe is exactly one length-prefixed ping *)
  (if bytes_eqb (firstn 6 received) probe_expected then [] else [1]) ++
  (* clause 8: an error text is handed to onconnect only if this reply holds one *)
  (match rc with
   | RcErrorMsg _ | RcOtherFrame => []
   | _ => if is_client && negb (bytes_eqb err []) then [8] else []
   end) ++
  match rc with
  | RcAck => if binary_ok then [] else [2]                         (* binary, nothing further *)
  | RcSilence => if ascii_ok then [] else [3]                      (* ASCII, exactly one LF *)
  | RcRdy => if ascii_ok then [] else [4]
  | RcMap => if ascii_ok then [] else [5]
  | RcErrorMsg e => if is_client then (if ascii_ok && bytes_eqb err e then [] else [6]) else []
  | RcOtherText => if is_client then (if ascii_ok then [] else [7]) else []
  | RcOtherFrame => []                                             (* the text leaves it open *)
  end.

(* ---------- C08/C10/C11: what a stream of frames / lines must produce ---------- *)
(* Reference reading of a binary panel stream, frame by frame, looking only at three byte
   positions of each frame (first header byte, last header byte, last payload byte) and their
   arrival times - not a simulation of reads.  A timed byte is (arrival time, value). *)
Definition limit : Z := 500000.
Definition inframe : Z := 2000.

Fixpoint tmax (l : list (Z * Z)) (m : Z) : Z :=
  match l with [] => m | (t, _) :: r => tmax r (Z.max m t) end.
Definition snds (l : list (Z * Z)) : bytes := rev_append (fold_left (fun acc x => snd x :: acc) l []) [].

Inductive fstep : Type :=
| FGood (p : bytes) (te : Z) (rest : list (Z * Z))  (* a complete frame, completed at te *)
| FFault (t k : Z)   (* the connection must be dropped at t; k = 1 stall inside the header,
                        2 length at or above the limit, 3 stall inside the payload *)
| FEnd.              (* nothing (more) was sent *)

Definition next_frame (tb : list (Z * Z)) : fstep :=
  match tb with
  | [] => FEnd
  | (t1, _) :: _ =>
    match split_tr 4 tb [] with
    | None => FFault (t1 + inframe) 1
    | Some (h, r) =>
      let t4 := tmax h t1 in
      if t1 + inframe <=? t4 then FFault (t1 + inframe) 1
      else
        let v := u32le (snds h) in
        if limit <=? v then FFault t4 2
        else match split_tr v r [] with
             | None => FFault (t4 + inframe) 3
             | Some (p, r') =>
               let te := tmax p t4 in
               if t4 + inframe <=? te then FFault (t4 + inframe) 3 else FGood (snds p) te r'
             end
    end
  end.

(* all frames up to the first fault: (payload, completion time) list, then the fault if any *)
Fixpoint walk_bin (fuel : nat) (tb : list (Z * Z)) : list (bytes * Z) * option (Z * Z) :=
  match fuel with
  | O => ([], None)
  | S f =>
    match next_frame tb with
    | FGood p te rest => let (g, e) := walk_bin f rest in ((p, te) :: g, e)
    | FFault t k => ([], Some (t, k))
    | FEnd => ([], None)
    end
  end.

(* ASCII: complete lines (terminator included) with the arrival time of their LF *)
Fixpoint walk_lines_aux (tb : list (Z * Z)) (cur : bytes) (tm : Z) : list (bytes * Z) :=
  match tb with
  | [] => []
  | (t, b) :: r =>
    if b =? 10 then (rev_append (b :: cur) [], Z.max tm t) :: walk_lines_aux r [] (Z.max tm t)
    else walk_lines_aux r (b :: cur) (Z.max tm t)
  end.
Definition walk_lines (start : Z) (tb : list (Z * Z)) : list (bytes * Z) := walk_lines_aux tb [] start.


(* ---------- hypotheses of C08 as executable predicates ---------- *)
(* a timed frame keeps the in-frame timing: its header is complete less than 2 s after its
   first byte, its payload less than 2 s after the header *)
Definition frame_timely (tf : list (Z * Z)) : bool :=
  match tf with
  | [] => false
  | (t1, _) :: _ =>
    match split_tr 4 tf [] with
    | Some (h, pl) => let t4 := tmax h t1 in (t4 <? t1 + inframe) && (tmax pl t4 <? t4 + inframe)
    | None => false
    end
  end.
(* the timed stream [tb], cut at the DECLARED frame lengths (4 + payload length), consists of
   timely frames and nothing else *)
Fixpoint frames_timely (tb : list (Z * Z)) (ps : list bytes) : bool :=
  match ps with
  | [] => match tb with [] => true | _ => false end
  | p :: r =>
    match split_tr (4 + zlen p) tb [] with
    | Some (tf, rest) => frame_timely tf && frames_timely rest r
    | None => false
    end
  end.
Definition eol (crlf : bool) : bytes := if crlf then [13; 10] else [10].
Definition no_lf (l : bytes) : bool := forallb (fun c => negb (c =? 10)) l.

(* ASCII white space as trimmed from a line *)
Definition ws (c : Z) : bool := (c =? 32) || ((9 <=? c) && (c <=? 13)).
Fixpoint drop_ws (s : bytes) : bytes := match s with [] => [] | c :: r => if ws c then drop_ws r else s end.
Definition strip (s : bytes) : bytes := rev_append (drop_ws (rev_append (drop_ws s) [])) [].

(* A connection is cut at [cut] (cancellation or loss of the panel, ms after accept).  Margins
   keep apart what must be delivered, what may be, and what must not be. *)
Definition margin : Z := 300.

(* expected deliveries: those completed [margin] before the cut must appear, those completed
   within the margin around it may, later ones must not; given as (must, may) *)
Fixpoint must_may (l : list (bytes * Z)) (cut : Z) : list bytes * list bytes :=
  match l with
  | [] => ([], [])
  | (x, te) :: r =>
    if te + margin <=? cut then let (a, b) := must_may r cut in (x :: a, b)
    else ([], map fst (filter (fun y => snd y <? cut + margin) l))
  end.

Fixpoint is_prefix (a b : list bytes) : bool :=
  match a, b with
  | [], _ => true
  | x :: a', y :: b' => bytes_eqb x y && is_prefix a' b'
  | _ :: _, [] => false
  end.

(* observed deliveries (as oracle values) = must ++ a prefix of may *)
Fixpoint deliveries_ok (obs must may : list bytes) : bool :=
  match must with
  | m :: must' => match obs with o :: obs' => bytes_eqb o m && deliveries_ok obs' must' may | [] => false end
  | [] => is_prefix obs may
  end.

(* C10: a fault at tf (well before the cut) demands a non-cancelled disconnect promptly *)
Definition prompt_lo : Z := 150.
Definition prompt_hi : Z := 400.
Definition dropped_promptly (tf : Z) (dis : list (Z * bool)) : bool :=
  match dis with
  | [(t, false)] => (tf - prompt_lo <=? t) && (t <=? tf + prompt_hi)
  | _ => false
  end.

(* C11: callback discipline over a whole observed trace.
   cb = Some (cancelled) for a disconnect, None for a connect. *)
Fixpoint alternate (expect_connect : bool) (cbs : list (option bool)) : bool :=
  match cbs with
  | [] => true
  | None :: r => expect_connect && alternate false r
  | Some _ :: r => negb expect_connect && alternate true r
  end.
(* a cancelled disconnect is the last callback *)
Fixpoint cancelled_last (cbs : list (option bool)) : bool :=
  match cbs with
  | [] => true
  | Some true :: r => match r with [] => true | _ => false end
  | _ :: r => cancelled_last r
  end.

(* ---------- C09: what the panel must receive ---------- *)
(* pieces between line feeds; a stream in which every line is terminated ends with an empty piece *)
Fixpoint split_lf_aux (s : bytes) (cur : bytes) : list bytes :=
  match s with
  | [] => [rev_append cur []]
  | b :: r => if b =? 10 then rev_append cur [] :: split_lf_aux r [] else split_lf_aux r (b :: cur)
  end.
Definition split_lf (s : bytes) : list bytes := split_lf_aux s [].

Fixpoint strip_prefix (p l : list bytes) : option (list bytes) :=
  match p, l with
  | [], _ => Some l
  | x :: p', y :: l' => if bytes_eqb x y then strip_prefix p' l' else None
  | _ :: _, [] => None
  end.

(* [obs] (units: messages or lines) is an interleaving of the submitters' sequences in which
   every submission's units stay together and every submitter's submissions keep their order:
   nothing dropped, duplicated or mixed.  subs : per submitter, its submissions, each a list
   of units.  fuel > total number of submissions. *)
Definition drop_empty (s : list (list bytes)) : list (list bytes) :=
  filter (fun u => match u with [] => false | _ => true end) s.

Fixpoint try_each (rec : list bytes -> list (list (list bytes)) -> bool) (obs : list bytes)
         (before after : list (list (list bytes))) : bool :=
  match after with
  | [] => false
  | s :: r =>
    (match s with
     | u :: s' =>
       match strip_prefix u obs with
       | Some obs' => rec obs' (rev_append before (s' :: r))
       | None => false
       end
     | [] => false
     end) || try_each rec obs (s :: before) r
  end.

Fixpoint merge_ok (fuel : nat) (obs : list bytes) (subs : list (list (list bytes))) : bool :=
  match fuel with
  | O => false
  | S f =>
    let subs' := filter (fun s => match s with [] => false | _ => true end) (map drop_empty subs) in
    match subs' with
    | [] => match obs with [] => true | _ => false end
    | _ => try_each (merge_ok f) obs [] subs'
    end
  end.
