(* Reference reader of the inbound (system -> panel) Raw Panel ASCII grammar: an explicit
   recursive-descent reader over byte lists, written from the protocol description (DESIGN
   section 5, grammar table) and NOT from the library's regular expressions.  A line is
   classified as
     Wf e        well-formed; e = the panel effects it denotes, or one graphics chunk
     Malformed   begins like a grammar line (known keyword / key name) but its arguments are
                 not what the grammar allows: the property says nothing about such lines
     NotGrammar  its keyword or key name is not part of the grammar: must have no effect.
   Numbers are plain decimals (optional '-' where a sign makes sense, no '+'); numeric
   arguments must fit the protocol's 32-bit fields.  JSON lines ('{', '[') and the JSON
   argument of SetNetworkConfig are read by encoding/json, which is an ORACLE here (Section
   variables): their effects are the meaning (Spec/DenoteIn.v) of what the oracle returns.
   The reader keeps its own graphics transfer tracker ([xfer]); it is reader state, not panel
   state.  No proofs here. *)
From RP Require Import Lib.Base Lib.Sexp Lib.Strings Lib.B64 Model.MsgIn Spec.DenoteIn.
From Coq Require Import String.
Open Scope string_scope.
Open Scope list_scope.
Open Scope Z_scope.

(* ---------------------------------------------------------------- lexical helpers *)
Definition is_dig (c : Z) : bool := (48 <=? c) && (c <=? 57).

Fixpoint rd_digits (s : list Z) (acc : Z) : option Z :=
  match s with
  | [] => Some acc
  | c :: r => if is_dig c then rd_digits r (acc * 10 + (c - 48)) else None
  end.
(* one or more digits *)
Definition rd_nat (s : list Z) : option Z := match s with [] => None | _ => rd_digits s 0 end.
(* optional minus sign *)
Definition rd_int (s : list Z) : option Z :=
  match s with
  | 45 :: r => match rd_nat r with Some v => Some (- v) | None => None end
  | _ => rd_nat s
  end.
Definition rd_nat_lt (bound : Z) (s : list Z) : option Z :=
  match rd_nat s with Some n => if n <? bound then Some n else None | None => None end.
Definition two31 : Z := 2147483648.
Definition two32 : Z := 4294967296.
Definition two63 : Z := 9223372036854775808.
Definition rd_int32 (s : list Z) : option Z :=
  match rd_int s with Some v => if (- two31 <=? v) && (v <? two31) then Some v else None | None => None end.

(* pieces between separators; always at least one piece *)
Fixpoint fields (sep : Z) (s : list Z) : list (list Z) :=
  match s with
  | [] => [[]]
  | c :: r =>
    if c =? sep then [] :: fields sep r
    else match fields sep r with f :: fs => (c :: f) :: fs | [] => [[c]] end
  end.

(* split at the first occurrence of a separator *)
Fixpoint cut_at (sep : Z) (s : list Z) : option (list Z * list Z) :=
  match s with
  | [] => None
  | c :: r =>
    if c =? sep then Some ([], r)
    else match cut_at sep r with Some (a, b) => Some (c :: a, b) | None => None end
  end.

Fixpoint all_opt {A} (l : list (option A)) : option (list A) :=
  match l with
  | [] => Some []
  | Some a :: r => match all_opt r with Some t => Some (a :: t) | None => None end
  | None :: _ => None
  end.

(* bit field [lo, lo+n) of a non-negative number *)
Definition bits (v lo n : Z) : Z := (v / 2 ^ lo) mod 2 ^ n.

Definition same (a : list Z) (s : string) : bool := bytes_eqb a (str s).

(* comma-separated component ids *)
Definition rd_ids (s : list Z) : option (list Z) := all_opt (map (rd_nat_lt two32) (fields 44 s)).

(* canonical decimal spelling of a digit string: leading zeros removed *)
Fixpoint strip_zeros (s : list Z) : list Z :=
  match s with
  | 48 :: r => match r with [] => s | _ => strip_zeros r end
  | _ => s
  end.

(* ---------------------------------------------------------------- graphics chunks *)
Record chunk := mkChunk {
  ck_type : Z;                                  (* 0 mono, 1 RGB, 2 gray *)
  ck_ids : list Z;                              (* target id list, as written *)
  ck_targets : list Z;                          (* the ids it names *)
  ck_index : Z;
  ck_header : option (Z * Z * Z * option (Z * Z));   (* last index, W, H, offset: only on chunk 0 *)
  ck_data : list Z }.

Inductive lineeff := LEffs (es : list effect) | LChunk (c : chunk).
Inductive rd := Wf (e : lineeff) | Malformed | NotGrammar.

Record xfer := mkX { x_type : Z; x_ids : list Z; x_targets : list Z; x_next : Z; x_last : Z; x_img : image }.

(* transfer protocol: chunk 0 starts a transfer (dropping any other one); chunks must then
   arrive in order 1, 2, ... for the same pixel format and target list; the chunk carrying
   the announced last index completes the image, which is then shown on every target.
   A chunk for another target or format does not disturb a running transfer; a chunk of the
   running transfer that is not the next one kills it. *)
Definition image_is_empty (i : image) : bool :=
  (i_type i =? 0) && (i_w i =? 0) && (i_h i =? 0) && match i_off i with None => true | Some _ => false end
  && match i_data i with [] => true | _ => false end.

Definition step_chunk (p : panel) (x : option xfer) (c : chunk) : panel * option xfer :=
  let start :=
    if ck_index c =? 0 then
      match ck_header c with
      | Some (last, w, h, off) =>
        Some (mkX (ck_type c) (ck_ids c) (ck_targets c) 0 last (mkImg (ck_type c) w h off []))
      | None => Some (mkX (ck_type c) (ck_ids c) (ck_targets c) 0 2 (mkImg (ck_type c) 64 32 None []))
      end
    else x in
  match start with
  | None => (p, None)
  | Some t =>
    if (x_type t =? ck_type c) && bytes_eqb (x_ids t) (ck_ids c) then
      if ck_index c =? x_next t then
        let img := mkImg (i_type (x_img t)) (i_w (x_img t)) (i_h (x_img t)) (i_off (x_img t))
                         (i_data (x_img t) ++ ck_data c) in
        if ck_index c =? x_last t then
          (* an image without any content (mono, 0x0, no offset, no data) shows nothing *)
          ((if image_is_empty img then p else apply_eff p (EState (x_targets t) (UGfx img))), None)
        else (p, Some (mkX (x_type t) (x_ids t) (x_targets t) (x_next t + 1) (x_last t) img))
      else (p, None)
    else (p, start)
  end.

(* N,WxH or N,WxH,X,Y *)
Definition rd_header (s : list Z) : option (Z * Z * Z * option (Z * Z)) :=
  let wh (t : list Z) :=
    match cut_at 120 t with
    | Some (w, h) => match rd_nat_lt two32 w, rd_nat_lt two32 h with Some w', Some h' => Some (w', h') | _, _ => None end
    | None => None
    end in
  match fields 44 s with
  | [n; t] =>
    match rd_nat_lt two63 n, wh t with Some n', Some (w, h) => Some (n', w, h, None) | _, _ => None end
  | [n; t; x; y] =>
    match rd_nat_lt two63 n, wh t, rd_nat_lt two32 x, rd_nat_lt two32 y with
    | Some n', Some (w, h), Some x', Some y' => Some (n', w, h, Some (x', y'))
    | _, _, _, _ => None
    end
  | _ => None
  end.

(* after the keyword: ids=index[/header]:base64 *)
Definition rd_chunk (ty : Z) (s : list Z) : option lineeff :=
  match cut_at 61 s with
  | Some (idtext, rest) =>
    match rd_ids idtext, cut_at 58 rest with
    | Some ids, Some (head, payload) =>
      if bytes_eqb (b64_encode (b64_decode payload)) payload then
        match cut_at 47 head with
        | None =>
          match rd_nat_lt two63 head with
          | Some k => Some (LChunk (mkChunk ty idtext ids k None (b64_decode payload)))
          | None => None
          end
        | Some (ix, hdr) =>
          match rd_nat_lt two63 ix, rd_header hdr with
          | Some k, Some h => if k =? 0 then Some (LChunk (mkChunk ty idtext ids 0 (Some h) (b64_decode payload))) else None
          | _, _ => None
          end
        end
      else None
    | _, _ => None
    end
  | None => None
  end.

(* ---------------------------------------------------------------- HWCt# : the 21 fields *)
Definition fld (fs : list (list Z)) (k : nat) : list Z := nth k fs [].
(* an omitted / empty numeric field is 0 *)
Definition num_fld (fs : list (list Z)) (k : nat) : option Z :=
  match fld fs k with [] => Some 0 | s => rd_nat_lt two31 s end.
Definition int_fld (fs : list (list Z)) (k : nat) : option Z :=
  match fld fs k with [] => Some 0 | s => rd_int32 s end.

(* field 19 / 20: 0 = not set; bit 6 set: rrggbb; else index in bits 4-0 (index 0 = default) *)
Definition text_colour (v : Z) : option colour :=
  if v =? 0 then None
  else if bits v 6 1 =? 1 then Some (CRgb (bits v 4 2) (bits v 2 2) (bits v 0 2))
  else let i := bits v 0 5 in if i =? 0 then None else Some (CIndex i).

Definition rd_text (fs : list (list Z)) : option ntext :=
  if (21 <? Z.of_nat (List.length fs)) then None else
  match num_fld fs 1, num_fld fs 2, num_fld fs 4, int_fld fs 7, num_fld fs 8, num_fld fs 9 with
  | Some f1, Some icons, Some islabel, Some v2, Some p8, Some sct =>
    match int_fld fs 10, int_fld fs 11, int_fld fs 12, int_fld fs 13 with
    | Some rlo, Some rhi, Some llo, Some lhi =>
      match num_fld fs 15, num_fld fs 16, num_fld fs 17, num_fld fs 18, num_fld fs 19, num_fld fs 20 with
      | Some faces, Some sizes, Some adv, Some inv, Some pix, Some bg =>
        (* an empty value with format 0 means "hide" *)
        let fmt := if nilb (fld fs 0) && (f1 =? 0) then 7 else f1 in
        let size := fmt_is_size fmt in
        (* field 0 is a font size with formats 10 / 11, a signed value otherwise *)
        match (if size then match fld fs 0 with [] => Some 0 | s => rd_nat_lt two32 s end else int_fld fs 0) with
        | Some v0 =>
          let title := fld fs 3 in
          let second := negb (nilb (fld fs 6)) || negb (nilb (fld fs 7)) in
          Some (mkNT fmt
                     (if (fmt =? 7) || size then None else Some v0)
                     (if size then Some v0 else None)
                     (bits icons 0 2) (bits icons 3 3) title
                     ((islabel =? 0) && negb (nilb title) && negb size)
                     (fld fs 5) (fld fs 6) v2
                     (if size then 0 else if second && (p8 =? 0) then 1 else p8)
                     (if sct >? 0 then Some (sct, rlo, rhi, llo, lhi) else None)
                     (bits faces 0 3) (bits sizes 0 2) (bits sizes 2 2)
                     (bits faces 3 3) (bits sizes 4 2) (bits sizes 6 2)
                     (bits faces 6 1 =? 1) (bits adv 0 2) (bits adv 2 3)
                     (inv >? 0) (text_colour pix) (text_colour bg))
        | None => None
        end
      | _, _, _, _, _, _ => None
      end
    | _, _, _, _ => None
    end
  | _, _, _, _, _, _ => None
  end.

(* ---------------------------------------------------------------- state lines: ids=value *)
Definition rd_state_line (val : list Z -> option upd) (s : list Z) : option lineeff :=
  match cut_at 61 s with
  | Some (idtext, v) =>
    match rd_ids idtext, val v with
    | Some ids, Some u => Some (LEffs [EState ids u])
    | _, _ => None
    end
  | None => None
  end.

Definition val_mode (v : list Z) : option upd :=
  match rd_nat_lt two63 v with
  | Some n => Some (UMode (bits n 0 4) (bits n 5 1 =? 1) (bits n 8 4))
  | None => None end.
(* bit 7 ("readability") carries no meaning *)
Definition val_colour (v : list Z) : option upd :=
  match rd_nat_lt two63 v with
  | Some n => Some (UColour (if bits n 6 1 =? 1 then CRgb (bits n 4 2) (bits n 2 2) (bits n 0 2)
                             else CIndex (bits n 0 5)))
  | None => None end.
Definition val_ext (v : list Z) : option upd :=
  match rd_nat_lt two63 v with
  | Some n => Some (UExt (bits n 12 4) (bits n 0 12))
  | None => None end.
Definition val_text (v : list Z) : option upd :=
  match rd_text (fields 124 v) with Some t => Some (UText t) | None => None end.
Definition val_adc (v : list Z) : option upd :=
  match rd_nat_lt two63 v with Some n => Some (UAdc (n =? 1)) | None => None end.

(* ---------------------------------------------------------------- commands with argument *)
Definition one_cmd (c : cmd) : option lineeff := Some (LEffs [ECmd c]).
Definition rd_num (k : numkw) (bound : Z) (s : list Z) : option lineeff :=
  match rd_nat_lt bound s with Some n => one_cmd (CNum k n) | None => None end.
Definition rd_onoff (k : numkw) (s : list Z) : option lineeff :=
  match rd_nat_lt two63 s with Some n => one_cmd (CNum k (if n >? 0 then 1 else 0)) | None => None end.
Definition rd_bright (s : list Z) : option lineeff :=
  match map (rd_nat_lt two32) (fields 44 s) with
  | [Some a] => one_cmd (CBright a a)
  | [Some a; Some b] => one_cmd (CBright a b)
  | _ => None
  end.
Definition rd_simenv (s : list Z) : option lineeff :=
  if same s "Normal" then one_cmd (CSimEnv 0)
  else if same s "Safemode" then one_cmd (CSimEnv 1)
  else if same s "Blocked" then one_cmd (CSimEnv 2) else None.

(* ---------------------------------------------------------------- registers *)
Definition is_regch (c : Z) : bool := ((65 <=? c) && (c <=? 90)) || is_dig c.
Definition rd_reg (kind : Z) (s : list Z) : option lineeff :=
  match cut_at 61 s with
  | Some (id, v) =>
    if forallb is_regch id then
      match rd_nat_lt two32 v with Some n => Some (LEffs [EReg kind id n]) | None => None end
    else None
  | None => None
  end.
Definition rd_flag (s : list Z) : option lineeff :=
  match cut_at 61 s with
  | Some (id, v) =>
    match rd_nat_lt two63 id, rd_nat_lt two63 v with
    | Some _, Some n => Some (LEffs [EReg 1 (strip_zeros id) (if n >? 0 then 1 else 0)])
    | _, _ => None
    end
  | None => None
  end.

(* ---------------------------------------------------------------- the grammar table *)
Definition bare_words : list (string * cmd) :=
  [("ping", CFlow 1); ("ack", CFlow 2); ("nack", CFlow 3);
   ("ActivePanel=1", CBare KActivePanel); ("list", CBare KList); ("map", CBare KMap);
   ("PanelTopology?", CBare KTopology); ("BurninProfile?", CBare KBurnin);
   ("CalibrationProfile?", CBare KCalibration); ("NetworkConfig?", CBare KNetworkConfig);
   ("Registers?", CBare KRegisters); ("Connections?", CBare KConnections);
   ("RunTimeStats?", CBare KRunTimeStats); ("Clear", CBare KClear); ("ClearLEDs", CBare KClearLEDs);
   ("ClearDisplays", CBare KClearDisplays); ("SleepTimer?", CBare KGetSleepTimer);
   ("WakeUp!", CBare KWakeUp); ("Reboot", CBare KReboot)].

Fixpoint find_bare (t : list (string * cmd)) (l : list Z) : option cmd :=
  match t with
  | [] => None
  | (w, c) :: r => if same l w then Some c else find_bare r l
  end.

Section Reader.
  (* encoding/json oracles: a '{' line as one HWCState, a '[' line as a list of messages
     (null elements = None), the argument of SetNetworkConfig as a configuration *)
  Variable json_state : list Z -> HWCState.
  Variable json_msgs : list Z -> list (option InboundMessage).
  Variable nc_parse : list Z -> option (list Z).

  Definition rd_setnet (s : list Z) : option lineeff :=
    match nc_parse s with Some cfg => one_cmd (CSetNet cfg) | None => None end.

  (* key names / keywords that take arguments: what follows the prefix is read by the parser *)
  Definition prefix_table : list (string * (list Z -> option lineeff)) :=
    [("HWC#", rd_state_line val_mode); ("HWCc#", rd_state_line val_colour);
     ("HWCx#", rd_state_line val_ext); ("HWCt#", rd_state_line val_text);
     ("HWCrawADCValues#", rd_state_line val_adc);
     ("HWCg#", rd_chunk 0); ("HWCgRGB#", rd_chunk 1); ("HWCgGray#", rd_chunk 2);
     ("HeartBeatTimer=", rd_num NHeartBeatTimer two32); ("DimmedGain=", rd_num NDimmedGain two32);
     ("PublishSystemStat=", rd_num NPublishSystemStat two32); ("LoadCPU=", rd_num NLoadCPU two31);
     ("SleepTimer=", rd_num NSleepTimer two32); ("SleepMode=", rd_num NSleepMode two31);
     ("SleepScreenSaver=", rd_num NSleepScreenSaver two31);
     ("Webserver=", rd_onoff NWebserver); ("JSONonOutbound=", rd_onoff NJSONonOutbound);
     ("PanelBrightness=", rd_bright);
     ("SetCalibrationProfile=", fun s => one_cmd (CSetCal s));
     ("SetNetworkConfig=", rd_setnet);
     ("SimulateEnvironmentalHealth=", rd_simenv);
     ("Mem", rd_reg 0); ("Shift", rd_reg 2); ("State", rd_reg 3); ("Flag#", rd_flag)].

  Fixpoint by_prefix (t : list (string * (list Z -> option lineeff))) (l : list Z) : rd :=
    match t with
    | [] => NotGrammar
    | (pre, f) :: r =>
      match drop_prefix (str pre) l with
      | Some rest => match f rest with Some e => Wf e | None => Malformed end
      | None => by_prefix r l
      end
    end.

  Definition in_read (l : list Z) : rd :=
    if existsb (Z.eqb 10) l then Malformed     (* not a line *)
    else match l with
    | [] => Wf (LEffs [])
    | c :: _ =>
      if c =? 123 then Wf (LEffs (den_state (json_state l)))
      else if c =? 91 then Wf (LEffs (den_msgs (filter_some (json_msgs l))))
      else match find_bare bare_words l with
      | Some cm => Wf (LEffs [ECmd cm])
      | None => by_prefix prefix_table l
      end
    end.

  (* the reader's state: the panel it drives and its transfer tracker *)
  Definition sem_in_line (st : panel * option xfer) (l : list Z) : panel * option xfer :=
    match in_read l with
    | Wf (LEffs es) => (apply_effs (fst st) es, snd st)
    | Wf (LChunk c) => step_chunk (fst st) (snd st) c
    | Malformed | NotGrammar => st
    end.
  Definition sem_in_lines (st : panel * option xfer) (ls : list (list Z)) : panel * option xfer :=
    fold_left sem_in_line ls st.

  Definition wf_in_line (l : list Z) : bool := match in_read l with Wf _ => true | _ => false end.
  Definition nongrammar (l : list Z) : bool := match in_read l with NotGrammar => true | _ => false end.
End Reader.
