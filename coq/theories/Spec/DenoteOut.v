(* What an outbound (panel -> system) message MEANS, independently of how the library
   encodes it: the list of reports it carries, in message order.  No proofs.

   report      = flow word | event | availability-map entry | information item | capability
                 list | system statistics | register.
   den_out m   = the reports of one message: flow word, panel identity items, topology and
                 profile payloads, sleep / heartbeat / dimming, connections, run-time
                 statistics, messages, the availability map entries, environmental health,
                 system statistics, then the events in order (an event record carrying several
                 kinds reports them as binary, pulsed, absolute, speed, raw), then the registers.
   proto3 scalars have no presence: inside PanelInfo, PanelTopology and RunTimeStats a field
   with its default value ("" / 0 / false / UNKNOWN) is the same information as no field.
   A float32 statistic is reported as the decimal number its value rounds to (half-even) at
   the protocol's precision: tenths of a degree, hundredths of a volt.
   reports_equiv = equality of report sequences, except that the map entries of ONE message
                 (a Go map: no order) may appear in any order within that message's block. *)
From RP Require Import Lib.Base Lib.FloatFmt Model.MsgOut.
From Coq Require Import Permutation.
Open Scope Z_scope.

Inductive okey :=
| KModel | KSerial | KVersion | KName | KPlatform | KBluePill | KMaxClients | KLockIP | KPanelType
| KTopoSvg | KTopoJson | KBurnin | KNetCfg | KCalib | KDefCalib | KSleepTimer | KSleeping | KHeartBeat
| KDimmed | KConnections | KBoots | KTotalUp | KSessionUp | KScreenSaver | KErrorMsg | KMsg | KHealth.

Inductive evkind := EDown | EUp | EEnc | EAbs | ESpeed | ERaw.

Inductive report :=
| RFlow (w : Z)                          (* 1 ping, 2 ack, 3 nack, 4 BSY, 5 RDY, 100 list *)
| REvent (id : Z) (k : evkind) (arg : Z) (* Down/Up: arg = edge; otherwise arg = value *)
| RMap (k v : Z)
| RStr (k : okey) (v : bytes)
| RNum (k : okey) (v : Z)
| RList (k : okey) (v : list bytes)
| RCaps (c : list bool)                  (* 13 flags in the order of MsgOut.cap_names *)
| RSys (cpu t10 e10 v100 : Z) (ints : list Z) (flags : list bool)
| RReg (kind : Z) (id : bytes) (v : Z).  (* 0 Mem, 1 Flag, 2 Shift, 3 State *)

(* ---------------------------------------------------------------- den_out *)
Definition nonempty_str (k : okey) (v : bytes) : list report := match v with [] => [] | _ => [RStr k v] end.
Definition nonzero_num (k : okey) (v : Z) : list report := if v =? 0 then [] else [RNum k v].

Definition den_flow (w : Z) : list report :=
  if (w =? 1) || (w =? 2) || (w =? 3) || (w =? 4) || (w =? 5) || (w =? 100) then [RFlow w] else [].

Definition den_pinfo (p : panel_info) : list report :=
  nonempty_str KModel (pi_model p) ++ nonempty_str KSerial (pi_serial p) ++ nonempty_str KVersion (pi_version p) ++
  nonempty_str KName (pi_name p) ++ nonempty_str KPlatform (pi_platform p) ++
  (if pi_bpr p then [RNum KBluePill 1] else []) ++
  nonzero_num KMaxClients (pi_maxclients p) ++
  (match pi_locked p with [] => [] | l => [RList KLockIP l] end) ++
  nonzero_num KPanelType (pi_type p) ++
  (match pi_support p with Some c => [RCaps c] | None => [] end).

Definition den_sys (s : sys_stat) : report :=
  RSys (ss_cpu s) (f32_scaled 1 (ss_temp s)) (f32_scaled 1 (ss_ext s)) (f32_scaled 2 (ss_volt s)) (ss_ints s) (ss_flags s).

Definition den_event (e : hwc_event) : list report :=
  (match ev_bin e with Some b => [REvent (ev_id e) (if be_pressed b then EDown else EUp) (be_edge b)] | None => [] end) ++
  (match ev_pulsed e with Some v => [REvent (ev_id e) EEnc v] | None => [] end) ++
  (match ev_abs e with Some (v, _) => [REvent (ev_id e) EAbs v] | None => [] end) ++
  (match ev_speed e with Some (v, _) => [REvent (ev_id e) ESpeed v] | None => [] end) ++
  (match ev_raw e with Some v => [REvent (ev_id e) ERaw v] | None => [] end).

Definition den_opt {A} (o : option A) (f : A -> list report) : list report :=
  match o with Some a => f a | None => [] end.

(* reports before the map block / the map block / after it *)
Definition den_pre (m : out_msg) : list report :=
  den_flow (om_flow m) ++
  den_opt (om_pinfo m) den_pinfo ++
  den_opt (om_topo m) (fun t => nonempty_str KTopoSvg (fst t) ++ nonempty_str KTopoJson (snd t)) ++
  den_opt (om_burnin m) (fun j => [RStr KBurnin j]) ++
  den_opt (om_netcfg m) (fun j => [RStr KNetCfg j]) ++
  den_opt (om_calib m) (fun j => [RStr KCalib j]) ++
  den_opt (om_defcalib m) (fun j => [RStr KDefCalib j]) ++
  den_opt (om_sleept m) (fun v => [RNum KSleepTimer v]) ++
  den_opt (om_sleeps m) (fun v => [RNum KSleeping (if v then 1 else 0)]) ++
  den_opt (om_hb m) (fun v => [RNum KHeartBeat v]) ++
  den_opt (om_dim m) (fun v => [RNum KDimmed v]) ++
  den_opt (om_conn m) (fun l => [RList KConnections l]) ++
  den_opt (om_rts m) (fun r => match r with (a, b, c, d) =>
     nonzero_num KBoots a ++ nonzero_num KTotalUp b ++ nonzero_num KSessionUp c ++ nonzero_num KScreenSaver d end) ++
  den_opt (om_err m) (fun s => [RStr KErrorMsg s]) ++
  den_opt (om_msg m) (fun s => [RStr KMsg s]).

Definition den_map (m : out_msg) : list report := map (fun kv => RMap (fst kv) (snd kv)) (om_map m).

Definition den_post (m : out_msg) : list report :=
  den_opt (om_health m) (fun r => [RNum KHealth r]) ++
  den_opt (om_sys m) (fun s => [den_sys s]) ++
  flat_map (fun e => den_opt e den_event) (om_events m) ++
  flat_map (fun r => den_opt r (fun x => [RReg (rg_kind x) (rg_id x) (rg_val x)])) (om_regs m).

Definition den_out (m : out_msg) : list report := den_pre m ++ den_map m ++ den_post m.

(* ---------------------------------------------------------------- equality of reports *)
Definition okey_code (k : okey) : Z :=
  match k with
  | KModel => 0 | KSerial => 1 | KVersion => 2 | KName => 3 | KPlatform => 4 | KBluePill => 5 | KMaxClients => 6
  | KLockIP => 7 | KPanelType => 8 | KTopoSvg => 9 | KTopoJson => 10 | KBurnin => 11 | KNetCfg => 12 | KCalib => 13
  | KDefCalib => 14 | KSleepTimer => 15 | KSleeping => 16 | KHeartBeat => 17 | KDimmed => 18 | KConnections => 19
  | KBoots => 20 | KTotalUp => 21 | KSessionUp => 22 | KScreenSaver => 23 | KErrorMsg => 24 | KMsg => 25 | KHealth => 26
  end.
Definition okey_eqb (a b : okey) : bool := okey_code a =? okey_code b.
Definition evkind_code (k : evkind) : Z :=
  match k with EDown => 0 | EUp => 1 | EEnc => 2 | EAbs => 3 | ESpeed => 4 | ERaw => 5 end.
Definition evkind_eqb (a b : evkind) : bool := evkind_code a =? evkind_code b.

Definition report_eqb (a b : report) : bool :=
  match a, b with
  | RFlow x, RFlow y => x =? y
  | REvent i k v, REvent i' k' v' => (i =? i') && evkind_eqb k k' && (v =? v')
  | RMap k v, RMap k' v' => (k =? k') && (v =? v')
  | RStr k v, RStr k' v' => okey_eqb k k' && bytes_eqb v v'
  | RNum k v, RNum k' v' => okey_eqb k k' && (v =? v')
  | RList k v, RList k' v' => okey_eqb k k' && list_eqb bytes_eqb v v'
  | RCaps c, RCaps c' => list_eqb Bool.eqb c c'
  | RSys a1 a2 a3 a4 i f, RSys b1 b2 b3 b4 i' f' =>
    (a1 =? b1) && (a2 =? b2) && (a3 =? b3) && (a4 =? b4) && list_eqb Z.eqb i i' && list_eqb Bool.eqb f f'
  | RReg k i v, RReg k' i' v' => (k =? k') && bytes_eqb i i' && (v =? v')
  | _, _ => false
  end.

Definition is_map_report (r : report) : bool := match r with RMap _ _ => true | _ => false end.

(* ---------------------------------------------------------------- equivalence *)
(* one message's block: equal except for the order of its map entries *)
Definition block_equiv (a b : list report) : Prop :=
  exists pre m1 m2 post,
    a = pre ++ m1 ++ post /\ b = pre ++ m2 ++ post /\ Permutation m1 m2 /\
    Forall (fun r => is_map_report r = true) m1.

(* observed report stream [rs] against the per-message blocks *)
Definition reports_equiv (rs : list report) (blocks : list (list report)) : Prop :=
  exists rss, rs = concat rss /\ Forall2 block_equiv rss blocks.

(* executable versions (the search oracle) *)
Fixpoint remove_first (x : report) (l : list report) : option (list report) :=
  match l with
  | [] => None
  | y :: r => if report_eqb x y then Some r else match remove_first x r with Some r' => Some (y :: r') | None => None end
  end.
Fixpoint perm_eqb (a b : list report) : bool :=
  match a with
  | [] => match b with [] => true | _ => false end
  | x :: a' => match remove_first x b with Some b' => perm_eqb a' b' | None => false end
  end.

(* strip the common prefix *)
Fixpoint strip_common (a b : list report) : list report * list report :=
  match a, b with
  | x :: a', y :: b' => if report_eqb x y then strip_common a' b' else (a, b)
  | _, _ => (a, b)
  end.

Definition block_equivb (a b : list report) : bool :=
  let '(a1, b1) := strip_common a b in
  let '(a2, b2) := strip_common (rev a1) (rev b1) in
  forallb is_map_report a2 && perm_eqb a2 b2.

Fixpoint reports_equivb (rs : list report) (blocks : list (list report)) : bool :=
  match blocks with
  | [] => match rs with [] => true | _ => false end
  | b :: bs =>
    let n := length b in
    (length b <=? length rs)%nat && block_equivb (firstn n rs) b && reports_equivb (skipn n rs) bs
  end.
