(* What C15 says about the nodes added to the base document, written from the property text:
   for each component that is not masked out, in component order, exactly one main shape
   identified as that component (rectangle centred on the coordinates when the resolved type
   has a height, else a circle of half the width), then its sub-shapes, label lines, optional
   development texts and the id text; masked components contribute nothing.
   The description is PARTIAL on purpose (identity, kind, geometry, texts, counts, order);
   cosmetic attributes are left to the model comparison.  Boolean = the oracle judged on the
   IMPLEMENTATION's re-parsed output.  No proofs. *)
From RP Require Import Lib.Base Lib.Sexp Lib.Strings Model.Topo Model.TopoSvg Spec.Topo.
From Coq Require Import String.
Local Open Scope string_scope.
Open Scope Z_scope.

Fixpoint assoc (k : list Z) (l : list (list Z * list Z)) : option (list Z) :=
  match l with
  | [] => None
  | (k', v) :: r => if bytes_eqb k' k then Some v else assoc k r
  end.
Definition get_attr (k : string) (n : node) : option (list Z) := assoc (str k) (nAttrs n).
Definition has_attr (k : string) (n : node) : bool := match get_attr k n with Some _ => true | None => false end.

(* what the text demands of one node *)
Record want : Type := Want {
  wName : string;
  wAttrs : list (string * list Z);     (* attributes that must be present with exactly this value *)
  wText : option (list Z);             (* text content, where the text fixes it *)
  wIsMain : bool;                      (* carries the component identity (an id attribute) *)
  wRot : option bool }.                (* Some b: a rotation transform is present iff b *)

Definition opt_bytes_eqb (a b : option (list Z)) : bool :=
  match a, b with Some x, Some y => bytes_eqb x y | None, None => true | _, _ => false end.

Definition node_meets (w : want) (n : node) : bool :=
  bytes_eqb (nName n) (str (wName w)) &&
  forallb (fun kv => opt_bytes_eqb (get_attr (fst kv) n) (Some (snd kv))) (wAttrs w) &&
  (match wText w with Some t => bytes_eqb (nText n) t | None => true end) &&
  Bool.eqb (has_attr "id" n) (wIsMain w) &&
  (match wRot w with Some b => Bool.eqb (has_attr "transform" n) b | None => true end).

Definition half (z : Z) : Z := Z.quot z 2.     (* Go's integer division truncates *)

Definition want_main (h : hwc) (d : typedef) : want :=
  let rot := Some (ne_rot (tRotate d)) in
  let idv := (str "HWc" ++ itoa (hId h))%list in
  if 0 <? tH d then
    Want "rect" [("x", itoa (hX h - half (tW d))); ("y", itoa (hY h - half (tH d)));
                 ("width", itoa (tW d)); ("height", itoa (tH d)); ("id", idv)] None true rot
  else
    Want "circle" [("cx", itoa (hX h)); ("cy", itoa (hY h)); ("r", itoa (half (tW d))); ("id", idv)] None true rot.

Definition want_sub (h : hwc) (d : typedef) (s : subel) : list want :=
  let rot := Some (ne_rot (tRotate d)) in
  if bytes_eqb (sObj s) (str "r") then
    [Want "rect" [("x", itoa (hX h + sX s)); ("y", itoa (hY h + sY s)); ("width", itoa (sW s)); ("height", itoa (sH s))]
          None false rot]
  else if bytes_eqb (sObj s) (str "c") then
    [Want "circle" [("cx", itoa (hX h + sX s)); ("cy", itoa (hY h + sY s)); ("r", itoa (sR s))] None false rot]
  else [].

Definition render_has (d : typedef) (w : string) : bool :=
  existsb (fun e => bytes_eqb e (str w)) (split_on 44 (tRender d)).

(* the label: one line, or two when the part after the first "|" is not empty *)
Definition label_parts (txt : list Z) : list (list Z) :=
  let sp := split_on 124 txt in
  let second := nth 1 sp [] in
  if negb (zlen second =? 0) then [hd [] sp; second] else [hd [] sp].

Definition want_labels (o : opts) (h : hwc) (d : typedef) : list want :=
  if oLabels o || render_has d "txt" then
    map (fun line => Want "text" [("x", itoa (hX h))] (Some line) false None) (label_parts (hTxt h))
  else [].

Definition want_type (o : opts) (h : hwc) : list want :=
  if oType o then [Want "text" [("x", itoa (hX h))] (Some (str "[TYPE=" ++ itoa (hType h) ++ str "]")%list) false None]
  else [].

Definition want_dispsize (o : opts) (d : typedef) : list want :=
  match tDisp d with
  | Some dp =>
    if oDispSize o then
      [Want "text" [] (Some (itoa (dW dp) ++ str "x" ++ itoa (dH dp)
                             ++ (if zlen (dType dp) =? 0 then [] else 32 :: dType dp))%list) false None]
    else []
  | None => []
  end.

Definition want_id (o : opts) (h : hwc) (d : typedef) : list want :=
  if oHWCID o || render_has d "hwcid" then [Want "text" [] (Some (itoa (hId h))) false None] else [].

Definition want_comp (o : opts) (t : topology) (h : hwc) : list want :=
  let d := resolve_spec (base_of t h) (hOv h) in
  (want_main h d :: flat_map (want_sub h d) (tSub d) ++ want_labels o h d ++ want_type o h
   ++ want_dispsize o d ++ want_id o h d)%list.

(* not masked out: no map, or a non-zero map entry *)
Definition visible (m : option (list (Z * Z))) (h : hwc) : bool :=
  match m with
  | None => true
  | Some l => existsb (fun e => (fst e =? hId h) && negb (snd e =? 0)) l
  end.

Fixpoint meets_all (ws : list want) (ns : list node) : bool :=
  match ws, ns with
  | [], [] => true
  | w :: ws', n :: ns' => node_meets w n && meets_all ws' ns'
  | _, _ => false
  end.

(* the whole appended node list *)
Definition svg_ok (o : opts) (t : topology) (m : option (list (Z * Z))) (ns : list node) : bool :=
  meets_all (flat_map (want_comp o t) (filter (visible m) (tpHWc t))) ns.
