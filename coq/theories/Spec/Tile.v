(* C18 specification: what the property text says about a rendered tile, written against
   the OUTPUT (pixel buffer, reported colours, reported text metrics) and the INPUT (text
   state, geometry) only - not against how the renderer works.  Everything is boolean and
   executable: the same definitions are the theorems' statements (Props/C18.v) and the
   oracle that judges the implementation's output (Run/C18.v).  No proofs. *)
From RP Require Import Lib.Base Lib.Utf8 Gen.Tables Model.Mono Model.Tile Spec.Clip.

(* ---- geometry: the active area left by shrink and border ----
   border pixels are cut on all four sides; shrink bit 0 cuts one column on the right,
   bit 1 one row at the bottom. *)
Definition shrink_w (shrink : Z) : Z := if Z.testbit shrink 0 then 1 else 0.
Definition shrink_h (shrink : Z) : Z := if Z.testbit shrink 1 then 1 else 0.

Definition active (W H shrink border c r : Z) : bool :=
  (border <=? c) && (c <? W - border) && (c <? W - shrink_w shrink) &&
  (border <=? r) && (r <? H - border) && (r <? H - shrink_h shrink).

(* width / height of that rectangle (may be <= 0: nothing is active) *)
Definition active_w (W shrink border : Z) : Z := Z.min (W - border) (W - shrink_w shrink) - border.
Definition active_h (H shrink border : Z) : Z := Z.min (H - border) (H - shrink_h shrink) - border.

Definition wib_of (W : Z) : Z := (W + 7) / 8.

(* ---- size ---- *)
Definition size_ok (W H iw ih : Z) (d : list Z) : bool :=
  (iw =? W) && (ih =? H) && (zlen d =? wib_of W * H) && bytes_ok d.

(* ---- clip: a non-inverted tile lights nothing outside the active area (padding bits included) ---- *)
Definition clip_ok (W H shrink border : Z) (d : list Z) : bool :=
  all_cells (wib_of W) H (fun c r => active W H shrink border c r || negb (px (wib_of W) d c r)).

(* ---- inversion: complement over [0,W) x [0,H); padding bits equal ---- *)
Definition inversion_ok (W H : Z) (dn di : list Z) : bool :=
  (zlen di =? zlen dn) &&
  all_cells (wib_of W) H (fun c r =>
    Bool.eqb (px (wib_of W) di c r) (if c <? W then negb (px (wib_of W) dn c r) else px (wib_of W) dn c r)).

(* ---- colours ---- *)
Definition quant2 (x : Z) : Z := Z.min x 255 / 85.                 (* 8 bit -> 2 bit per channel *)
Definition chan5 (v : Z) : Z := nth (Z.to_nat v) [0; 10; 20; 31] 0.   (* 2 bit -> 5 bit full scale *)
Definition chan6 (v : Z) : Z := nth (Z.to_nat v) [0; 21; 42; 63] 0.
(* xxrrggbb -> bbbbbggg gggrrrrr *)
Definition rgb565_of6 (c : Z) : Z :=
  chan5 (c mod 4) * 2048 + chan6 ((c / 4) mod 4) * 32 + chan5 ((c / 16) mod 4).

(* the colour a state requests; [None] = the state makes no well-formed request
   (a Color message carrying both or neither alternative) and nothing is claimed *)
Definition requested (o : option mcolor) (dflt : Z) : option Z :=
  match o with
  | None => Some dflt
  | Some c =>
    match c_rgb c, c_idx c with
    | Some (r, g, b), None => Some (rgb565_of6 (quant2 r * 16 + quant2 g * 4 + quant2 b))
    | None, Some i =>
      let k := i mod 32 in
      Some (rgb565_of6 (nth (Z.to_nat (if k <? zlen button_colors then k else 0)) button_colors 0))
    | _, _ => None
    end
  end.

Definition colour_matches (req : option Z) (got : Z) : bool :=
  match req with Some v => got =? v | None => true end.

Definition colours_ok (t : mtext) (pixc bckg : Z) : bool :=
  colour_matches (requested (x_pix t) 65535) pixc && colour_matches (requested (x_bg t) 0) bckg.

(* the RGB export: two bytes per pixel, row-major, lit -> pixel colour, unlit -> background *)
Definition rgb_expected (W H : Z) (d : list Z) (pixc bckg : Z) : list Z :=
  flat_map (fun r =>
    flat_map (fun c =>
      let col := if px (wib_of W) d (Z.of_nat c) (Z.of_nat r) then pixc else bckg in
      [col / 256; col mod 256])
    (seq 0 (Z.to_nat W))) (seq 0 (Z.to_nat H)).
Definition rgb_ok (W H : Z) (d : list Z) (pixc bckg : Z) (rgb : list Z) : bool :=
  bytes_eqb rgb (rgb_expected W H d pixc bckg).

(* ---- one/two-line centring ----
   The text extent is computed HERE, from the state alone - never taken from what the
   implementation reports: formats 10/11 render with the text font (faces 1 = 8x8, 2 = 5x5,
   everything else the default 5x7), horizontal/vertical size = TextWidth/TextHeight (2 bits)
   when non-zero, else UnformattedFontSize limited to 1..4; default proportional mode = not
   fixed width, no extra spacing.  The width of a line is the sum of the glyph advances of
   the RUNES the string decodes to (each truncated to a byte, as the glyph code sees it),
   minus one size step - Mono.str_width on the regenerated font tables (C20).
   [sw] = that width, [lh] = line height, [sh] = horizontal size step.
   The metric box of width sw is centred in the active area: margins differ by at most one;
   all ink of the line lies in the box extended by one size step (C20's box). *)
Definition no_lf_str (s : list Z) : bool := negb (existsb (Z.eqb 10) (range_bytes s)).

Definition text_font_of (t : mtext) : mfont :=
  match x_style t with
  | Some st => match s_text st with Some f => f | None => mkFont 0 0 0 end
  | None => mkFont 0 0 0
  end.
Definition ufs_of (t : mtext) : Z := match x_style t with Some st => s_ufs st | None => 0 end.
Definition clamp14 (x : Z) : Z := Z.max 1 (Z.min x 4).

Definition centre_tstate (t : mtext) : tstate :=
  let f := text_font_of t in
  let face := f_face f mod 8 in
  let size0 := clamp14 (ufs_of t) in
  let sh := if 0 <? f_w f mod 4 then f_w f mod 4 else size0 in
  let sv := if 0 <? f_h f mod 4 then f_h f mod 4 else size0 in
  mkT (if face =? 1 then 1 else if face =? 2 then 2 else 0) true 0 0 0 true true sh sv false.

Definition line_width (t : mtext) (s : list Z) : Z := str_width (centre_tstate t) s.
Definition line_h (t : mtext) : Z := line_height (centre_tstate t).
Definition size_step (t : mtext) : Z := tsh (centre_tstate t).

Definition ink_within (W H : Z) (d : list Z) (rlo rhi clo chi : Z) : bool :=
  all_cells (wib_of W) H (fun c r =>
    negb ((rlo <=? r) && (r <? rhi) && px (wib_of W) d c r) || ((clo <=? c) && (c <? chi))).

(* columns allowed for a centred line: margins floor/ceil of (aw - sw)/2 *)
Definition centred_cols (border aw sw sh : Z) : Z * Z :=
  (border + (aw - sw) / 2, border + (aw - sw + 1) / 2 + sw + sh).

Definition plain_mode (t : mtext) : bool :=
  match x_style t with
  | None => true
  | Some s => negb (s_fixed s) && (s_spacing s =? 0)
  end.

Definition oneline_applies (t : mtext) (aw ah sw lh : Z) : bool :=
  (x_fmt t =? 10) && plain_mode t && no_lf_str (x_title t) && (0 <=? sw) && (sw <=? aw) && (lh <=? ah).
Definition oneline_ok_m (t : mtext) (W H shrink border : Z) (d : list Z) (sw lh sh : Z) : bool :=
  let aw := active_w W shrink border in
  let ah := active_h H shrink border in
  negb (oneline_applies t aw ah sw lh) ||
  let '(clo, chi) := centred_cols border aw sw sh in ink_within W H d 0 H clo chi.
Definition oneline_ok (t : mtext) (W H shrink border : Z) (d : list Z) : bool :=
  oneline_ok_m t W H shrink border d (line_width t (x_title t)) (line_h t) (size_step t).

Definition twoline_applies (t : mtext) (aw ah sw1 sw2 lh : Z) : bool :=
  (x_fmt t =? 11) && plain_mode t && no_lf_str (x_l1 t) && no_lf_str (x_l2 t)
  && (0 <=? sw1) && (sw1 <=? aw) && (0 <=? sw2) && (sw2 <=? aw) && (2 * lh <=? ah).
(* line 1 lies above the middle row of the active area, line 2 from it downwards *)
Definition twoline_ok_m (t : mtext) (W H shrink border : Z) (d : list Z) (sw1 sw2 lh sh : Z) : bool :=
  let aw := active_w W shrink border in
  let ah := active_h H shrink border in
  negb (twoline_applies t aw ah sw1 sw2 lh) ||
  let midrow := border + ah / 2 in
  let '(clo1, chi1) := centred_cols border aw sw1 sh in
  let '(clo2, chi2) := centred_cols border aw sw2 sh in
  ink_within W H d 0 midrow clo1 chi1 && ink_within W H d midrow H clo2 chi2.
Definition twoline_ok (t : mtext) (W H shrink border : Z) (d : list Z) : bool :=
  twoline_ok_m t W H shrink border d (line_width t (x_l1 t)) (line_width t (x_l2 t)) (line_h t) (size_step t).

(* ---- the TEXT of a centred line is all there: the columns that carry ink in the line's rows are exactly
   the ink columns of the string set in the line's font and size (the glyphs of the regenerated font
   tables, placed by their advances - Mono.render_text on a canvas wide enough that nothing clips), moved
   to one of the two start columns that "centred to within one pixel" allows.  A glyph that is dropped or
   cut (seed C18-8: the last glyph of an exactly fitting line) leaves the metric box but not this. ---- *)
Definition text_canvas (t : mtext) (s : list Z) : img :=
  let ts := centre_tstate t in
  let w := Z.max 8 (line_width t s + size_step t + 16) in
  let i0 := new_image w (Z.max 1 (line_h t)) in
  run_op (with_t i0 (mkT (tfont ts) (tprop ts) (tspacing ts) 0 0 true true (tsh ts) (tsv ts) false)) (OText s).

(* does column c carry ink in rows [rlo, rhi) ? *)
Definition col_lit (W : Z) (d : list Z) (rlo rhi c : Z) : bool :=
  existsb (fun r => px (wib_of W) d c (rlo + Z.of_nat r)) (seq 0 (Z.to_nat (rhi - rlo))).

(* [alo, ahi): the columns of the active area.  Ink may overhang the measured width by one size step
   (the last glyph's spacing column, cf. centred_cols); where that overhang meets the edge of the active
   area it MUST be cut ("no pixel outside the active area"), so the comparison is made inside the area:
   e.g. "Gr\252n\176" at size 2 measures 58 in an area of 60, its ink is 60 wide, starts at column 3 and
   loses its last column to the border.  (Found by the thorough tier on the unchanged tree: the clause as
   first written demanded the full profile - a false alarm of this check, see DESIGN 10.5.) *)
Definition profile_matches (W : Z) (d : list Z) (rlo rhi : Z) (ti : img) (alo ahi x0 : Z) : bool :=
  let tw := gW (ig ti) in
  forallb (fun cn => let c := Z.of_nat cn in
             Bool.eqb (col_lit W d rlo rhi c)
                      ((x0 <=? c) && (c - x0 <? tw) && (alo <=? c) && (c <? ahi) && col_lit tw (idata ti) 0 (gH (ig ti)) (c - x0)))
          (seq 0 (Z.to_nat (8 * wib_of W))).

Definition line_ink_ok (t : mtext) (W border aw : Z) (d : list Z) (rlo rhi : Z) (s : list Z) : bool :=
  let ti := text_canvas t s in
  let sw := line_width t s in
  profile_matches W d rlo rhi ti border (border + aw) (border + (aw - sw) / 2)
  || profile_matches W d rlo rhi ti border (border + aw) (border + (aw - sw + 1) / 2).

Definition oneline_ink_ok (t : mtext) (W H shrink border : Z) (d : list Z) : bool :=
  let aw := active_w W shrink border in
  let ah := active_h H shrink border in
  negb (oneline_applies t aw ah (line_width t (x_title t)) (line_h t)) || x_inv t ||
  line_ink_ok t W border aw d 0 H (x_title t).

Definition twoline_ink_ok (t : mtext) (W H shrink border : Z) (d : list Z) : bool :=
  let aw := active_w W shrink border in
  let ah := active_h H shrink border in
  negb (twoline_applies t aw ah (line_width t (x_l1 t)) (line_width t (x_l2 t)) (line_h t)) || x_inv t ||
  let midrow := border + ah / 2 in
  line_ink_ok t W border aw d 0 midrow (x_l1 t) && line_ink_ok t W border aw d midrow H (x_l2 t).

(* ---- strength bar: with everything but the value fixed and the value hidden (format 7),
   a larger value never lights fewer pixels (rangeLow < rangeHigh), and mirrored for a
   reversed range; a degenerate range shows no value dependence at all ---- *)
Definition lit_subset (W H : Z) (d1 d2 : list Z) : bool :=
  all_cells (wib_of W) H (fun c r => negb (px (wib_of W) d1 c r) || px (wib_of W) d2 c r).

Definition bar_applies (t : mtext) : bool :=
  (x_fmt t =? 7) && match x_scale t with Some sc => sc_type sc =? 1 | None => false end.

Fixpoint bar_chain (W H : Z) (dir : Z) (ds : list (list Z)) : bool :=
  match ds with
  | d1 :: ((d2 :: _) as rest) =>
    (if dir >? 0 then lit_subset W H d1 d2 else if dir <? 0 then lit_subset W H d2 d1 else bytes_eqb d1 d2)
    && bar_chain W H dir rest
  | _ => true
  end.

Definition bar_ok (t : mtext) (W H : Z) (ds : list (list Z)) : bool :=
  negb (bar_applies t) ||
  match x_scale t with
  | Some sc => bar_chain W H (sc_rh sc - sc_rl sc) ds
  | None => true
  end.

(* ---- documented ranges of the text state (HWCt field table) ---- *)
Definition font_in_range (o : option mfont) : bool :=
  match o with
  | None => true
  | Some f => (0 <=? f_face f) && (f_face f <=? 7) && (0 <=? f_h f) && (f_h f <=? 3) && (0 <=? f_w f) && (f_w f <=? 3)
  end.
Definition int32_ok (z : Z) : bool := (-2147483648 <=? z) && (z <=? 2147483647).
Definition uint32_ok (z : Z) : bool := (0 <=? z) && (z <=? 4294967295).
Definition color_in_range (o : option mcolor) : bool :=
  match o with
  | None => true
  | Some c =>
    match c_rgb c with Some (r, g, b) => uint32_ok r && uint32_ok g && uint32_ok b | None => true end
    && match c_idx c with Some i => int32_ok i | None => true end
  end.
Definition text_in_range (t : mtext) : bool :=
  int32_ok (x_int t) && int32_ok (x_int2 t) && int32_ok (x_fmt t) && int32_ok (x_pair t)
  && int32_ok (x_sicon t) && int32_ok (x_micon t)
  && match x_scale t with
     | None => true
     | Some sc => int32_ok (sc_type sc) && int32_ok (sc_rl sc) && int32_ok (sc_rh sc) && int32_ok (sc_ll sc) && int32_ok (sc_lh sc)
     end
  && match x_style t with
     | None => true
     | Some s => font_in_range (s_title s) && font_in_range (s_text s)
                 && (0 <=? s_pad s) && (s_pad s <=? 3) && (0 <=? s_spacing s) && (s_spacing s <=? 7)
                 && uint32_ok (s_ufs s)
     end
  && color_in_range (x_pix t) && color_in_range (x_bg t).
