(* C07 specification.  "Exactly one line": the string holds no line feed, so that writing each
   string followed by one LF and splitting the stream at LF recovers the strings.  "Loses no
   content": the sequence of non-white-space characters is unchanged.  Characters are the
   UTF-8 runes of the string as Go decodes them (an invalid byte is a character of its own);
   white space is Unicode White_Space (unicode.IsSpace).  Boolean / executable; no proofs. *)
From RP Require Import Lib.Base Lib.Strings Lib.Utf8 Lib.TrimSpace.

Definition no_lf_b (s : list Z) : bool := negb (contains_byte 10 s).

(* the bytes of the non-white-space characters, in order.  [k] = bytes of the current rune
   still to copy or drop ([keep]); structural on the string. *)
Fixpoint nonws_go (k : nat) (keep : bool) (s : list Z) : list Z :=
  match s with
  | [] => []
  | c :: r =>
    match k with
    | S k' => (if keep then [c] else []) ++ nonws_go k' keep r
    | O => let '(ru, n) := decode_rune s in
           let kp := negb (is_space_rune ru) in
           (if kp then [c] else []) ++ nonws_go (n - 1) kp r
    end
  end.
Definition nonws (s : list Z) : list Z := nonws_go 0 true s.

(* the wire: each string followed by LF; the receiver splits at LF *)
Definition frame (ls : list (list Z)) : list Z := concat (map (fun l => l ++ [10]) ls).
Definition unframe (s : list Z) : list (list Z) := split_on 10 s.

(* well-formed UTF-8 (every decoding step yields a real rune, U+FFFD only from EF BF BD) *)
Fixpoint utf8_go (k : nat) (s : list Z) : bool :=
  match s with
  | [] => true
  | c :: r =>
    match k with
    | S k' => utf8_go k' r
    | O => let '(ru, n) := decode_rune s in
           (negb (ru =? rune_error) || Nat.eqb n 3) && utf8_go (n - 1) r
    end
  end.
Definition utf8_valid (s : list Z) : bool := utf8_go 0 s.

(* ---- a content clause that needs no well-formedness: the bytes that belong to NO white-space
   character's encoding ("hard" bytes) are kept, in order, by any function that only removes or
   inserts white-space characters - whatever the other bytes are (Latin-1 text, truncated or
   over-long sequences).  White-space encodings: 09-0D 20 | C2 85 | C2 A0 | E1 9A 80 |
   E2 80 80..8A | E2 80 A8 | E2 80 A9 | E2 80 AF | E2 81 9F | E3 80 80. ---- *)
Definition ws_byte (b : Z) : bool :=
  ((9 <=? b) && (b <=? 13)) || (b =? 32) || ((128 <=? b) && (b <=? 138))
  || (b =? 154) || (b =? 159) || (b =? 160) || (b =? 168) || (b =? 169) || (b =? 175)
  || (b =? 194) || (b =? 225) || (b =? 226) || (b =? 227).
Definition hard_bytes (s : list Z) : list Z := filter (fun b => negb (ws_byte b)) s.
