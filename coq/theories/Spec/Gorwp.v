(* C19 — what the property text means, written without following gorwp's code structure.
   Uses only the data types of Model/Gorwp.v (messages, events, handlers, call records).
   No proofs.  The same definitions are the statements' right-hand sides in Props/C19.v and
   the oracle that Run/C19.v evaluates on the IMPLEMENTATION's observed output.

   A. which handler invocations an event demands, given who is registered;
   B. what a whole history (deliveries interleaved with registrations) demands: invocations
      in panel order, and what the panel must receive (one ack per ping, the handlers' feedback);
   C. the getters: latest non-empty value / map overlay;
   D. the initialisation window;
   E. framing: how a history of frames / lines / faults looks on the wire and which of it
      is to be dispatched (nothing at or after the first fault);
   F. the judge. *)
From RP Require Import Lib.Base Model.Gorwp.

(* ------------------------------------------------------------------ A. one event *)
(* registrations in the order they were made; the latest one for (kind, id) is in force *)
Definition in_force (regs : list reg) (k : kind) (id : Z) : option handler :=
  fold_left (fun acc (r : reg) => let '(k', id', h) := r in if kind_eqb k k' && (id =? id') then Some h else acc) regs None.

Definition all_kinds : list kind := [KTrigger; KBinary; KPulsed; KAbsolute; KIntensity].

(* the invocation a handler of kind k expects for event e, if e carries that kind of payload.
   The binary edge is handed over as a uint8 (BinaryEdge), i.e. unchanged for 0 <= edge < 256. *)
Definition expected_call (k : kind) (h : handler) (e : event) : option callrec :=
  match k with
  | KTrigger => Some (CTrigger (e_id e) (h_tag h) e)
  | KBinary => match e_bin e with
               | Some (p, edge) => Some (CBinary (e_id e) (h_tag h) (if p then 1 else 0) (edge mod 256))
               | None => None end
  | KPulsed => match e_pul e with Some v => Some (CValue KPulsed (e_id e) (h_tag h) v) | None => None end
  | KAbsolute => match e_abs e with Some v => Some (CValue KAbsolute (e_id e) (h_tag h) v) | None => None end
  | KIntensity => match e_spd e with Some v => Some (CValue KIntensity (e_id e) (h_tag h) v) | None => None end
  end.

(* for each kind, in the fixed order, at most one invocation: exactly one iff registered and matching *)
Definition event_calls (who : kind -> Z -> option handler) (e : event) : list (callrec * handler) :=
  flat_map (fun k => match who k (e_id e) with
                     | Some h => match expected_call k h e with Some c => [(c, h)] | None => [] end
                     | None => []
                     end) all_kinds.

(* ------------------------------------------------------------------ B. a history *)
Inductive hel :=
| HDeliver (d : delivery)                      (* messages from the panel, to be dispatched *)
| HBind (k : kind) (id : Z) (h : handler).     (* a Bind* call returns *)

(* The events of one message.  Handlers may register handlers themselves (for their own id or others):
   such a registration is in force from the NEXT event on (the handlers for one event are determined
   before any of them runs).  Result: the invocations in order, what the handlers send to the panel in
   order, the registrations afterwards. *)
Fixpoint events_demands (regs : list reg) (evs : list event) : list callrec * list titem * list reg :=
  match evs with
  | [] => ([], [], regs)
  | e :: r =>
    let chs := event_calls (in_force regs) e in
    let '(c, s, regs') := events_demands (regs ++ flat_map (fun ch => h_binds (snd ch)) chs) r in
    (map fst chs ++ c, flat_map (fun ch => fb_items (snd ch)) chs ++ s, regs')
  end.

Definition msg_demands (regs : list reg) (m : omsg) : list callrec * list titem * list reg :=
  let '(c, s, regs') := events_demands regs (m_events m) in
  (c, (if m_flow m =? 1 then [TAck] else []) ++ s, regs').

Fixpoint delivery_demands (regs : list reg) (d : delivery) : list callrec * list titem * list reg :=
  match d with
  | [] => ([], [], regs)
  | m :: r => let '(c1, s1, regs1) := msg_demands regs m in
              let '(c2, s2, regs2) := delivery_demands regs1 r in (c1 ++ c2, s1 ++ s2, regs2)
  end.

(* [regs]: registrations made so far.  Result: the invocations, in order, what the panel receives
   from the dispatcher, in order, and the registrations at the end. *)
Fixpoint demands (regs : list reg) (hist : list hel) : list callrec * list titem * list reg :=
  match hist with
  | [] => ([], [], regs)
  | HBind k id h :: r => demands (regs ++ [(k, id, h)]) r
  | HDeliver d :: r =>
    let '(c1, s1, regs1) := delivery_demands regs d in
    let '(c2, s2, regs2) := demands regs1 r in (c1 ++ c2, s1 ++ s2, regs2)
  end.

Definition delivered (hist : list hel) : list omsg :=
  flat_map (fun x => match x with HDeliver d => d | HBind _ _ _ => [] end) hist.

Definition count_pings (ms : list omsg) : nat := length (filter (fun m => m_flow m =? 1) ms).
Definition count_acks (ts : list titem) : nat := length (filter (fun t => match t with TAck => true | _ => false end) ts).

(* ------------------------------------------------------------------ C. getters *)
Definition f_model (m : omsg) : bytes := match m_info m with Some i => pi_model i | None => [] end.
Definition f_serial (m : omsg) : bytes := match m_info m with Some i => pi_serial i | None => [] end.
Definition f_name (m : omsg) : bytes := match m_info m with Some i => pi_name i | None => [] end.
Definition f_json (m : omsg) : bytes := match m_topo m with Some t => pt_json t | None => [] end.
Definition f_svg (m : omsg) : bytes := match m_topo m with Some t => pt_svg t | None => [] end.

(* the last non-empty value received, [init] if there was none *)
Definition latest (f : omsg -> bytes) (init : bytes) (ms : list omsg) : bytes :=
  fold_left (fun acc m => match f m with [] => acc | v => v end) ms init.

(* availability: the last value received for a key, over all maps in arrival order *)
Definition avail_latest (init : Z -> option Z) (ms : list omsg) (k : Z) : option Z :=
  fold_left (fun acc (kv : Z * Z) => if fst kv =? k then Some (snd kv) else acc) (flat_map m_avail ms) (init k).

(* ------------------------------------------------------------------ D. initialisation *)
Definition has_all_four (ms : list omsg) : bool :=
  nonempty (latest f_model [] ms) && nonempty (latest f_serial [] ms) &&
  nonempty (latest f_json [] ms) && nonempty (latest f_svg [] ms).

(* the messages that arrive inside the window and before the connection is lost *)
Fixpoint in_window (evs : list (Z * iev)) : list omsg :=
  match evs with
  | [] => []
  | (t, IDeliver d) :: r => if t <? init_window then d ++ in_window r else []
  | (t, ILost) :: r => []
  end.
Definition connect_expected (evs : list (Z * iev)) : bool := has_all_four (in_window evs).

(* ------------------------------------------------------------------ E. framing *)
(* what the panel (or the network) does, item by item *)
Inductive citem :=
| IFrame (p : bytes) (pause : option Z)              (* binary: 4-byte little-endian length, then p; optionally a pause of more
                                                        than 2 s after [pause] bytes of it *)
| ILine (l : bytes) (crlf : bool) (pause : option Z) (* ASCII: l (no LF inside), then LF or CR LF *)
| IOver (n : Z)                                      (* binary: a header announcing n >= 500000 bytes *)
| ITrunc (bs : bytes)                                (* some bytes, then the connection is closed *)
| IClose.

(* the protocol's bound on a binary payload: lengths from [frame_limit] up are illegal *)
Definition frame_limit : Z := 500000.

(* bytes followed by a close: a proper prefix of ONE legal frame (binary) / of one line (ASCII) *)
Definition trunc_wf (binary : bool) (bs : bytes) : bool :=
  if binary then
    (zlen bs <? 4) || (let n := le32_val (firstn 4 bs) in (n <? frame_limit) && (zlen bs - 4 <? n))
  else negb (existsb (Z.eqb 10) bs).

(* the items the property's histories are made of, per protocol mode *)
Definition citem_wf (binary : bool) (it : citem) : bool :=
  match it with
  | IFrame p _ => binary && (zlen p <? frame_limit)
  | ILine l _ _ => negb binary && negb (existsb (Z.eqb 10) l)
  | IOver n => binary && (frame_limit <=? n) && (n <? 4294967296)
  | ITrunc bs => trunc_wf binary bs
  | IClose => true
  end.

Definition le32 (n : Z) : list Z := [n mod 256; (n / 256) mod 256; (n / 65536) mod 256; (n / 16777216) mod 256].

Definition wire_bytes (it : citem) : bytes :=
  match it with
  | IFrame p _ => le32 (zlen p) ++ p
  | ILine l crlf _ => l ++ (if crlf then [13; 10] else [10])
  | IOver n => le32 n
  | ITrunc bs => bs
  | IClose => []
  end.

Definition with_pause (w : bytes) (pause : option Z) : list rin :=
  match pause with
  | None => [RBytes w]
  | Some k => [RBytes (firstn (Z.to_nat k) w); RStall; RBytes (skipn (Z.to_nat k) w)]
  end.

Definition wire_of (it : citem) : list rin :=
  match it with
  | IFrame p pause => with_pause (wire_bytes it) pause
  | ILine l crlf pause => with_pause (wire_bytes it) pause
  | IOver n => [RBytes (wire_bytes it)]
  | ITrunc bs => [RBytes bs; RClose]
  | IClose => [RClose]
  end.

(* a pause breaks a binary frame iff the length is known and the payload incomplete *)
Definition pause_breaks (plen : Z) (pause : option Z) : bool :=
  match pause with Some k => (4 <=? k) && (k <? 4 + plen) | None => false end.

Section Framing.
  Variable unm : bytes -> omsg.
  Variable dec : bytes -> list omsg.

  (* what is to be dispatched of a history of items; the flag says a fault ended it.
     An ack frame / "ack" line is flow control, not a message to dispatch. *)
  Fixpoint to_dispatch (items : list citem) : list delivery * bool :=
    match items with
    | [] => ([], false)
    | IFrame p pause :: r =>
      if pause_breaks (zlen p) pause then ([], true)
      else let '(ds, f) := to_dispatch r in
           ((if m_flow (unm p) =? 2 then [] else [[unm p]]) ++ ds, f)
    | ILine l _ _ :: r =>
      let '(ds, f) := to_dispatch r in
      ((if bytes_eqb (trim_space l) ack_line then [] else [dec (trim_space l)]) ++ ds, f)
    | IOver _ :: _ => ([], true)
    | ITrunc _ :: _ => ([], true)
    | IClose :: _ => ([], true)
    end.
End Framing.

(* ------------------------------------------------------------------ F. judge *)
Definition event_eqb (a b : event) : bool :=
  (e_id a =? e_id b) &&
  match e_bin a, e_bin b with Some (p, x), Some (q, y) => Bool.eqb p q && (x =? y) | None, None => true | _, _ => false end &&
  match e_pul a, e_pul b with Some x, Some y => x =? y | None, None => true | _, _ => false end &&
  match e_abs a, e_abs b with Some x, Some y => x =? y | None, None => true | _, _ => false end &&
  match e_spd a, e_spd b with Some x, Some y => x =? y | None, None => true | _, _ => false end.

Definition callrec_eqb (a b : callrec) : bool :=
  match a, b with
  | CTrigger i t e, CTrigger i' t' e' => (i =? i') && (t =? t') && event_eqb e e'
  | CBinary i t s g, CBinary i' t' s' g' => (i =? i') && (t =? t') && (s =? s') && (g =? g')
  | CValue k i t v, CValue k' i' t' v' => kind_eqb k k' && (i =? i') && (t =? t') && (v =? v')
  | _, _ => false
  end.

Definition titem_eqb (a b : titem) : bool :=
  match a, b with
  | TAck, TAck | TPing, TPing | TInit, TInit => true
  | TFb i s, TFb i' s' => (i =? i') && (s =? s')
  | _, _ => false
  end.

Fixpoint is_prefix {A} (eqb : A -> A -> bool) (p l : list A) : bool :=
  match p, l with
  | [], _ => true
  | a :: p', b :: l' => eqb a b && is_prefix eqb p' l'
  | _ :: _, [] => false
  end.

Inductive endcls := ELive | EClosed | EPeerClosed | ETimeout | ENoConnect | EOther.

Record observed := mkObs {
  o_connect : bool;            (* Connect returned a panel and no error *)
  o_conncls : Z;               (* 0: returned in < 1.9 s; 1: 1.9 .. 2.8 s; 2: later *)
  o_calls : list callrec;      (* handler invocations, in order *)
  o_recv : list titem;         (* acks and feedback received by the panel, in order (pings dropped) *)
  o_end : endcls;
  o_model : bytes; o_serial : bytes; o_name : bytes; o_json : bytes; o_svg : bytes;
  o_avail : list (Z * Z);      (* sorted by key *)
  o_isinit : bool;
  o_peek : bool                (* json / svg / avail could be observed *)
}.

Inductive jv := JOk | JInit | JStall | JEnd | JAfterFault | JCalls | JAcks | JFeedback | JState.

Definition avail_agrees (ms : list omsg) (obs : list (Z * Z)) : bool :=
  forallb (fun kv => match avail_latest (fun _ => None) ms (fst kv) with Some v => v =? snd kv | None => false end) obs &&
  forallb (fun kv => match avail_get (fst kv) obs with Some _ => true | None => false end) (flat_map m_avail ms).

(* [init]: what arrives during Connect; [lost_in_init]: the peer closes the connection during the window;
   [hist]: everything to be dispatched (the messages arriving during Connect included, when no handler can be
   registered yet) interleaved with the registrations, up to the first fault; [fault]: there is one. *)
Definition judge (init : list (Z * iev)) (lost_in_init : bool) (hist : list hel) (fault : bool) (o : observed) : jv :=
  let cx := connect_expected init in
  if negb (Bool.eqb (o_connect o) cx) then JInit
  else if negb cx then
    (* a refusal must not come before the window has passed unless the connection was lost *)
    if negb lost_in_init && (o_conncls o =? 0) then JInit else JOk
  else if 2 <=? o_conncls o then JInit
  else
    let '(xc, xs, _) := demands [] hist in
    match o_end o with
    | ETimeout | EOther | ENoConnect => JStall
    | _ =>
      if negb (list_eqb callrec_eqb xc (o_calls o)) then
        (if fault && is_prefix callrec_eqb xc (o_calls o) then JAfterFault else JCalls)
      else if fault && (match o_end o with ELive => true | _ => false end) then JAfterFault
      else if negb fault && negb (match o_end o with ELive => true | _ => false end) then JEnd
      else if negb (Nat.eqb (count_acks (o_recv o)) (count_pings (delivered hist))) then JAcks
      else if negb (list_eqb titem_eqb xs (o_recv o)) then JFeedback
      else
        let ms := delivered hist in
        if bytes_eqb (o_model o) (latest f_model [] ms) && bytes_eqb (o_serial o) (latest f_serial [] ms) &&
           bytes_eqb (o_name o) (latest f_name [] ms) && Bool.eqb (o_isinit o) (has_all_four ms) &&
           (negb (o_peek o) ||
            (bytes_eqb (o_json o) (latest f_json [] ms) && bytes_eqb (o_svg o) (latest f_svg [] ms) && avail_agrees ms (o_avail o)))
        then JOk else JState
    end.
