(* What "parsing back yields an EQUAL topology" means for C14: equality of Go values up to
   exactly the distinctions no look-up can see - nil vs empty slice/map, +0 vs -0, the
   (non-existent) order of map entries, and fields of opaque type (the mutexes).
   Boolean: also the oracle evaluated on the implementation's value after
   ToJSON -> json.Unmarshal.  No proofs. *)
From RP Require Import Lib.Base Lib.Sexp Lib.Strings Lib.JsonTree.
Open Scope Z_scope.

Definition as_list (v : val) : option (list val) :=
  match v with VNil => Some [] | VSlice l => Some l | _ => None end.
Definition as_entries (v : val) : option (list (Z * val)) :=
  match v with VNil => Some [] | VMap l => Some l | _ => None end.

Fixpoint all2 {A B} (f : A -> B -> bool) (a : list A) (b : list B) : bool :=
  match a, b with
  | [], [] => true
  | x :: a', y :: b' => f x y && all2 f a' b'
  | _, _ => false
  end.

Fixpoint veq (t : ty) (a b : val) {struct t} : bool :=
  match t with
  | TInt _ _ => match a, b with VInt x, VInt y => x =? y | _, _ => false end
  | TBool => match a, b with VBool x, VBool y => Bool.eqb x y | _, _ => false end
  | TStr => match a, b with VStr x, VStr y => bytes_eqb x y | _, _ => false end
  | TFloat sz => match a, b with VFloat x, VFloat y => (x =? y) || (fzero sz x && fzero sz y) | _, _ => false end
  | TOpaque _ | TUnsupported _ => true
  | TPtr t' =>
    match a, b with
    | VNil, VNil => true
    | VPtr x, VPtr y => veq t' x y
    | _, _ => false
    end
  | TSlice t' =>
    match as_list a, as_list b with
    | Some la, Some lb => all2 (veq t') la lb
    | _, _ => false
    end
  | TMap _ _ t' =>
    match as_entries a, as_entries b with
    | Some ea, Some eb =>
      all2 (fun e f => (fst e =? fst f) && veq t' (snd e) (snd f)) (sort_entries ea) (sort_entries eb)
    | _, _ => false
    end
  | TStruct _ fs =>
    match a, b with
    | VStruct la, VStruct lb =>
      (fix vf (fs : list (finfo * ty)) (la lb : list val) {struct fs} : bool :=
         match fs, la, lb with
         | [], [], [] => true
         | (_, ft) :: fs', x :: la', y :: lb' => veq ft x y && vf fs' la' lb'
         | _, _, _ => false
         end) fs la lb
    | _, _ => false
    end
  end.

Fixpoint veq_fields (fs : list (finfo * ty)) (la lb : list val) : bool :=
  match fs, la, lb with
  | [], [], [] => true
  | (_, ft) :: fs', x :: la', y :: lb' => veq ft x y && veq_fields fs' la' lb'
  | _, _, _ => false
  end.
