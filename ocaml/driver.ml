(* Generic driver: reads one s-expression case per line on stdin, hands the bytes to the
   extracted Gallina [Model.dispatch_line], prints every non-ok verdict with its input,
   and a SUMMARY line.  Only line I/O, int<->Z conversion and counting live here. *)
module M = Model
open M (* constructors only; stdlib names are qualified below *)
module String = Stdlib.String
module List = Stdlib.List
type str = Stdlib.String.t

let rec pos_of_int (n : int) : positive =
  if n = 1 then XH else if n land 1 = 1 then XI (pos_of_int (n lsr 1)) else XO (pos_of_int (n lsr 1))
let z_of_int (n : int) : z = if n = 0 then Z0 else if n > 0 then Zpos (pos_of_int n) else Zneg (pos_of_int (-n))
let rec int_of_pos (p : positive) : int =
  match p with XH -> 1 | XO q -> 2 * int_of_pos q | XI q -> 2 * int_of_pos q + 1
let int_of_z (x : z) : int = match x with Z0 -> 0 | Zpos p -> int_of_pos p | Zneg p -> - (int_of_pos p)

let ztab = Array.init 256 z_of_int
let to_zlist (s : str) : z list =
  let r = ref [] in
  for i = String.length s - 1 downto 0 do r := ztab.(Char.code s.[i]) :: !r done; !r
let of_zlist (l : z list) : str =
  let b = Buffer.create 64 in
  List.iter (fun x -> Buffer.add_char b (Char.chr ((int_of_z x) land 255))) l; Buffer.contents b

let starts_with p s = String.length s >= String.length p && String.sub s 0 (String.length p) = p

let () =
  let evals = ref 0 and nontriv = Hashtbl.create 4096 and fails = ref 0 in
  let mism = ref 0 and spec = ref 0 and bad = ref 0 in
  (* separate print quotas per verdict class, so that a flood of model/implementation
     mismatches cannot push the spec failures (the concrete property violations) out *)
  let maxfail = try int_of_string (Sys.getenv "VERIF_MAXFAIL") with _ -> 200 in
  let pm = ref 0 and ps = ref 0 and pb = ref 0 in
  (try
    while true do
      let line = input_line stdin in
      if String.length line > 0 && line.[0] = '(' then begin
        incr evals;
        let out = of_zlist (dispatch_line (to_zlist line)) in
        if starts_with "(ok" out then begin
          if out = "(ok 1)" then Hashtbl.replace nontriv (Digest.string line) ()
        end else begin
          incr fails;
          let quota =
            if starts_with "(mismatch" out then (incr mism; pm)
            else if starts_with "(specfail" out then (incr spec; ps)
            else (incr bad; pb) in
          incr quota;
          if !quota <= maxfail then (print_string "FAIL\t"; print_string out; print_char '\t'; print_endline line)
        end
      end else if String.length line > 0 then
        (* pass-through of harness meta lines (distribution statistics etc.) *)
        print_endline line
    done
  with End_of_file -> ());
  Printf.printf "SUMMARY {\"evaluations\": %d, \"distinct_nontrivial\": %d, \"mismatch\": %d, \"specfail\": %d, \"badcase\": %d}\n"
    !evals (Hashtbl.length nontriv) !mism !spec !bad
