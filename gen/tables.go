package main

// genTables: icon / lock / speed / no-access bitmaps and the button-colour table of
// rawpanelhelpers.go -> Gen/Tables.v (owned by the C18 work; stub until then).
func genTables(repo, out string) {}
