package main

import (
	"fmt"
	"go/ast"
	"path/filepath"
	"strings"
)

// genTables: icon / lock / speed / no-access bitmaps and the button-colour table of
// rawpanelhelpers.go -> Gen/Tables.v (C18).  Everything is read from the AST of the
// current /repo source: package-level `var x = []byte{...}`, `var icons8by8 = [7][]byte{{..},..}`
// and the local `var buttonColors = []byte{...}` inside convertToColorRGB16bit.
func genTables(repo, out string) {
	path := filepath.Join(repo, "rawpanelhelpers.go")
	fset, f := parseFile(path)
	var b strings.Builder
	b.WriteString(header)

	for _, nm := range [][2]string{{"speedGraphic", "speed_graphic"}, {"noAccessGraphic", "no_access_graphic"}, {"lockGraphic", "lock_graphic"}} {
		cl := findVarLit(f, "", nm[0])
		if cl == nil {
			die("rawpanelhelpers.go: var %s not found", nm[0])
		}
		fmt.Fprintf(&b, "Definition %s : list Z :=\n  %s.\n\n", nm[1], coqZList(byteList(fset, cl)))
	}

	icons := findVarLit(f, "", "icons8by8")
	if icons == nil {
		die("rawpanelhelpers.go: var icons8by8 not found")
	}
	b.WriteString("Definition icons8by8 : list (list Z) :=\n  [")
	for i, e := range icons.Elts {
		inner, ok := e.(*ast.CompositeLit)
		if !ok {
			die("rawpanelhelpers.go: icons8by8 element %d is not a composite literal", i)
		}
		if i > 0 {
			b.WriteString(";\n   ")
		}
		b.WriteString(coqZList(byteList(fset, inner)))
	}
	b.WriteString("].\n\n")

	bc := findVarLit(f, "convertToColorRGB16bit", "buttonColors")
	if bc == nil {
		die("rawpanelhelpers.go: buttonColors not found in convertToColorRGB16bit")
	}
	fmt.Fprintf(&b, "Definition button_colors : list Z :=\n  %s.\n", coqZList(byteList(fset, bc)))

	writeIfChanged(filepath.Join(out, "Tables.v"), b.String())
}
