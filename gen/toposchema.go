package main

// genTopoSchema: JSON struct schema of topology/topology.go -> Gen/TopoSchema.v
// (owned by the C13-C15 work; stub until then).
func genTopoSchema(repo, out string) {}
