package main

// genTopoSchema: JSON struct schema of topology/topology.go -> Gen/TopoSchema.v.
//
// For every struct type declared in topology.go the field list is read off the AST:
// Go field name, Go type, the effective JSON name (encoding/json's rule: tag name if present
// and valid, else the Go name), omitempty, ",string", embedded, exported, json:"-".
// The result is ONE Gallina value per struct (a Lib/JsonTree.ty, nested structs inlined) and
// `topo_schema` = the type of `Topology`.  Types the tree model does not cover become
// `TUnsupported`, which makes `wf_ty topo_schema` compute to false, i.e. breaks the proof
// obligation of C14 rather than this translator.

import (
	"fmt"
	"go/ast"
	"go/token"
	"path/filepath"
	"reflect"
	"strconv"
	"strings"
	"unicode"
)

type tsGen struct {
	fset    *token.FileSet
	structs map[string]*ast.StructType
	order   []string
	busy    map[string]bool
	done    map[string]bool
	b       strings.Builder
}

func coqBytes(s string) string {
	plain := true
	for i := 0; i < len(s); i++ {
		if s[i] < 32 || s[i] > 126 {
			plain = false
		}
	}
	if plain {
		return `(str "` + strings.ReplaceAll(s, `"`, `""`) + `")`
	}
	var xs []string
	for i := 0; i < len(s); i++ {
		xs = append(xs, strconv.Itoa(int(s[i])))
	}
	return "[" + strings.Join(xs, "; ") + "]"
}

func coqBool(b bool) string {
	if b {
		return "true"
	}
	return "false"
}

// encoding/json isValidTag
func jsonValidTag(s string) bool {
	if s == "" {
		return false
	}
	for _, c := range s {
		switch {
		case strings.ContainsRune("!#$%&()*+-./:;<=>?@[]^_{|}~ ", c):
		case !unicode.IsLetter(c) && !unicode.IsDigit(c):
			return false
		}
	}
	return true
}

var intRanges = map[string][2]string{
	"int":     {"(-9223372036854775808)", "9223372036854775807"},
	"int64":   {"(-9223372036854775808)", "9223372036854775807"},
	"int32":   {"(-2147483648)", "2147483647"},
	"int16":   {"(-32768)", "32767"},
	"int8":    {"(-128)", "127"},
	"uint":    {"0", "18446744073709551615"},
	"uint64":  {"0", "18446744073709551615"},
	"uintptr": {"0", "18446744073709551615"},
	"uint32":  {"0", "4294967295"},
	"uint16":  {"0", "65535"},
	"uint8":   {"0", "255"},
	"byte":    {"0", "255"},
	"rune":    {"(-2147483648)", "2147483647"},
}

// tyExpr returns the Gallina term for a Go type expression.
func (g *tsGen) tyExpr(e ast.Expr) string {
	src := exprString(g.fset, e)
	switch t := e.(type) {
	case *ast.Ident:
		if r, ok := intRanges[t.Name]; ok {
			return fmt.Sprintf("(TInt %s %s)", r[0], r[1])
		}
		switch t.Name {
		case "string":
			return "TStr"
		case "bool":
			return "TBool"
		case "float32":
			return "(TFloat 32)"
		case "float64":
			return "(TFloat 64)"
		}
		if _, ok := g.structs[t.Name]; ok {
			if g.busy[t.Name] { // recursive type: not covered
				return "(TUnsupported " + coqBytes(src) + ")"
			}
			g.emitStruct(t.Name)
			return "ty_" + t.Name
		}
		return "(TUnsupported " + coqBytes(src) + ")"
	case *ast.StarExpr:
		return "(TPtr " + g.tyExpr(t.X) + ")"
	case *ast.ArrayType:
		if t.Len == nil {
			if id, ok := t.Elt.(*ast.Ident); ok && (id.Name == "byte" || id.Name == "uint8") {
				return "(TUnsupported " + coqBytes(src) + ")" // []byte is base64 in JSON
			}
			return "(TSlice " + g.tyExpr(t.Elt) + ")"
		}
		return "(TUnsupported " + coqBytes(src) + ")"
	case *ast.MapType:
		if id, ok := t.Key.(*ast.Ident); ok {
			if r, ok := intRanges[id.Name]; ok {
				return fmt.Sprintf("(TMap %s %s %s)", r[0], r[1], g.tyExpr(t.Value))
			}
		}
		return "(TUnsupported " + coqBytes(src) + ")"
	case *ast.SelectorExpr:
		return "(TOpaque " + coqBytes(src) + ")"
	}
	return "(TUnsupported " + coqBytes(src) + ")"
}

func (g *tsGen) emitStruct(name string) {
	if g.done[name] {
		return
	}
	g.busy[name] = true
	st := g.structs[name]
	var rows []string
	for _, f := range st.Fields.List {
		tag := ""
		if f.Tag != nil {
			raw, err := strconv.Unquote(f.Tag.Value)
			if err != nil {
				die("topology.go: bad struct tag %s", f.Tag.Value)
			}
			tag = reflect.StructTag(raw).Get("json")
		}
		gotype := exprString(g.fset, f.Type)
		tyTerm := g.tyExpr(f.Type)
		type nm struct {
			name     string
			embedded bool
		}
		var names []nm
		if len(f.Names) == 0 {
			// embedded: the field name is the type name without package and pointer
			n := gotype
			n = strings.TrimPrefix(n, "*")
			if i := strings.LastIndex(n, "."); i >= 0 {
				n = n[i+1:]
			}
			names = append(names, nm{n, true})
		} else {
			for _, id := range f.Names {
				names = append(names, nm{id.Name, false})
			}
		}
		for _, n := range names {
			skip := tag == "-"
			tname, opts, _ := strings.Cut(tag, ",")
			omit, quoted := false, false
			for _, o := range strings.Split(opts, ",") {
				if o == "omitempty" {
					omit = true
				}
				if o == "string" {
					quoted = true
				}
			}
			jname := n.name
			if !skip && jsonValidTag(tname) {
				jname = tname
			}
			rows = append(rows, fmt.Sprintf("    (FI %s %s %s %s %s %s %s %s, %s)",
				coqBytes(n.name), coqBytes(gotype), coqBytes(jname), coqBool(omit), coqBool(quoted),
				coqBool(n.embedded), coqBool(ast.IsExported(n.name)), coqBool(skip), tyTerm))
		}
	}
	fmt.Fprintf(&g.b, "Definition ty_%s : ty :=\n  TStruct %s [\n%s\n  ].\n\n", name, coqBytes(name), strings.Join(rows, ";\n"))
	g.busy[name] = false
	g.done[name] = true
	g.order = append(g.order, name)
}

func genTopoSchema(repo, out string) {
	path := filepath.Join(repo, "topology", "topology.go")
	fset, f := parseFile(path)
	g := &tsGen{fset: fset, structs: map[string]*ast.StructType{}, busy: map[string]bool{}, done: map[string]bool{}}
	var declared []string
	for _, d := range f.Decls {
		gd, ok := d.(*ast.GenDecl)
		if !ok || gd.Tok != token.TYPE {
			continue
		}
		for _, s := range gd.Specs {
			ts := s.(*ast.TypeSpec)
			if st, ok := ts.Type.(*ast.StructType); ok {
				g.structs[ts.Name.Name] = st
				declared = append(declared, ts.Name.Name)
			}
		}
	}
	if _, ok := g.structs["Topology"]; !ok {
		die("topology.go: type Topology not found")
	}
	g.b.WriteString("(* GENERATED by /verif/gen from /repo/topology/topology.go on every run. Do not edit. *)\n")
	g.b.WriteString("From RP Require Import Lib.Base Lib.Sexp Lib.JsonTree.\nFrom Coq Require Import String.\nLocal Open Scope string_scope.\nOpen Scope Z_scope.\n\n")
	g.b.WriteString("(* FI goname gotype jsonname omitempty quoted embedded exported skip *)\n\n")
	for _, n := range declared { // dependencies are emitted first by tyExpr
		g.emitStruct(n)
	}
	var names []string
	for _, n := range g.order {
		names = append(names, fmt.Sprintf("(%s, ty_%s)", coqBytes(n), n))
	}
	fmt.Fprintf(&g.b, "Definition topo_structs : list (list Z * ty) :=\n  [%s].\n\n", strings.Join(names, "; "))
	g.b.WriteString("Definition topo_schema : ty := ty_Topology.\n")
	writeIfChanged(filepath.Join(out, "TopoSchema.v"), g.b.String())
}
