module verifgen

go 1.19
