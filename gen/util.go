package main

import (
	"go/ast"
	"go/printer"
	"go/token"
	"io"
)

func formatNode(w io.Writer, fset *token.FileSet, n ast.Node) error {
	return printer.Fprint(w, fset, n)
}

