#!/bin/bash
# tools/newharness.sh <name>: create harness/<name>/ from the template (main.go, util.go, go.mod)
set -e
cd "$(dirname "$0")/.."
mkdir -p harness/$1
for f in main.go util.go go.mod; do [ -e harness/$1/$f ] || cp harness/_template/$f harness/$1/$f; done
echo "harness/$1 ready; add <prop>.go registering props[\"Cnn\"] / replays[\"Cnn\"] in init()"
