#!/bin/bash
# usage: cq.sh theories/X/Y.v  -- compile one file quickly (deps must be built)
cd /verif/coq && timeout ${CQ_TIMEOUT:-600} coqc -Q theories RP -w -notation-overridden,-deprecated-hint-without-locality,-deprecated-syntactic-definition "$@" 2>&1 | head -${CQ_LINES:-40}
