#!/bin/bash
# tools/seedregress.sh [-j N] [seed-dir-names...]   : re-run every archived seeded change (seeded/Cnn-k/patch.diff)
# against the CURRENT machinery: scratch worktree of /repo HEAD + patch -> ./check Cnn quick via run_on.sh.
# Prints one line per seed: name, CAUGHT/MISSED/NOAPPLY, the VIOLATION line. Used after every strengthening round.
set -u
export GOFLAGS=-mod=mod GOPROXY=off GOSUMDB=off GOTOOLCHAIN=local
J=3
if [ "${1:-}" = "-j" ]; then J=$2; shift 2; fi
cd /verif/seeded
SEEDS=${@:-$(ls -d C*-* | sort -t- -k1,1 -k2,2n)}
mkdir -p /root/scratch/regress
one() {
  s=$1; P=$(python3 -c "import json,sys; m=json.load(open('/verif/seeded/$1/meta.json')); print(m.get('check') or m.get('property'))" 2>/dev/null || echo ${s%%-*})
  WT=/root/scratch/regress/wt-$s
  rm -rf "$WT"; git -C /repo worktree prune
  git -C /repo worktree add -q "$WT" HEAD || { echo "$s WORKTREE-FAIL"; return; }
  if ! (cd "$WT" && git apply /verif/seeded/$s/patch.diff 2>/dev/null); then
    echo "$s NOAPPLY"; git -C /repo worktree remove --force "$WT" >/dev/null 2>&1; return
  fi
  out=$(VERIF_SCRATCH=/root/scratch/regress /verif/tools/run_on.sh "$WT" "$P" 2>&1)
  v=$(echo "$out" | grep -m1 VIOLATION)
  N=$(python3 -c "import json; print(json.load(open('/verif/seeded/$s/meta.json')).get('neutralised_by',''))" 2>/dev/null)
  if [ -n "$v" ] && [ -n "$N" ]; then echo "$s ALARM-ON-NEUTRALISED $v";
  elif [ -n "$N" ]; then echo "$s NEUTRALISED (by /repo $N: the change no longer breaks the property; check quiet, as it must be)";
  elif [ -n "$v" ]; then echo "$s CAUGHT $v"; else echo "$s MISSED $(echo "$out" | tail -1 | cut -c1-200)"; fi
  git -C /repo worktree remove --force "$WT" >/dev/null 2>&1; rm -rf "$WT"
}
export -f one
printf "%s\n" $SEEDS | xargs -P $J -I{} bash -c 'one {}'
