#!/usr/bin/env python3
"""Rewrites section 10 ("As built") of DESIGN.md from tools/design10_head.md + generated tables."""
import json, subprocess, re
D = "/verif/DESIGN.md"
s = open(D).read()
i = s.index("## 10. As built")
# keep everything before the rule line preceding section 10
j = s.rfind("---------", 0, i)
head = open("/verif/tools/design10_head.md").read()
find = []
for l in open("/verif/known_findings.jsonl"):
    l = l.strip()
    if not l: continue
    d = json.loads(l)
    txt = (d.get("line") or d.get("what") or "").replace("|", "\\|")
    txt = re.sub(r"^fixed: property=C\d+ [0-9a-f]+ ", "", txt)
    find.append("| %s | %s | %s | %s |" % (d["property"], "**fixed** `%s`" % d["commit"] if d["status"] == "fixed" else "known (tag `%s`)" % d.get("tag"), "", txt[:600]))
ftable = "| prop | status | | what failed (identifying input / history) |\n|---|---|---|---|\n" + "\n".join(find)
stable = subprocess.run(["python3", "/verif/tools/mkseedtable.py"], capture_output=True, text=True).stdout
out = s[:j] + head.replace("@@FINDINGS@@", ftable).replace("@@SEEDS@@", stable)
open(D, "w").write(out)
print("ok", len(out))
