#!/usr/bin/env python3
"""prints the markdown table of seeded changes from seeded/*/meta.json (for DESIGN.md section 10)"""
import json, os, glob, re
rows = []
for d in sorted(glob.glob("/verif/seeded/C*-*"), key=lambda p: (p.split("/")[-1].split("-")[0], int(p.split("-")[-1]))):
    m = json.load(open(os.path.join(d, "meta.json")))
    name = os.path.basename(d)
    first = m.get("first_run")
    ran = m.get("what_was_run", "")
    if first is None:
        first = "missed" if "first run MISSED" in ran or "first run of" in ran else ("correspondence" if "no-failing-input-found" in ran else "caught")
    stren = m.get("strengthening") or ""
    if not stren and "MISSED" in ran:
        mm = re.search(r"MISSED[^;]*;\s*(.*?);\s*tools/seedtest", ran)
        stren = mm.group(1) if mm else ""
    needs = m["needs_to_manifest"].replace("|", "\\|")
    how = {"caught": "caught", "missed": "MISSED, then caught", "correspondence": "correspondence only, then input"}[first]
    if m.get("stays_correspondence"):
        how = "correspondence only (stays so: no-failing-input-found)"
    if m.get("neutralised_by"):
        how += "; NEUTRALISED by /repo %s (no longer breaks the property, check quiet)" % m["neutralised_by"]
        stren = stren.split(" || ")[0]
    rows.append("| %s | %s | %s | %s |" % (name, needs[:230], how, stren.replace("|", "\\|")[:260]))
print("| seed | needs in order to manifest | first run of ./check | strengthening made |")
print("|---|---|---|---|")
print("\n".join(rows))
