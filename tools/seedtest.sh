#!/bin/bash
# tools/seedtest.sh <Cnn> <patch.diff> [<demo_file> <package-dir-relative-to-repo>]
# 1. scratch worktree of /repo HEAD; 2. demo passes on the clean tree (if given); 3. apply patch;
# 4. existing suite passes; 5. demo fails; 6. ./check Cnn (quick) via run_on.sh must print VIOLATION.
set -u
export GOFLAGS=-mod=mod GOPROXY=off GOSUMDB=off GOTOOLCHAIN=local
P=$1; PATCH=$(readlink -f "$2"); DEMO=${3:-}; PKG=${4:-}
WT=/root/scratch/seedwt-$$
mkdir -p /root/scratch
git -C /repo worktree add -q "$WT" HEAD || exit 2
cleanup() { git -C /repo worktree remove --force "$WT" >/dev/null 2>&1; rm -rf "$WT"; }
trap cleanup EXIT
if [ -n "$DEMO" ]; then
  cp "$DEMO" "$WT/$PKG/zz_demo_test.go"
  (cd "$WT" && go test -vet=off -count=1 ./$PKG/ >/dev/null 2>&1) && echo "demo on clean tree: PASS (expected)" || echo "demo on clean tree: FAIL (unexpected)"
  rm -f "$WT/$PKG/zz_demo_test.go"
fi
(cd "$WT" && git apply "$PATCH") || { echo "patch does not apply"; exit 2; }
(cd "$WT" && go build ./ibeam_lib_monogfx/ ./topology/ ./gorwp/ . >/dev/null 2>&1) && echo "build with patch: OK" || echo "build with patch: FAILED"
(cd "$WT" && go test -vet=off -count=1 . >/dev/null 2>&1) && echo "existing suite with patch: PASS (expected)" || echo "existing suite with patch: FAIL (unexpected)"
if [ -n "$DEMO" ]; then
  cp "$DEMO" "$WT/$PKG/zz_demo_test.go"
  (cd "$WT" && go test -vet=off -count=1 ./$PKG/ >/dev/null 2>&1) && echo "demo with patch: PASS (unexpected)" || echo "demo with patch: FAIL (expected)"
  rm -f "$WT/$PKG/zz_demo_test.go"
fi
/verif/tools/run_on.sh "$WT" "$P" 2>&1 | grep -E "VIOLATION|KNOWN-FINDING|^check |unknown|rror" 
