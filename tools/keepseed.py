#!/usr/bin/env python3
"""tools/keepseed.py <Cnn> <k> <srcdir> <caught: yes|no> "<needs>" "<what I ran / result>" — archive a confirmed seeded change."""
import sys, os, shutil, json
pid, k, src, caught, needs, ran = sys.argv[1:7]
dst = os.path.join("/verif/seeded", "%s-%s" % (pid, k))
os.makedirs(dst, exist_ok=True)
for f in os.listdir(src):
    shutil.copy(os.path.join(src, f), dst)
json.dump({"property": pid, "breaks": pid, "needs_to_manifest": needs, "caught_by_check": caught == "yes",
           "what_was_run": ran,
           "confirmed": "patch applies to a clean worktree of /repo HEAD; existing suite (go test -vet=off -count=1 .) passes with it; demo passes without and fails with the patch (tools/seedtest.sh)"},
          open(os.path.join(dst, "meta.json"), "w"), indent=1)
print(dst)
