#!/usr/bin/env python3
"""Writes /verif/MANIFEST.json from lib/propinfo.py (claimed properties) and tools/not_applicable.json."""
import json, os, sys
V = os.path.dirname(os.path.dirname(os.path.abspath(__file__)))
sys.path.insert(0, os.path.join(V, "lib"))
from propinfo import PROPS
ids = [json.loads(l)["id"] for l in open(os.path.join(V, "properties.jsonl"))]
na_path = os.path.join(V, "tools", "not_applicable.json")
na = json.load(open(na_path)) if os.path.exists(na_path) else {}
checks = []
for pid in ids:
    if pid not in PROPS or PROPS[pid].get("unclaimed"):
        continue
    p = PROPS[pid]
    checks.append({
        "property_id": pid,
        "quick_cmd": "./check %s --tier quick" % pid,
        "thorough_cmd": "./check %s --tier thorough" % pid,
        "evidence_file": "/verif/evidence/%s.json" % pid,
        "replay_cmd_template": "./check %s --replay {path}" % pid,
        "engine": "coq-proof+correspondence",
        "level_claimed": {"category": "proof", "text": p["level_text"], "design_ref": p.get("design_ref", "DESIGN.md section 5, " + pid)},
        "level_note": p["level_note"],
        "technique": p.get("technique", "Coq 8.16 theorems over an executable Gallina model; model tied to /repo by regenerated data (gen/) and differential execution of the extracted model against the Go implementation"),
    })
m = {
    "version": 1,
    "setup_cmd": "./setup",
    "hooks": {"guard": "verif", "enable": "go build -tags verif (harness module with replace => /repo)",
              "baseline_off_cmd": "cd /repo && GOFLAGS=-mod=mod GOPROXY=off GOSUMDB=off GOTOOLCHAIN=local go test -json -vet=off -count=1 ./...",
              "source_commits": ["fd89801"], "add_only": True},
    "engines": [{"name": "coq-proof+correspondence", "path": "/verif/check", "serves_properties": [c["property_id"] for c in checks],
                 "kind_free_text": "Coq proofs over hand-written executable models (coq/theories), data regenerated from /repo by gen/, extracted OCaml model run against the Go implementation by harness/"}],
    "checks": checks,
    "not_applicable": [{"property_id": pid, "reason": na.get(pid, "not yet built in this round: model, theorem and tie are designed in DESIGN.md section 5 but no check exists yet")} for pid in ids if pid not in [c["property_id"] for c in checks]],
    "notes": "Every check rebuilds from /repo's working tree: gen/ regenerates Coq data tables, the harness is compiled against /repo with -tags verif. One hook commit in /repo (fd89801): two add-only files verifhook_on.go (//go:build verif) / verifhook_off.go (//go:build !verif) and two inserted verifPoint(...) lines in the writer goroutine of ConnectToPanel, used by the C11 wait-group scenario to hold that goroutine at its start; with the guard off verifPoint is an empty function. Fix commits in /repo are listed in known_findings.jsonl.",
}
json.dump(m, open(os.path.join(V, "MANIFEST.json"), "w"), indent=1)
print("claimed:", [c["property_id"] for c in checks])
