#!/bin/bash
# tools/run_on.sh <repo-dir> <Cnn> [check args...]
# Runs ./check for one property against ANOTHER copy of the repository (e.g. a scratch
# worktree with a seeded change) without touching /repo or /verif: /verif is copied
# (with its build products) to a scratch directory and ./check runs there with VERIF_REPO.
set -u
REPO_ALT=$(readlink -f "$1"); shift
SCR=${VERIF_SCRATCH:-/root/scratch}/verif-$$
mkdir -p "$SCR"
rsync -a --exclude work --exclude replays --exclude .git /verif/ "$SCR"/
cd "$SCR" && VERIF_REPO="$REPO_ALT" ./check "$@"
rc=$?
mkdir -p /verif/work/run_on && cp -r "$SCR"/replays /verif/work/run_on/ 2>/dev/null
rm -rf "$SCR"
exit $rc
