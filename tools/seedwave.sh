#!/bin/bash
# tools/seedwave.sh <Cnn> <dir-with patch.diff + *_test.go>  : picks the demo's package dir from its package clause
P=$1; D=$2
DEMO=$(ls $D/*_test.go 2>/dev/null | head -1)
PKG=.
if [ -n "$DEMO" ]; then
  case "$(grep -m1 '^package ' $DEMO | awk '{print $2}')" in
    rawpanellib|rawpanellib_test) PKG=. ;;
    ibeam_lib_monogfx|ibeam_lib_monogfx_test) PKG=ibeam_lib_monogfx ;;
    topology|topology_test) PKG=topology ;;
    gorwp|gorwp_test) PKG=gorwp ;;
  esac
fi
echo "== $P $D (demo pkg $PKG)"
/verif/tools/seedtest.sh $P $D/patch.diff $DEMO $PKG 2>&1 | cut -c1-260 | tail -7
