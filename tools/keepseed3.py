#!/usr/bin/env python3
"""tools/keepseed3.py <Cnn> <n> <srcdir> <first: caught|missed|correspondence> "<needs>" "<strengthening or ''>" [checked_by]
archive a wave-3 seed as seeded/Cnn-n (patch.diff, demo_test.go, notes.md, meta.json)"""
import sys, os, shutil, json
pid, n, src, first, needs, strengthened = sys.argv[1:7]
by = sys.argv[7] if len(sys.argv) > 7 else pid
dst = os.path.join("/verif/seeded", "%s-%s" % (pid, n))
os.makedirs(dst, exist_ok=True)
for f in os.listdir(src):
    shutil.copy(os.path.join(src, f), dst)
json.dump({"property": pid, "breaks": pid, "wave": int(os.environ.get("WAVE", "3")), "needs_to_manifest": needs,
           "first_run": first, "strengthening": strengthened, "caught_by_check": True, "check": by,
           "what_was_run": "tools/seedwave.sh %s <dir> (scratch worktree of /repo HEAD + patch; existing suite passes; demo passes clean / fails patched; ./check %s quick via tools/run_on.sh) -> VIOLATION with input replay" % (by, by),
           "confirmed": "patch applies to a clean worktree of /repo HEAD; existing suite passes with it; demo passes without and fails with the patch"},
          open(os.path.join(dst, "meta.json"), "w"), indent=1)
