# Per-property metadata used by ./check (evidence texts) and tools/mkmanifest.py.
COMMON_TRUST = []

PROPS = {
 "C16": {
  "level_text": "Machine-checked Coq theorems (Props/C16.v) over an executable model of monogfx.go's drawing code, for every canvas size, bounding box, coordinate and op list: buffer length and padding bits invariant, changes confined to footprint and clip rectangle, exactness of pixel/line/filled-rectangle ops. The model is tied to /repo on every run by running the extracted model and the Go implementation on the same op sequences (exhaustive small scopes + seeded random) and by judging the implementation's buffers with the extracted spec predicate.",
  "level_note": "Trusted: Coq kernel; hand-written model Model/Mono.v (tied by differential execution, not by translation); Go integer semantics as modelled; extraction with ExtrOcamlBasic; Go harness and OCaml line driver. Font tables regenerated from fonts.go each run.",
  "rule": "exhaustive single drawing ops (pixels: every coordinate of a window around 24 small canvases x 7 bounding boxes x inversion x prefill; lines, rectangles, rounded rectangles, corner helpers on coordinate/size grids) chunked into op sequences, plus seeded random bitmap, text and mixed op sequences on canvases up to 64x64 with coordinates far outside; a case is one op sequence with the implementation's buffer after every op; non-trivial = at least one op of the sequence changed at least one pixel; distinct = distinct case text",
  "assumptions": ["Go int is 64-bit; canvas sizes >= 0 (make() panics on negative sizes, outside the property)",
                  "model of monogfx.go drawing code is hand-written (Model/Mono.v) and tied by step-by-step buffer comparison",
                  "font tables regenerated from fonts.go on every run (Gen/Fonts.v)"],
  "trusted": ["modelled rather than verified: Go integer semantics (truncating / and %, byte shifts wrapping to 0), range-over-string UTF-8 decoding (Lib/Utf8.v)"],
 },
}
