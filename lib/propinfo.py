# Per-property metadata used by ./check (evidence texts) and tools/mkmanifest.py.
# One JSON file per property in lib/props/Cnn.json with keys:
#   level_text, level_note, rule, assumptions[], trusted[], harness_dir,
#   optional: harness (sub-command name, default Cnn), run (Run/<name>.v, default Cnn),
#   extract (extract/<name>.v, default = run), technique, design_ref
import json, os, glob
PROPS = {}
for _f in sorted(glob.glob(os.path.join(os.path.dirname(os.path.abspath(__file__)), "props", "C*.json"))):
    PROPS[os.path.basename(_f)[:-5]] = json.load(open(_f))
