package main

// C15: GenerateCompositeSVGdoc / GenerateCompositeSVG on reflection-generated topologies x
// availability maps x label shapes x rotation x render options x base SVGs.  The generator's
// output is re-parsed with encoding/xml (an independent reader): well-formedness, the base
// subtree, and the nodes that follow the base's own children are observed.

import (
	"encoding/json"
	"encoding/xml"
	"io"
	"reflect"
	"sort"
	"strings"

	topology "github.com/SKAARHOJ/rawpanel-lib/topology"
)

func init() {
	props["C15"] = genC15
	replays["C15"] = replayC15
}

var c15stats = map[string]int{}

type baseDoc struct {
	svg    string
	valid  bool
	strict bool // base content must come back unchanged (no comments / prefixes / mixed content)
}

var baseDocs = []baseDoc{
	{`<svg></svg>`, true, true},
	{`<svg xmlns="http://www.w3.org/2000/svg" viewBox="0 0 1000 500"><rect x="1" y="2" width="3" height="4"/></svg>`, true, true},
	{`<svg width="100"><g id="a"><g><path d="M0 0 L10 10"/></g><text x="1">hello &amp; &lt;bye&gt;</text></g><circle r="5"/></svg>`, true, true},
	{"<svg\n  width=\"10\"\n  height=\"20\">\n  <path\n   d=\"M 0 0\n L 5 5\"\n  />\n  <g>\n    <rect id=\"HWcX\"\n      x=\"1\"/>\n  </g>\n</svg>\n", true, true},
	{"<?xml version=\"1.0\" encoding=\"UTF-8\"?>\n<!DOCTYPE svg PUBLIC \"-//W3C//DTD SVG 1.1//EN\" \"http://www.w3.org/Graphics/SVG/1.1/DTD/svg11.dtd\">\n<svg version=\"1.1\"><title>Panel \"A\"</title><rect id=\"HWc1\" width=\"5\"/></svg>", true, true},
	{`<svg a="&quot;q&quot; &amp; 'x'"><g/><g></g><text>  spaced  </text></svg>`, true, true},
	// observations, not alarms: comments, namespace prefixes, mixed content are go-xmldom's
	{`<svg xmlns:xlink="http://www.w3.org/1999/xlink"><!-- c --><use xlink:href="#a"/><text>a<tspan>b</tspan>c</text></svg>`, true, false},
	// invalid
	{``, false, false},
	{`<svg>`, false, false},
	{`not xml at all`, false, false},
	{`<svg><g></svg>`, false, false},
	{`<svg a=novalue></svg>`, false, false},
	{`<a></b>`, false, false},
	{`<svg><rect x="1"</svg>`, false, false},
	// unparsable for reasons other than a syntax error inside the markup (seed C15-10: error reporting
	// that assumes a syntax error): declarations the parser refuses, stray bytes, bare end tags, NULs
	{"<?xml version=\"1.0\" encoding=\"ISO-8859-1\"?>\n<svg><rect id=\"r\"/></svg>", false, false},
	{"<?xml version=\"1.1\"?><svg/>", false, false},
	{"<?xml version=\"1.0\" encoding=\"UTF-16\"?><svg/>", false, false},
	{"<?xml version='1.0' encoding='windows-1252'?><svg></svg>", false, false},
	{"\xff\xfe<\x00s\x00v\x00g\x00/\x00>\x00", false, false},
	{"<svg>\x00</svg>", false, false},
	{"</svg>", false, false},
	{"<svg>&undefined;</svg>", false, false},
	{"<svg><![CDATA[x</svg>", false, false},
	{"<svg a=\"1\" a=\"2\"", false, false},
	{"<!DOCTYPE svg [<!ENTITY x \"y\">", false, false},
}

// ---- independent XML reading (encoding/xml)
type xnode struct {
	name  string
	attrs [][2]string
	kids  []*xnode
	text  string // concatenated character data
}

func xmlParse(s string) (*xnode, bool) {
	dec := xml.NewDecoder(strings.NewReader(s))
	var root *xnode
	var stack []*xnode
	for {
		tok, err := dec.Token()
		if err == io.EOF {
			break
		}
		if err != nil {
			return nil, false
		}
		switch t := tok.(type) {
		case xml.StartElement:
			n := &xnode{name: t.Name.Local}
			for _, a := range t.Attr {
				n.attrs = append(n.attrs, [2]string{a.Name.Local, a.Value})
			}
			if len(stack) > 0 {
				p := stack[len(stack)-1]
				p.kids = append(p.kids, n)
			} else if root == nil {
				root = n
			} else {
				return nil, false // second root element
			}
			stack = append(stack, n)
		case xml.EndElement:
			if len(stack) == 0 {
				return nil, false
			}
			stack = stack[:len(stack)-1]
		case xml.CharData:
			if len(stack) > 0 {
				stack[len(stack)-1].text += string(t)
			} else if strings.TrimSpace(string(t)) != "" {
				return nil, false
			}
		}
	}
	if root == nil || len(stack) != 0 {
		return nil, false
	}
	return root, true
}

func xEqual(a, b *xnode, top bool, nkids int) bool {
	if a.name != b.name || len(a.attrs) != len(b.attrs) {
		return false
	}
	for i := range a.attrs {
		if a.attrs[i] != b.attrs[i] {
			return false
		}
	}
	if !top {
		if strings.TrimSpace(a.text) != strings.TrimSpace(b.text) || len(a.kids) != len(b.kids) {
			return false
		}
		nkids = len(a.kids)
	} else if len(b.kids) < nkids {
		return false
	}
	for i := 0; i < nkids; i++ {
		if !xEqual(a.kids[i], b.kids[i], false, 0) {
			return false
		}
	}
	return true
}

func nodeSx(n *xnode) Sx {
	ats := []Sx{}
	for _, a := range n.attrs {
		ats = append(ats, Sx(L(a[0], a[1])))
	}
	return L(n.name, ats, n.text)
}

type svgCase struct {
	t      *topology.Topology // as decoded from the JSON handed to the generator
	js     string
	m      map[uint32]uint32
	opts   [4]bool
	baseID int
}

func mapSx(m map[uint32]uint32) Sx {
	if m == nil {
		return Sym("nil")
	}
	keys := []int{}
	for k := range m {
		keys = append(keys, int(k))
	}
	sort.Ints(keys)
	xs := []Sx{}
	for _, k := range keys {
		xs = append(xs, Sx(L(k, m[uint32(k)])))
	}
	return xs
}

func runSvg(c *svgCase) {
	b := baseDocs[c.baseID]
	var obs Sx
	func() {
		defer func() {
			if e := recover(); e != nil {
				obs = L(Sym("panic"))
			}
		}()
		doc := topology.GenerateCompositeSVGdoc(c.js, b.svg, c.m, c.opts[0], c.opts[1], c.opts[2], c.opts[3])
		isDefault := c.opts == [4]bool{true, true, false, false}
		var wrapper string
		if isDefault {
			wrapper = topology.GenerateCompositeSVG(c.js, b.svg, c.m)
		}
		if doc == nil {
			if isDefault && wrapper != "" {
				obs = L(Sym("ok"), 1, 1, 0, []Sx{}) // wrapper disagrees with the document API
				return
			}
			obs = Sym("fail")
			return
		}
		out := doc.XMLPretty()
		wrapOK := !isDefault || wrapper == out
		root, ok := xmlParse(out)
		if !ok {
			obs = L(Sym("ok"), 0, 0, wrapOK, []Sx{})
			return
		}
		base, bok := xmlParse(b.svg)
		kept := false
		nbase := 0
		if bok {
			nbase = len(base.kids)
			kept = xEqual(base, root, true, nbase)
		}
		// the compact serialisation must denote the same tree
		if r2, ok2 := xmlParse(doc.XML()); !ok2 || !xEqual(r2, root, false, 0) {
			ok = false
		}
		nodes := []Sx{}
		for i := nbase; i < len(root.kids); i++ {
			if len(root.kids[i].kids) != 0 {
				kept = false // appended nodes are leaves
			}
			nodes = append(nodes, nodeSx(root.kids[i]))
		}
		obs = L(Sym("ok"), ok, kept, wrapOK, nodes)
	}()
	emit(L(Sym("svg"), topoSx(c.t), mapSx(c.m), L(c.opts[0], c.opts[1], c.opts[2], c.opts[3]),
		L(Sym("base"), c.baseID, b.valid, b.strict), obs))
	c15stats["cases"]++
	if !b.valid {
		c15stats["invalid-base"]++
	}
	if c.m == nil {
		c15stats["map-nil"]++
	} else if len(c.m) == 0 {
		c15stats["map-empty"]++
	}
}

// the generator decodes the JSON itself; the case records what it will see
func mkSvgCase(t *topology.Topology, m map[uint32]uint32, opts [4]bool, baseID int) *svgCase {
	return mkSvgCaseRaw(t.ToJSON(), m, opts, baseID)
}

// any text as topologyJSON: the generator ignores json.Unmarshal's error and works on whatever
// was decoded; the case records exactly that (partial) topology
func mkSvgCaseRaw(js string, m map[uint32]uint32, opts [4]bool, baseID int) *svgCase {
	var seen topology.Topology
	func() {
		defer func() { recover() }()
		json.Unmarshal([]byte(js), &seen)
	}()
	return &svgCase{t: &seen, js: js, m: m, opts: opts, baseID: baseID}
}

// malformed / unusual topology JSON derived from a valid document
func mutateJSON(js string, rng *Rng) (string, string) {
	pick := func(xs []string) string { return xs[rng.Intn(len(xs))] }
	switch k := rng.Intn(12); k {
	case 0: // truncated
		if len(js) > 1 {
			return js[:1+rng.Intn(len(js)-1)], "truncated"
		}
	case 1: // a number becomes a string / bool / null / float / huge
		repl := pick([]string{`"7"`, `true`, `null`, `1.5`, `1e400`, `99999999999999999999`, `-3`, `[]`, `{}`})
		idx := strings.Index(js, `"x":`)
		if idx >= 0 {
			end := idx + 4
			for end < len(js) && strings.ContainsRune("-0123456789.eE", rune(js[end])) {
				end++
			}
			return js[:idx+4] + repl + js[end:], "x-replaced"
		}
	case 2: // key case changed (encoding/json matches case-insensitively)
		return strings.Replace(strings.Replace(js, `"id":`, `"ID":`, -1), `"typeIndex":`, `"TYPEINDEX":`, 1), "key-case"
	case 3: // duplicate key: last wins
		return strings.Replace(js, `"id":`, `"id":77,"id":`, 1), "duplicate-key"
	case 4: // unknown fields
		return strings.Replace(js, `"id":`, `"unknown":{"a":[1,2,{"b":null}]},"id":`, -1), "unknown-field"
	case 5: // wrong container types
		return strings.Replace(js, `"HWc":[`, `"HWc":{"a":[`, 1), "hwc-object"
	case 6:
		return `[` + js + `]`, "array-wrapped"
	case 7:
		return pick([]string{``, `null`, `{}`, `[]`, `"x"`, `{"HWc":null,"typeIndex":null}`, `{"HWc":[null,{}],"typeIndex":{"1":null}}`,
			`{"typeIndex":{"x":{}}}`, `{"typeIndex":{"-1":{},"4294967296":{},"01":{"w":3}}}`, "\xff{", `{"HWc":[{"id":-1}]}`,
			`{"HWc":[{"id":1,"type":1,"typeOverride":null}],"typeIndex":{"1":{"w":10,"h":5,"rotate":"x"}}}`}), "literal"
	case 8: // null override / disp / sub
		return strings.Replace(strings.Replace(js, `"disp":{`, `"disp":null,"x_disp":{`, 1), `"sub":[`, `"sub":null,"x_sub":[`, 1), "nulls"
	case 9: // whitespace and escapes
		return strings.Replace(strings.Replace(js, `,`, " ,\n\t", -1), `"txt":"`, `"txt":"\u0041\n`, -1), "whitespace-escapes"
	case 10: // trailing garbage
		return js + pick([]string{`x`, `{}`, ` `, `,`}), "trailing"
	case 11: // negative / float sizes
		return strings.Replace(js, `"w":`, `"w":-`, 1), "negative-w"
	}
	return js, "unchanged"
}

func replayC15(line string) {
	silenceStdout()
	n := parseSexp(line)
	if n == nil || !n.IsList || len(n.Kids) < 6 {
		return
	}
	t := &topology.Topology{}
	fromSx(n.Kids[1], reflect.ValueOf(t).Elem())
	var m map[uint32]uint32
	if n.Kids[2].IsList {
		m = map[uint32]uint32{}
		for _, e := range n.Kids[2].Kids {
			if e.IsList && len(e.Kids) == 2 {
				m[uint32(atoi64(e.Kids[0].Atom))] = uint32(atoi64(e.Kids[1].Atom))
			}
		}
	}
	var o [4]bool
	for i := 0; i < 4 && i < len(n.Kids[3].Kids); i++ {
		o[i] = n.Kids[3].Kids[i].Atom != "0"
	}
	bid := 0
	if len(n.Kids[4].Kids) > 1 {
		bid = int(atoi64(n.Kids[4].Kids[1].Atom))
	}
	if bid < 0 || bid >= len(baseDocs) {
		bid = 0
	}
	runSvg(mkSvgCase(t, m, o, bid))
}

func genC15(tier string, rng *Rng) {
	silenceStdout()
	thorough := tier == "thorough"
	hist := map[string]int{}
	labels := []string{"", "A", "A|B", "A|", "|B", "A|B|C", "|", "a<b>&\"c'|\xc3\xa9 \xe2\x82\xac", " x | y "}
	rots := []uint32{0, 0x80000000, 0x42b40000, 0xc2b40000, 0x42360000, 0x3dcccccd, 0x43340000, 0x00000001, 0xc0490fdb, 0x4b800000, 0x7f7fffff, 0xc2b3ffff}
	renders := []string{"", "txt", "hwcid", "txt,hwcid", "invtxt,txt", "invtxt", "x", "hwcid,invtxt", ",txt", "txt "}
	allOpts := [][4]bool{}
	for i := 0; i < 16; i++ {
		allOpts = append(allOpts, [4]bool{i&1 != 0, i&2 != 0, i&4 != 0, i&8 != 0})
	}
	defOpts := [4]bool{true, true, false, false}

	mkTopo := func(n int, o *fillOpt) *topology.Topology {
		t := closedTopology(rng, 1+rng.Intn(4), n, o, false)
		for i := range t.HWc {
			h := &t.HWc[i]
			h.Txt = labels[rng.Intn(len(labels))]
			if rng.Intn(3) == 0 {
				h.Type = uint32(poolUint["Type"][rng.Intn(len(poolUint["Type"]))]) // incl. missing / 0
			}
			if h.TypeOverride != nil && rng.Intn(2) == 0 {
				h.TypeOverride.Rotate = floatFromBits(rots[rng.Intn(len(rots))])
			}
			if h.TypeOverride != nil && rng.Intn(2) == 0 {
				h.TypeOverride.Render = renders[rng.Intn(len(renders))]
			}
		}
		for k, d := range t.TypeIndex {
			if rng.Intn(2) == 0 {
				d.Rotate = floatFromBits(rots[rng.Intn(len(rots))])
			}
			if rng.Intn(2) == 0 {
				d.Render = renders[rng.Intn(len(renders))]
			}
			switch rng.Intn(5) {
			case 0:
				d.H = 0
			case 1:
				d.H = d.W*2 + 1 // label rotated by 90 degrees
			case 2:
				d.H = -3
			}
			if d.Disp != nil && rng.Intn(2) == 0 {
				d.Disp.Subidx = rng.Intn(4) - 1
			}
			t.TypeIndex[k] = d
		}
		return t
	}

	// ---- 1. every subset of components masked, for topologies of <= N components,
	//         with the map given as: nil, empty, and the subset (absent key vs explicit 0)
	maxN := 6
	if thorough {
		maxN = 8
	}
	for n := 0; n <= maxN; n++ {
		o := &fillOpt{xmlChars: true, rng: rng, tricky: true, pPresent: 50, maxSlice: 3, depthLimit: 5}
		t := mkTopo(n, o)
		runSvg(mkSvgCase(t, nil, defOpts, rng.Intn(6)))
		runSvg(mkSvgCase(t, map[uint32]uint32{}, defOpts, rng.Intn(6)))
		for mask := 0; mask < 1<<uint(n); mask++ {
			m := map[uint32]uint32{}
			for j := 0; j < n; j++ {
				if mask&(1<<uint(j)) != 0 {
					m[t.HWc[j].Id] = uint32(1 + rng.Intn(3))
				} else if rng.Intn(2) == 0 {
					m[t.HWc[j].Id] = 0
				}
			}
			op := defOpts
			if mask%3 == 0 {
				op = allOpts[rng.Intn(16)]
			}
			runSvg(mkSvgCase(t, m, op, rng.Intn(6)))
			hist["mask-sweep"]++
		}
	}

	// ---- 2. label shapes x rotation x render options x switches, one component
	for _, lb := range labels {
		for _, rb := range rots {
			for ri, rd := range renders {
				if !thorough && (ri%3 != int(rb)%3) {
					continue
				}
				d := topology.TopologyHWcTypeDef{W: 100, H: 60, Rotate: floatFromBits(rb), Render: rd}
				switch rng.Intn(4) {
				case 0:
					d.H = 0
				case 1:
					d.H = 201
				}
				if rng.Intn(2) == 0 {
					d.Disp = &topology.TopologyHWcTypeDef_Display{W: 64, H: 32, Subidx: rng.Intn(3) - 1, Type: []string{"", "gray"}[rng.Intn(2)]}
				}
				ns := rng.Intn(3)
				for j := 0; j < ns; j++ {
					s := topology.TopologyHWcTypeDefSubEl{}
					fillValue(reflect.ValueOf(&s).Elem(), "", &fillOpt{xmlChars: true, rng: rng, pPresent: 70, maxSlice: 1, depthLimit: 2}, 1)
					d.Sub = append(d.Sub, s)
				}
				t := &topology.Topology{TypeIndex: map[uint32]topology.TopologyHWcTypeDef{1: d},
					HWc: []topology.TopologyHWcomponent{{Id: 7, X: 500, Y: -33, Txt: lb, Type: 1}}}
				runSvg(mkSvgCase(t, nil, allOpts[rng.Intn(16)], rng.Intn(6)))
				hist["label-rot-render"]++
			}
		}
	}

	// ---- 3. random topologies x maps x switches x all base documents
	n3 := 1500
	if thorough {
		n3 = 25000
	}
	for i := 0; i < n3; i++ {
		o := &fillOpt{xmlChars: true, rng: rng, tricky: rng.Intn(2) == 0, pPresent: 20 + rng.Intn(70), maxSlice: 3, depthLimit: 5}
		t := mkTopo(rng.Intn(7), o)
		var m map[uint32]uint32
		switch rng.Intn(4) {
		case 0:
		case 1:
			m = map[uint32]uint32{}
		default:
			m = map[uint32]uint32{}
			for _, h := range t.HWc {
				if rng.Intn(3) > 0 {
					m[h.Id] = uint32(rng.Intn(3))
				}
			}
		}
		bid := rng.Intn(len(baseDocs))
		op := allOpts[rng.Intn(16)]
		if rng.Intn(3) == 0 {
			op = defOpts
		}
		runSvg(mkSvgCase(t, m, op, bid))
		hist["random"]++
	}
	// ---- 3b. malformed / unusual topology JSON (the generator ignores the decode error)
	n3b := 1200
	if thorough {
		n3b = 15000
	}
	for i := 0; i < n3b; i++ {
		o := &fillOpt{xmlChars: true, rng: rng, tricky: rng.Intn(2) == 0, pPresent: 30 + rng.Intn(60), maxSlice: 2, depthLimit: 5}
		t := mkTopo(1+rng.Intn(4), o)
		js, kind := mutateJSON(t.ToJSON(), rng)
		var m map[uint32]uint32
		if rng.Intn(3) == 0 {
			m = map[uint32]uint32{1: 1, 2: 0, 3: 5, 77: 1}
		}
		op := defOpts
		if rng.Intn(2) == 0 {
			op = allOpts[rng.Intn(16)]
		}
		runSvg(mkSvgCaseRaw(js, m, op, rng.Intn(7)))
		hist["malformed-json-"+kind]++
	}

	// ---- 4. every base document with a fixed small topology
	for bid := range baseDocs {
		t := mkTopo(3, &fillOpt{xmlChars: true, rng: rng, pPresent: 60, maxSlice: 2, depthLimit: 4})
		runSvg(mkSvgCase(t, nil, defOpts, bid))
		runSvg(mkSvgCase(&topology.Topology{}, nil, defOpts, bid))
		hist["base-sweep"]++
	}
	// ---- 5. HISTORIES on one set of arguments: the same topology JSON, the same base document and the
	// SAME map object, edited in place between consecutive calls (that is how an application keeps its
	// availability map); every call is an ordinary case judged on the map's content at call time
	// (seed C15-14: a "last rendering" memo that stored the caller's map by reference)
	n5 := 40
	if thorough {
		n5 = 400
	}
	for i := 0; i < n5; i++ {
		o := &fillOpt{xmlChars: true, rng: rng, tricky: rng.Intn(2) == 0, pPresent: 40 + rng.Intn(40), maxSlice: 2, depthLimit: 4}
		t := mkTopo(2+rng.Intn(4), o)
		bid := rng.Intn(len(baseDocs))
		m := map[uint32]uint32{}
		for _, h := range t.HWc {
			m[h.Id] = 1 + uint32(rng.Intn(3))
		}
		js := t.ToJSON()
		call := func() {
			runSvg(mkSvgCaseRaw(js, m, defOpts, bid))
			hist["same-map-object-history"]++
		}
		call()
		for _, h := range t.HWc { // mask one, render, unmask it and mask the next ...
			old := m[h.Id]
			m[h.Id] = 0
			call()
			m[h.Id] = old
		}
		call()
		for _, h := range t.HWc { // ... then mask them all, one more per call
			m[h.Id] = 0
			call()
		}
		for _, h := range t.HWc { // no entry = visible again
			delete(m, h.Id)
			call()
		}
		m[4000000] = 0 // an entry for a component that does not exist
		call()
	}
	meta(map[string]interface{}{"property": "C15", "cases": c15stats, "shape": hist, "base_documents": len(baseDocs)})
}
