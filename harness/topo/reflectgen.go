package main

// Reflection-driven generation, printing, parsing and fingerprinting of the topology types.
// Everything here walks the REAL Go struct types of /repo/topology, so a field added there is
// populated, printed and compared automatically (the Coq side reads the same declarations
// through gen/ -> Gen/TopoSchema.v and finds fields by Go name).

import (
	"io"
	"math"
	"os"
	"reflect"
	"sort"
	"strconv"
	"strings"

	topology "github.com/SKAARHOJ/rawpanel-lib/topology"
	log "github.com/s00500/env_logger"
	"github.com/sirupsen/logrus"
)

func init() {
	// the library logs XML/JSON errors on STDOUT through env_logger; keep the case stream clean
	l := logrus.New()
	l.SetOutput(io.Discard)
	l.SetLevel(logrus.PanicLevel)
	log.ConfigureAllLoggers(l, "")
}

// the library prints diagnostics with fmt.Printf; keep them out of the case stream
func silenceStdout() {
	if f, err := os.OpenFile(os.DevNull, os.O_WRONLY, 0); err == nil {
		os.Stdout = f
	}
}

func isOpaque(t reflect.Type) bool { return t.PkgPath() == "sync" }

// ---------------------------------------------------------------- printing
func toSx(v reflect.Value) Sx {
	switch v.Kind() {
	case reflect.Struct:
		if isOpaque(v.Type()) {
			return Sym("o")
		}
		xs := []Sx{}
		for i := 0; i < v.NumField(); i++ {
			// a hidden (unexported, not embedded) field holds nothing the serialised form shows: opaque, like
			// the embedded mutex.  (If it DOES hold data - a memo - the model cannot know it; the spec
			// predicates judge the look-ups all the same, which is how such a memo gets a failing input.)
			if f := v.Type().Field(i); f.PkgPath != "" && !f.Anonymous {
				xs = append(xs, Sym("o"))
				continue
			}
			xs = append(xs, toSx(v.Field(i)))
		}
		return xs
	case reflect.Ptr:
		if v.IsNil() {
			return Sym("nil")
		}
		return L(Sym("p"), toSx(v.Elem()))
	case reflect.Slice:
		if v.IsNil() {
			return Sym("nil")
		}
		xs := []Sx{}
		for i := 0; i < v.Len(); i++ {
			xs = append(xs, toSx(v.Index(i)))
		}
		return xs
	case reflect.Map:
		if v.IsNil() {
			return Sym("nil")
		}
		keys := v.MapKeys()
		// key-STRING order, as encoding/json emits map entries (the model's canonical order)
		sort.Slice(keys, func(i, j int) bool { return keyStr(keys[i]) < keyStr(keys[j]) })
		xs := []Sx{}
		for _, k := range keys {
			xs = append(xs, L(toSx(k), toSx(v.MapIndex(k))))
		}
		return xs
	case reflect.Int, reflect.Int8, reflect.Int16, reflect.Int32, reflect.Int64:
		return v.Int()
	case reflect.Uint, reflect.Uint8, reflect.Uint16, reflect.Uint32, reflect.Uint64, reflect.Uintptr:
		return v.Uint()
	case reflect.Bool:
		return v.Bool()
	case reflect.String:
		return v.String()
	case reflect.Float32:
		return int64(math.Float32bits(float32(v.Float())))
	case reflect.Float64:
		return math.Float64bits(v.Float())
	}
	return Sym("o")
}

func keyStr(k reflect.Value) string {
	switch k.Kind() {
	case reflect.Int, reflect.Int8, reflect.Int16, reflect.Int32, reflect.Int64:
		return strconv.FormatInt(k.Int(), 10)
	case reflect.Uint, reflect.Uint8, reflect.Uint16, reflect.Uint32, reflect.Uint64:
		return strconv.FormatUint(k.Uint(), 10)
	}
	return k.String()
}

func fingerprint(x interface{}) string {
	var b strings.Builder
	sx(&b, toSx(reflect.ValueOf(x).Elem()))
	return b.String()
}

// ---------------------------------------------------------------- parsing (replay)
func fromSx(n *Node, v reflect.Value) {
	switch v.Kind() {
	case reflect.Struct:
		if isOpaque(v.Type()) || !n.IsList {
			return
		}
		for i := 0; i < v.NumField() && i < len(n.Kids); i++ {
			if v.Field(i).CanSet() {
				fromSx(n.Kids[i], v.Field(i))
			}
		}
	case reflect.Ptr:
		if !n.IsList {
			v.Set(reflect.Zero(v.Type()))
			return
		}
		p := reflect.New(v.Type().Elem())
		if len(n.Kids) == 2 {
			fromSx(n.Kids[1], p.Elem())
		}
		v.Set(p)
	case reflect.Slice:
		if !n.IsList {
			v.Set(reflect.Zero(v.Type()))
			return
		}
		s := reflect.MakeSlice(v.Type(), len(n.Kids), len(n.Kids))
		for i, k := range n.Kids {
			fromSx(k, s.Index(i))
		}
		v.Set(s)
	case reflect.Map:
		if !n.IsList {
			v.Set(reflect.Zero(v.Type()))
			return
		}
		m := reflect.MakeMap(v.Type())
		for _, k := range n.Kids {
			if k.IsList && len(k.Kids) == 2 {
				kv := reflect.New(v.Type().Key()).Elem()
				fromSx(k.Kids[0], kv)
				ev := reflect.New(v.Type().Elem()).Elem()
				fromSx(k.Kids[1], ev)
				m.SetMapIndex(kv, ev)
			}
		}
		v.Set(m)
	case reflect.Int, reflect.Int8, reflect.Int16, reflect.Int32, reflect.Int64:
		v.SetInt(atoi64(n.Atom))
	case reflect.Uint, reflect.Uint8, reflect.Uint16, reflect.Uint32, reflect.Uint64, reflect.Uintptr:
		v.SetUint(uint64(atoi64(n.Atom)))
	case reflect.Bool:
		v.SetBool(n.Atom != "0")
	case reflect.String:
		v.SetString(string(n.Bytes()))
	case reflect.Float32:
		v.SetFloat(float64(math.Float32frombits(uint32(atoi64(n.Atom)))))
	case reflect.Float64:
		v.SetFloat(math.Float64frombits(uint64(atoi64(n.Atom))))
	}
}

func atoi64(s string) int64 {
	neg := false
	if strings.HasPrefix(s, "-") {
		neg = true
		s = s[1:]
	}
	var v uint64
	for i := 0; i < len(s); i++ {
		if s[i] < '0' || s[i] > '9' {
			break
		}
		v = v*10 + uint64(s[i]-'0')
	}
	if neg {
		return -int64(v)
	}
	return int64(v)
}

// ---------------------------------------------------------------- deep copy (fresh pointers)
func deepCopy(dst, src reflect.Value) {
	switch src.Kind() {
	case reflect.Struct:
		if isOpaque(src.Type()) {
			return
		}
		for i := 0; i < src.NumField(); i++ {
			if dst.Field(i).CanSet() {
				deepCopy(dst.Field(i), src.Field(i))
			}
		}
	case reflect.Ptr:
		if src.IsNil() {
			dst.Set(reflect.Zero(src.Type()))
			return
		}
		p := reflect.New(src.Type().Elem())
		deepCopy(p.Elem(), src.Elem())
		dst.Set(p)
	case reflect.Slice:
		if src.IsNil() {
			dst.Set(reflect.Zero(src.Type()))
			return
		}
		s := reflect.MakeSlice(src.Type(), src.Len(), src.Len())
		for i := 0; i < src.Len(); i++ {
			deepCopy(s.Index(i), src.Index(i))
		}
		dst.Set(s)
	case reflect.Map:
		if src.IsNil() {
			dst.Set(reflect.Zero(src.Type()))
			return
		}
		m := reflect.MakeMap(src.Type())
		for _, k := range src.MapKeys() {
			ev := reflect.New(src.Type().Elem()).Elem()
			deepCopy(ev, src.MapIndex(k))
			m.SetMapIndex(k, ev)
		}
		dst.Set(m)
	default:
		dst.Set(src)
	}
}

func cloneTypeDef(d *topology.TopologyHWcTypeDef) *topology.TopologyHWcTypeDef {
	c := &topology.TopologyHWcTypeDef{}
	deepCopy(reflect.ValueOf(c).Elem(), reflect.ValueOf(d).Elem())
	return c
}

func cloneTopology(t *topology.Topology) *topology.Topology {
	c := &topology.Topology{}
	deepCopy(reflect.ValueOf(c).Elem(), reflect.ValueOf(t).Elem())
	return c
}

// ---------------------------------------------------------------- value pools
var poolStr = map[string][]string{
	"In":      {"b", "b4", "b2h", "b2v", "pb", "p", "gpi", "av", "ah", "ar", "a", "iv", "ih", "ir", "i", "b4,x", ",", ",b", "b,", "pb,av", "B", "b ", " b", "rg", "rb", "mono", "x", "b4,x,y", "gpi,", "i,i"},
	"Out":     {"rgb", "rg", "rb", "mono", "x", "RGB", "rgb,mono"},
	"Ext":     {"steps", "pos", "xsteps", "steps2", "Steps", "pos,steps", "x"},
	"Render":  {"txt", "hwcid", "txt,hwcid", "invtxt,txt", "invtxt", "x", "hwcid,invtxt"},
	"Txt":     {"A", "A|B", "A|", "|B", "A|B|C", "|", "<&>\"'", "\xc3\xa9|\xe2\x82\xac", "Long label 12|second", " a | b "},
	"Desc":    {"Button", "Fader", "d", "Elastic|x"},
	"ObjType": {"r", "c", "d", "x", "R"},
	"Style":   {"fill:#f00", "stroke:\"x\"<&>", "s"},
	"Type":    {"gray", "color", "text", "x"},
	"Title":   {"Panel", "T<1>", "t"},
}
var poolGenericStr = []string{"x", "abc", "a,b", "\xc3\xa9"}

var poolInt = map[string][]int64{
	"W":      {1, 2, 3, 100, 101, 64, 256, 1000, 7},
	"H":      {1, 2, 5, 100, 33, 32, 48, 999, 201},
	"X":      {0, 1, -1, 500, 1234, -300, 77},
	"Y":      {0, 1, -1, 250, 987, -20, 33},
	"Subidx": {1, 2, 3, 5},
	"R":      {1, 10, 25},
	"Rx":     {1, 5, -2},
	"Ry":     {2, 7, -1},
	"Idx":    {1, 2, 3, 4, 7, -3, 20000},
	"Shrink": {1, 2, 3},
	"Border": {1, 2, 4},
}
var poolGenericInt = []int64{1, 2, 5, 17, 1000}
var poolNegInt = []int64{-1, -2, -100}

var poolUint = map[string][]uint64{
	"Id":       {1, 2, 3, 4, 5, 6, 7, 8, 9, 10, 0, 4294967295, 300},
	"Type":     {0, 1, 2, 3, 5, 7, 250, 4000000000, 999},
	"UIparent": {1, 2, 40},
	"UIyang":   {1, 3},
}

var f32Present = []uint32{0x42b40000 /*90*/, 0xc2b40000 /*-90*/, 0x42360000 /*45.5*/, 0x3dcccccd /*0.1*/, 0x43340000 /*180*/, 0x00000001 /*denormal*/, 0x3f800000 /*1*/, 0xc0490fdb /*-pi*/, 0x4b800000 /*2^24*/}
var f32Special = []uint32{0x7fc00000 /*NaN*/, 0x7f800000 /*+Inf*/, 0xff800000 /*-Inf*/, 0xffc00001 /*NaN*/}

// fill options
type fillOpt struct {
	rng        *Rng
	allowNaN   bool // NaN/Inf floats (json.Marshal refuses them: only where JSON is not involved)
	tricky     bool // "absent" values may be negative ints, -0, empty non-nil slices
	pPresent   int  // percent chance that an attribute gets a non-empty value
	maxSlice   int
	typeKeys   []uint64 // keys to prefer for fields named "Type" of uint kind
	idPool     []uint64
	depthLimit int
	bigInts    bool // signed integer fields may take values no float64 can represent (seed C14-13: a lenient
	// UnmarshalJSON that reads coordinates through ParseFloat rounds everything above 2^53)
	xmlChars bool // only strings XML 1.0 can carry (no C0 controls but TAB LF CR): the SVG printer has to
	// replace anything else (it writes U+FFFD), so "the label is the topology's text" cannot be asked there
}

func xmlCarriable(s string) bool {
	for _, r := range s {
		if r < 0x20 && r != '\t' && r != '\n' && r != '\r' || r == 0xFFFE || r == 0xFFFF {
			return false
		}
	}
	return true
}

// strings that are harmless as DATA but special to something that may carry them: XML comments /
// CDATA / entities / tags, JSON escapes written out literally (backslash u 0 0 2 6), backslashes and
// quotes, format verbs, line breaks, non-BMP characters, a long string (seeds C15-8: the title put into
// an XML comment unescaped; C14-8: a replacer that cannot tell an encoder-made \u0026 from the same six
// characters in the data)
var nastyStr = []string{"--", "a -- b", "-->", "<!-- x -->", "]]>", "&amp;", "&#65;", "PGM\\u0026PVW", "C:\\u003e", "\\u003c", "\\", "a\\b\\", "\"q\"", "it's", "%d%s %",
	"</svg>", "<g/>", "l1\nl2", "tab\there", "\u2028", "\U0001F4A1", "R&S", "1<2>0", strings.Repeat("long ", 60),
	// characters that Go's %q / strconv.Quote and JSON escape DIFFERENTLY (seed C14-11: a hand-assembled
	// envelope with "title":%q is not JSON for these), byte-order mark, zero-width and bidi controls
	"Rack 3\x1b[1m", "bell\a", "vt\v", "nul\x00x", "del\x7f", "tag \U000E0041 char", "\ufeffbom", "zw\u200bsp", "\u202eltr", "\b\f\r", "\u00a0nbsp\u00ad"}

func (o *fillOpt) pickStr(name string) string {
	if o.rng.Intn(7) == 0 {
		if s := nastyStr[o.rng.Intn(len(nastyStr))]; !o.xmlChars || xmlCarriable(s) {
			return s
		}
	}
	if p, ok := poolStr[name]; ok {
		return p[o.rng.Intn(len(p))]
	}
	return poolGenericStr[o.rng.Intn(len(poolGenericStr))]
}

var poolBigInt = []int64{1<<53 + 1, -(1<<53 + 1), 1<<53 + 3, 1<<60 + 7, math.MaxInt64, math.MinInt64, 1 << 31, -(1 << 31) - 1, 1<<32 + 1, 1 << 53, 999999999999999999}

func (o *fillOpt) pickInt(name string) int64 {
	if o.bigInts && o.rng.Intn(6) == 0 {
		return poolBigInt[o.rng.Intn(len(poolBigInt))]
	}
	if p, ok := poolInt[name]; ok {
		return p[o.rng.Intn(len(p))]
	}
	return poolGenericInt[o.rng.Intn(len(poolGenericInt))]
}

// setPresent gives v a NON-EMPTY value of its kind (what an override "supplies").
func setPresent(v reflect.Value, name string, o *fillOpt, depth int) {
	switch v.Kind() {
	case reflect.Int, reflect.Int8, reflect.Int16, reflect.Int32, reflect.Int64:
		x := o.pickInt(name)
		if x <= 0 && (name == "W" || name == "H" || name == "Subidx") {
			x = 1
		}
		v.SetInt(x)
	case reflect.Uint, reflect.Uint8, reflect.Uint16, reflect.Uint32, reflect.Uint64:
		if name == "Type" && len(o.typeKeys) > 0 && o.rng.Intn(100) < 75 {
			v.SetUint(o.typeKeys[o.rng.Intn(len(o.typeKeys))])
		} else if name == "Id" && len(o.idPool) > 0 {
			v.SetUint(o.idPool[o.rng.Intn(len(o.idPool))])
		} else if p, ok := poolUint[name]; ok {
			v.SetUint(p[o.rng.Intn(len(p))])
		} else {
			v.SetUint(uint64(1 + o.rng.Intn(9)))
		}
	case reflect.Bool:
		v.SetBool(true)
	case reflect.String:
		v.SetString(o.pickStr(name))
	case reflect.Float32, reflect.Float64:
		if o.allowNaN && o.rng.Intn(8) == 0 {
			v.SetFloat(float64(math.Float32frombits(f32Special[o.rng.Intn(len(f32Special))])))
		} else {
			v.SetFloat(float64(math.Float32frombits(f32Present[o.rng.Intn(len(f32Present))])))
		}
	case reflect.Ptr:
		p := reflect.New(v.Type().Elem())
		fillValue(p.Elem(), name, o, depth+1)
		v.Set(p)
	case reflect.Slice:
		n := 1 + o.rng.Intn(o.maxSlice)
		s := reflect.MakeSlice(v.Type(), n, n)
		for i := 0; i < n; i++ {
			fillValue(s.Index(i), name, o, depth+1)
		}
		v.Set(s)
	case reflect.Map:
		m := reflect.MakeMap(v.Type())
		n := 1 + o.rng.Intn(3)
		for i := 0; i < n; i++ {
			k := reflect.New(v.Type().Key()).Elem()
			setPresent(k, "Type", o, depth+1)
			e := reflect.New(v.Type().Elem()).Elem()
			fillValue(e, name, o, depth+1)
			m.SetMapIndex(k, e)
		}
		v.Set(m)
	case reflect.Struct:
		fillValue(v, name, o, depth)
	}
}

// setAbsent gives v an EMPTY value of its kind; with o.tricky the empty values that are not
// the zero value are used too (negative sizes, -0, empty non-nil slice/map).
func setAbsent(v reflect.Value, name string, o *fillOpt) {
	v.Set(reflect.Zero(v.Type()))
	if !o.tricky || o.rng.Intn(3) != 0 {
		return
	}
	switch v.Kind() {
	case reflect.Int, reflect.Int8, reflect.Int16, reflect.Int32, reflect.Int64:
		v.SetInt(poolNegInt[o.rng.Intn(len(poolNegInt))])
	case reflect.Float32, reflect.Float64:
		v.SetFloat(math.Copysign(0, -1))
	case reflect.Slice:
		v.Set(reflect.MakeSlice(v.Type(), 0, 0))
	case reflect.Map:
		v.Set(reflect.MakeMap(v.Type()))
	}
}

// fillValue populates every settable field of a struct (recursively), by kind.
func fillValue(v reflect.Value, name string, o *fillOpt, depth int) {
	if v.Kind() != reflect.Struct {
		if o.rng.Intn(100) < o.pPresent {
			setPresent(v, name, o, depth)
		} else {
			setAbsent(v, name, o)
		}
		return
	}
	if isOpaque(v.Type()) {
		return
	}
	for i := 0; i < v.NumField(); i++ {
		f := v.Field(i)
		ft := v.Type().Field(i)
		if !f.CanSet() || isOpaque(ft.Type) {
			continue
		}
		if depth >= o.depthLimit && (f.Kind() == reflect.Ptr || f.Kind() == reflect.Slice || f.Kind() == reflect.Map) {
			continue
		}
		// integer fields that are not "attributes with an empty value" (coordinates, ids, indices
		// with json tag lacking omitempty) take any value incl. 0 and negatives
		if f.Kind() == reflect.Int && (ft.Name == "X" || ft.Name == "Y") {
			f.SetInt(o.pickInt(ft.Name))
			continue
		}
		if o.rng.Intn(100) < o.pPresent {
			setPresent(f, ft.Name, o, depth)
		} else {
			setAbsent(f, ft.Name, o)
		}
	}
}

// attribute fields of a struct type: exported, settable, not opaque
func attrFields(t reflect.Type) []int {
	var r []int
	for i := 0; i < t.NumField(); i++ {
		f := t.Field(i)
		if f.PkgPath == "" && !f.Anonymous && !isOpaque(f.Type) {
			r = append(r, i)
		}
	}
	return r
}

func floatFromBits(b uint32) float32 { return math.Float32frombits(b) }
