package main

// C13: every look-up of topology.go on reflection-generated topologies; each query prints
// the implementation's answer and whether ToJSON()/the deep fingerprint changed during it.

import (
	"reflect"

	topology "github.com/SKAARHOJ/rawpanel-lib/topology"
)

func init() {
	props["C13"] = genC13
	replays["C13"] = replayC13
}

type qspec struct {
	kind string
	arg  int64
	def  *topology.TopologyHWcTypeDef
}

var c13stats = map[string]int{}

func predsSx(d *topology.TopologyHWcTypeDef) (r Sx) {
	defer func() {
		if e := recover(); e != nil {
			r = Sym("panic")
		}
	}()
	var di Sx = Sym("nil")
	if p := d.DisplayInfo(); p != nil {
		di = L(Sym("p"), toSx(reflect.ValueOf(p).Elem()))
	}
	return L(d.GetInputType(), d.IsButton(), d.IsBinary(), d.IsPulsed(), d.IsAbsolute(), d.IsIntensity(),
		d.HasDisplay(), di, d.HasLED(), d.HasSteps(), d.LedBarSteps(), d.IsMotorized())
}

func tdSx(d *topology.TopologyHWcTypeDef) Sx { return toSx(reflect.ValueOf(d).Elem()) }

// runQueries runs the look-ups on t and emits one case.
// a definition's life before it reaches the topology: the application built it, asked it things while it still
// had ANOTHER input kind / display, corrected it, and stored it (seed C13-16: the predicates' classification
// memoised in the definition object - it travels with every copy).  Every predicate is asked of a scratch copy
// with other contents; the copy, with the real contents restored, is what goes into the index / override.
var c13pokes int

func pokeDef(d *topology.TopologyHWcTypeDef) {
	saveIn, saveOut, saveExt, saveDisp, saveSub := d.In, d.Out, d.Ext, d.Disp, d.Sub
	for _, in := range []string{"av,b", "b4", "pi", "iv", ""} {
		if in == saveIn {
			continue
		}
		d.In, d.Out, d.Ext = in, "rgb", "steps"
		d.Disp = &topology.TopologyHWcTypeDef_Display{W: 64, H: 32}
		func() {
			defer func() { recover() }()
			d.IsButton()
			d.IsBinary()
			d.IsPulsed()
			d.IsAbsolute()
			d.IsIntensity()
			d.GetInputType()
			d.HasDisplay()
			d.HasLED()
			d.IsMotorized()
		}()
		break
	}
	d.In, d.Out, d.Ext, d.Disp, d.Sub = saveIn, saveOut, saveExt, saveDisp, saveSub
}

func pokeTopology(t *topology.Topology) {
	for k, d := range t.TypeIndex {
		pokeDef(&d)
		t.TypeIndex[k] = d
	}
	for i := range t.HWc {
		if t.HWc[i].TypeOverride != nil {
			pokeDef(t.HWc[i].TypeOverride)
		}
	}
}

func runQueries(t *topology.Topology, qs []qspec) {
	c13pokes++
	if c13pokes%3 == 0 {
		pokeTopology(t)
	}
	topoSx := toSx(reflect.ValueOf(t).Elem())
	jsonB, fpB := t.ToJSON(), fingerprint(t)
	mut := func() int {
		j, f := t.ToJSON(), fingerprint(t)
		if j != jsonB || f != fpB {
			jsonB, fpB = j, f
			return 1
		}
		return 0
	}
	var out []Sx
	for _, q := range qs {
		c13stats[q.kind]++
		var item []Sx
		func() {
			defer func() {
				if e := recover(); e != nil {
					item = L(Sym(q.kind), q.arg, Sym("panic"), mut())
				}
			}()
			switch q.kind {
			case "hwcs":
				ids := []Sx{}
				for _, id := range t.GetHWCs() {
					ids = append(ids, id)
				}
				item = L(Sym("hwcs"), ids, mut())
			case "disps":
				ids := []Sx{}
				for _, id := range t.GetHWCsWithDisplay() {
					ids = append(ids, id)
				}
				item = L(Sym("disps"), ids, mut())
			case "xy":
				x, y := t.GetHWCxy(uint32(q.arg))
				item = L(Sym("xy"), q.arg, x, y, mut())
			case "text":
				item = L(Sym("text"), q.arg, t.GetHWCtext(uint32(q.arg)), mut())
			case "type":
				d, err := t.GetHWCtype(uint32(q.arg))
				if err != nil || d == nil {
					msg := ""
					if err != nil {
						msg = err.Error()
					}
					item = L(Sym("type"), q.arg, L(Sym("err"), msg), mut())
				} else {
					item = L(Sym("type"), q.arg, L(Sym("ok"), tdSx(d), predsSx(d), predsSx(cloneTypeDef(d))), mut())
				}
			case "ov":
				d := t.GetTypeDefWithOverride(&t.HWc[q.arg])
				item = L(Sym("ov"), q.arg, tdSx(&d), mut())
			case "t2idx":
				d := t.GetHWCTypeDefinition(int(q.arg))
				item = L(Sym("t2idx"), q.arg, L(Sym("ok"), tdSx(d)), mut())
			case "t2id":
				d := t.GetHWCTypeDefinitionFromHWCid(int(q.arg))
				item = L(Sym("t2id"), q.arg, L(Sym("ok"), tdSx(d)), mut())
			case "defid":
				h := t.GetHWCDefinitionFromHWCid(int(q.arg))
				item = L(Sym("defid"), q.arg, toSx(reflect.ValueOf(h).Elem()), mut())
			case "preds":
				item = L(Sym("preds"), tdSx(q.def), predsSx(q.def), predsSx(cloneTypeDef(q.def)))
			}
		}()
		if item != nil {
			out = append(out, Sx(item))
		}
	}
	emit(L(Sym("c13"), topoSx, out))
}

func replayC13(line string) {
	silenceStdout()
	c13pokes = 2 // a replayed case always gets the (semantics-preserving) pre-life of its definitions
	n := parseSexp(line)
	if n == nil || !n.IsList || len(n.Kids) < 3 {
		return
	}
	t := &topology.Topology{}
	fromSx(n.Kids[1], reflect.ValueOf(t).Elem())
	var qs []qspec
	for _, q := range n.Kids[2].Kids {
		if !q.IsList || len(q.Kids) == 0 {
			continue
		}
		k := q.Kids[0].Atom
		s := qspec{kind: k}
		switch k {
		case "hwcs", "disps":
		case "preds":
			s.def = &topology.TopologyHWcTypeDef{}
			fromSx(q.Kids[1], reflect.ValueOf(s.def).Elem())
		case "ov":
			s.arg = atoi64(q.Kids[1].Atom)
			if s.arg < 0 || int(s.arg) >= len(t.HWc) {
				continue
			}
		default:
			s.arg = atoi64(q.Kids[1].Atom)
		}
		qs = append(qs, s)
	}
	runQueries(t, qs)
}

// all look-ups for a topology: every id present, some absent, every index and its neighbours
func allQueries(t *topology.Topology, rng *Rng) []qspec {
	qs := []qspec{{kind: "hwcs"}, {kind: "disps"}}
	seen := map[int64]bool{}
	var ids []int64
	add := func(id int64) {
		if !seen[id] {
			seen[id] = true
			ids = append(ids, id)
		}
	}
	var maxID int64
	for _, h := range t.HWc {
		add(int64(h.Id))
		if int64(h.Id) > maxID && h.Id < 4000000000 {
			maxID = int64(h.Id)
		}
	}
	add(maxID + 1)
	add(0)
	add(4294967295)
	add(int64(50 + rng.Intn(50)))
	for _, id := range ids {
		qs = append(qs, qspec{kind: "xy", arg: id}, qspec{kind: "text", arg: id}, qspec{kind: "type", arg: id},
			qspec{kind: "t2id", arg: id}, qspec{kind: "defid", arg: id})
	}
	// int arguments that wrap to a uint32 id
	if len(t.HWc) > 0 {
		id := int64(t.HWc[rng.Intn(len(t.HWc))].Id)
		qs = append(qs, qspec{kind: "t2id", arg: id + 4294967296}, qspec{kind: "defid", arg: id - 4294967296},
			qspec{kind: "t2id", arg: -1}, qspec{kind: "defid", arg: -1})
	}
	for k := 0; k < len(t.HWc); k++ {
		qs = append(qs, qspec{kind: "ov", arg: int64(k)})
	}
	for k := -1; k <= len(t.HWc)+1; k++ {
		qs = append(qs, qspec{kind: "t2idx", arg: int64(k)})
	}
	return qs
}

func genC13(tier string, rng *Rng) {
	silenceStdout()
	thorough := tier == "thorough"
	tdT := reflect.TypeOf(topology.TopologyHWcTypeDef{})
	attrs := attrFields(tdT)
	nattr := len(attrs)
	cases := 0
	hist := map[string]int{}

	// ---- 1. every subset of the override attributes x two base definitions (exhaustive)
	full := &fillOpt{rng: rng, allowNaN: false, pPresent: 100, maxSlice: 3, depthLimit: 4}
	baseA := topology.TopologyHWcTypeDef{}
	fillValue(reflect.ValueOf(&baseA).Elem(), "", full, 0)
	baseB := topology.TopologyHWcTypeDef{} // the empty definition
	baseC := topology.TopologyHWcTypeDef{}
	fillValue(reflect.ValueOf(&baseC).Elem(), "", &fillOpt{rng: rng, pPresent: 50, maxSlice: 2, depthLimit: 4}, 0)
	bases := []*topology.TopologyHWcTypeDef{&baseA, &baseB}
	if thorough {
		bases = append(bases, &baseC)
	}
	const group = 8
	for bi, base := range bases {
		for start := 0; start < 1<<uint(nattr); start += group {
			t := &topology.Topology{Title: "sweep", TypeIndex: map[uint32]topology.TopologyHWcTypeDef{}}
			t.TypeIndex[5] = *cloneTypeDef(base)
			t.TypeIndex[7] = *cloneTypeDef(&baseC)
			var qs []qspec
			for s := start; s < start+group && s < 1<<uint(nattr); s++ {
				ov := &topology.TopologyHWcTypeDef{}
				o := &fillOpt{rng: rng, allowNaN: thorough, tricky: bi > 0, pPresent: 100, maxSlice: 2, depthLimit: 3}
				for ai, fi := range attrs {
					f := reflect.ValueOf(ov).Elem().Field(fi)
					if s&(1<<uint(ai)) != 0 {
						setPresent(f, tdT.Field(fi).Name, o, 1)
					} else {
						setAbsent(f, tdT.Field(fi).Name, o)
					}
				}
				k := len(t.HWc)
				ty := uint32(5)
				if bi == 1 && s%5 == 4 {
					ty = 9 // type missing from the index
				}
				t.HWc = append(t.HWc, topology.TopologyHWcomponent{Id: uint32(k + 1), X: 10 * k, Y: -k, Txt: "c", Type: ty, TypeOverride: ov})
				qs = append(qs, qspec{kind: "ov", arg: int64(k)}, qspec{kind: "type", arg: int64(k + 1)},
					qspec{kind: "t2idx", arg: int64(k)}, qspec{kind: "t2id", arg: int64(k + 1)})
				hist["sweep-subsets"]++
			}
			qs = append(qs, qspec{kind: "disps"}, qspec{kind: "hwcs"})
			runQueries(t, qs)
			cases++
		}
	}

	// ---- 2. structured random topologies: duplicate ids, type 0, missing types, tricky empties
	n2 := 6000
	if thorough {
		n2 = 60000
	}
	for i := 0; i < n2; i++ {
		o := &fillOpt{rng: rng, allowNaN: rng.Intn(4) == 0, tricky: rng.Intn(2) == 0, pPresent: 30 + rng.Intn(60), maxSlice: 3, depthLimit: 5}
		t := &topology.Topology{}
		// index first, so that components can refer to its keys
		nidx := rng.Intn(5)
		if rng.Intn(10) > 0 {
			t.TypeIndex = map[uint32]topology.TopologyHWcTypeDef{}
		}
		keyPool := []uint64{1, 2, 3, 5, 7, 250, 0, 4000000000}
		for j := 0; j < nidx && t.TypeIndex != nil; j++ {
			d := topology.TopologyHWcTypeDef{}
			fillValue(reflect.ValueOf(&d).Elem(), "", o, 1)
			k := keyPool[rng.Intn(len(keyPool))]
			t.TypeIndex[uint32(k)] = d
			o.typeKeys = append(o.typeKeys, k)
		}
		idRange := 1 + rng.Intn(10)
		for j := 0; j < idRange; j++ {
			o.idPool = append(o.idPool, uint64(1+j))
		}
		if rng.Intn(6) == 0 {
			o.idPool = append(o.idPool, 0, 4294967295)
		}
		ncomp := rng.Intn(9)
		if rng.Intn(12) == 0 {
			t.HWc = []topology.TopologyHWcomponent{}
		}
		for j := 0; j < ncomp; j++ {
			h := topology.TopologyHWcomponent{}
			fillValue(reflect.ValueOf(&h).Elem(), "", o, 1)
			// ids and types always from the pools (never "absent")
			h.Id = uint32(o.idPool[rng.Intn(len(o.idPool))])
			switch r := rng.Intn(10); {
			case r < 6 && len(o.typeKeys) > 0:
				h.Type = uint32(o.typeKeys[rng.Intn(len(o.typeKeys))])
			case r < 8:
				h.Type = 0
			default:
				h.Type = uint32(poolUint["Type"][rng.Intn(len(poolUint["Type"]))])
			}
			t.HWc = append(t.HWc, h)
		}
		t.Title = o.pickStr("Title")
		qs := allQueries(t, rng)
		for j := 0; j < 2; j++ {
			d := &topology.TopologyHWcTypeDef{}
			fillValue(reflect.ValueOf(d).Elem(), "", o, 1)
			qs = append(qs, qspec{kind: "preds", def: d})
		}
		runQueries(t, qs)
		// the SAME topology object edited in place after it has been looked up (type-index entries replaced
		// under their keys, override attributes changed through the existing pointer), then looked up again:
		// the second round is an ordinary case about the edited topology (seed C13-13: resolved definitions
		// cached per component, validated only by type number and override pointer)
		if i%4 == 0 && (len(t.TypeIndex) > 0 || len(t.HWc) > 0) {
			for k := range t.TypeIndex {
				d := topology.TopologyHWcTypeDef{}
				fillValue(reflect.ValueOf(&d).Elem(), "", o, 1)
				t.TypeIndex[k] = d
			}
			for j := range t.HWc {
				if ov := t.HWc[j].TypeOverride; ov != nil {
					nv := topology.TopologyHWcTypeDef{}
					fillValue(reflect.ValueOf(&nv).Elem(), "", o, 1)
					ov.W, ov.H, ov.In, ov.Out, ov.Ext, ov.Desc, ov.Disp = nv.W, nv.H, nv.In, nv.Out, nv.Ext, nv.Desc, nv.Disp
				}
			}
			runQueries(t, qs)
			hist["edited-after-lookup"]++
		}
		cases++
		hist["random-ncomp-"+string(rune('0'+ncomp))]++
		dup := map[uint32]bool{}
		hasDup := false
		for _, h := range t.HWc {
			if dup[h.Id] {
				hasDup = true
			}
			dup[h.Id] = true
			if h.TypeOverride != nil {
				hist["components-with-override"]++
			}
			if h.Type == 0 {
				hist["components-type0"]++
			} else if _, ok := t.TypeIndex[h.Type]; !ok {
				hist["components-type-missing"]++
			}
		}
		if hasDup {
			hist["topologies-with-duplicate-ids"]++
		}
	}

	// ---- 3. every input-kind string of the pool (and each with ",x" appended) through the predicates
	for _, in := range append([]string{""}, poolStr["In"]...) {
		for _, suf := range []string{"", ",x", ","} {
			for _, ext := range []string{"", "steps", "pos", "xstepsx"} {
				d := &topology.TopologyHWcTypeDef{In: in + suf, Ext: ext, Out: poolStr["Out"][rng.Intn(len(poolStr["Out"]))]}
				n := rng.Intn(4)
				for j := 0; j < n; j++ {
					d.Sub = append(d.Sub, topology.TopologyHWcTypeDefSubEl{Idx: int(poolInt["Idx"][rng.Intn(len(poolInt["Idx"]))])})
				}
				t := &topology.Topology{}
				runQueries(t, []qspec{{kind: "preds", def: d}, {kind: "hwcs"}})
				cases++
				hist["input-kind-sweep"]++
			}
		}
	}
	m := map[string]interface{}{"property": "C13", "cases": cases, "override_attributes": nattr, "queries": c13stats, "shape": hist}
	meta(m)
}
