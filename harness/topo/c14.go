package main

// C14: CleanSections, RandomizeTypes (both modes), ToJSON / json.Unmarshal round trips and
// rawpanelhelpers.ParseTopology on reflection-generated topologies.

import (
	"encoding/json"
	"math"
	"reflect"
	"strconv"
	"strings"

	helpers "github.com/SKAARHOJ/rawpanel-lib"
	topology "github.com/SKAARHOJ/rawpanel-lib/topology"
)

func init() {
	props["C14"] = genC14
	replays["C14"] = replayC14
}

var c14stats = map[string]int{}

func topoSx(t *topology.Topology) Sx { return toSx(reflect.ValueOf(t).Elem()) }

// ---- JSON text -> ordered tree (token by token, so member order is observed)
func jsonTree(dec *json.Decoder) Sx {
	tok, err := dec.Token()
	if err != nil {
		return Sym("error")
	}
	switch t := tok.(type) {
	case json.Delim:
		if t == '[' {
			items := L(Sym("a"))
			for dec.More() {
				items = append(items, jsonTree(dec))
			}
			dec.Token()
			return items
		}
		if t == '{' {
			items := L(Sym("o"))
			for dec.More() {
				k, _ := dec.Token()
				ks, _ := k.(string)
				v := jsonTree(dec)
				items = append(items, Sx(L(ks, v)))
			}
			dec.Token()
			return items
		}
		return Sym("error")
	case nil:
		return Sym("null")
	case bool:
		return L(Sym("b"), t)
	case json.Number:
		s := t.String()
		var iv Sx = Sym("x")
		if !strings.ContainsAny(s, ".eE") {
			iv = Sym(s)
		}
		f32, _ := strconv.ParseFloat(s, 32)
		f64, _ := strconv.ParseFloat(s, 64)
		return L(Sym("n"), iv, int64(math.Float32bits(float32(f32))), math.Float64bits(f64))
	case string:
		return L(Sym("s"), t)
	}
	return Sym("error")
}

func jsonToTree(s string) Sx {
	if !json.Valid([]byte(s)) { // (a Decoder in its error state answers More() with true for ever)
		return Sym("invalid")
	}
	dec := json.NewDecoder(strings.NewReader(s))
	dec.UseNumber()
	return jsonTree(dec)
}

func caseClean(t *topology.Topology) {
	before := topoSx(t)
	func() {
		defer func() {
			if e := recover(); e != nil {
				t.HWc = nil
				t.Title = "PANIC"
			}
		}()
		t.CleanSections()
	}()
	emit(L(Sym("clean"), before, topoSx(t)))
	c14stats["clean"]++
}

// caseCleanQ: id-based look-ups BEFORE the transformation (whatever they leave behind in the object is
// stale afterwards), CleanSections, then the look-ups again for every id of the old list and an absent id
// (seed C14-10: a lazily built id -> position index that nothing resets when entries are deleted)
func caseCleanQ(t *topology.Topology) {
	before := topoSx(t)
	var ids []uint32
	seen := map[uint32]bool{}
	for _, h := range t.HWc {
		if !seen[h.Id] {
			seen[h.Id] = true
			ids = append(ids, h.Id)
		}
	}
	ids = append(ids, 4000000001)
	var qs []Sx
	func() {
		defer func() {
			if e := recover(); e != nil {
				t.HWc = nil
				t.Title = "PANIC"
			}
		}()
		for _, id := range ids {
			t.GetHWCxy(id)
			t.GetHWCtext(id)
			t.GetHWCtype(id)
		}
		t.GetHWCs()
		t.GetHWCsWithDisplay()
		t.CleanSections()
		for _, id := range ids {
			x, y := t.GetHWCxy(id)
			qs = append(qs, Sx(L(id, x, y, t.GetHWCtext(id))))
		}
	}()
	if qs == nil {
		qs = []Sx{}
	}
	emit(L(Sym("cleanq"), before, topoSx(t), qs))
	c14stats["clean-with-lookups"]++
}

func caseRand(t *topology.Topology, seq bool) {
	before := topoSx(t)
	func() {
		defer func() {
			if e := recover(); e != nil {
				t.Title = "PANIC"
			}
		}()
		t.RandomizeTypes(seq)
	}()
	emit(L(Sym("rand"), seq, before, topoSx(t)))
	if seq {
		c14stats["rand-seq"]++
	} else {
		c14stats["rand-random"]++
	}
}

// what earlier calls returned is kept (with a private copy) and looked at again after later calls: a
// serialiser that hands out memory it reuses (seed C14-9: the returned string aliases a shared buffer)
// changes what an earlier caller holds.  If that happens the EARLIER case is emitted once more with the
// first document as it reads now - it is then no longer the fixpoint the others are.
type c14kept struct {
	before, after Sx
	j1, j2, j3    string
	copy1         []byte
}

var c14prev []*c14kept

func caseJSON(t *topology.Topology) {
	defer func() {
		for _, k := range c14prev {
			if k.j1 != string(k.copy1) {
				emit(L(Sym("json"), k.before, k.j1, jsonToTree(k.j1), k.after, k.j2, k.j3))
				c14stats["json-earlier-result-altered"]++
				k.copy1 = []byte(k.j1)
			}
		}
	}()
	before := topoSx(t)
	j1 := t.ToJSON()
	keep := &c14kept{before: before, j1: j1, copy1: []byte(j1)}
	defer func() {
		c14prev = append(c14prev, keep)
		if len(c14prev) > 3 {
			c14prev = c14prev[1:]
		}
	}()
	var t2 topology.Topology
	json.Unmarshal([]byte(j1), &t2)
	after := topoSx(&t2)
	j2 := t2.ToJSON()
	var t3 topology.Topology
	json.Unmarshal([]byte(j2), &t3)
	j3 := t3.ToJSON()
	if s := t3.JSONstring(); s != j3 {
		j3 = "JSONstring() differs from ToJSON(): " + s
	}
	keep.after, keep.j2, keep.j3 = after, string(append([]byte{}, j2...)), string(append([]byte{}, j3...))
	emit(L(Sym("json"), before, string(keep.copy1), jsonToTree(string(keep.copy1)), after, j2, j3))
	c14stats["json"]++
}

func caseParse(t *topology.Topology) {
	before := topoSx(t)
	var hs, es []Sx
	func() {
		defer func() {
			if e := recover(); e != nil {
				hs = []Sx{Sym("panic")}
			}
		}()
		p := helpers.ParseTopology(t.ToJSON())
		for _, h := range p.HWc {
			hs = append(hs, Sx(L(h.Id, h.X, h.Y, h.Txt, h.Type)))
		}
		keys := []string{}
		byKey := map[string]uint32{}
		for k := range p.TypeIndex {
			ks := strconv.FormatUint(uint64(k), 10)
			keys = append(keys, ks)
			byKey[ks] = k
		}
		sortStrings(keys)
		for _, ks := range keys {
			d := p.TypeIndex[byKey[ks]]
			es = append(es, Sx(L(byKey[ks], d.W, d.H, d.Out, d.In, d.Desc, d.Subidx, d.Disp.W, d.Disp.H, d.Disp.Subidx, len(d.Sub))))
		}
	}()
	if hs == nil {
		hs = []Sx{}
	}
	if es == nil {
		es = []Sx{}
	}
	emit(L(Sym("parse"), before, L(hs, es)))
	c14stats["parse"]++
}

func sortStrings(a []string) {
	for i := 1; i < len(a); i++ {
		for j := i; j > 0 && a[j] < a[j-1]; j-- {
			a[j], a[j-1] = a[j-1], a[j]
		}
	}
}

// caseBig: RandomizeTypes on a topology with MANY types (collisions, and collisions of the
// redrawn id, only become likely with tens of thousands of types).  Too large for the
// extracted association-list model (quadratic), so the relation is evaluated HERE (trusted
// glue) and only the numbers are emitted:
// (c14big n seq seed types_before types_after components resolved_changed duplicate_new_ids zero_key_after)
func caseBig(n int, seq bool, seed uint64) {
	rng := NewRng(seed)
	t := &topology.Topology{Title: "big", TypeIndex: make(map[uint32]topology.TopologyHWcTypeDef, n)}
	keys := make([]uint32, 0, n)
	for len(keys) < n {
		k := uint32(1 + rng.Intn(8*n+1000))
		if _, ok := t.TypeIndex[k]; ok {
			continue
		}
		i := len(keys)
		d := topology.TopologyHWcTypeDef{W: 1 + i, H: i % 7, Desc: "t" + strconv.Itoa(i), In: poolStr["In"][i%len(poolStr["In"])]}
		if i%5 == 0 {
			d.Disp = &topology.TopologyHWcTypeDef_Display{W: 64 + i%3, H: 32, Subidx: -1}
		}
		t.TypeIndex[k] = d
		keys = append(keys, k)
	}
	ncomp := 300 + rng.Intn(200)
	for j := 0; j < ncomp; j++ {
		h := topology.TopologyHWcomponent{Id: uint32(j + 1), X: j, Y: -j, Txt: "c" + strconv.Itoa(j)}
		if rng.Intn(10) > 0 && n > 0 {
			h.Type = keys[rng.Intn(n)]
		}
		if rng.Intn(4) == 0 {
			h.TypeOverride = &topology.TopologyHWcTypeDef{W: rng.Intn(3) * 50, Out: []string{"", "rgb"}[rng.Intn(2)], Subidx: rng.Intn(3) - 1}
		}
		t.HWc = append(t.HWc, h)
	}
	fp := func(h *topology.TopologyHWcomponent) string {
		d := t.GetTypeDefWithOverride(h)
		var b strings.Builder
		sx(&b, tdSx(&d))
		return b.String()
	}
	stripped := func(h topology.TopologyHWcomponent) string {
		h.Type = 0
		var b strings.Builder
		sx(&b, toSx(reflect.ValueOf(&h).Elem()))
		return b.String()
	}
	before := make([]string, ncomp)
	beforeStrip := make([]string, ncomp)
	oldType := make([]uint32, ncomp)
	for j := range t.HWc {
		before[j] = fp(&t.HWc[j])
		beforeStrip[j] = stripped(t.HWc[j])
		oldType[j] = t.HWc[j].Type
	}
	typesBefore := len(t.TypeIndex)
	panicked := false
	func() {
		defer func() {
			if e := recover(); e != nil {
				panicked = true
			}
		}()
		t.RandomizeTypes(seq)
	}()
	changed, dup := 0, 0
	if panicked || len(t.HWc) != ncomp {
		changed = ncomp
	} else {
		newOf := map[uint32]uint32{} // new id -> old id, over the types the components use
		for j := range t.HWc {
			if fp(&t.HWc[j]) != before[j] || stripped(t.HWc[j]) != beforeStrip[j] {
				changed++
			}
			if oldType[j] != 0 {
				if o, ok := newOf[t.HWc[j].Type]; ok && o != oldType[j] {
					dup++
				}
				newOf[t.HWc[j].Type] = oldType[j]
			}
		}
	}
	_, zero := t.TypeIndex[0]
	if seq { // ids must be exactly 1..n: count the ones outside
		for k := range t.TypeIndex {
			if k < 1 || int(k) > typesBefore {
				dup++
			}
		}
	}
	emit(L(Sym("c14big"), n, seq, seed, typesBefore, len(t.TypeIndex), ncomp, changed, dup, zero))
	c14stats["big"]++
}

func replayC14(line string) {
	silenceStdout()
	n := parseSexp(line)
	if n == nil || !n.IsList || len(n.Kids) < 2 {
		return
	}
	t := &topology.Topology{}
	switch n.Kids[0].Atom {
	case "c14big":
		if len(n.Kids) >= 4 {
			caseBig(int(atoi64(n.Kids[1].Atom)), n.Kids[2].Atom != "0", uint64(atoi64(n.Kids[3].Atom)))
		}
		return
	}
	switch n.Kids[0].Atom {
	case "clean":
		fromSx(n.Kids[1], reflect.ValueOf(t).Elem())
		caseClean(t)
	case "cleanq":
		fromSx(n.Kids[1], reflect.ValueOf(t).Elem())
		caseCleanQ(t)
	case "rand":
		fromSx(n.Kids[2], reflect.ValueOf(t).Elem())
		caseRand(t, n.Kids[1].Atom != "0")
	case "json":
		fromSx(n.Kids[1], reflect.ValueOf(t).Elem())
		caseJSON(t)
	case "parse":
		fromSx(n.Kids[1], reflect.ValueOf(t).Elem())
		caseParse(t)
	}
}

// a topology whose component types are all indexed or 0 (the quantifier of C14)
func closedTopology(rng *Rng, nkeys, ncomp int, o *fillOpt, dupDefs bool) *topology.Topology {
	t := &topology.Topology{Title: o.pickStr("Title"), TypeIndex: map[uint32]topology.TopologyHWcTypeDef{}}
	keyPools := [][]uint64{{1, 2, 3, 4, 5, 6, 7, 8, 9, 10, 11, 12, 13, 14, 15, 16}, {5, 17, 250, 999, 123456, 999999, 1000000, 4000000000, 4294967295, 2, 1, 77, 78, 79, 80, 81}}
	pool := keyPools[rng.Intn(2)]
	var keys []uint64
	var proto *topology.TopologyHWcTypeDef
	for len(t.TypeIndex) < nkeys {
		var k uint64
		if nkeys > len(pool) {
			k = uint64(1 + rng.Intn(5*nkeys))
		} else {
			k = pool[rng.Intn(len(pool))]
		}
		if _, ok := t.TypeIndex[uint32(k)]; ok {
			continue
		}
		d := topology.TopologyHWcTypeDef{}
		if dupDefs && proto != nil && rng.Intn(2) == 0 {
			d = *cloneTypeDef(proto)
		} else {
			fillValue(reflect.ValueOf(&d).Elem(), "", o, 1)
			proto = &d
		}
		t.TypeIndex[uint32(k)] = d
		keys = append(keys, k)
	}
	o.typeKeys = keys
	for j := 0; j < ncomp; j++ {
		h := topology.TopologyHWcomponent{}
		fillValue(reflect.ValueOf(&h).Elem(), "", o, 1)
		h.Id = uint32(j + 1)
		if rng.Intn(8) == 0 {
			h.Id = uint32(1 + rng.Intn(ncomp))
		}
		if len(keys) == 0 || rng.Intn(6) == 0 {
			h.Type = 0
		} else {
			h.Type = uint32(keys[rng.Intn(len(keys))])
		}
		t.HWc = append(t.HWc, h)
	}
	return t
}

func genC14(tier string, rng *Rng) {
	silenceStdout()
	thorough := tier == "thorough"
	hist := map[string]int{}
	small := func() *fillOpt {
		return &fillOpt{bigInts: true, rng: rng, tricky: rng.Intn(2) == 0, pPresent: 20 + rng.Intn(40), maxSlice: 2, depthLimit: 4}
	}

	// ---- 1. CleanSections: every subset of marker positions for every list length <= N
	maxN := 9
	if thorough {
		maxN = 12
	}
	for n := 0; n <= maxN; n++ {
		for mask := 0; mask < 1<<uint(n); mask++ {
			o := small()
			o.pPresent = 15
			t := &topology.Topology{Title: "clean", TypeIndex: map[uint32]topology.TopologyHWcTypeDef{250: {Desc: "section"}, 3: {W: 10}}}
			for j := 0; j < n; j++ {
				h := topology.TopologyHWcomponent{}
				fillValue(reflect.ValueOf(&h).Elem(), "", o, 2)
				h.Id = uint32(j + 1)
				if mask&(1<<uint(j)) != 0 {
					h.Type = 250
				} else {
					h.Type = []uint32{0, 3, 249, 251, 25, 2500}[rng.Intn(6)]
				}
				t.HWc = append(t.HWc, h)
			}
			if (mask+n)%3 == 0 {
				caseCleanQ(t)
			} else {
				caseClean(t)
			}
			hist["clean-exhaustive"]++
		}
	}
	// longer lists: none / all / adjacent runs / first / last
	nLong := 150
	if thorough {
		nLong = 3000
	}
	for i := 0; i < nLong; i++ {
		n := 10 + rng.Intn(50)
		o := small()
		o.pPresent = 10
		t := &topology.Topology{}
		if rng.Intn(2) == 0 {
			t.TypeIndex = map[uint32]topology.TopologyHWcTypeDef{1: {W: 5}}
		}
		shape := rng.Intn(6)
		for j := 0; j < n; j++ {
			h := topology.TopologyHWcomponent{Id: uint32(j + 1), X: j, Y: -j, Txt: "c" + strconv.Itoa(j), Type: uint32(1 + rng.Intn(3))}
			if rng.Intn(4) == 0 {
				fillValue(reflect.ValueOf(&h).Elem(), "", o, 2)
				h.Type = 1
			}
			mark := false
			switch shape {
			case 0: // none
			case 1:
				mark = true
			case 2:
				mark = j == 0 || j == n-1
			case 3:
				mark = (j/3)%2 == 0
			case 4:
				mark = rng.Intn(2) == 0
			case 5:
				mark = j >= n-3
			}
			if mark {
				h.Type = 250
			}
			t.HWc = append(t.HWc, h)
		}
		if shape%2 == 0 {
			caseCleanQ(t)
		} else {
			caseClean(t)
		}
		hist["clean-long-shape-"+strconv.Itoa(shape)]++
	}

	// ---- 2. RandomizeTypes: closed topologies, both modes, repeated
	nRand := 1200
	if thorough {
		nRand = 20000
	}
	for i := 0; i < nRand; i++ {
		nkeys := rng.Intn(9)
		if rng.Intn(10) == 0 {
			nkeys = 20 + rng.Intn(40)
		}
		if thorough && rng.Intn(200) == 0 {
			nkeys = 400
		}
		o := small()
		t := closedTopology(rng, nkeys, rng.Intn(10), o, rng.Intn(3) == 0)
		seq := rng.Intn(2) == 0
		caseRand(t, seq)
		if rng.Intn(3) == 0 { // renumber the renumbered topology again (other mode)
			caseRand(t, !seq)
		}
		hist["rand-nkeys-"+strconv.Itoa(min(nkeys, 20))]++
	}

	// ---- 2b. many types: collisions (and collisions of the redrawn id) become likely
	bigs := []int{30000, 40000}
	if thorough {
		bigs = append(bigs, 200000, 35000)
	}
	for _, n := range bigs {
		caseBig(n, false, rng.U64()>>1)
		hist["rand-big-"+strconv.Itoa(n)]++
	}
	caseBig(20000, true, rng.U64()>>1)

	// ---- 3. JSON round trips and the legacy parser
	nJSON := 2500
	if thorough {
		nJSON = 40000
	}
	for i := 0; i < nJSON; i++ {
		o := &fillOpt{bigInts: true, rng: rng, tricky: rng.Intn(2) == 0, pPresent: 20 + rng.Intn(70), maxSlice: 3, depthLimit: 5}
		var t *topology.Topology
		switch rng.Intn(4) {
		case 0: // the fully generic filler: every field by kind
			t = &topology.Topology{}
			fillValue(reflect.ValueOf(t).Elem(), "", o, 0)
		default:
			t = closedTopology(rng, rng.Intn(6), rng.Intn(8), o, false)
			if rng.Intn(8) == 0 {
				t.TypeIndex = nil
			}
			if rng.Intn(8) == 0 {
				t.HWc = []topology.TopologyHWcomponent{}
			}
		}
		caseJSON(t)
		if i%3 == 0 {
			caseParse(t)
		}
	}
	meta(map[string]interface{}{"property": "C14", "cases": c14stats, "shape": hist})
}

func min(a, b int) int {
	if a < b {
		return a
	}
	return b
}
